(* Proofs about Model/Directive.v (C06). *)
From Regal Require Import Base.Str Model.Directive.
From Coq Require Import Lia Permutation.
Local Open Scope N_scope.

(* ================================================================================================ *)
(* decimal rendering: read_N (show_N n) = Some n                                                     *)
(* ================================================================================================ *)

Definition dstep (a c : N) : N := a * 10 + (c - 48).

Lemma read_acc_digits s : forall a,
  forallb is_digit s = true -> read_N_acc s a = Some (fold_left dstep s a).
Proof.
  induction s as [|c s IH]; intros a H; simpl in *; [reflexivity|].
  apply andb_true_iff in H as [Hc Hs]. rewrite Hc. apply IH; exact Hs.
Qed.

Lemma digit_of_mod n : is_digit (48 + n mod 10) = true.
Proof.
  unfold is_digit. assert (Hm : n mod 10 < 10) by (apply N.mod_upper_bound; lia).
  generalize dependent (n mod 10). intros k Hk.
  apply andb_true_iff; split; apply N.leb_le; lia.
Qed.

Lemma show_fuel_digits f : forall n acc,
  forallb is_digit acc = true -> forallb is_digit (show_N_fuel f n acc) = true.
Proof.
  induction f as [|f IH]; intros n acc Hacc; cbn [show_N_fuel]; [exact Hacc|].
  cbv zeta. destruct (n <? 10) eqn:E.
  - cbn [forallb]. rewrite digit_of_mod. exact Hacc.
  - apply IH. cbn [forallb]. rewrite digit_of_mod. exact Hacc.
Qed.

Lemma show_fuel_nonempty f : forall n acc, acc <> [] -> show_N_fuel f n acc <> [].
Proof.
  induction f as [|f IH]; intros n acc Hacc; simpl; [exact Hacc|].
  destruct (n <? 10); [discriminate | apply IH; discriminate].
Qed.

Lemma show_N_nonempty n : show_N n <> [].
Proof.
  unfold show_N. simpl. destruct (n <? 10); [discriminate | apply show_fuel_nonempty; discriminate].
Qed.

(* fuel f suffices when n < 2^f: the digits of n are put in front of acc *)
Lemma show_fuel_val f : forall n,
  (0 < f)%nat -> n < 2 ^ N.of_nat f ->
  exists m, forall acc a, fold_left dstep (show_N_fuel f n acc) a = fold_left dstep acc (a * m + n).
Proof.
  induction f as [|f IH]; intros n Hf Hn; [lia|].
  cbn [show_N_fuel]. destruct (N.ltb_spec n 10) as [Hlt|Hge].
  - exists 10. intros acc a. cbn [fold_left]. unfold dstep at 2.
    rewrite N.mod_small by exact Hlt. f_equal. lia.
  - assert (Hpow : 2 ^ N.of_nat (S f) = 2 * 2 ^ N.of_nat f).
    { rewrite Nat2N.inj_succ, N.pow_succ_r'. reflexivity. }
    assert (Hdiv : n / 10 < 2 ^ N.of_nat f).
    { apply N.div_lt_upper_bound; lia. }
    assert (Hf' : (0 < f)%nat).
    { destruct f; [|lia]. cbn in Hdiv. assert (1 <= n / 10) by (apply N.div_le_lower_bound; lia). lia. }
    destruct (IH (n / 10) Hf' Hdiv) as [m Hm].
    exists (m * 10). intros acc a. rewrite Hm. cbn [fold_left]. unfold dstep at 2. f_equal.
    assert (Hdm : n = 10 * (n / 10) + n mod 10) by (apply N.div_mod; lia).
    generalize dependent (n / 10). intros q Hq1 Hq2. generalize dependent (n mod 10). intros k Hk. nia.
Qed.

Lemma read_show n : read_N (show_N n) = Some n.
Proof.
  unfold read_N. pose proof (show_N_nonempty n) as Hne.
  destruct (show_N n) as [|c s] eqn:E; [contradiction|]. rewrite <- E. clear Hne c s E.
  rewrite read_acc_digits.
  - unfold show_N.
    assert (Hn : n < 2 ^ N.of_nat (S (N.to_nat (N.log2 n)))).
    { rewrite Nat2N.inj_succ, N2Nat.id. destruct n as [|p]; [cbn; lia|].
      destruct (N.log2_spec (N.pos p)) as [_ H]; [lia | exact H]. }
    destruct (show_fuel_val (S (N.to_nat (N.log2 n))) n ltac:(lia) Hn) as [m Hm].
    rewrite Hm. cbn [fold_left]. f_equal; lia.
  - unfold show_N. apply show_fuel_digits. reflexivity.
Qed.

Lemma keys_roundtrip_lemma (m : dirmap) : keys_to_numbers (stringify m) = m.
Proof.
  induction m as [|[k ns] m IH]; [reflexivity|].
  unfold keys_to_numbers, stringify in *. cbn [map flat_map fst snd].
  rewrite read_show. cbn [app]. f_equal. exact IH.
Qed.

(* ================================================================================================ *)
(* trim_space removes only trimmable bytes from both ends                                            *)
(* ================================================================================================ *)

Definition trimmable (b : N) : bool := ascii_space b || (128 <=? b).

Lemma uni2_trimmable c1 c2 : uni2_space c1 c2 = true -> trimmable c1 = true /\ trimmable c2 = true.
Proof.
  unfold uni2_space, trimmable. intros H.
  apply andb_true_iff in H as [H1 H2]. apply N.eqb_eq in H1. subst c1.
  apply orb_true_iff in H2 as [H2|H2]; apply N.eqb_eq in H2; subst c2; split; reflexivity.
Qed.

Lemma uni3_trimmable c1 c2 c3 :
  uni3_space c1 c2 c3 = true -> 128 <= c1 /\ 128 <= c2 /\ 128 <= c3.
Proof.
  unfold uni3_space. intros H.
  repeat (apply orb_true_iff in H as [H|H]);
    repeat (apply andb_true_iff in H as [H ?]);
    repeat match goal with
           | X : (_ =? _) = true |- _ => apply N.eqb_eq in X
           | X : (_ <=? _) = true |- _ => apply N.leb_le in X
           | X : (_ || _) = true |- _ => apply orb_true_iff in X as [X|X]
           | X : (_ && _) = true |- _ => apply andb_true_iff in X as [X ?]
           end; lia.
Qed.

Lemma ge128_trimmable c : 128 <= c -> trimmable c = true.
Proof. intros H. unfold trimmable. apply orb_true_iff; right. apply N.leb_le; exact H. Qed.

Lemma trim_left_split_n n : forall s, (length s <= n)%nat ->
  exists l, s = l ++ trim_left s /\ Forall (fun b => trimmable b = true) l.
Proof.
  induction n as [|n IH]; intros s Hlen.
  - destruct s; [|simpl in Hlen; lia]. exists []. split; [reflexivity | constructor].
  - destruct s as [|c s1]; [exists []; split; [reflexivity | constructor]|].
    cbn [trim_left]. destruct (ascii_space c) eqn:Ec.
    + destruct (IH s1 ltac:(simpl in Hlen; lia)) as [l [Hl Hf]].
      exists (c :: l). split; [simpl; f_equal; exact Hl|].
      constructor; [unfold trimmable; rewrite Ec; reflexivity | exact Hf].
    + destruct s1 as [|c2 s2]; [exists []; split; [reflexivity | constructor]|].
      destruct (uni2_space c c2) eqn:E2.
      * destruct (IH s2 ltac:(simpl in Hlen; lia)) as [l [Hl Hf]].
        apply uni2_trimmable in E2 as [T1 T2].
        exists (c :: c2 :: l). split; [simpl; do 2 f_equal; exact Hl|].
        repeat constructor; assumption.
      * destruct s2 as [|c3 s3]; [exists []; split; [reflexivity | constructor]|].
        destruct (uni3_space c c2 c3) eqn:E3.
        -- destruct (IH s3 ltac:(simpl in Hlen; lia)) as [l [Hl Hf]].
           apply uni3_trimmable in E3 as (T1 & T2 & T3).
           exists (c :: c2 :: c3 :: l). split; [simpl; do 3 f_equal; exact Hl|].
           repeat constructor; try (apply ge128_trimmable; assumption). exact Hf.
        -- exists []. split; [reflexivity | constructor].
Qed.

Lemma trim_left_split s :
  exists l, s = l ++ trim_left s /\ Forall (fun b => trimmable b = true) l.
Proof. apply (trim_left_split_n (length s)). lia. Qed.

Lemma trim_left_rev_split_n n : forall s, (length s <= n)%nat ->
  exists l, s = l ++ trim_left_rev s /\ Forall (fun b => trimmable b = true) l.
Proof.
  induction n as [|n IH]; intros s Hlen.
  - destruct s; [|simpl in Hlen; lia]. exists []. split; [reflexivity | constructor].
  - destruct s as [|c s1]; [exists []; split; [reflexivity | constructor]|].
    cbn [trim_left_rev]. destruct (ascii_space c) eqn:Ec.
    + destruct (IH s1 ltac:(simpl in Hlen; lia)) as [l [Hl Hf]].
      exists (c :: l). split; [simpl; f_equal; exact Hl|].
      constructor; [unfold trimmable; rewrite Ec; reflexivity | exact Hf].
    + destruct s1 as [|c2 s2]; [exists []; split; [reflexivity | constructor]|].
      destruct (uni2_space c2 c) eqn:E2.
      * destruct (IH s2 ltac:(simpl in Hlen; lia)) as [l [Hl Hf]].
        apply uni2_trimmable in E2 as [T1 T2].
        exists (c :: c2 :: l). split; [simpl; do 2 f_equal; exact Hl|].
        repeat constructor; assumption.
      * destruct s2 as [|c3 s3]; [exists []; split; [reflexivity | constructor]|].
        destruct (uni3_space c3 c2 c) eqn:E3.
        -- destruct (IH s3 ltac:(simpl in Hlen; lia)) as [l [Hl Hf]].
           apply uni3_trimmable in E3 as (T1 & T2 & T3).
           exists (c :: c2 :: c3 :: l). split; [simpl; do 3 f_equal; exact Hl|].
           repeat constructor; try (apply ge128_trimmable; assumption). exact Hf.
        -- exists []. split; [reflexivity | constructor].
Qed.

Lemma trim_right_split s :
  exists t, s = trim_right s ++ t /\ Forall (fun b => trimmable b = true) t.
Proof.
  destruct (trim_left_rev_split_n (length (rev s)) (rev s) ltac:(lia)) as [l [Hl Hf]].
  exists (rev l). split.
  - unfold trim_right. rewrite <- rev_app_distr, <- Hl, rev_involutive. reflexivity.
  - apply Forall_rev. exact Hf.
Qed.

(* trimming stops at a byte that is not trimmable *)
Lemma trim_left_stop c s : trimmable c = false -> trim_left (c :: s) = c :: s.
Proof.
  unfold trimmable. intros H. apply orb_false_iff in H as [Ha Hb]. apply N.leb_gt in Hb.
  cbn [trim_left]. rewrite Ha. destruct s as [|c2 s2]; [reflexivity|].
  assert (E2 : uni2_space c c2 = false).
  { unfold uni2_space. destruct (N.eqb_spec c 194); [lia | reflexivity]. }
  rewrite E2. destruct s2 as [|c3 s3]; [reflexivity|].
  assert (E3 : uni3_space c c2 c3 = false).
  { unfold uni3_space.
    destruct (N.eqb_spec c 225); [lia|]. destruct (N.eqb_spec c 226); [lia|].
    destruct (N.eqb_spec c 227); [lia|]. reflexivity. }
  rewrite E3. reflexivity.
Qed.

Lemma trim_left_rev_stop c s : trimmable c = false -> trim_left_rev (c :: s) = c :: s.
Proof.
  unfold trimmable. intros H. apply orb_false_iff in H as [Ha Hb]. apply N.leb_gt in Hb.
  cbn [trim_left_rev]. rewrite Ha. destruct s as [|c2 s2]; [reflexivity|].
  assert (E2 : uni2_space c2 c = false).
  { unfold uni2_space. destruct (N.eqb_spec c 133); [lia|]. destruct (N.eqb_spec c 160); [lia|].
    cbn. apply andb_false_r. }
  rewrite E2. destruct s2 as [|c3 s3]; [reflexivity|].
  assert (E3 : uni3_space c3 c2 c = false).
  { unfold uni3_space.
    destruct (N.eqb_spec c 128); [lia|]. destruct (N.eqb_spec c 159); [lia|].
    destruct (N.eqb_spec c 168); [lia|]. destruct (N.eqb_spec c 169); [lia|].
    destruct (N.eqb_spec c 175); [lia|].
    destruct (N.leb_spec 128 c); [lia|].
    cbn. repeat rewrite andb_false_r. reflexivity. }
  rewrite E3. reflexivity.
Qed.

Lemma trim_right_stop s c : trimmable c = false -> trim_right (s ++ [c]) = s ++ [c].
Proof.
  intros H. unfold trim_right. rewrite rev_app_distr. cbn [rev app].
  rewrite trim_left_rev_stop by exact H.
  change (c :: rev s) with ([c] ++ rev s). rewrite rev_app_distr, rev_involutive. reflexivity.
Qed.

(* a prefix made of P-bytes cannot reach past a byte that is not P *)
Lemma prefix_stops {P : N -> bool} l rest x c y :
  l ++ rest = x ++ c :: y -> Forall (fun b => P b = true) l -> P c = false ->
  exists x', x = l ++ x'.
Proof.
  revert x. induction l as [|a l IH]; intros x Heq Hf Hc.
  - exists x. reflexivity.
  - inversion Hf as [|? ? Ha Hl]; subst. destruct x as [|b x].
    + cbn in Heq. injection Heq as -> _. congruence.
    + cbn in Heq. injection Heq as -> Heq. destruct (IH x Heq Hl Hc) as [x' ->].
      exists x'. reflexivity.
Qed.

Lemma suffix_stops {P : N -> bool} t rest x c y :
  rest ++ t = x ++ c :: y -> Forall (fun b => P b = true) t -> P c = false ->
  exists y', y = y' ++ t.
Proof.
  intros Heq Hf Hc.
  assert (Hrev : rev t ++ rev rest = rev y ++ c :: rev x).
  { rewrite <- rev_app_distr, Heq, rev_app_distr. cbn [rev]. rewrite <- app_assoc. reflexivity. }
  destruct (prefix_stops (P:=P) _ _ _ _ _ Hrev (Forall_rev Hf) Hc) as [y' Hy'].
  exists (rev y'). rewrite <- (rev_involutive y), Hy', rev_app_distr, rev_involutive. reflexivity.
Qed.

(* ================================================================================================ *)
(* the marker                                                                                        *)
(* ================================================================================================ *)

Lemma marker_no_colon_before k rest : (k < 12)%nat -> nth_error (MARKER ++ rest) k <> Some COLON.
Proof.
  intros Hk. do 12 (destruct k as [|k]; [cbn; discriminate|]). lia.
Qed.

Lemma nth_marker_colon t : nth_error (MARKER ++ t) 12 = Some COLON.
Proof. reflexivity. Qed.

Lemma after_marker_first p : forall rest,
  ~ In COLON p -> after_marker (p ++ MARKER ++ rest) = Some rest.
Proof.
  induction p as [|c p IH]; intros rest Hp.
  - cbn [app]. destruct rest; cbn; reflexivity.
  - assert (Hnone : drop_prefix ((c :: p) ++ MARKER ++ rest) MARKER = None).
    { destruct (drop_prefix ((c :: p) ++ MARKER ++ rest) MARKER) as [t|] eqn:E; [|reflexivity].
      exfalso. apply drop_prefix_spec in E.
      pose proof (nth_marker_colon t) as H12. rewrite <- E in H12.
      destruct (Nat.ltb_spec 12 (length (c :: p))) as [Hlt|Hge].
      - rewrite nth_error_app1 in H12 by exact Hlt. apply nth_error_In in H12. contradiction.
      - rewrite nth_error_app2 in H12 by exact Hge.
        apply (marker_no_colon_before (12 - length (c :: p)) rest); [cbn [length]; lia | exact H12]. }
    change (after_marker ((c :: p) ++ MARKER ++ rest))
      with (match drop_prefix ((c :: p) ++ MARKER ++ rest) MARKER with
            | Some r => Some r
            | None => after_marker (p ++ MARKER ++ rest)
            end).
    rewrite Hnone. apply IH. intros H; apply Hp; right; exact H.
Qed.

Lemma after_marker_some s : forall rest,
  after_marker s = Some rest -> exists p, s = p ++ MARKER ++ rest.
Proof.
  induction s as [|c s IH]; intros rest H.
  - cbn in H. discriminate.
  - change (after_marker (c :: s))
      with (match drop_prefix (c :: s) MARKER with
            | Some r => Some r
            | None => after_marker s
            end) in H.
    destruct (drop_prefix (c :: s) MARKER) as [t|] eqn:E.
    + injection H as <-. apply drop_prefix_spec in E. exists []. exact E.
    + destruct (IH rest H) as [p ->]. exists (c :: p). reflexivity.
Qed.

Lemma after_marker_none s :
  after_marker s = None -> forall p rest, s <> p ++ MARKER ++ rest.
Proof.
  induction s as [|c s IH]; intros H p rest Heq.
  - destruct p; cbn in Heq; discriminate.
  - change (after_marker (c :: s))
      with (match drop_prefix (c :: s) MARKER with
            | Some r => Some r
            | None => after_marker s
            end) in H.
    destruct (drop_prefix (c :: s) MARKER) as [t|] eqn:E; [discriminate|].
    destruct p as [|a p].
    + cbn [app] in Heq. assert (E' : drop_prefix (c :: s) MARKER = Some rest).
      { apply drop_prefix_spec. exact Heq. }
      congruence.
    + cbn [app] in Heq. injection Heq as -> Heq. exact (IH H p rest Heq).
Qed.

(* ================================================================================================ *)
(* names: comma list, any whitespace                                                                 *)
(* ================================================================================================ *)

(* a byte of a rule name: printable ASCII other than the comma *)
Definition name_byte (c : N) : bool := (33 <=? c) && (c <=? 126) && negb (c =? COMMA).
Definition name_ok (n : str) : Prop := Forall (fun c => name_byte c = true) n.
Definition ws_ok (w : str) : Prop := Forall (fun c => re_space c = true) w.

(* one item of the list: the name with any `\s` whitespace around it *)
Definition spells (seg n : str) : Prop :=
  exists l r, seg = l ++ n ++ r /\ ws_ok l /\ ws_ok r /\ name_ok n.

Lemma name_byte_not_space c : name_byte c = true -> re_space c = false.
Proof.
  unfold name_byte, re_space. intros H.
  apply andb_true_iff in H as [H _]. apply andb_true_iff in H as [H1 H2].
  apply N.leb_le in H1.
  repeat (apply orb_false_iff; split); apply N.eqb_neq; lia.
Qed.

Lemma name_byte_not_trimmable c : name_byte c = true -> trimmable c = false.
Proof.
  unfold name_byte, trimmable, ascii_space. intros H.
  apply andb_true_iff in H as [H _]. apply andb_true_iff in H as [H1 H2].
  apply N.leb_le in H1. apply N.leb_le in H2.
  apply orb_false_iff; split; [apply orb_false_iff; split|].
  - apply andb_false_iff. right. apply N.leb_gt. lia.
  - apply N.eqb_neq. lia.
  - apply N.leb_gt. lia.
Qed.

Lemma name_byte_not_comma c : name_byte c = true -> c <> COMMA.
Proof.
  unfold name_byte. intros H. apply andb_true_iff in H as [_ H].
  apply negb_true_iff, N.eqb_neq in H. exact H.
Qed.

Lemma strip_ws_app a b : strip_ws (a ++ b) = strip_ws a ++ strip_ws b.
Proof. apply filter_app. Qed.

Lemma strip_ws_all_space w : ws_ok w -> strip_ws w = [].
Proof.
  induction 1 as [|c w Hc _ IH]; [reflexivity|]. cbn. rewrite Hc. cbn. exact IH.
Qed.

Lemma strip_ws_name n : name_ok n -> strip_ws n = n.
Proof.
  induction 1 as [|c n Hc _ IH]; [reflexivity|].
  cbn. rewrite (name_byte_not_space c Hc). cbn. f_equal. exact IH.
Qed.

Lemma strip_ws_spells seg n : spells seg n -> strip_ws seg = n.
Proof.
  intros (l & r & -> & Hl & Hr & Hn).
  rewrite !strip_ws_app, (strip_ws_all_space l Hl), (strip_ws_all_space r Hr), (strip_ws_name n Hn).
  cbn. apply app_nil_r.
Qed.

Lemma strip_ws_join segs ns :
  Forall2 spells segs ns -> strip_ws (join [COMMA] segs) = join [COMMA] ns.
Proof.
  induction 1 as [|seg n segs ns Hs Hrest IH]; [reflexivity|].
  destruct Hrest as [|seg' n' segs' ns' Hs' Hrest'].
  - cbn [join]. apply strip_ws_spells; exact Hs.
  - rewrite !join_cons2, !strip_ws_app, IH, (strip_ws_spells _ _ Hs). reflexivity.
Qed.

Lemma split_on_no_sep_id c s : ~ In c s -> split_on c s = [s].
Proof.
  induction s as [|x s IH]; intros H; [reflexivity|].
  cbn [split_on]. destruct (N.eqb_spec x c) as [->|Hne]; [exfalso; apply H; left; reflexivity|].
  rewrite IH by (intros Hin; apply H; right; exact Hin). reflexivity.
Qed.

Lemma split_on_app_sep c a b : ~ In c a -> split_on c (a ++ c :: b) = a :: split_on c b.
Proof.
  induction a as [|x a IH]; intros H.
  - cbn [app split_on]. rewrite N.eqb_refl. reflexivity.
  - cbn [app split_on]. destruct (N.eqb_spec x c) as [->|Hne]; [exfalso; apply H; left; reflexivity|].
    rewrite IH by (intros Hin; apply H; right; exact Hin). reflexivity.
Qed.

Lemma split_join c ns :
  ns <> [] -> Forall (fun n => ~ In c n) ns -> split_on c (join [c] ns) = ns.
Proof.
  induction ns as [|n ns IH]; intros Hne Hf; [contradiction|].
  inversion Hf as [|? ? Hn Hns]; subst. destruct ns as [|n' ns'].
  - cbn [join]. apply split_on_no_sep_id; exact Hn.
  - rewrite join_cons2. cbn [app]. rewrite split_on_app_sep by exact Hn.
    f_equal. apply IH; [discriminate | exact Hns].
Qed.

Lemma name_ok_no_comma n : name_ok n -> ~ In COMMA n.
Proof.
  intros H Hin. unfold name_ok in H. rewrite Forall_forall in H.
  apply (name_byte_not_comma COMMA (H _ Hin)). reflexivity.
Qed.

Lemma spells_name_ok seg n : spells seg n -> name_ok n.
Proof. intros (l & r & _ & _ & _ & Hn). exact Hn. Qed.

Lemma forall2_names_ok segs ns : Forall2 spells segs ns -> Forall name_ok ns.
Proof. induction 1; constructor; eauto using spells_name_ok. Qed.

(* every byte of a spelled list is a name byte, a comma or `\s` whitespace; none is trimmable
   except the whitespace *)
Definition body_byte (c : N) : bool := name_byte c || (c =? COMMA) || re_space c.

Lemma spells_body_bytes seg n : spells seg n -> Forall (fun c => body_byte c = true) seg.
Proof.
  intros (l & r & -> & Hl & Hr & Hn). unfold body_byte.
  apply Forall_app; split; [|apply Forall_app; split].
  - eapply Forall_impl; [|exact Hl]. cbn. intros c ->. apply orb_true_r.
  - eapply Forall_impl; [|exact Hn]. cbn. intros c ->. reflexivity.
  - eapply Forall_impl; [|exact Hr]. cbn. intros c ->. apply orb_true_r.
Qed.

Lemma join_body_bytes segs ns :
  Forall2 spells segs ns -> Forall (fun c => body_byte c = true) (join [COMMA] segs).
Proof.
  induction 1 as [|seg n segs ns Hs Hrest IH]; [constructor|].
  destruct Hrest as [|seg' n' segs' ns' Hs' Hrest'].
  - cbn [join]. eapply spells_body_bytes; exact Hs.
  - rewrite join_cons2. apply Forall_app; split; [eapply spells_body_bytes; exact Hs|].
    cbn [app]. constructor; [reflexivity | exact IH].
Qed.

Lemma body_trimmable_is_space c : body_byte c = true -> trimmable c = true -> re_space c = true.
Proof.
  unfold body_byte. intros Hb Ht.
  apply orb_true_iff in Hb as [Hb|Hb]; [apply orb_true_iff in Hb as [Hb|Hb]|].
  - rewrite (name_byte_not_trimmable c Hb) in Ht. discriminate.
  - apply N.eqb_eq in Hb. subst c. cbn in Ht. discriminate.
  - exact Hb.
Qed.

Lemma colon_not_trimmable : trimmable COLON = false.
Proof. reflexivity. Qed.

(* The names of a directive comment: whatever precedes the marker (no ':' in it), the marker, then a
   comma-separated list in which every item is a name with arbitrary `\s` whitespace around it.
   The result is exactly the list of names. *)
Lemma names_spelled_lemma p segs ns :
  ~ In COLON p -> segs <> [] -> Forall2 spells segs ns ->
  directive_names (p ++ MARKER ++ join [COMMA] segs) = Some ns.
Proof.
  intros Hp Hne Hsp. unfold directive_names, trim_space.
  set (body := join [COMMA] segs).
  (* left trim: a prefix of p *)
  destruct (trim_left_split (p ++ MARKER ++ body)) as [l [Hl Hlf]].
  assert (Hl' : exists p', p = l ++ p').
  { eapply (prefix_stops (P:=trimmable) l _ p 114 (tl MARKER ++ body)); [|exact Hlf | reflexivity].
    symmetry. exact Hl. }
  destruct Hl' as [p' ->].
  rewrite <- app_assoc in Hl. apply app_inv_head in Hl.
  rewrite <- app_assoc. rewrite <- Hl. clear Hl.
  assert (Hp' : ~ In COLON p') by (intros H; apply Hp; apply in_or_app; right; exact H).
  (* right trim: a suffix of body made of whitespace *)
  destruct (trim_right_split (p' ++ MARKER ++ body)) as [t [Ht Htf]].
  assert (Ht' : exists body', body = body' ++ t).
  { assert (Heq : trim_right (p' ++ MARKER ++ body) ++ t = (p' ++ firstn 12 MARKER) ++ COLON :: body).
    { rewrite <- Ht, <- app_assoc. reflexivity. }
    eapply (suffix_stops (P:=trimmable) t _ _ COLON body); [exact Heq | exact Htf | reflexivity]. }
  destruct Ht' as [body' Hbody].
  assert (Htr : trim_right (p' ++ MARKER ++ body) = p' ++ MARKER ++ body').
  { apply (app_inv_tail t). rewrite <- Ht, Hbody, <- !app_assoc. reflexivity. }
  rewrite Htr, after_marker_first by exact Hp'.
  f_equal.
  assert (Hstrip : strip_ws body' = strip_ws body).
  { rewrite Hbody, strip_ws_app.
    assert (Hts : ws_ok t).
    { pose proof (join_body_bytes segs ns Hsp) as Hb. fold body in Hb. rewrite Hbody in Hb.
      apply Forall_app in Hb as [_ Hb]. unfold ws_ok.
      rewrite Forall_forall in *. intros c Hc.
      apply body_trimmable_is_space; [apply Hb | apply Htf]; exact Hc. }
    rewrite (strip_ws_all_space t Hts), app_nil_r. reflexivity. }
  rewrite Hstrip. unfold body. rewrite (strip_ws_join segs ns Hsp).
  apply split_join.
  - intros ->. inversion Hsp; subst. contradiction.
  - eapply Forall_impl; [|exact (forall2_names_ok _ _ Hsp)]. intros n Hn. apply name_ok_no_comma; exact Hn.
Qed.

(* a comment whose text does not contain the marker is not a directive *)
Lemma not_a_directive text :
  (forall p rest, text <> p ++ MARKER ++ rest) -> directive_names text = None.
Proof.
  intros H. unfold directive_names.
  destruct (after_marker (trim_space text)) as [rest|] eqn:E; [|reflexivity].
  exfalso. apply after_marker_some in E as [p Hp].
  unfold trim_space in Hp.
  destruct (trim_left_split text) as [l [Hl _]].
  destruct (trim_right_split (trim_left text)) as [t [Ht _]].
  apply (H (l ++ p) (rest ++ t)). rewrite Hl at 1. rewrite Ht at 1. rewrite Hp.
  rewrite <- !app_assoc. reflexivity.
Qed.

(* ================================================================================================ *)
(* _ignored: exactly the directives on the same row or the row above                                 *)
(* ================================================================================================ *)

Lemma names_eqb_eq a b : names_eqb a b = true <-> a = b.
Proof.
  revert b; induction a as [|x a IH]; intros [|y b]; cbn; try (split; congruence).
  rewrite andb_true_iff, IH, str_eqb_eq. split; [intros [-> ->]; reflexivity | intros [= -> ->]; auto].
Qed.

Lemma dm_get_in m row ns : dm_get m row = Some ns -> In (row, ns) m.
Proof.
  induction m as [|[k v] m IH]; cbn; [discriminate|].
  destruct (N.eqb_spec k row) as [->|Hne].
  - intros [= ->]. left; reflexivity.
  - intros H. right. apply IH; exact H.
Qed.

Lemma dir_conflict_false m :
  dir_conflict m = false -> forall k a b, In (k, a) m -> In (k, b) m -> a = b.
Proof.
  induction m as [|[k0 v0] m IH]; intros H k a b Ha Hb; [destruct Ha|].
  cbn in H. apply orb_false_iff in H as [Hex Hrest].
  assert (Hhead : forall c, In (k0, c) m -> c = v0).
  { intros c Hc. destruct (names_eqb c v0) eqn:E; [apply names_eqb_eq; exact E|].
    exfalso. assert (Ht : existsb (fun kv => (fst kv =? k0) && negb (names_eqb (snd kv) v0)) m = true).
    { apply existsb_exists. exists (k0, c). split; [exact Hc|]. cbn. rewrite N.eqb_refl, E. reflexivity. }
    congruence. }
  destruct Ha as [Ha|Ha], Hb as [Hb|Hb].
  - congruence.
  - injection Ha as -> ->. symmetry. apply Hhead; exact Hb.
  - injection Hb as -> ->. apply Hhead; exact Ha.
  - eapply IH; eauto.
Qed.

Lemma dm_get_of_in m row ns :
  dir_conflict m = false -> In (row, ns) m -> dm_get m row = Some ns.
Proof.
  intros Hc Hin. induction m as [|[k v] m IH]; [destruct Hin|].
  cbn. destruct (N.eqb_spec k row) as [->|Hne].
  - f_equal. eapply dir_conflict_false; [exact Hc | left; reflexivity | exact Hin].
  - destruct Hin as [Hin|Hin]; [congruence|]. apply IH; [|exact Hin].
    cbn in Hc. apply orb_false_iff in Hc as [_ Hc]. exact Hc.
Qed.

Lemma in_directive_entries cs row ns :
  In (row, ns) (directive_entries cs) <->
  exists c, In c cs /\ directive_names (c_text c) = Some ns /\ row = c_row c + 1.
Proof.
  unfold directive_entries. rewrite in_flat_map. split.
  - intros (c & Hc & Hin). destruct (directive_names (c_text c)) as [ns'|] eqn:E; [|destruct Hin].
    destruct Hin as [[= <- <-]|[]]. exists c. auto.
  - intros (c & Hc & Hn & ->). exists c. split; [exact Hc|]. rewrite Hn. left; reflexivity.
Qed.

Lemma names_at_iff cs m row title :
  ignore_directives cs = DirOk m ->
  (names_at m row title = true <->
   exists c ns, In c cs /\ directive_names (c_text c) = Some ns /\ In title ns /\ c_row c + 1 = row).
Proof.
  unfold ignore_directives. destruct (dir_conflict (directive_entries cs)) eqn:Hc; [discriminate|].
  intros [= <-]. unfold names_at. split.
  - destruct (dm_get (directive_entries cs) row) as [ns|] eqn:E; [|discriminate].
    intros Hin. apply str_in_spec in Hin. apply dm_get_in, in_directive_entries in E.
    destruct E as (c & Hcin & Hn & ->). exists c, ns. auto.
  - intros (c & ns & Hcin & Hn & Hin & <-).
    rewrite (dm_get_of_in _ _ ns Hc).
    + apply str_in_spec; exact Hin.
    + apply in_directive_entries. exists c. auto.
Qed.

(* A violation is ignored iff some comment is a directive naming exactly its title and sits on the
   violation's row or on the row directly above.  (A violation without a location is never ignored.) *)
Lemma ignored_iff_lemma cs m v :
  ignore_directives cs = DirOk m ->
  (ignored v m = true <->
   exists c ns r, In c cs /\ directive_names (c_text c) = Some ns /\ In (v_title v) ns /\
                  v_row v = Some r /\ (c_row c = r \/ c_row c + 1 = r)).
Proof.
  intros Hm. unfold ignored. destruct (v_row v) as [r|].
  - rewrite orb_true_iff, (names_at_iff cs m r _ Hm), (names_at_iff cs m (r + 1) _ Hm). split.
    + intros [(c & ns & H1 & H2 & H3 & H4)|(c & ns & H1 & H2 & H3 & H4)].
      * exists c, ns, r. repeat split; auto.
      * exists c, ns, r. repeat split; auto. left. lia.
    + intros (c & ns & r' & H1 & H2 & H3 & [= <-] & [H4|H4]).
      * right. exists c, ns. repeat split; auto. lia.
      * left. exists c, ns. repeat split; auto.
  - split; [discriminate|]. intros (c & ns & r & _ & _ & _ & H & _). discriminate.
Qed.

(* the parser yields at most one comment per row: then there is no conflict *)
Lemma directive_entries_keys cs :
  map fst (directive_entries cs) =
  map (fun c => c_row c + 1) (filter (fun c => match directive_names (c_text c) with Some _ => true | None => false end) cs).
Proof.
  induction cs as [|c cs IH]; [reflexivity|].
  unfold directive_entries in *. cbn [flat_map filter].
  destruct (directive_names (c_text c)); cbn [map app fst]; [f_equal|]; exact IH.
Qed.

Lemma nodup_keys_no_conflict (m : dirmap) : NoDup (map fst m) -> dir_conflict m = false.
Proof.
  induction m as [|[k v] m IH]; intros H; [reflexivity|].
  cbn [map fst] in H. inversion H as [|? ? Hnotin Hnd]; subst.
  cbn. apply orb_false_iff; split; [|apply IH; exact Hnd].
  apply not_true_is_false. intros Hex. apply existsb_exists in Hex as ([k' v'] & Hin & Hp).
  cbn in Hp. apply andb_true_iff in Hp as [Hk _]. apply N.eqb_eq in Hk. subst k'.
  apply Hnotin. apply (in_map fst) in Hin. exact Hin.
Qed.

Lemma NoDup_filter {A} (f : A -> bool) l : NoDup l -> NoDup (filter f l).
Proof.
  induction 1 as [|x l Hx Hnd IH]; cbn; [constructor|].
  destruct (f x); [|exact IH]. constructor; [|exact IH].
  intros Hin. apply filter_In in Hin as [Hin _]. contradiction.
Qed.

Lemma NoDup_map_filter {A B} (g : A -> B) (f : A -> bool) l : NoDup (map g l) -> NoDup (map g (filter f l)).
Proof.
  induction l as [|x l IH]; cbn; intros H; [constructor|].
  inversion H as [|? ? Hx Hnd]; subst. destruct (f x); [|apply IH; exact Hnd].
  cbn. constructor; [|apply IH; exact Hnd].
  intros Hin. apply Hx. apply in_map_iff in Hin as (y & Hy & Hin). apply filter_In in Hin as [Hin _].
  apply in_map_iff. exists y. auto.
Qed.

Lemma distinct_rows_ok cs :
  NoDup (map c_row cs) -> ignore_directives cs = DirOk (directive_entries cs).
Proof.
  intros H. unfold ignore_directives. rewrite nodup_keys_no_conflict; [reflexivity|].
  rewrite directive_entries_keys.
  rewrite <- (map_map c_row (fun r => r + 1)).
  apply FinFun.Injective_map_NoDup; [intros a b Hab; lia|].
  apply NoDup_map_filter. exact H.
Qed.

(* ================================================================================================ *)
(* the filter: reported = raw minus exactly the ignored ones                                         *)
(* ================================================================================================ *)

Lemma filter_exact_in raw m v :
  In v (report_filter raw m) <-> In v raw /\ ignored v m = false.
Proof.
  unfold report_filter. rewrite filter_In, negb_true_iff. reflexivity.
Qed.

Lemma filter_partition {A} (f : A -> bool) l :
  Permutation l (filter (fun x => negb (f x)) l ++ filter f l).
Proof.
  induction l as [|x l IH]; [constructor|]. cbn. destruct (f x); cbn.
  - apply Permutation_cons_app. exact IH.
  - constructor. exact IH.
Qed.

Lemma filter_exact_perm raw m :
  Permutation raw (report_filter raw m ++ filter (fun v => ignored v m) raw).
Proof. apply filter_partition. Qed.

(* ================================================================================================ *)
(* permutation invariance (the order in which comments are visited is irrelevant)                    *)
(* ================================================================================================ *)

Lemma ignored_perm cs cs' v :
  NoDup (map c_row cs) -> Permutation cs cs' ->
  ignored v (directive_entries cs) = ignored v (directive_entries cs').
Proof.
  intros Hnd Hp.
  assert (Hnd' : NoDup (map c_row cs')).
  { eapply Permutation_NoDup; [apply Permutation_map; exact Hp | exact Hnd]. }
  pose proof (ignored_iff_lemma cs _ v (distinct_rows_ok cs Hnd)) as H1.
  pose proof (ignored_iff_lemma cs' _ v (distinct_rows_ok cs' Hnd')) as H2.
  destruct (ignored v (directive_entries cs)) eqn:E1, (ignored v (directive_entries cs')) eqn:E2; try reflexivity.
  - destruct H1 as [H1 _]. destruct (H1 eq_refl) as (c & ns & r & Hin & Hrest).
    destruct H2 as [_ H2]. symmetry. apply H2. exists c, ns, r. split; [|exact Hrest].
    eapply Permutation_in; eauto.
  - destruct H2 as [H2 _]. destruct (H2 eq_refl) as (c & ns & r & Hin & Hrest).
    destruct H1 as [_ H1]. apply H1. exists c, ns, r. split; [|exact Hrest].
    eapply Permutation_in; [apply Permutation_sym; exact Hp | exact Hin].
Qed.

Lemma report_perm cs cs' raw :
  NoDup (map c_row cs) -> Permutation cs cs' ->
  report_filter raw (directive_entries cs) = report_filter raw (directive_entries cs').
Proof.
  intros Hnd Hp. unfold report_filter. apply filter_ext. intros v.
  rewrite (ignored_perm cs cs' v Hnd Hp). reflexivity.
Qed.

(* ================================================================================================ *)
(* inserting a directive                                                                             *)
(* ================================================================================================ *)

Lemma filter_map_comm {A B} (f : B -> bool) (g : A -> B) l :
  filter f (map g l) = map g (filter (fun x => f (g x)) l).
Proof.
  induction l as [|x l IH]; [reflexivity|]. cbn. destruct (f (g x)); cbn; [f_equal|]; exact IH.
Qed.

Lemma filter_filter {A} (f g : A -> bool) l :
  filter f (filter g l) = filter (fun x => g x && f x) l.
Proof.
  induction l as [|x l IH]; [reflexivity|]. cbn. destruct (g x); cbn; [destruct (f x); [f_equal|]|]; exact IH.
Qed.

Lemma Permutation_filter' {A} (f : A -> bool) l l' :
  Permutation l l' -> Permutation (filter f l) (filter f l').
Proof.
  induction 1 as [| x l l' _ IH | x y l | l l' l'' _ IH1 _ IH2]; cbn.
  - constructor.
  - destruct (f x); [constructor|]; exact IH.
  - destruct (f x), (f y); try apply Permutation_refl. apply perm_swap.
  - eapply Permutation_trans; eauto.
Qed.

Lemma bool_iff (a b : bool) : (a = true <-> b = true) -> a = b.
Proof.
  destruct a, b; intros [H1 H2]; try reflexivity.
  - symmetry. apply H1. reflexivity.
  - apply H2. reflexivity.
Qed.

Lemma shift_row_inj r a b : shift_row r a = shift_row r b -> a = b.
Proof.
  unfold shift_row. destruct (N.leb_spec r a), (N.leb_spec r b); lia.
Qed.

Lemma NoDup_snoc {A} (l : list A) x : NoDup l -> ~ In x l -> NoDup (l ++ [x]).
Proof.
  intros Hl Hx. apply Permutation_NoDup with (l := x :: l).
  - apply Permutation_cons_append.
  - constructor; assumption.
Qed.

Lemma insert_rows_nodup r d cs :
  NoDup (map c_row cs) -> NoDup (map c_row (insert_comment_line r d cs)).
Proof.
  intros H. unfold insert_comment_line. rewrite map_app, map_map. cbn [map c_row].
  apply NoDup_snoc.
  - change (fun x => c_row (shift_comment r x)) with (fun x => shift_row r (c_row x)).
    rewrite <- (map_map c_row (shift_row r)).
    apply FinFun.Injective_map_NoDup; [intros a b; apply shift_row_inj | exact H].
  - intros Hin. apply in_map_iff in Hin as (c & Hc & _). cbn in Hc.
    unfold shift_row in Hc. destruct (N.leb_spec r (c_row c)); lia.
Qed.

Lemma in_insert_comment_line r d cs c' :
  In c' (insert_comment_line r d cs) <->
  (exists c, In c cs /\ c' = shift_comment r c) \/ c' = {| c_row := r; c_text := d |}.
Proof.
  unfold insert_comment_line. rewrite in_app_iff, in_map_iff. cbn. split.
  - intros [(c & <- & Hc)|[<-|[]]]; [left; exists c; auto | right; reflexivity].
  - intros [(c & Hc & ->)| ->]; [left; exists c; auto | right; left; reflexivity].
Qed.

Lemma at_row_spec v r : at_row v r = true <-> v_row v = Some r.
Proof.
  unfold at_row. destruct (v_row v) as [r'|]; [|split; discriminate].
  rewrite N.eqb_eq. split; [intros ->; reflexivity | intros [= ->]; reflexivity].
Qed.

(* Pointwise effect of a new comment line on row r (old rows >= r move down): a violation is ignored
   afterwards iff it was ignored before, or it sat on row r and is named by the new directive --
   provided no directive sat on row r-1 (the new line would separate it from its target). *)
Lemma ignored_after_insert cs r d ns v :
  directive_names d = Some ns -> NoDup (map c_row cs) ->
  (forall c, In c cs -> c_row c + 1 = r -> directive_names (c_text c) = None) ->
  ignored (shift_violation r v) (directive_entries (insert_comment_line r d cs)) =
  ignored v (directive_entries cs) || (at_row v r && str_in (v_title v) ns).
Proof.
  intros Hd Hnd Habove. apply bool_iff.
  rewrite (ignored_iff_lemma _ _ _ (distinct_rows_ok _ (insert_rows_nodup r d cs Hnd))).
  rewrite orb_true_iff, andb_true_iff, at_row_spec, str_in_spec.
  rewrite (ignored_iff_lemma _ _ _ (distinct_rows_ok _ Hnd)).
  cbn [shift_violation v_title v_row]. split.
  - intros (c' & ns' & r' & Hin & Hn & Ht & Hr & Hrow).
    destruct (v_row v) as [r0|] eqn:Er0; [|discriminate]. cbn in Hr. injection Hr as <-.
    apply in_insert_comment_line in Hin as [(c & Hc & ->)| ->].
    + cbn [shift_comment c_row c_text] in *. left. exists c, ns', r0.
      repeat split; auto.
      unfold shift_row in Hrow. destruct (N.leb_spec r (c_row c)), (N.leb_spec r r0); lia.
    + cbn [c_row c_text] in *. right. rewrite Hd in Hn. injection Hn as <-. split; [|exact Ht].
      f_equal. unfold shift_row in Hrow. destruct (N.leb_spec r r0); lia.
  - intros [(c & ns' & r0 & Hin & Hn & Ht & Hr & Hrow)|[Hr Ht]].
    + exists (shift_comment r c), ns', (shift_row r r0). rewrite Hr. cbn [shift_comment c_row c_text option_map].
      split; [apply in_insert_comment_line; left; exists c; auto|].
      repeat split; auto.
      destruct Hrow as [Hrow|Hrow]; [left; congruence|].
      unfold shift_row. destruct (N.leb_spec r (c_row c)), (N.leb_spec r r0); try lia.
      exfalso. assert (Hrc : c_row c + 1 = r) by lia.
      rewrite (Habove c Hin Hrc) in Hn. discriminate.
    + exists {| c_row := r; c_text := d |}, ns, (r + 1). rewrite Hr. cbn [c_row c_text option_map].
      split; [apply in_insert_comment_line; right; reflexivity|].
      repeat split; auto.
      unfold shift_row. rewrite N.leb_refl. reflexivity.
Qed.

(* without the side condition: what exactly happens (a directive on row r-1 stops covering row r) *)
Lemma ignored_after_insert_general cs r d ns v :
  directive_names d = Some ns -> NoDup (map c_row cs) ->
  (ignored (shift_violation r v) (directive_entries (insert_comment_line r d cs)) = true <->
   (exists c ns' r0, In c cs /\ directive_names (c_text c) = Some ns' /\ In (v_title v) ns' /\
                     v_row v = Some r0 /\ (c_row c = r0 \/ (c_row c + 1 = r0 /\ r0 <> r))) \/
   (v_row v = Some r /\ In (v_title v) ns)).
Proof.
  intros Hd Hnd.
  rewrite (ignored_iff_lemma _ _ _ (distinct_rows_ok _ (insert_rows_nodup r d cs Hnd))).
  cbn [shift_violation v_title v_row]. split.
  - intros (c' & ns' & r' & Hin & Hn & Ht & Hr & Hrow).
    destruct (v_row v) as [r0|] eqn:Er0; [|discriminate]. cbn in Hr. injection Hr as <-.
    apply in_insert_comment_line in Hin as [(c & Hc & ->)| ->].
    + cbn [shift_comment c_row c_text] in *. left. exists c, ns', r0.
      repeat split; auto.
      unfold shift_row in Hrow. destruct (N.leb_spec r (c_row c)), (N.leb_spec r r0); lia.
    + cbn [c_row c_text] in *. right. rewrite Hd in Hn. injection Hn as <-. split; [|exact Ht].
      f_equal. unfold shift_row in Hrow. destruct (N.leb_spec r r0); lia.
  - intros [(c & ns' & r0 & Hin & Hn & Ht & Hr & Hrow)|[Hr Ht]].
    + exists (shift_comment r c), ns', (shift_row r r0). rewrite Hr. cbn [shift_comment c_row c_text option_map].
      split; [apply in_insert_comment_line; left; exists c; auto|].
      repeat split; auto.
      unfold shift_row. destruct (N.leb_spec r (c_row c)), (N.leb_spec r r0); lia.
    + exists {| c_row := r; c_text := d |}, ns, (r + 1). rewrite Hr. cbn [c_row c_text option_map].
      split; [apply in_insert_comment_line; right; reflexivity|].
      repeat split; auto.
      unfold shift_row. rewrite N.leb_refl. reflexivity.
Qed.

Lemma insert_above_filter cs vs r d ns :
  directive_names d = Some ns -> NoDup (map c_row cs) ->
  (forall c, In c cs -> c_row c + 1 = r -> directive_names (c_text c) = None) ->
  report_filter (map (shift_violation r) vs) (directive_entries (insert_comment_line r d cs)) =
  map (shift_violation r)
      (filter (fun v => negb (at_row v r && str_in (v_title v) ns)) (report_filter vs (directive_entries cs))).
Proof.
  intros Hd Hnd Habove. unfold report_filter. rewrite filter_map_comm, filter_filter. f_equal.
  apply filter_ext. intros v. rewrite (ignored_after_insert cs r d ns v Hd Hnd Habove).
  rewrite negb_orb. reflexivity.
Qed.

(* a comment appended to the end of row r (which had none): covers rows r and r+1 *)
Lemma append_rows_nodup r d cs :
  NoDup (map c_row cs) -> (forall c, In c cs -> c_row c <> r) ->
  NoDup (map c_row (append_comment r d cs)).
Proof.
  intros H Hr. unfold append_comment. rewrite map_app. cbn [map c_row]. apply NoDup_snoc; [exact H|].
  intros Hin. apply in_map_iff in Hin as (c & Hc & Hin). exact (Hr c Hin Hc).
Qed.

Lemma ignored_after_append cs r d ns v :
  directive_names d = Some ns -> NoDup (map c_row cs) -> (forall c, In c cs -> c_row c <> r) ->
  ignored v (directive_entries (append_comment r d cs)) =
  ignored v (directive_entries cs) || (str_in (v_title v) ns && (at_row v r || at_row v (r + 1))).
Proof.
  intros Hd Hnd Hfree. apply bool_iff.
  rewrite (ignored_iff_lemma _ _ _ (distinct_rows_ok _ (append_rows_nodup r d cs Hnd Hfree))).
  rewrite orb_true_iff, andb_true_iff, orb_true_iff, !at_row_spec, str_in_spec.
  rewrite (ignored_iff_lemma _ _ _ (distinct_rows_ok _ Hnd)).
  unfold append_comment. split.
  - intros (c & ns' & r0 & Hin & Hn & Ht & Hr & Hrow). apply in_app_iff in Hin as [Hin|[<-|[]]].
    + left. exists c, ns', r0. auto.
    + cbn [c_row c_text] in *. right. rewrite Hd in Hn. injection Hn as <-. split; [exact Ht|].
      rewrite Hr. destruct Hrow as [->| <-]; auto.
  - intros [(c & ns' & r0 & Hin & Hrest)|[Ht Hr]].
    + exists c, ns', r0. split; [apply in_app_iff; left; exact Hin | exact Hrest].
    + destruct Hr as [Hr|Hr]; exists {| c_row := r; c_text := d |}, ns;
        [exists r | exists (r + 1)]; (split; [apply in_app_iff; right; left; reflexivity|]);
        cbn [c_row c_text]; repeat split; auto.
Qed.

Lemma append_filter cs vs r d ns :
  directive_names d = Some ns -> NoDup (map c_row cs) -> (forall c, In c cs -> c_row c <> r) ->
  report_filter vs (directive_entries (append_comment r d cs)) =
  filter (fun v => negb (str_in (v_title v) ns && (at_row v r || at_row v (r + 1))))
         (report_filter vs (directive_entries cs)).
Proof.
  intros Hd Hnd Hfree. unfold report_filter. rewrite filter_filter.
  apply filter_ext. intros v. rewrite (ignored_after_append cs r d ns v Hd Hnd Hfree).
  rewrite negb_orb. reflexivity.
Qed.

(* ---- the statement over module texts, with the parser and the rule bodies as oracles ---- *)
Section InsertDirective.
  (* the violations found by the rules before the inline-ignore filter, and the comments of a module *)
  Variable raw : list str -> list violation.
  Variable comments : list str -> list comment.

  Definition report (ls : list str) : list violation :=
    report_filter (raw ls) (directive_entries (comments ls)).

  Variables (ls : list str) (r : N) (indent d : str) (ns : list str).
  Hypothesis H_names : directive_names d = Some ns.
  (* the parser yields at most one comment per row *)
  Hypothesis H_rows : NoDup (map c_row (comments ls)).

  Section Above.
    Let ls' := insert_line r (indent ++ HASH :: d) ls.
    (* row-equivariance of parser + rule bodies for this edit *)
    Hypothesis H_shift : Permutation (raw ls') (map (shift_violation r) (raw ls)).
    Hypothesis H_shift_comments : Permutation (comments ls') (insert_comment_line r d (comments ls)).
    Hypothesis H_no_directive_above :
      forall c, In c (comments ls) -> c_row c + 1 = r -> directive_names (c_text c) = None.

    Lemma insert_above_effect :
      Permutation (report ls')
        (map (shift_violation r)
             (filter (fun v => negb (at_row v r && str_in (v_title v) ns)) (report ls))).
    Proof.
      unfold report.
      rewrite <- (insert_above_filter (comments ls) (raw ls) r d ns H_names H_rows H_no_directive_above).
      assert (Hnd' : NoDup (map c_row (insert_comment_line r d (comments ls))))
        by (apply insert_rows_nodup; exact H_rows).
      rewrite (report_perm _ (comments ls') (map (shift_violation r) (raw ls)) Hnd'
                           (Permutation_sym H_shift_comments)).
      unfold report_filter. apply Permutation_filter'. exact H_shift.
    Qed.

    (* a directive inserted anywhere but directly above a violation's row leaves it reported (moved) *)
    Lemma insert_elsewhere_keeps v :
      In v (report ls) -> v_row v <> Some r -> In (shift_violation r v) (report ls').
    Proof.
      intros Hin Hrow. eapply Permutation_in; [apply Permutation_sym, insert_above_effect|].
      apply in_map. apply filter_In. split; [exact Hin|].
      destruct (at_row v r) eqn:E; [apply at_row_spec in E; contradiction | reflexivity].
    Qed.

    (* a title that is not named stays as well *)
    Lemma insert_unnamed_keeps v :
      In v (report ls) -> ~ In (v_title v) ns -> In (shift_violation r v) (report ls').
    Proof.
      intros Hin Hn. eapply Permutation_in; [apply Permutation_sym, insert_above_effect|].
      apply in_map. apply filter_In. split; [exact Hin|].
      destruct (str_in (v_title v) ns) eqn:E; [apply str_in_spec in E; contradiction|].
      rewrite andb_false_r. reflexivity.
    Qed.

    (* and the named violations on the row below the new line are gone *)
    Lemma insert_above_removes v :
      v_row v = Some r -> In (v_title v) ns -> ~ In (shift_violation r v) (report ls').
    Proof.
      intros Hrow Hn Hin.
      apply (Permutation_in _ insert_above_effect) in Hin.
      apply in_map_iff in Hin as (w & Hw & Hin). apply filter_In in Hin as [_ Hkeep].
      assert (Hwv : w = v).
      { destruct w as [c1 t1 f1 r1 k1], v as [c2 t2 f2 r2 k2]. unfold shift_violation in Hw. cbn in Hw.
        injection Hw as -> -> -> Hr ->. f_equal.
        destruct r1 as [a|], r2 as [b|]; cbn in Hr; try discriminate; try reflexivity.
        injection Hr as Hr. apply shift_row_inj in Hr. congruence. }
      subst w. apply (proj2 (at_row_spec v r)) in Hrow. apply (proj2 (str_in_spec _ _)) in Hn.
      rewrite Hrow, Hn in Hkeep. discriminate.
    Qed.
  End Above.

  Section SameLine.
    Let ls' := append_to_line r (32 :: HASH :: d) ls.
    Hypothesis H_append : Permutation (raw ls') (raw ls).
    Hypothesis H_free : forall c, In c (comments ls) -> c_row c <> r.
    Hypothesis H_append_comments : Permutation (comments ls') (append_comment r d (comments ls)).

    Lemma append_effect :
      Permutation (report ls')
        (filter (fun v => negb (str_in (v_title v) ns && (at_row v r || at_row v (r + 1)))) (report ls)).
    Proof.
      unfold report.
      rewrite <- (append_filter (comments ls) (raw ls) r d ns H_names H_rows H_free).
      assert (Hnd' : NoDup (map c_row (append_comment r d (comments ls))))
        by (apply append_rows_nodup; assumption).
      rewrite (report_perm _ (comments ls') (raw ls) Hnd' (Permutation_sym H_append_comments)).
      unfold report_filter. apply Permutation_filter'. exact H_append.
    Qed.
  End SameLine.
End InsertDirective.

(* ================================================================================================ *)
(* the carry to the aggregate report                                                                 *)
(* ================================================================================================ *)

Lemma gm_get_set_same g f o : gm_get (gm_set g f o) f = Some o.
Proof.
  induction g as [|[f' o'] g IH]; cbn.
  - rewrite str_eqb_refl. reflexivity.
  - destruct (str_eqb f' f) eqn:E; cbn; [rewrite str_eqb_refl; reflexivity|]. rewrite E. exact IH.
Qed.

Lemma gm_get_set_other g f f' o : f <> f' -> gm_get (gm_set g f o) f' = gm_get g f'.
Proof.
  intros Hne. induction g as [|[f0 o0] g IH]; cbn.
  - destruct (str_eqb_spec f f'); [contradiction | reflexivity].
  - destruct (str_eqb_spec f0 f) as [->|Hne0]; cbn.
    + destruct (str_eqb_spec f f'); [contradiction | reflexivity].
    + destruct (str_eqb_spec f0 f'); [reflexivity | exact IH].
Qed.

Lemma carry_from_get_notin rs : forall g f,
  ~ In f (map fst rs) -> gm_get (carry_from g rs) f = gm_get g f.
Proof.
  induction rs as [|[f0 m0] rs IH]; intros g f Hnot; [reflexivity|].
  unfold carry_from in *. cbn [fold_left fst snd]. rewrite IH.
  - apply gm_get_set_other. intros ->. apply Hnot. left; reflexivity.
  - intros Hin. apply Hnot. right; exact Hin.
Qed.

Lemma carry_from_get_in rs : forall g f m,
  NoDup (map fst rs) -> In (f, m) rs -> gm_get (carry_from g rs) f = Some (stringify m).
Proof.
  induction rs as [|[f0 m0] rs IH]; intros g f m Hnd Hin; [destruct Hin|].
  cbn [map fst] in Hnd. inversion Hnd as [|? ? Hnot Hnd']; subst.
  unfold carry_from in *. cbn [fold_left fst snd]. destruct Hin as [[= -> ->]|Hin].
  - fold (carry_from (gm_set g f (stringify m)) rs).
    rewrite carry_from_get_notin by exact Hnot. apply gm_get_set_same.
  - apply IH; assumption.
Qed.

Lemma in_file_results files f m :
  In (f, m) (file_results files) <-> exists cs, In (f, cs) files /\ m = directive_entries cs.
Proof.
  unfold file_results. rewrite in_map_iff. split.
  - intros ([f' cs] & [= <- <-] & Hin). exists cs. auto.
  - intros (cs & Hin & ->). exists (f, cs). auto.
Qed.

Lemma file_results_names files : map fst (file_results files) = map fst files.
Proof. unfold file_results. rewrite map_map. reflexivity. Qed.

(* One run over several files: the aggregate report sees, for a violation located in file f, exactly
   the directives of f (string keys and back), whatever the order in which the files finished. *)
Lemma aggregate_directives_carried_lemma files v :
  NoDup (map fst files) ->
  (forall cs, In (v_file v, cs) files ->
     agg_ignored (carry (file_results files)) v = ignored v (directive_entries cs)) /\
  ((forall cs, ~ In (v_file v, cs) files) -> agg_ignored (carry (file_results files)) v = false).
Proof.
  intros Hnd. split.
  - intros cs Hin. unfold agg_ignored, agg_directives, carry.
    rewrite (carry_from_get_in (file_results files) [] (v_file v) (directive_entries cs)).
    + rewrite keys_roundtrip_lemma. reflexivity.
    + rewrite file_results_names. exact Hnd.
    + apply in_file_results. exists cs. auto.
  - intros Hnone. unfold agg_ignored, agg_directives, carry.
    rewrite carry_from_get_notin.
    + cbn. unfold ignored. destruct (v_row v); reflexivity.
    + rewrite file_results_names. intros Hin. apply in_map_iff in Hin as ([f cs] & Hf & Hin).
      cbn in Hf. subst f. exact (Hnone cs Hin).
Qed.

(* a run that reports on aggregates alone and is handed no directives ignores nothing
   (the behaviour of the aggregate-only run before /repo 4817eed) *)
Lemma aggregate_only_without_directives_refuted :
  exists files v,
    NoDup (map fst files) /\
    agg_ignored (carry (file_results files)) v = true /\ agg_ignored [] v = false.
Proof.
  exists [([97], [{| c_row := 3; c_text := 32 :: MARKER ++ [120] |}])].
  exists {| v_cat := [99]; v_title := [120]; v_file := [97]; v_row := Some 4; v_col := 1 |}.
  split; [repeat constructor; intros []|]. split; vm_compute; reflexivity.
Qed.

(* ---- WithIgnoreDirectives: own files first, then what the caller provides ---- *)

Lemma carry_overridden_get given : forall own f,
  gm_get (carry_overridden own given) f =
  match gm_get own f with Some o => Some o | None => gm_get given f end.
Proof.
  induction given as [|[f0 o0] given IH]; intros own f.
  - cbn. destruct (gm_get own f); reflexivity.
  - unfold carry_overridden in *. cbn [fold_left fst snd]. rewrite IH. cbn [gm_get].
    destruct (gm_get own f0) as [o1|] eqn:E0.
    + destruct (str_eqb_spec f0 f) as [->|Hne]; [rewrite E0; reflexivity | reflexivity].
    + destruct (str_eqb_spec f0 f) as [->|Hne].
      * rewrite gm_get_set_same, E0. reflexivity.
      * rewrite gm_get_set_other by exact Hne. reflexivity.
Qed.

Definition carried_entry (r : str * dirmap) : str * strmap := (fst r, stringify (snd r)).

Lemma gm_set_fresh g f o : gm_get g f = None -> gm_set g f o = g ++ [(f, o)].
Proof.
  induction g as [|[f0 o0] g IH]; cbn; [reflexivity|].
  destruct (str_eqb_spec f0 f) as [->|Hne]; [discriminate|]. intros H. f_equal. exact (IH H).
Qed.

Lemma gm_get_snoc_none g f f0 o0 : gm_get g f = None -> f0 <> f -> gm_get (g ++ [(f0, o0)]) f = None.
Proof.
  induction g as [|[f1 o1] g IH]; cbn.
  - intros _ Hne. destruct (str_eqb_spec f0 f); [contradiction | reflexivity].
  - destruct (str_eqb_spec f1 f); [discriminate|]. exact IH.
Qed.

(* fresh names are appended in order *)
Lemma carry_from_fresh rs : forall g,
  NoDup (map fst rs) -> (forall f, In f (map fst rs) -> gm_get g f = None) ->
  carry_from g rs = g ++ map carried_entry rs.
Proof.
  induction rs as [|[f0 m0] rs IH]; intros g Hnd Hfresh; [cbn; rewrite app_nil_r; reflexivity|].
  cbn [map fst] in Hnd. inversion Hnd as [|? ? Hnot Hnd']; subst.
  unfold carry_from in *. cbn [fold_left fst snd].
  rewrite (gm_set_fresh g f0 (stringify m0)) by (apply Hfresh; left; reflexivity).
  rewrite IH.
  - rewrite <- app_assoc. reflexivity.
  - exact Hnd'.
  - intros f Hf. apply gm_get_snoc_none; [apply Hfresh; right; exact Hf|].
    intros ->. contradiction.
Qed.

Lemma fold_set_carried rs : forall g,
  fold_left (fun g fo => gm_set g (fst fo) (snd fo)) (map carried_entry rs) g = carry_from g rs.
Proof.
  induction rs as [|r rs IH]; intros g; [reflexivity|].
  unfold carry_from in *. cbn [map fold_left]. rewrite IH. reflexivity.
Qed.

Lemma carry_from_app g a b : carry_from g (a ++ b) = carry_from (carry_from g a) b.
Proof. unfold carry_from. apply fold_left_app. Qed.

Lemma NoDup_app_l {A} (a b : list A) : NoDup (a ++ b) -> NoDup a.
Proof.
  induction a as [|x a IH]; cbn; intros H; [constructor|].
  inversion H as [|? ? Hx Hnd]; subst. constructor; [|exact (IH Hnd)].
  intros Hin. apply Hx. apply in_or_app; left; exact Hin.
Qed.

Lemma NoDup_app_r {A} (a b : list A) : NoDup (a ++ b) -> NoDup b.
Proof.
  induction a as [|x a IH]; cbn; intros H; [exact H|]. inversion H; subst. auto.
Qed.

(* every run exports the directives of its own files; the caller stores them per file *)
Lemma merge_exported_carry_from parts : forall g,
  NoDup (map fst (concat parts)) ->
  fold_left (fun g e => fold_left (fun g fo => gm_set g (fst fo) (snd fo)) e g) (map carry parts) g =
  carry_from g (concat parts).
Proof.
  induction parts as [|p parts IH]; intros g Hnd; [reflexivity|].
  cbn [map fold_left concat]. cbn [concat] in Hnd. rewrite map_app in Hnd.
  rewrite IH by (eapply NoDup_app_r; exact Hnd).
  rewrite carry_from_app. f_equal.
  unfold carry. rewrite (carry_from_fresh p []).
  - cbn [app]. apply fold_set_carried.
  - eapply NoDup_app_l; exact Hnd.
  - reflexivity.
Qed.

Lemma merge_exported_carry parts :
  NoDup (map fst (concat parts)) -> merge_exported (map carry parts) = carry (concat parts).
Proof. intros H. unfold merge_exported, carry. apply merge_exported_carry_from; exact H. Qed.

Lemma carry_get_perm rs rs' f :
  NoDup (map fst rs) -> Permutation rs rs' -> gm_get (carry rs) f = gm_get (carry rs') f.
Proof.
  intros Hnd Hp.
  assert (Hnd' : NoDup (map fst rs')).
  { eapply Permutation_NoDup; [apply Permutation_map; exact Hp | exact Hnd]. }
  unfold carry.
  destruct (in_dec (list_eq_dec N.eq_dec) f (map fst rs)) as [Hin|Hnot].
  - apply in_map_iff in Hin as ([f' m] & Hf & Hin). cbn in Hf. subst f'.
    rewrite (carry_from_get_in rs [] f m Hnd Hin).
    rewrite (carry_from_get_in rs' [] f m Hnd'); [reflexivity|].
    eapply Permutation_in; eauto.
  - rewrite (carry_from_get_notin rs [] f Hnot).
    rewrite (carry_from_get_notin rs' [] f); [reflexivity|].
    intros Hin. apply Hnot. eapply Permutation_in; [apply Permutation_sym, Permutation_map; exact Hp | exact Hin].
Qed.

(* Two-phase use (after /repo 4817eed): each part is linted on its own and exports its directives, the caller
   merges them per file and hands them to the run that reports on the merged aggregates.  The aggregate
   report then ignores exactly what the one-shot run over all files ignores. *)
Lemma two_phase_directives_lemma (parts : list (list (str * list comment))) files v :
  NoDup (map fst files) -> Permutation (concat parts) files ->
  agg_ignored (carry_overridden [] (merge_exported (map (fun p => carry (file_results p)) parts))) v =
  agg_ignored (carry (file_results files)) v.
Proof.
  intros Hnd Hp. unfold agg_ignored, agg_directives.
  rewrite carry_overridden_get. cbn [gm_get].
  assert (Hnd' : NoDup (map fst (concat (map file_results parts)))).
  { assert (Hc : concat (map file_results parts) = file_results (concat parts)).
    { unfold file_results. rewrite concat_map. reflexivity. }
    rewrite Hc, file_results_names.
    eapply Permutation_NoDup; [apply Permutation_sym, Permutation_map; exact Hp | exact Hnd]. }
  rewrite <- (map_map file_results carry), merge_exported_carry by exact Hnd'.
  rewrite (carry_get_perm _ (file_results files) (v_file v) Hnd'); [reflexivity|].
  assert (Hc : concat (map file_results parts) = file_results (concat parts)).
  { unfold file_results. rewrite concat_map. reflexivity. }
  rewrite Hc. unfold file_results. apply Permutation_map. exact Hp.
Qed.

(* ================================================================================================ *)
(* exact match of names                                                                              *)
(* ================================================================================================ *)

Lemma only_exact_names_match p segs ns row v :
  ~ In COLON p -> segs <> [] -> Forall2 spells segs ns ->
  let c := {| c_row := row; c_text := p ++ MARKER ++ join [COMMA] segs |} in
  ignored v (directive_entries [c]) = true <->
  In (v_title v) ns /\ (v_row v = Some row \/ v_row v = Some (row + 1)).
Proof.
  intros Hp Hne Hsp c.
  assert (Hnd : NoDup (map c_row [c])) by (repeat constructor; intros []).
  rewrite (ignored_iff_lemma [c] _ v (distinct_rows_ok [c] Hnd)).
  pose proof (names_spelled_lemma p segs ns Hp Hne Hsp) as Hn. split.
  - intros (c' & ns' & r & [<-|[]] & Hn' & Ht & Hr & Hrow). cbn [c c_text c_row] in *.
    rewrite Hn in Hn'. injection Hn' as <-. split; [exact Ht|].
    destruct Hrow as [->| <-]; auto.
  - intros [Ht [Hr|Hr]].
    + exists c, ns, row. cbn [c c_text c_row]. repeat split; auto. left; reflexivity.
    + exists c, ns, (row + 1). cbn [c c_text c_row]. repeat split; auto. left; reflexivity.
Qed.
