(* C02 — proofs about Model/Discover.v: the discovered files are exactly the reachable,
   non-excluded ones; files_scanned counts them; the summary is what the violation list
   contains; per-file verdicts compose. *)
From Coq Require Import List Permutation Lia Arith Bool.
From Regal Require Import Model.Discover Proofs.Sched Proofs.InputPaths Gen.WalkConsts.
Import ListNotations.
Local Open Scope nat_scope.

Lemma node_ind' (P : node -> Prop) :
  P File -> (forall cs, Forall (fun kc => P (snd kc)) cs -> P (Dir cs)) -> forall n, P n.
Proof.
  intros Hf Hd. fix IH 1. intros [ | cs]; [exact Hf | ].
  apply Hd. induction cs as [ | [nm c] cs IHcs]; constructor; [apply IH | exact IHcs].
Qed.

Section WalkProofs.
  Variable skips : list str.
  Variable ext : str.
  Notation walk := (walk skips ext).
  Notation reach := (reach skips ext).
  Notation resolve := (resolve).
  Notation walk_args := (walk_args skips ext).

  Lemma walk_reach n : forall path name f, In f (walk path name n) <-> reach n path name f.
  Proof.
    induction n as [ | cs IH] using node_ind'; intros path name f.
    - cbn. destruct (has_suffix path ext) eqn:E.
      + split.
        * intros [<- | []]. constructor. exact E.
        * intros H. inversion H; subst. left. reflexivity.
      + split; [intros [] | ]. intros H. inversion H; subst. congruence.
    - cbn. destruct (is_skip skips name) eqn:E.
      + split; [intros [] | ]. intros H. inversion H; subst. congruence.
      + assert (G : forall f,
                 In f ((fix go (cs : list (str * node)) : list str :=
                          match cs with
                          | [] => []
                          | (nm, c) :: cs' => walk (join_path path nm) nm c ++ go cs'
                          end) cs) <->
                 exists nm c, In (nm, c) cs /\ reach c (join_path path nm) nm f).
        { clear E. induction cs as [ | [nm c] cs IHcs]; intros g.
          - split; [intros [] | intros (? & ? & [] & _)].
          - inversion IH as [ | ? ? Hc Hcs]; subst. cbn in Hc. rewrite in_app_iff, IHcs by exact Hcs.
            rewrite Hc. split.
            + intros [H | (nm' & c' & Hin & H)]; [exists nm, c; split; [left; reflexivity | exact H] | ].
              exists nm', c'. split; [right; exact Hin | exact H].
            + intros (nm' & c' & Hor & Hr). destruct Hor as [[= <- <-] | Hin]; [left; exact Hr | right; eauto]. }
        rewrite G. split.
        * intros (nm & c & Hin & H). econstructor; eassumption.
        * intros H. inversion H; subst. eauto.
  Qed.

  Lemma walk_args_ok root args fs :
    walk_args root args = DOk fs ->
    (forall a, In a args -> exists n, resolve root a = RNode n) /\
    (forall f, In f fs <-> exists a n, In a args /\ resolve root a = RNode n /\
                                        reach n a (os_basename a) f).
  Proof.
    revert fs. induction args as [ | a args IH]; intros fs; cbn.
    - intros [= <-]. split; [intros ? [] | ]. intros f. split; [intros [] | intros (? & ? & [] & _)].
    - destruct (resolve root a) as [n | | ] eqn:Ra; [ | | discriminate].
      + destruct (walk_args root args) as [fs' | | ]; try discriminate.
        intros [= <-]. destruct (IH fs' eq_refl) as [IH1 IH2]. split.
        * intros b [<- | Hb]; [eauto | apply IH1; exact Hb].
        * intros f. rewrite in_app_iff, walk_reach, IH2. split.
          -- intros [H | (b & m & Hb & Rb & H)]; [exists a, n; auto | exists b, m; auto].
          -- intros (b & m & [<- | Hb] & Rb & H).
             ++ left. rewrite Ra in Rb. injection Rb as <-. exact H.
             ++ right. eauto.
      + destruct (walk_args root args); discriminate.
  Qed.

  Lemma walk_args_err root args :
    walk_args root args = DErr -> exists a, In a args /\ resolve root a = RMissing.
  Proof.
    induction args as [ | a args IH]; cbn; [discriminate | ].
    destruct (resolve root a) as [n | | ] eqn:Ra.
    - destruct (walk_args root args); try discriminate. intros _.
      destruct (IH eq_refl) as (b & Hb & Rb). eauto.
    - intros _. eauto.
    - discriminate.
  Qed.

  Variable excl : str -> str -> bool.
  Notation discover := (discover skips ext excl).

  Lemma excluded_false ignore f :
    excluded excl ignore f = false <-> forall p, In p ignore -> p <> [] -> excl p f = false.
  Proof.
    unfold excluded. split.
    - intros H p Hp Hne. destruct (excl p f) eqn:E; [ | reflexivity].
      assert (X : existsb (fun p => negb (is_nil p) && excl p f) ignore = true).
      { apply existsb_exists. exists p. split; [exact Hp | ]. rewrite E. destruct p; [contradiction | reflexivity]. }
      congruence.
    - intros H. destruct (existsb (fun p => negb (is_nil p) && excl p f) ignore) eqn:E; [ | reflexivity].
      apply existsb_exists in E. destruct E as (p & Hp & E). apply andb_true_iff in E. destruct E as [E1 E2].
      rewrite H in E2; [discriminate | exact Hp | ]. intros ->. discriminate.
  Qed.

  (* discover_exact *)
  Theorem discover_exact root args ignore files :
    discover root args ignore = DOk files ->
    forall f, In f files <->
      exists a n, In a args /\ resolve root a = RNode n /\ reach n a (os_basename a) f /\
                  (forall p, In p ignore -> p <> [] -> excl p f = false).
  Proof.
    unfold Discover.discover. destruct (walk_args root args) as [fs | | ] eqn:W; try discriminate.
    intros [= <-] f. destruct (walk_args_ok _ _ _ W) as [_ H]. unfold filter_paths.
    rewrite filter_In, H, negb_true_iff, excluded_false. split.
    - intros [(a & n & H1 & H2 & H3) H4]. exists a, n. auto.
    - intros (a & n & H1 & H2 & H3 & H4). split; [exists a, n; auto | exact H4].
  Qed.

  (* a run fails (rather than silently dropping the argument) exactly when an argument is missing *)
  Theorem discover_error root args ignore :
    discover root args ignore = DErr -> exists a, In a args /\ resolve root a = RMissing.
  Proof.
    unfold Discover.discover. destruct (walk_args root args) eqn:W; try discriminate.
    intros _. apply walk_args_err. exact W.
  Qed.

  Variable parses : str -> bool.
  Variable res : str -> bool -> result.
  Variable aggreport : amap -> dmap -> list viol.
  Notation lint_tree := (lint_tree skips ext excl parses res aggreport).
  Notation lint_names := (lint_names res aggreport).

  Lemma f_scanned_lint_names names : f_scanned (lint_names names) = length names.
  Proof. unfold Discover.lint_names, lint_seq, finalize; cbn. apply map_length. Qed.

  (* files_scanned_eq: a run that returns a report scanned every discovered file, and counts
     each of them once however often and however spelled it was discovered; a discovered file
     that does not parse fails the run *)
  Theorem files_scanned_eq root args ignore names fin :
    lint_tree root args ignore = LOk names fin ->
    exists files, discover root args ignore = DOk files /\
      (forall p, In p files -> parses (clean p) = true) /\
      (forall x, In x names <-> In x (map clean files)) /\
      f_scanned fin = length (nodup str_dec (map clean files)).
  Proof.
    unfold Discover.lint_tree. destruct (discover root args ignore) as [files | | ] eqn:Dd; try discriminate.
    destruct (input_from_paths (parse_fn parses) files) as [nm | ] eqn:I; [ | discriminate].
    intros [= <- <-]. exists files. split; [reflexivity | ].
    destruct (input_paths_names _ _ _ I) as (Hnd & _ & Hok & Hm).
    assert (Hp : forall p, In p files -> parses (clean p) = true).
    { intros p Hp. specialize (Hok p Hp). unfold parse_fn in Hok.
      destruct (parses (clean p)); [reflexivity | congruence]. }
    assert (Hset : forall x, In x nm <-> In x (map clean files)).
    { intros x. rewrite Hm, in_map_iff. split.
      - intros (p & c & Hin & E). unfold parse_fn in E. rewrite (Hp p Hin) in E. injection E as <- _. eauto.
      - intros (p & <- & Hin). exists p, []. split; [exact Hin | ]. unfold parse_fn. rewrite (Hp p Hin). reflexivity. }
    repeat split; auto; try apply Hset.
    rewrite f_scanned_lint_names. apply Permutation_length. apply NoDup_Permutation; [exact Hnd | apply NoDup_nodup | ].
    intros x. rewrite nodup_In. apply Hset.
  Qed.

  Theorem unparseable_file_fails_run root args ignore files p :
    discover root args ignore = DOk files -> In p files -> parses (clean p) = false ->
    lint_tree root args ignore = LErr.
  Proof.
    intros Dd Hp Hb. unfold Discover.lint_tree. rewrite Dd.
    assert (E : input_from_paths (parse_fn parses) files = None).
    { apply input_paths_error. exists p. split; [exact Hp | ]. unfold parse_fn. rewrite Hb. reflexivity. }
    rewrite E. reflexivity.
  Qed.
End WalkProofs.

(* ---------------------------------------------------------------- summary *)
Theorem summary_consistent aggreport overridden prior n s :
  let fin := finalize aggreport overridden prior n s in
  f_num fin = length (f_viol fin ++ f_aggviol fin) /\
  f_failed fin = length (nodup str_dec (map v_file (f_viol fin ++ f_aggviol fin))) /\
  f_scanned fin = n /\
  f_skipped fin = length (filter counted (f_notices fin)) /\
  NoDup (f_notices fin) /\ (forall x, In x (f_notices fin) <-> In x (Nn s)).
Proof.
  cbn zeta. unfold finalize; cbn [f_num f_viol f_aggviol f_failed f_scanned f_skipped f_notices].
  destruct (dedup_notices_spec (Nn s)) as (H1 & H2 & H3). repeat split; auto; apply H3.
Qed.

(* ---------------------------------------------------------------- composition *)
Section Compose.
  Variable res : str -> bool -> result.
  Variable aggreport : amap -> dmap -> list viol.
  (* H_ops: the report rules of a file do not look at the "collect" operation *)
  Hypothesis H_ops : forall f b, r_viol (res f b) = r_viol (res f false).
  (* H_loc: per-file rules report locations in the file they were given *)
  Hypothesis H_loc : forall f b v, In v (r_viol (res f b)) -> v_file v = f.

  Definition of_file (f : str) (v : viol) : bool := str_eqb (v_file v) f.

  Lemma filter_all {X} (p : X -> bool) l : (forall x, In x l -> p x = true) -> filter p l = l.
  Proof.
    induction l as [ | x l IH]; cbn; intros H; [reflexivity | ].
    rewrite (H x) by (left; reflexivity). f_equal. apply IH. intros y Hy. apply H. right. exact Hy.
  Qed.

  Lemma filter_none {X} (p : X -> bool) l : (forall x, In x l -> p x = false) -> filter p l = [].
  Proof.
    induction l as [ | x l IH]; cbn; intros H; [reflexivity | ].
    rewrite (H x) by (left; reflexivity). apply IH. intros y Hy. apply H. right. exact Hy.
  Qed.

  Lemma filter_file_flat b f names : NoDup names -> In f names ->
    filter (of_file f) (flat_map (fun g => r_viol (res g b)) names) = r_viol (res f false).
  Proof.
    induction names as [ | g names IH]; intros Hnd Hin; [destruct Hin | ].
    inversion Hnd as [ | ? ? Hn Hnd']; subst. cbn [flat_map]. rewrite filter_app.
    destruct Hin as [-> | Hin].
    - rewrite filter_all.
      + rewrite (filter_none (of_file f) (flat_map _ names)).
        * rewrite app_nil_r. apply H_ops.
        * intros v Hv. apply in_flat_map in Hv. destruct Hv as (h & Hh & Hv).
          unfold of_file. rewrite (H_loc _ _ _ Hv). destruct (str_eqb_spec h f) as [-> | ]; [contradiction | reflexivity].
      + intros v Hv. unfold of_file. rewrite (H_loc _ _ _ Hv). apply str_eqb_refl.
    - rewrite filter_none.
      + cbn. apply IH; assumption.
      + intros v Hv. unfold of_file. rewrite (H_loc _ _ _ Hv).
        destruct (str_eqb_spec g f) as [-> | ]; [contradiction | reflexivity].
  Qed.

  (* single_file_compose: in a run over the files [names] - merged in ANY order - the per-file
     (non-aggregate) violations located in f are those of the run over f alone *)
  Theorem single_file_compose (names : list str) (f : str) (merged : list result) :
    NoDup names -> In f names ->
    Permutation merged (map (fun g => res g (collect_flag false (length names))) names) ->
    Permutation
      (filter (of_file f) (f_viol (finalize aggreport None [] (length names) (fold_left merge merged empty_report))))
      (f_viol (lint_names res aggreport [f])).
  Proof.
    intros Hnd Hin Hp.
    assert (E1 : f_viol (lint_names res aggreport [f]) = r_viol (res f false)).
    { unfold lint_names, lint_seq, finalize; cbn. reflexivity. }
    rewrite E1. unfold finalize; cbn [f_viol]. rewrite fold_merge_V. cbn [V empty_report app].
    rewrite <- (filter_file_flat (collect_flag false (length names)) f names Hnd Hin).
    apply Permutation_filter'. eapply Permutation_trans; [apply Permutation_flat_map'; exact Hp | ].
    rewrite flat_map_concat_map, map_map, <- flat_map_concat_map. apply Permutation_refl.
  Qed.

  (* and in list order they are literally equal *)
  Theorem single_file_compose_seq (names : list str) (f : str) :
    NoDup names -> In f names ->
    filter (of_file f) (f_viol (lint_names res aggreport names)) = f_viol (lint_names res aggreport [f]).
  Proof.
    intros Hnd Hin. unfold lint_names, lint_seq, finalize; cbn [f_viol].
    rewrite !fold_merge_V. cbn [V empty_report app map flat_map]. rewrite app_nil_r.
    rewrite flat_map_concat_map, map_map, <- flat_map_concat_map.
    rewrite (filter_file_flat _ f names Hnd Hin). apply H_ops.
  Qed.
End Compose.

(* ---------------------------------------------------------------- the constants of this tree *)
Lemma walk_constants_ok :
  gen_skip_found = true /\ gen_skip_requires_dir = true /\ gen_filter_calls_skip = true /\
  gen_suffix_found = true /\ gen_suffix_requires_not_dir = true /\
  gen_skip_names = spec_skips /\ gen_suffix = spec_ext.
Proof. vm_compute. repeat split. Qed.

(* ---------------------------------------------------------------- examples *)
Definition s_ (l : list nat) : str := map N.of_nat l.

(* t/ { .git/{x.rego}, a/{p.rego, q.txt}, r.rego } *)
Definition ex_tree : node :=
  Dir [(s_ [116], Dir [(s_ [46;103;105;116], Dir [(s_ [120;46;114;101;103;111], File)]);
                       (s_ [97], Dir [(s_ [112;46;114;101;103;111], File); (s_ [113;46;116;120;116], File)]);
                       (s_ [114;46;114;101;103;111], File)])].

Example discover_example :
  discover spec_skips spec_ext (fun _ _ => false) ex_tree [s_ [116]; s_ [116;47;97;47]] [] =
  DOk [s_ [116;47;97;47;112;46;114;101;103;111]; s_ [116;47;114;46;114;101;103;111];
       s_ [116;47;97;47;112;46;114;101;103;111]].
Proof. vm_compute. reflexivity. Qed.

(* oracles meeting H_ops and H_loc: one violation per file, located in it *)
Definition ex_res (f : str) (collect : bool) : result :=
  {| r_viol := [{| v_file := f; v_key := [118%N] |}]; r_notices := [];
     r_aggs := if collect then [([107%N], [f])] else []; r_dirs := [(f, [])] |}.

Example compose_hypotheses_satisfiable :
  (forall f b, r_viol (ex_res f b) = r_viol (ex_res f false)) /\
  (forall f b v, In v (r_viol (ex_res f b)) -> v_file v = f).
Proof. split; [reflexivity | ]. intros f b v [<- | []]. reflexivity. Qed.

(* the two arguments overlap: three discovered paths, two distinct files scanned *)
Example lint_tree_example :
  exists fin,
    lint_tree spec_skips spec_ext (fun _ _ => false) (fun _ => true) ex_res ex_aggreport
              ex_tree [s_ [116]; s_ [116;47;97;47]] [] =
    LOk [s_ [116;47;97;47;112;46;114;101;103;111]; s_ [116;47;114;46;114;101;103;111]] fin /\
    f_scanned fin = 2 /\ f_num fin = 3 /\ f_failed fin = 3.
Proof. eexists. vm_compute. repeat split. Qed.
