(* Proofs about Model/Precedence.v (C04). *)
From Regal Require Import Base.Str Model.Precedence.

(* ------------------------------------------------------------------------------------------ *)
(* Rego side: model = README chain, for all params / entries (case analysis on the six
   membership facts; nothing is enumerated)                                                   *)

Lemma s_error_not_ignore : str_eqb s_error s_ignore = false.
Proof. reflexivity. Qed.

Lemma decision_eq_spec_rego p e cat title :
  impl_decision (negb (ignored_rule p e cat title)) (level_for_rule p e cat title)
  = spec_decision p cat title (entry_level_or_error e).
Proof.
  unfold impl_decision, ignored_rule, level_for_rule, spec_decision, spec_cli,
         force_disabled, force_enabled, entry_level_or_error, decision_of_level.
  destruct (str_in title (p_disable p)) eqn:Hd;
  destruct (str_in title (p_enable p)) eqn:He;
  destruct (str_in cat (p_disable_category p)) eqn:Hdc;
  destruct (str_in cat (p_enable_category p)) eqn:Hec;
  destruct (p_disable_all p) eqn:Hda;
  destruct (p_enable_all p) eqn:Hea; simpl; try reflexivity;
  destruct (entry_level e) as [l|] eqn:Hl; simpl; try reflexivity;
  destruct (str_eqb l s_ignore) eqn:Hi; simpl; reflexivity.
Qed.

Lemma enabled_iff_spec_rego p e cat title :
  ignored_rule p e cat title = false <->
  exists l, spec_decision p cat title (entry_level_or_error e) = On l.
Proof.
  pose proof (decision_eq_spec_rego p e cat title) as H. unfold impl_decision in H.
  destruct (ignored_rule p e cat title); simpl in H; split.
  - discriminate.
  - intros [l Hl]. rewrite Hl in H. discriminate.
  - intros _. eexists. symmetry. exact H.
  - reflexivity.
Qed.

Lemma level_eq_spec_rego p e cat title l :
  spec_decision p cat title (entry_level_or_error e) = On l ->
  level_for_rule p e cat title = l.
Proof.
  intros Hs. pose proof (decision_eq_spec_rego p e cat title) as H. rewrite Hs in H.
  unfold impl_decision in H. destruct (negb (ignored_rule p e cat title)); congruence.
Qed.

Lemma level_ignore_iff_ignored p e cat title :
  level_for_rule p e cat title = s_ignore <-> ignored_rule p e cat title = true.
Proof.
  unfold level_for_rule, ignored_rule.
  destruct (force_disabled p cat title); [tauto|].
  destruct (force_enabled p cat title); simpl.
  - split; [discriminate|]. destruct (entry_level e); [rewrite andb_false_r|]; discriminate.
  - destruct (entry_level e) as [l|]; [|split; discriminate].
    rewrite andb_true_r. symmetry. apply str_eqb_eq.
Qed.

Lemma spec_off_level_ignore p e cat title :
  spec_decision p cat title (entry_level_or_error e) = Off ->
  level_for_rule p e cat title = s_ignore.
Proof.
  intros Hs. apply level_ignore_iff_ignored.
  pose proof (decision_eq_spec_rego p e cat title) as H. rewrite Hs in H.
  unfold impl_decision in H. destruct (ignored_rule p e cat title); [reflexivity | discriminate].
Qed.

(* the documented "overrides" of README 'Ignoring Rules via CLI Flags', one by one *)
Lemma disable_beats_everything p e cat title :
  In title (p_disable p) -> ignored_rule p e cat title = true.
Proof.
  intros H. apply str_in_spec in H. unfold ignored_rule, force_disabled. rewrite H. reflexivity.
Qed.

Lemma enable_beats_category_and_all p e cat title :
  In title (p_enable p) -> ~ In title (p_disable p) ->
  ignored_rule p e cat title = false /\ level_for_rule p e cat title = s_error.
Proof.
  intros He Hd. apply str_in_spec in He.
  assert (Hd' : str_in title (p_disable p) = false).
  { destruct (str_in title (p_disable p)) eqn:E; [apply str_in_spec in E; contradiction | reflexivity]. }
  unfold ignored_rule, level_for_rule, force_disabled, force_enabled. rewrite He, Hd'. simpl.
  rewrite !andb_false_r. simpl. destruct (entry_level e); [rewrite andb_false_r|]; auto.
Qed.

Lemma disable_category_beats_enable_all p e cat title :
  In cat (p_disable_category p) -> ~ In title (p_enable p) -> ignored_rule p e cat title = true.
Proof.
  intros Hc He. apply str_in_spec in Hc.
  assert (He' : str_in title (p_enable p) = false).
  { destruct (str_in title (p_enable p)) eqn:E; [apply str_in_spec in E; contradiction | reflexivity]. }
  unfold ignored_rule, force_disabled. rewrite Hc, He'. simpl. rewrite orb_true_r. reflexivity.
Qed.

Lemma enable_category_beats_disable_all p e cat title :
  In cat (p_enable_category p) -> ~ In cat (p_disable_category p) ->
  ~ In title (p_disable p) ->
  ignored_rule p e cat title = false /\ level_for_rule p e cat title = s_error.
Proof.
  intros Hec Hdc Hd. apply str_in_spec in Hec.
  assert (Hdc' : str_in cat (p_disable_category p) = false).
  { destruct (str_in cat (p_disable_category p)) eqn:E; [apply str_in_spec in E; contradiction | reflexivity]. }
  assert (Hd' : str_in title (p_disable p) = false).
  { destruct (str_in title (p_disable p)) eqn:E; [apply str_in_spec in E; contradiction | reflexivity]. }
  unfold ignored_rule, level_for_rule, force_disabled, force_enabled. rewrite Hec, Hdc', Hd'. simpl.
  rewrite !andb_false_r. simpl. rewrite !orb_true_r. simpl.
  destruct (entry_level e); [rewrite andb_false_r|]; auto.
Qed.

(* ------------------------------------------------------------------------------------------ *)
(* association lists                                                                          *)

Lemma assoc_set_same {A} k (v : A) l : assoc k (set_assoc k v l) = Some v.
Proof.
  induction l as [|[k' v'] l IH]; simpl.
  - rewrite str_eqb_refl. reflexivity.
  - destruct (str_eqb k k') eqn:E; simpl; rewrite ?E, ?str_eqb_refl; auto.
Qed.

Lemma assoc_set_other {A} k k2 (v : A) l : k2 <> k -> assoc k2 (set_assoc k v l) = assoc k2 l.
Proof.
  intros Hne. induction l as [|[k' v'] l IH]; simpl.
  - destruct (str_eqb_spec k2 k); [contradiction | reflexivity].
  - destruct (str_eqb_spec k k') as [->|Hk]; simpl.
    + destruct (str_eqb_spec k2 k'); [contradiction | reflexivity].
    + destruct (str_eqb k2 k'); auto.
Qed.

Lemma assoc_set {A} k k2 (v : A) l :
  assoc k2 (set_assoc k v l) = if str_eqb k2 k then Some v else assoc k2 l.
Proof.
  destruct (str_eqb_spec k2 k) as [->|Hne]; [apply assoc_set_same | apply assoc_set_other; assumption].
Qed.

Lemma assoc_map_snd {A B} (f : str -> A -> B) k l :
  assoc k (map (fun kv => (fst kv, f (fst kv) (snd kv))) l) = option_map (f k) (assoc k l).
Proof.
  induction l as [|[k' v] l IH]; simpl; [reflexivity|].
  destruct (str_eqb_spec k k') as [->|Hne]; [reflexivity | exact IH].
Qed.

Lemma assoc_In {A} k (v : A) l : assoc k l = Some v -> In (k, v) l.
Proof.
  induction l as [|[k' v'] l IH]; simpl; [discriminate|].
  destruct (str_eqb_spec k k') as [->|Hne]; [intros [= ->]; auto | auto].
Qed.

Lemma assoc_None_not_In {A} k (v : A) l : assoc k l = None -> ~ In (k, v) l.
Proof.
  induction l as [|[k' v'] l IH]; simpl; [tauto|].
  destruct (str_eqb_spec k k') as [->|Hne]; [discriminate|].
  intros H [Heq|Hin]; [congruence | exact (IH H Hin)].
Qed.

Lemma In_assoc_nodup {A} k (v : A) l : keys_nodup l = true -> In (k, v) l -> assoc k l = Some v.
Proof.
  induction l as [|[k' v'] l IH]; simpl; [tauto|].
  intros Hnd [Heq|Hin].
  - injection Heq as -> ->. rewrite str_eqb_refl. reflexivity.
  - apply andb_true_iff in Hnd as [Hfresh Hnd].
    destruct (str_eqb_spec k k') as [->|Hne]; [|auto].
    destruct (assoc k' l) eqn:E; [discriminate|]. exfalso. exact (assoc_None_not_In _ _ _ E Hin).
Qed.

(* folding set_assoc over a list with distinct keys: the lookup sees the source first *)
Lemma assoc_merge_category dst src k :
  keys_nodup src = true ->
  assoc k (merge_category dst src) = match assoc k src with Some v => Some v | None => assoc k dst end.
Proof.
  unfold merge_category. revert dst. induction src as [|[k' v'] src IH]; intros dst Hnd; simpl; [reflexivity|].
  simpl in Hnd. apply andb_true_iff in Hnd as [Hfresh Hnd].
  rewrite (IH _ Hnd). destruct (str_eqb_spec k k') as [->|Hne].
  - destruct (assoc k' src); [discriminate|]. apply assoc_set_same.
  - destruct (assoc k src); [reflexivity|]. apply assoc_set_other. assumption.
Qed.

Definition merge_step (d : rules_map) (cs : str * category) : rules_map :=
  match assoc (fst cs) d with
  | Some dc => set_assoc (fst cs) (merge_category dc (snd cs)) d
  | None => set_assoc (fst cs) (snd cs) d
  end.

Lemma merge_rules_fold dst src : merge_rules dst src = fold_left merge_step src dst.
Proof. reflexivity. Qed.

Lemma assoc_merge_step dst cs cat :
  assoc cat (merge_step dst cs)
  = if str_eqb cat (fst cs)
    then Some (match assoc (fst cs) dst with Some dc => merge_category dc (snd cs) | None => snd cs end)
    else assoc cat dst.
Proof.
  unfold merge_step. destruct (assoc (fst cs) dst); apply assoc_set.
Qed.

Lemma assoc_merge_rules dst src cat :
  keys_nodup src = true ->
  assoc cat (merge_rules dst src)
  = match assoc cat src with
    | Some sc => Some (match assoc cat dst with Some dc => merge_category dc sc | None => sc end)
    | None => assoc cat dst
    end.
Proof.
  rewrite merge_rules_fold. revert dst. induction src as [|[c' sc'] src IH]; intros dst Hnd; simpl; [reflexivity|].
  simpl in Hnd. apply andb_true_iff in Hnd as [Hfresh Hnd].
  rewrite (IH _ Hnd), assoc_merge_step. simpl.
  destruct (str_eqb_spec cat c') as [->|Hne].
  - destruct (assoc c' src); [discriminate | reflexivity].
  - reflexivity.
Qed.

Lemma rules_map_wf_cat m cat rs : rules_map_wf m = true -> assoc cat m = Some rs -> keys_nodup rs = true.
Proof.
  unfold rules_map_wf. intros H Ha. apply andb_true_iff in H as [_ H].
  rewrite forallb_forall in H. exact (H _ (assoc_In _ _ _ Ha)).
Qed.

Lemma rule_level_merge_rules dst src cat title :
  rules_map_wf src = true ->
  rule_level_of (merge_rules dst src) cat title
  = match rule_level_of src cat title with
    | Some l => Some l
    | None => rule_level_of dst cat title
    end.
Proof.
  intros Hwf. unfold rule_level_of.
  assert (Hk : keys_nodup src = true) by (unfold rules_map_wf in Hwf; apply andb_true_iff in Hwf; tauto).
  rewrite (assoc_merge_rules _ _ _ Hk).
  destruct (assoc cat src) as [sc|] eqn:Es; [|reflexivity].
  destruct (assoc cat dst) as [dc|] eqn:Ed.
  - rewrite (assoc_merge_category _ _ _ (rules_map_wf_cat _ _ _ Hwf Es)). reflexivity.
  - destruct (assoc title sc); reflexivity.
Qed.

Lemma rule_level_extract u pl merged cat title :
  rule_level_of (extract_user_rule_levels u pl merged) cat title
  = match rule_level_of merged cat title with
    | Some _ => Some (select_level (provided_or_error pl title)
                                   (rule_level_of (c_rules u) cat title)
                                   (assoc cat (c_cat_defaults u)) (c_global u))
    | None => None
    end.
Proof.
  unfold rule_level_of, extract_user_rule_levels.
  induction merged as [|[c rs] merged IH]; simpl; [reflexivity|].
  destruct (str_eqb_spec cat c) as [->|Hne]; [|exact IH].
  clear IH. induction rs as [|[t l] rs IH]; simpl; [reflexivity|].
  destruct (str_eqb_spec title t) as [->|Hne]; [reflexivity | exact IH].
Qed.

(* the if / else-if chain of extractUserRuleLevels is the documented chain *)
Lemma select_level_eq_chain pl ur cd g :
  select_level pl ur cd g = spec_config_level (opt_str ur) (opt_str cd) g pl.
Proof.
  unfold select_level, spec_config_level, opt_str.
  destruct ur as [l|]; [destruct (nonempty l) eqn:El|]; simpl; rewrite ?El;
    destruct cd as [c|]; try (destruct (nonempty c) eqn:Ec); simpl; rewrite ?Ec; reflexivity.
Qed.

(* Go merge: for every rule of the merged configuration the level is
   rule > category default > global default > provided level (or "error" without one) *)
Lemma go_levels_eq_chain_lemma provided u cat title :
  rules_map_wf (c_rules u) = true ->
  rule_level_of (load_config provided (Some u)) cat title
  = match rule_level_of (c_rules u) cat title, rule_level_of provided cat title with
    | None, None => None
    | _, _ => Some (spec_config_level (opt_str (rule_level_of (c_rules u) cat title))
                                      (opt_str (assoc cat (c_cat_defaults u))) (c_global u)
                                      (provided_or_error (provided_conf_levels provided) title))
    end.
Proof.
  intros Hwf. unfold load_config. rewrite rule_level_extract, (rule_level_merge_rules _ _ _ _ Hwf).
  rewrite select_level_eq_chain.
  destruct (rule_level_of (c_rules u) cat title); [reflexivity|].
  destruct (rule_level_of provided cat title); reflexivity.
Qed.

(* the provided level found by name is the level of the rule's own entry when rule names are
   unique over the whole provided configuration *)
Lemma assoc_app_l {A} k (a b : list (str * A)) v : assoc k a = Some v -> assoc k (a ++ b) = Some v.
Proof.
  induction a as [|[k' v'] a IH]; simpl; [discriminate|].
  destruct (str_eqb k k'); auto.
Qed.

Lemma assoc_app_r {A} k (a b : list (str * A)) : assoc k a = None -> assoc k (a ++ b) = assoc k b.
Proof.
  induction a as [|[k' v'] a IH]; simpl; [reflexivity|].
  destruct (str_eqb k k'); [discriminate | auto].
Qed.

Lemma keys_nodup_app_l {A} (a b : list (str * A)) : keys_nodup (a ++ b) = true -> keys_nodup a = true.
Proof.
  induction a as [|[k v] a IH]; simpl; [reflexivity|].
  intros H. apply andb_true_iff in H as [Hf Hn]. rewrite (IH Hn), andb_true_r.
  destruct (assoc k a) eqn:E; [|reflexivity].
  rewrite (assoc_app_l _ _ b _ E) in Hf. discriminate.
Qed.

Lemma keys_nodup_app_r {A} (a b : list (str * A)) : keys_nodup (a ++ b) = true -> keys_nodup b = true.
Proof.
  induction a as [|[k v] a IH]; simpl; [tauto|].
  intros H. apply andb_true_iff in H as [_ Hn]. auto.
Qed.

Lemma keys_nodup_app_disjoint {A} (a b : list (str * A)) k v :
  keys_nodup (a ++ b) = true -> assoc k a = Some v -> assoc k b = None.
Proof.
  induction a as [|[k' v'] a IH]; simpl; [discriminate|].
  intros H. apply andb_true_iff in H as [Hf Hn].
  destruct (str_eqb_spec k k') as [->|Hne]; [|auto].
  intros _. destruct (assoc k' b) eqn:Eb; [|reflexivity].
  destruct (assoc k' a) eqn:Ea.
  - rewrite (assoc_app_l _ _ b _ Ea) in Hf. discriminate.
  - rewrite (assoc_app_r _ _ b Ea), Eb in Hf. discriminate.
Qed.

Lemma provided_level_by_name provided cat title l :
  keys_nodup (provided_conf_levels provided) = true ->
  rule_level_of provided cat title = Some l ->
  assoc title (provided_conf_levels provided) = Some l.
Proof.
  unfold rule_level_of, provided_conf_levels.
  induction provided as [|[c rs] provided IH]; simpl; [discriminate|].
  intros Hnd. destruct (str_eqb_spec cat c) as [->|Hne].
  - intros H. apply assoc_app_l. assumption.
  - intros H. pose proof (IH (keys_nodup_app_r _ _ Hnd) H) as Hr.
    destruct (assoc title rs) as [l'|] eqn:E.
    + rewrite (keys_nodup_app_disjoint _ _ _ _ Hnd E) in Hr. discriminate.
    + rewrite (assoc_app_r _ _ _ E). exact Hr.
Qed.

(* ------------------------------------------------------------------------------------------ *)
(* GetConfig adds entries for custom rules                                                     *)

Lemma rule_level_add_entry m ct cat title :
  rule_level_of (add_rule_entry m ct) cat title
  = match rule_level_of m cat title with
    | Some l => Some l
    | None => if str_eqb cat (fst ct) && str_eqb title (snd ct) then Some [] else None
    end.
Proof.
  destruct ct as [c t]. unfold add_rule_entry, rule_level_of. simpl.
  destruct (assoc c m) as [rs|] eqn:Ec.
  - destruct (assoc t rs) as [l0|] eqn:Et.
    + destruct (str_eqb_spec cat c) as [->|Hc]; simpl.
      * rewrite Ec. destruct (str_eqb_spec title t) as [->|Ht]; [rewrite Et; reflexivity|].
        destruct (assoc title rs); reflexivity.
      * destruct (assoc cat m) as [rs'|]; [destruct (assoc title rs')|]; reflexivity.
    + rewrite assoc_set. destruct (str_eqb_spec cat c) as [->|Hc]; simpl.
      * rewrite Ec, assoc_set. destruct (str_eqb_spec title t) as [->|Ht]; [rewrite Et; reflexivity|].
        destruct (assoc title rs); reflexivity.
      * destruct (assoc cat m) as [rs'|]; [destruct (assoc title rs')|]; reflexivity.
  - rewrite assoc_set. destruct (str_eqb_spec cat c) as [->|Hc]; simpl.
    + rewrite Ec. destruct (str_eqb title t); reflexivity.
    + destruct (assoc cat m) as [rs'|]; [destruct (assoc title rs')|]; reflexivity.
Qed.

Lemma pair_in_spec cat title l : pair_in cat title l = true <-> In (cat, title) l.
Proof.
  induction l as [|[c t] l IH]; simpl; [split; [discriminate | tauto]|].
  rewrite orb_true_iff, andb_true_iff, IH, !str_eqb_eq. split.
  - intros [[-> ->]|H]; auto.
  - intros [[= -> ->]|H]; auto.
Qed.

Lemma rule_level_add_entries custom m cat title :
  rule_level_of (fold_left add_rule_entry custom m) cat title
  = match rule_level_of m cat title with
    | Some l => Some l
    | None => if pair_in cat title custom then Some [] else None
    end.
Proof.
  revert m. induction custom as [|[c t] custom IH]; intros m; cbn [fold_left pair_in].
  - destruct (rule_level_of m cat title); reflexivity.
  - rewrite IH, rule_level_add_entry. cbn [fst snd].
    destruct (rule_level_of m cat title); [reflexivity|].
    destruct (str_eqb cat c && str_eqb title t); simpl; [|reflexivity].
    destruct (pair_in cat title custom); reflexivity.
Qed.

Lemma keys_nodup_set_assoc {A} k (v : A) l : keys_nodup l = true -> keys_nodup (set_assoc k v l) = true.
Proof.
  induction l as [|[k' v'] l IH]; simpl; [reflexivity|].
  intros H. apply andb_true_iff in H as [Hf Hn].
  destruct (str_eqb_spec k k') as [->|Hne]; simpl.
  - rewrite Hf, Hn. reflexivity.
  - rewrite (IH Hn), andb_true_r.
    rewrite assoc_set_other by congruence. exact Hf.
Qed.

Lemma forallb_set_assoc {A} (P : A -> bool) k v (l : list (str * A)) :
  P v = true -> forallb (fun kv => P (snd kv)) l = true ->
  forallb (fun kv => P (snd kv)) (set_assoc k v l) = true.
Proof.
  intros Hv. induction l as [|[k' v'] l IH]; simpl; [rewrite Hv; reflexivity|].
  intros H. apply andb_true_iff in H as [H1 H2].
  destruct (str_eqb k k'); simpl; [rewrite Hv, H2 | rewrite H1, (IH H2)]; reflexivity.
Qed.

Lemma add_rule_entry_wf m ct : rules_map_wf m = true -> rules_map_wf (add_rule_entry m ct) = true.
Proof.
  destruct ct as [c t]. unfold add_rule_entry. intros Hwf.
  destruct (assoc c m) as [rs|] eqn:Ec.
  - destruct (assoc t rs) eqn:Et; [assumption|].
    pose proof (rules_map_wf_cat _ _ _ Hwf Ec) as Hrs.
    unfold rules_map_wf in *. apply andb_true_iff in Hwf as [H1 H2].
    rewrite (keys_nodup_set_assoc _ _ _ H1). simpl.
    apply (forallb_set_assoc (fun rs => keys_nodup rs)); [apply keys_nodup_set_assoc; assumption | exact H2].
  - unfold rules_map_wf in *. apply andb_true_iff in Hwf as [H1 H2].
    rewrite (keys_nodup_set_assoc _ _ _ H1). simpl.
    apply (forallb_set_assoc (fun rs => keys_nodup rs)); [reflexivity | exact H2].
Qed.

Lemma add_rule_entries_wf custom m :
  rules_map_wf m = true -> rules_map_wf (fold_left add_rule_entry custom m) = true.
Proof.
  revert m. induction custom as [|ct custom IH]; intros m H; simpl; [assumption|].
  apply IH, add_rule_entry_wf, H.
Qed.

(* ------------------------------------------------------------------------------------------ *)
(* the level a rule gets from Linter.GetConfig, for any rule that has an entry               *)

Lemma opt_str_add_entries custom m cat title :
  opt_str (rule_level_of (fold_left add_rule_entry custom m) cat title)
  = opt_str (rule_level_of m cat title).
Proof.
  rewrite rule_level_add_entries. destruct (rule_level_of m cat title); [reflexivity|].
  destruct (pair_in cat title custom); reflexivity.
Qed.

Lemma linter_config_level provided user custom cat title :
  user_wf user = true ->
  rule_level_of (linter_config provided user custom) cat title
  = if has_entry provided user custom cat title
    then Some (match user with
               | Some _ => spec_user_level user cat title
                             (provided_or_error (provided_conf_levels provided) title)
               | None => opt_str (rule_level_of provided cat title)
               end)
    else None.
Proof.
  intros Hwf. unfold linter_config, has_entry.
  destruct user as [u|]; cbn [user_config_with_custom_rules user_wf] in *.
  - rewrite go_levels_eq_chain_lemma by (cbn [c_rules]; apply add_rule_entries_wf; exact Hwf).
    cbn [c_rules c_cat_defaults c_global spec_user_level].
    rewrite opt_str_add_entries, rule_level_add_entries.
    destruct (rule_level_of (c_rules u) cat title) eqn:Eu.
    + destruct (rule_level_of provided cat title); reflexivity.
    + destruct (pair_in cat title custom); destruct (rule_level_of provided cat title); reflexivity.
  - unfold load_config. destruct (rule_level_of provided cat title); reflexivity.
Qed.

(* ------------------------------------------------------------------------------------------ *)
(* end to end: the decision for a rule = the README chain                                     *)

Lemma spec_config_level_nonempty r c g b :
  nonempty b = true -> nonempty (spec_config_level r c g b) = true.
Proof.
  unfold spec_config_level. intros Hb.
  destruct (nonempty r) eqn:Er; [assumption|].
  destruct (nonempty c) eqn:Ec; [assumption|].
  destruct (nonempty g) eqn:Eg; assumption.
Qed.

(* bundled rule: it has a provided level [pl] *)
Lemma builtin_decision_eq_spec provided user custom p cat title pl excluded noticed :
  user_wf user = true ->
  keys_nodup (provided_conf_levels provided) = true ->
  rule_level_of provided cat title = Some pl ->
  let merged := linter_config provided user custom in
  impl_decision (builtin_can_report p merged cat title excluded noticed)
                (violation_level p merged cat title)
  = if excluded || noticed then Off
    else spec_decision p cat title (spec_user_level user cat title pl).
Proof.
  intros Hwf Hnd Hp merged.
  unfold builtin_can_report, rules_to_run_has, violation_level, entry_of.
  subst merged. rewrite (linter_config_level _ _ _ _ _ Hwf).
  unfold has_entry. rewrite Hp.
  unfold provided_or_error. rewrite (provided_level_by_name _ _ _ _ Hnd Hp).
  set (lvl := match user with Some _ => spec_user_level user cat title pl | None => opt_str (Some pl) end).
  assert (Hl : lvl = spec_user_level user cat title pl) by (destruct user; reflexivity).
  rewrite Hl. clear lvl Hl.
  pose proof (decision_eq_spec_rego p (Some (Some (spec_user_level user cat title pl))) cat title) as H.
  unfold entry_level_or_error in H. simpl in H. rewrite <- H. unfold impl_decision.
  destruct excluded; simpl; [rewrite andb_false_r; reflexivity|].
  destruct noticed; simpl; [rewrite andb_false_r; reflexivity|].
  rewrite !andb_true_r. reflexivity.
Qed.

(* custom rule loaded into the linter: no provided level; Regal's default for it is "error" *)
Lemma custom_decision_eq_spec provided user custom p cat title excluded :
  user_wf user = true ->
  In (cat, title) custom ->
  assoc title (provided_conf_levels provided) = None ->
  rule_level_of provided cat title = None ->
  let merged := linter_config provided user custom in
  impl_decision (custom_can_report p merged cat title excluded)
                (violation_level p merged cat title)
  = if excluded then Off
    else spec_decision p cat title (spec_user_level user cat title s_error).
Proof.
  intros Hwf Hin Hpn Hp merged.
  unfold custom_can_report, violation_level.
  assert (He : entry_of merged cat title
               = match user with
                 | Some _ => Some (Some (spec_user_level user cat title s_error))
                 | None => None
                 end).
  { unfold entry_of. subst merged. rewrite (linter_config_level _ _ _ _ _ Hwf).
    unfold has_entry. rewrite Hp. apply pair_in_spec in Hin. rewrite Hin.
    unfold provided_or_error. rewrite Hpn.
    destruct user as [u|]; [destruct (rule_level_of (c_rules u) cat title)|]; reflexivity. }
  rewrite He. clear He.
  destruct user as [u|].
  - pose proof (decision_eq_spec_rego p (Some (Some (spec_user_level (Some u) cat title s_error))) cat title) as H.
    unfold entry_level_or_error in H. cbn [entry_level] in H. rewrite <- H. unfold impl_decision.
    destruct excluded; simpl; [rewrite andb_false_r; reflexivity|]. rewrite andb_true_r. reflexivity.
  - pose proof (decision_eq_spec_rego p None cat title) as H.
    unfold entry_level_or_error in H. cbn [entry_level] in H. cbn [spec_user_level]. rewrite <- H.
    unfold impl_decision.
    destruct excluded; simpl; [rewrite andb_false_r; reflexivity|]. rewrite andb_true_r. reflexivity.
Qed.

(* ------------------------------------------------------------------------------------------ *)
(* DetermineEnabledRules                                                                      *)

Lemma enabled_list_exact_gen provided user custom p bundled noticed clist t :
  user_wf user = true ->
  (forall c t', In (c, t') bundled -> rule_level_of provided c t' <> None) ->
  let merged := linter_config provided user custom in
  In t (determine_enabled_rules p merged bundled noticed clist) <->
  (exists c, In (c, t) bundled /\ builtin_can_report p merged c t false (noticed c t) = true) \/
  (exists c, In (c, t) clist /\ custom_can_report p merged c t false = true).
Proof.
  intros Hwf Hsub merged. unfold determine_enabled_rules. rewrite in_app_iff, !in_map_iff. split.
  - intros [[[c t'] [Ht Hin]]|[[c t'] [Ht Hin]]]; simpl in Ht; subst t';
      apply filter_In in Hin as [Hin Hf]; simpl in Hf.
    + left. exists c. split; [assumption|].
      unfold builtin_can_report, rules_to_run_has.
      apply andb_true_iff in Hf as [Hn Hi].
      assert (He : entry_of merged c t <> None).
      { unfold entry_of. subst merged. rewrite (linter_config_level _ _ _ _ _ Hwf). unfold has_entry.
        specialize (Hsub _ _ Hin). destruct (rule_level_of provided c t); [discriminate | contradiction]. }
      destruct (entry_of merged c t) eqn:E; [|contradiction].
      rewrite Hi, Hn. reflexivity.
    + right. exists c. split; [assumption|]. unfold custom_can_report. rewrite Hf. reflexivity.
  - intros [[c [Hin Hc]]|[c [Hin Hc]]].
    + left. exists (c, t). split; [reflexivity|]. apply filter_In. split; [assumption|]. simpl.
      unfold builtin_can_report, rules_to_run_has in Hc.
      destruct (entry_of merged c t) eqn:E; [|discriminate].
      apply andb_true_iff in Hc as [Hc Hn]. apply andb_true_iff in Hc as [Hi _].
      rewrite Hn, Hi. reflexivity.
    + right. exists (c, t). split; [reflexivity|]. apply filter_In. split; [assumption|]. simpl.
      unfold custom_can_report in Hc. rewrite andb_true_r in Hc. exact Hc.
Qed.

Lemma enabled_list_exact_lemma provided user custom p bundled noticed t :
  user_wf user = true ->
  (forall c t', In (c, t') bundled -> rule_level_of provided c t' <> None) ->
  let merged := linter_config provided user custom in
  In t (determine_enabled_rules p merged bundled noticed custom) <->
  (exists c, In (c, t) bundled /\ builtin_can_report p merged c t false (noticed c t) = true) \/
  (exists c, In (c, t) custom /\ custom_can_report p merged c t false = true).
Proof. apply enabled_list_exact_gen. Qed.

(* ------------------------------------------------------------------------------------------ *)
(* the behaviour pinned before the repairs (kept as regression witnesses)                     *)

Definition str_of_ascii_a : str := [97].

Example pinned_custom_rule_escapes_global_default :
  let user := mkConfig [([99], [([114], [])])] [] s_ignore in   (* rules: {default: ignore, c: {r: {}}} *)
  rule_level_of (load_config_pinned [] (Some user)) [99] [114] = Some [] /\
  rule_level_of (load_config [] (Some user)) [99] [114] = Some s_ignore.
Proof. vm_compute. split; reflexivity. Qed.

Example pinned_empty_category_default_hides_global :
  let provided := [([99], [([114], s_error)])] in
  let user := mkConfig [] [([99], [])] s_ignore in              (* rules: {default: ignore, c: {default: {}}} *)
  rule_level_of (load_config_pinned provided (Some user)) [99] [114] = Some s_error /\
  rule_level_of (load_config provided (Some user)) [99] [114] = Some s_ignore.
Proof. vm_compute. split; reflexivity. Qed.

Example pinned_enabled_list_omits_custom_rule :
  let custom := [([99], [114])] in
  let merged := linter_config [] None custom in
  custom_can_report no_params merged [99] [114] false = true /\
  determine_enabled_rules_pinned no_params merged [] (fun _ _ => false) = [] /\
  determine_enabled_rules no_params merged [] (fun _ _ => false) custom = [[114]].
Proof. vm_compute. repeat split. Qed.

(* witnesses against the pinned behaviour, used by Props/C04.v *)
Lemma go_levels_eq_chain_pinned_refuted_lemma :
  exists (provided : rules_map) (u : config) (cat title : str),
    rules_map_wf (c_rules u) = true /\
    rule_level_of provided cat title = Some s_error /\
    rule_level_of (load_config_pinned provided (Some u)) cat title = Some s_error /\
    spec_config_level (opt_str (rule_level_of (c_rules u) cat title))
                      (opt_str (assoc cat (c_cat_defaults u))) (c_global u) s_error = s_ignore.
Proof.
  exists [([99], [([114], s_error)])], (mkConfig [] [([99], [])] s_ignore), [99], [114].
  vm_compute. repeat split.
Qed.

Lemma custom_same_as_builtin_pinned_refuted_lemma :
  exists (user : config) (cat title : str),
    let merged := linter_config_pinned [] (Some user) in
    impl_decision (custom_can_report no_params merged cat title false)
                  (violation_level no_params merged cat title) = On s_error /\
    spec_decision no_params cat title (spec_user_level (Some user) cat title s_error) = Off.
Proof.
  exists (mkConfig [] [] s_ignore), [99], [114]. vm_compute. split; reflexivity.
Qed.

Lemma enabled_list_exact_pinned_refuted_lemma :
  exists (custom : list (str * str)) (c t : str),
    let merged := linter_config [] None custom in
    In (c, t) custom /\ custom_can_report no_params merged c t false = true /\
    ~ In t (determine_enabled_rules_pinned no_params merged [] (fun _ _ => false)).
Proof.
  exists [([99], [114])], [99], [114]. simpl. split; [left; reflexivity|]. split; [reflexivity|]. intros [].
Qed.

(* command line flags override whatever the configuration file says *)
Lemma cli_overrides_config p cat title e e' :
  spec_cli p cat title <> None ->
  ignored_rule p e cat title = ignored_rule p e' cat title /\
  level_for_rule p e cat title = level_for_rule p e' cat title.
Proof.
  intros Hc.
  pose proof (decision_eq_spec_rego p e cat title) as H1.
  pose proof (decision_eq_spec_rego p e' cat title) as H2.
  unfold spec_decision in H1, H2. destruct (spec_cli p cat title) as [d|]; [|contradiction].
  unfold impl_decision in H1, H2.
  pose proof (level_ignore_iff_ignored p e cat title) as L1.
  pose proof (level_ignore_iff_ignored p e' cat title) as L2.
  destruct (ignored_rule p e cat title) eqn:I1; destruct (ignored_rule p e' cat title) eqn:I2; simpl in H1, H2.
  - split; [reflexivity|]. rewrite (proj2 L1 eq_refl), (proj2 L2 eq_refl). reflexivity.
  - congruence.
  - congruence.
  - split; [reflexivity|]. congruence.
Qed.

(* ------------------------------------------------------------------------------------------ *)
(* the three entry points of main.rego (report / aggregate / aggregate_report)                  *)

(* a rule that ignored_rule says is off is never evaluated: no entry point, bundled or custom,
   whatever file, notices or supplied aggregates *)
Lemma ignored_rule_never_fires custom b p merged cat title excluded noticed supplied :
  ignored_rule p (entry_of merged cat title) cat title = true ->
  branch_gate custom b p merged cat title excluded noticed supplied = false.
Proof.
  intros Hi.
  unfold branch_gate, builtin_can_report, builtin_can_aggregate, builtin_can_aggregate_report,
    custom_can_report, custom_can_aggregate, custom_can_aggregate_report, rules_to_run_has.
  rewrite Hi.
  destruct custom, b, (entry_of merged cat title), supplied, excluded, noticed; reflexivity.
Qed.

(* for a file that is not excluded, a rule without notices and with its key among the supplied
   aggregates, the three entry points are gated alike *)
Lemma branch_gates_agree custom b p merged cat title :
  branch_gate custom b p merged cat title false false true
  = branch_gate custom BReport p merged cat title false false true.
Proof.
  unfold branch_gate, builtin_can_report, builtin_can_aggregate, builtin_can_aggregate_report,
    custom_can_report, custom_can_aggregate, custom_can_aggregate_report.
  destruct custom, b; simpl; rewrite ?andb_true_r; reflexivity.
Qed.

(* a custom aggregate_report never runs for a rule whose key is not among the supplied aggregates,
   and with the key supplied it runs exactly when the rule's `aggregate` may run *)
Lemma custom_aggregate_report_gate p merged cat title excluded supplied :
  custom_can_aggregate_report p merged cat title excluded supplied
  = supplied && custom_can_aggregate p merged cat title excluded.
Proof.
  unfold custom_can_aggregate_report, custom_can_aggregate. rewrite andb_assoc. reflexivity.
Qed.
