(* Proofs about Model/ConfigMerge.v: what LoadConfigWithDefaultsFromBundle (mergo merge +
   restoreProvidedRuleOptions + extractUserRuleLevels) does to every rule, option, level, ignore
   list and top-level key, and what survives MarshalYAML followed by UnmarshalYAML. *)
From Coq Require Import Lia.
From Regal Require Import Base.Str Model.ConfigMerge Gen.ProvidedConfig.
Local Open Scope N_scope.

(* ---------------- association lists ---------------- *)

Lemma str_eqb_sym a b : str_eqb a b = str_eqb b a.
Proof.
  destruct (str_eqb_spec a b) as [->|H]; [symmetry; apply str_eqb_refl|].
  destruct (str_eqb_spec b a) as [->|]; [contradiction | reflexivity].
Qed.

Lemma aget_aset {A} (m : list (str * A)) k v k' :
  aget (aset m k v) k' = if str_eqb k k' then Some v else aget m k'.
Proof.
  induction m as [|[k0 v0] m IH]; simpl.
  - reflexivity.
  - destruct (str_eqb_spec k0 k) as [->|Hne]; simpl.
    + destruct (str_eqb k k'); reflexivity.
    + rewrite IH. destruct (str_eqb_spec k0 k') as [->|Hne'].
      * destruct (str_eqb_spec k k') as [->|]; [contradiction | reflexivity].
      * reflexivity.
Qed.

Lemma aget_none_notin {A} (m : list (str * A)) k : aget m k = None <-> str_in k (keys m) = false.
Proof.
  induction m as [|[k0 v0] m IH]; simpl; [tauto|].
  rewrite (str_eqb_sym k k0). destruct (str_eqb k0 k); simpl; [split; discriminate | exact IH].
Qed.

Lemma aget_some_in {A} (m : list (str * A)) k v : aget m k = Some v -> str_in k (keys m) = true.
Proof.
  intros H. destruct (str_in k (keys m)) eqn:E; [reflexivity|].
  apply aget_none_notin in E. congruence.
Qed.

Lemma aget_in {A} (m : list (str * A)) k v :
  distinct (keys m) = true -> In (k, v) m -> aget m k = Some v.
Proof.
  induction m as [|[k0 v0] m IH]; simpl; [tauto|].
  intros Hd [H|H].
  - injection H as -> ->. rewrite str_eqb_refl. reflexivity.
  - apply andb_true_iff in Hd. destruct Hd as [Hn Hd].
    destruct (str_eqb_spec k0 k) as [->|Hne].
    + exfalso. apply negb_true_iff in Hn. apply aget_none_notin in Hn.
      rewrite (IH Hd H) in Hn. discriminate.
    + apply IH; assumption.
Qed.

Lemma aget_acopy {A} (src dst : list (str * A)) k :
  distinct (keys src) = true ->
  aget (acopy dst src) k = match aget src k with Some v => Some v | None => aget dst k end.
Proof.
  unfold acopy. revert dst. induction src as [|[k0 v0] src IH]; intros dst Hd.
  - reflexivity.
  - change (distinct (k0 :: keys src) = true) in Hd. cbn [distinct] in Hd.
    apply andb_true_iff in Hd. destruct Hd as [Hn Hd].
    cbn [fold_left fst snd aget]. rewrite IH by assumption.
    destruct (str_eqb_spec k0 k) as [->|Hne].
    + apply negb_true_iff in Hn. apply aget_none_notin in Hn. rewrite Hn.
      rewrite aget_aset, str_eqb_refl. reflexivity.
    + destruct (aget src k); [reflexivity|]. rewrite aget_aset.
      destruct (str_eqb_spec k0 k); [contradiction | reflexivity].
Qed.

Lemma aget_map_val {A B} (g : str -> A -> B) (m : list (str * A)) k :
  aget (map (fun kv => (fst kv, g (fst kv) (snd kv))) m) k = option_map (g k) (aget m k).
Proof.
  induction m as [|[k0 v0] m IH]; simpl; [reflexivity|].
  destruct (str_eqb_spec k0 k) as [->|]; [reflexivity | exact IH].
Qed.

Lemma keys_map_val {A B} (g : str -> A -> B) (m : list (str * A)) :
  keys (map (fun kv => (fst kv, g (fst kv) (snd kv))) m) = keys m.
Proof. unfold keys. rewrite map_map. reflexivity. Qed.

(* ---------------- rules through the three passes ---------------- *)

Lemma get_rule_map_rules f rs cat name :
  match aget (map_rules f rs) cat with Some c => aget c name | None => None end =
  option_map (f cat name) (match aget rs cat with Some c => aget c name | None => None end).
Proof.
  unfold map_rules. induction rs as [|[k0 c0] rs IH]; [reflexivity|].
  cbn [map fst snd aget]. destruct (str_eqb_spec k0 cat) as [->|]; [|exact IH].
  clear IH. induction c0 as [|[n0 r0] c0 IH]; [reflexivity|].
  cbn [map fst snd aget]. destruct (str_eqb_spec n0 name) as [->|]; [reflexivity | exact IH].
Qed.

Lemma merge_rules_get src : forall dst cat,
  distinct (keys src) = true ->
  aget (merge_rules dst src) cat =
  match aget src cat with
  | None => aget dst cat
  | Some scat => Some (match aget dst cat with None => scat | Some dcat => merge_struct_map dcat scat end)
  end.
Proof.
  unfold merge_rules, category. induction src as [|[k v] src IH]; intros dst cat Hd.
  - reflexivity.
  - change (distinct (k :: keys src) = true) in Hd. cbn [distinct] in Hd.
    apply andb_true_iff in Hd. destruct Hd as [Hn Hd].
    cbn [fold_left fst snd aget]. rewrite IH by assumption.
    destruct (str_eqb_spec k cat) as [->|Hne].
    + apply negb_true_iff in Hn. apply aget_none_notin in Hn. unfold category in *. rewrite Hn.
      destruct (aget dst cat) as [dcat|]; rewrite aget_aset, str_eqb_refl; reflexivity.
    + assert (E : forall x, aget (aset dst k x) cat = aget dst cat).
      { intros x. rewrite aget_aset. destruct (str_eqb_spec k cat); [contradiction | reflexivity]. }
      destruct (aget dst k); rewrite E; reflexivity.
Qed.

(* a rule of the merged configuration is the user's when the user has it, else the provided one *)
Lemma merged_rule p u cat name :
  config_wf u = true ->
  get_rule (merge_config p u) cat name =
  match get_rule u cat name with Some r => Some r | None => get_rule p cat name end.
Proof.
  intros Hu. unfold config_wf, rules_wf in Hu.
  apply andb_true_iff in Hu. destruct Hu as [Hu _]. apply andb_true_iff in Hu. destruct Hu as [Hk Hc].
  unfold get_rule. cbn [merge_config c_rules]. rewrite merge_rules_get by assumption.
  destruct (aget (c_rules u) cat) as [ucat|] eqn:Eu; [|reflexivity].
  assert (Hdc : distinct (keys ucat) = true).
  { rewrite forallb_forall in Hc.
    assert (Hin : In (cat, ucat) (c_rules u)).
    { clear -Eu. induction (c_rules u) as [|[k0 v0] m IH]; simpl in *; [discriminate|].
      destruct (str_eqb_spec k0 cat) as [->|]; [injection Eu as ->; left; reflexivity | right; auto]. }
    specialize (Hc _ Hin). cbn [snd] in Hc. apply andb_true_iff in Hc. tauto. }
  destruct (aget (c_rules p) cat) as [pcat|]; cbn.
  - unfold merge_struct_map. rewrite aget_acopy by assumption. reflexivity.
  - destruct (aget ucat name); reflexivity.
Qed.

Definition relevel (u m : config) (plevels : list (str * str)) (cat name : str) (r : rule) : rule :=
  {| r_level := select_level u m cat name
                  (match aget plevels name with Some l => l | None => ERROR end);
     r_ignore := r_ignore r; r_extra := r_extra r |}.

(* the merged-and-completed configuration handed to the level pass *)
Definition pre_levels (p u : config) (dcaps : caps) : config :=
  with_default_caps dcaps (restore_options p u (merge_config p u)).

(* every rule of the loaded configuration *)
Lemma load_rule p u dcaps cat name :
  config_wf u = true ->
  get_rule (load p (Some u) dcaps) cat name =
  option_map (relevel u (pre_levels p u dcaps) (provided_levels p) cat name)
    (match get_rule u cat name, get_rule p cat name with
     | Some ur, Some pr => Some (complete_rule pr ur)
     | Some ur, None => Some ur
     | None, Some pr => Some pr
     | None, None => None
     end).
Proof.
  intros Hu. unfold load. fold (pre_levels p u dcaps).
  unfold get_rule at 1. cbn [extract_levels c_rules].
  rewrite get_rule_map_rules.
  change (relevel u (pre_levels p u dcaps) (provided_levels p) cat name)
    with ((fun cat name r => relevel u (pre_levels p u dcaps) (provided_levels p) cat name r) cat name).
  f_equal.
  unfold pre_levels. cbn [with_default_caps restore_options c_rules].
  rewrite get_rule_map_rules.
  pose proof (merged_rule p u cat name Hu) as Hm. unfold get_rule in Hm at 1. rewrite Hm.
  unfold in_user.
  destruct (get_rule u cat name) as [ur|]; destruct (get_rule p cat name) as [pr|]; reflexivity.
Qed.

(* ---------------- provided levels ---------------- *)

Lemma get_rule_in c cat name r :
  get_rule c cat name = Some r ->
  exists rs, In (cat, rs) (c_rules c) /\ In (name, r) rs.
Proof.
  unfold get_rule. intros H.
  assert (G : forall {A} (m : list (str * A)) k v, aget m k = Some v -> In (k, v) m).
  { intros A m k v. induction m as [|[k0 v0] m IH]; simpl; [discriminate|].
    destruct (str_eqb_spec k0 k) as [->|]; [intros [= ->]; left; reflexivity | right; auto]. }
  destruct (aget (c_rules c) cat) as [rs|] eqn:E; [|discriminate].
  exists rs. split; apply G; assumption.
Qed.

Lemma provided_level_of p cat name r :
  distinct (keys (provided_levels p)) = true ->
  get_rule p cat name = Some r ->
  aget (provided_levels p) name = Some (r_level r).
Proof.
  intros Hd H. apply aget_in; [assumption|].
  destruct (get_rule_in _ _ _ _ H) as (rs & H1 & H2).
  unfold provided_levels. apply in_flat_map. exists (cat, rs). split; [assumption|].
  cbn [snd]. apply in_map_iff. exists (name, r). split; [reflexivity | assumption].
Qed.

Lemma pre_levels_defaults p u dcaps :
  provided_plain p ->
  c_defaults (pre_levels p u dcaps) =
  {| d_global := d_global (c_defaults u); d_cats := acopy [] (d_cats (c_defaults u)) |}.
Proof.
  intros [Hd _]. unfold pre_levels. cbn. rewrite Hd. cbn.
  unfold merge_defaults, merge_struct_map, over_str. cbn.
  destruct (d_global (c_defaults u)); reflexivity.
Qed.

Lemma select_level_chain p u dcaps cat name pl :
  provided_plain p -> config_wf u = true ->
  select_level u (pre_levels p u dcaps) cat name pl =
  first_set [user_rule_level u cat name; user_cat_default u cat; user_global_default u] pl.
Proof.
  intros Hp Hu. unfold select_level. rewrite (pre_levels_defaults p u dcaps Hp). cbn [d_cats d_global].
  unfold config_wf in Hu. apply andb_true_iff in Hu. destruct Hu as [_ Hdc].
  rewrite aget_acopy by assumption. cbn [aget].
  unfold first_set, user_rule_level, user_cat_default, user_global_default.
  destruct (aget (d_cats (c_defaults u)) cat); reflexivity.
Qed.

(* ---------------- merge_only_overrides ---------------- *)

Lemma rule_wf_of u cat name r :
  config_wf u = true -> get_rule u cat name = Some r -> rule_wf r = true.
Proof.
  intros Hu H. destruct (get_rule_in _ _ _ _ H) as (rs & H1 & H2).
  unfold config_wf, rules_wf in Hu. apply andb_true_iff in Hu. destruct Hu as [Hu _].
  apply andb_true_iff in Hu. destruct Hu as [_ Hc]. rewrite forallb_forall in Hc.
  specialize (Hc _ H1). cbn [snd] in Hc. apply andb_true_iff in Hc. destruct Hc as [_ Hc].
  rewrite forallb_forall in Hc. exact (Hc _ H2).
Qed.

Lemma rule_wf_distinct r : rule_wf r = true -> distinct (keys (r_extra r)) = true.
Proof. unfold rule_wf. intros H. apply andb_true_iff in H. destruct H as [H _]. apply andb_true_iff in H. tauto. Qed.

Theorem merge_only_overrides (p u : config) (dcaps : caps) :
  provided_wf p = true -> provided_plain p -> config_wf u = true ->
  let m := load p (Some u) dcaps in
  (* every provided rule is still there *)
  (forall cat name, get_rule p cat name <> None -> get_rule m cat name <> None) /\
  (* an option the user did not write keeps its provided value (or stays absent) *)
  (forall cat name opt, get_option u cat name opt = None ->
     get_option m cat name opt = get_option p cat name opt) /\
  (* a per-rule ignore list the user did not write keeps its provided value *)
  (forall cat name, get_rule_ignore u cat name = None ->
     get_rule_ignore m cat name = get_rule_ignore p cat name) /\
  (* a level stays the provided one unless the user wrote a level for the rule, a default level
     for its category or a global default level *)
  (forall cat name pr, get_rule p cat name = Some pr ->
     user_rule_level u cat name = [] -> user_cat_default u cat = [] -> user_global_default u = [] ->
     get_level m cat name = Some (r_level pr)) /\
  (* top-level keys *)
  (c_ignore u = [] -> c_ignore m = c_ignore p) /\
  (c_project u = None -> c_project m = c_project p) /\
  (c_features u = None -> c_features m = c_features p) /\
  (c_caps_url u = [] -> c_caps_url m = c_caps_url p) /\
  (c_caps u = None -> c_caps m = Some dcaps).
Proof.
  intros Hpw Hpp Hu m. unfold provided_wf in Hpw. apply andb_true_iff in Hpw. destruct Hpw as [Hpc Hpl].
  repeat split.
  - intros cat name Hp. unfold m. rewrite load_rule by assumption.
    destruct (get_rule u cat name); destruct (get_rule p cat name); try discriminate; congruence.
  - intros cat name opt Ho. unfold m, get_option in *. rewrite load_rule by assumption.
    destruct (get_rule u cat name) as [ur|] eqn:Eu; destruct (get_rule p cat name) as [pr|] eqn:Ep; cbn.
    + rewrite aget_acopy by (apply rule_wf_distinct; eapply rule_wf_of; eassumption). rewrite Ho. reflexivity.
    + exact Ho.
    + reflexivity.
    + reflexivity.
  - intros cat name Hi. unfold m, get_rule_ignore in *. rewrite load_rule by assumption.
    destruct (get_rule u cat name) as [ur|]; destruct (get_rule p cat name) as [pr|]; cbn.
    + rewrite Hi. reflexivity.
    + exact Hi.
    + reflexivity.
    + reflexivity.
  - intros cat name pr Hp H1 H2 H3. unfold m, get_level. rewrite load_rule by assumption. rewrite Hp.
    assert (L : forall r, r_level (relevel u (pre_levels p u dcaps) (provided_levels p) cat name r) = r_level pr).
    { intros r. cbn. rewrite (provided_level_of p cat name pr Hpl Hp).
      rewrite select_level_chain by assumption. cbn. rewrite H1, H2, H3. reflexivity. }
    destruct (get_rule u cat name); cbn [option_map]; rewrite L; reflexivity.
  - intros H. unfold m. cbn. rewrite H. reflexivity.
  - intros H. unfold m. cbn. rewrite H. reflexivity.
  - intros H. unfold m. cbn. rewrite H. reflexivity.
  - intros H. unfold m. cbn. rewrite H. reflexivity.
  - intros H. unfold m. cbn. destruct Hpp as [_ Hc]. rewrite Hc, H. reflexivity.
Qed.

(* what the user wrote is what the loaded configuration says *)
Theorem merge_user_wins (p u : config) (dcaps : caps) :
  provided_wf p = true -> provided_plain p -> config_wf u = true ->
  let m := load p (Some u) dcaps in
  (forall cat name opt v, get_option u cat name opt = Some v -> get_option m cat name opt = Some v) /\
  (forall cat name fs, get_rule_ignore u cat name = Some fs -> get_rule_ignore m cat name = Some fs) /\
  (* the level of EVERY rule of the loaded configuration: the user's level for the rule, else the
     user's default for the category, else the user's global default, else the provided level of a
     rule of that name, else "error" *)
  (forall cat name, get_rule m cat name <> None ->
     get_level m cat name =
     Some (first_set [user_rule_level u cat name; user_cat_default u cat; user_global_default u]
                     (match aget (provided_levels p) name with Some l => l | None => ERROR end))).
Proof.
  intros Hpw Hpp Hu m. repeat split.
  - intros cat name opt v Ho. unfold m, get_option in *. rewrite load_rule by assumption.
    destruct (get_rule u cat name) as [ur|] eqn:Eu; [|discriminate].
    destruct (get_rule p cat name) as [pr|]; cbn.
    + rewrite aget_acopy by (apply rule_wf_distinct; eapply rule_wf_of; eassumption). rewrite Ho. reflexivity.
    + exact Ho.
  - intros cat name fs Hi. unfold m, get_rule_ignore in *. rewrite load_rule by assumption.
    destruct (get_rule u cat name) as [ur|]; [|discriminate].
    destruct (get_rule p cat name) as [pr|]; cbn; [rewrite Hi; reflexivity | exact Hi].
  - intros cat name Hm. unfold m, get_level in *. rewrite load_rule in * by assumption.
    destruct (get_rule u cat name); destruct (get_rule p cat name); cbn in *;
      try (rewrite select_level_chain by assumption; reflexivity).
    exfalso; apply Hm; reflexivity.
Qed.

(* the code as it was at the pinned commit: mergo replaced the map-held rule struct as a whole,
   so setting one option of a rule dropped the provided values of the rule's other options *)
Definition RL := [114; 117; 108; 101; 45; 108; 101; 110; 103; 116; 104].           (* rule-length *)
Definition STYLE := [115; 116; 121; 108; 101].
Definition MAXLEN := [109; 97; 120; 45; 114; 117; 108; 101; 45; 108; 101; 110; 103; 116; 104]. (* max-rule-length *)
Definition COUNTC := [99; 111; 117; 110; 116; 45; 99; 111; 109; 109; 101; 110; 116; 115].   (* count-comments *)

Definition empty_config : config :=
  {| c_defaults := {| d_global := []; d_cats := [] |}; c_rules := []; c_caps := None;
     c_features := None; c_project := None; c_caps_url := []; c_ignore := [] |}.

Definition with_rules (rs : list (str * category)) : config :=
  {| c_defaults := {| d_global := []; d_cats := [] |}; c_rules := rs; c_caps := None;
     c_features := None; c_project := None; c_caps_url := []; c_ignore := [] |}.

Definition witness_provided : config :=
  with_rules [(STYLE, [(RL, {| r_level := ERROR; r_ignore := None;
                               r_extra := [(COUNTC, JBool false); (MAXLEN, JNum 30)] |})])].
Definition witness_user : config :=
  with_rules [(STYLE, [(RL, {| r_level := []; r_ignore := None; r_extra := [(MAXLEN, JNum 10)] |})])].

Theorem merge_only_overrides_pinned_refuted :
  exists p u dcaps cat name opt,
    provided_wf p = true /\ provided_plain p /\ config_wf u = true /\
    get_option u cat name opt = None /\
    get_option (load_pinned p (Some u) dcaps) cat name opt <> get_option p cat name opt.
Proof.
  exists witness_provided, witness_user, [], STYLE, RL, COUNTC.
  repeat split; vm_compute; discriminate.
Qed.

(* the same inputs through the repaired code *)
Example merge_witness_repaired :
  get_option (load witness_provided (Some witness_user) []) STYLE RL COUNTC = Some (JBool false) /\
  get_option (load witness_provided (Some witness_user) []) STYLE RL MAXLEN = Some (JNum 10).
Proof. split; vm_compute; reflexivity. Qed.

(* the provided configuration of the current tree (Gen/ProvidedConfig.v) meets the hypotheses *)
Lemma provided_config_wf : provided_wf provided_config = true.
Proof. vm_compute. reflexivity. Qed.

Lemma provided_config_plain : provided_plain provided_config /\ provided_has_capabilities = false.
Proof. repeat split. Qed.

Theorem merge_only_overrides_provided (u : config) (dcaps : caps) :
  config_wf u = true ->
  let m := load provided_config (Some u) dcaps in
  (forall cat name, get_rule provided_config cat name <> None -> get_rule m cat name <> None) /\
  (forall cat name opt, get_option u cat name opt = None ->
     get_option m cat name opt = get_option provided_config cat name opt) /\
  (forall cat name, get_rule_ignore u cat name = None ->
     get_rule_ignore m cat name = get_rule_ignore provided_config cat name) /\
  (forall cat name pr, get_rule provided_config cat name = Some pr ->
     user_rule_level u cat name = [] -> user_cat_default u cat = [] -> user_global_default u = [] ->
     get_level m cat name = Some (r_level pr)).
Proof.
  intros Hu m.
  destruct (merge_only_overrides provided_config u dcaps provided_config_wf (proj1 provided_config_plain) Hu)
    as (A & B & C & D & _).
  repeat split; assumption.
Qed.
