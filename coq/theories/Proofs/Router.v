(* C02 — proofs about Model/Router.v: per-file verdicts compose when every rule the router runs
   ignores the "collect" operation (per rule, up to the order of its findings) and reports in its
   own file; and a router (or rule) that looks at the operation breaks composition. *)
From Coq Require Import List Permutation Lia Arith Bool.
From Regal Require Import Model.Discover Model.Router Proofs.Sched Proofs.Discover.
Import ListNotations.
Local Open Scope nat_scope.

Lemma flat_map_perm_pointwise {X Y} (g h : X -> list Y) (l : list X) :
  (forall x, In x l -> Permutation (g x) (h x)) -> Permutation (flat_map g l) (flat_map h l).
Proof.
  induction l as [ | x l IH]; cbn; intros H; [constructor | ].
  apply Permutation_app; [apply H; left; reflexivity | apply IH; intros y Hy; apply H; right; exact Hy].
Qed.

(* ---------------------------------------------------------------- composition, up to order *)
Section ComposePerm.
  Variable res : str -> bool -> result.
  Variable aggreport : amap -> dmap -> list viol.
  Hypothesis H_opsP : forall f b, Permutation (r_viol (res f b)) (r_viol (res f false)).
  Hypothesis H_loc : forall f b v, In v (r_viol (res f b)) -> v_file v = f.

  (* needs H_loc only: what a run over [names] says about f is what the lint query said for f *)
  Lemma filter_file_flat_loc b f names : NoDup names -> In f names ->
    filter (of_file f) (flat_map (fun g => r_viol (res g b)) names) = r_viol (res f b).
  Proof.
    induction names as [ | g names IH]; intros Hnd Hin; [destruct Hin | ].
    inversion Hnd as [ | ? ? Hn Hnd']; subst. cbn [flat_map]. rewrite filter_app.
    destruct Hin as [-> | Hin].
    - rewrite filter_all.
      + rewrite (filter_none (of_file f) (flat_map _ names)).
        * apply app_nil_r.
        * intros v Hv. apply in_flat_map in Hv. destruct Hv as (h & Hh & Hv).
          unfold of_file. rewrite (H_loc _ _ _ Hv). destruct (str_eqb_spec h f) as [-> | ]; [contradiction | reflexivity].
      + intros v Hv. unfold of_file. rewrite (H_loc _ _ _ Hv). apply str_eqb_refl.
    - rewrite filter_none.
      + cbn. apply IH; assumption.
      + intros v Hv. unfold of_file. rewrite (H_loc _ _ _ Hv).
        destruct (str_eqb_spec g f) as [-> | ]; [contradiction | reflexivity].
  Qed.

  Theorem single_file_compose_perm (names : list str) (f : str) (merged : list result) :
    NoDup names -> In f names ->
    Permutation merged (map (fun g => res g (collect_flag false (length names))) names) ->
    Permutation
      (filter (of_file f) (f_viol (finalize aggreport None [] (length names) (fold_left merge merged empty_report))))
      (f_viol (lint_names res aggreport [f])).
  Proof.
    intros Hnd Hin Hp.
    assert (E1 : f_viol (lint_names res aggreport [f]) = r_viol (res f false)).
    { unfold lint_names, lint_seq, finalize; cbn. reflexivity. }
    rewrite E1. unfold finalize; cbn [f_viol]. rewrite fold_merge_V. cbn [V empty_report app].
    eapply Permutation_trans; [ | apply (H_opsP f (collect_flag false (length names)))].
    rewrite <- (filter_file_flat_loc (collect_flag false (length names)) f names Hnd Hin).
    apply Permutation_filter'. eapply Permutation_trans; [apply Permutation_flat_map'; exact Hp | ].
    rewrite flat_map_concat_map, map_map, <- flat_map_concat_map. apply Permutation_refl.
  Qed.
End ComposePerm.

(* ---------------------------------------------------------------- the router *)
Section RouterProofs.
  Variable rules : str -> list str.
  Variable body : str -> str -> bool -> list viol.
  Variable ignored : str -> viol -> bool.
  Variable rest : str -> bool -> result.
  Variable aggreport : amap -> dmap -> list viol.

  (* H_ops, rule by rule: the findings of a rule's [report] for a file are the same (as a multiset)
     whether or not "collect" is among input.regal.operations *)
  Hypothesis H_ops : forall f r, In r (rules f) -> Permutation (body r f true) (body r f false).
  (* H_loc: a rule reports locations in the file it was given *)
  Hypothesis H_loc : forall f r b v, In r (rules f) -> In v (body r f b) -> v_file v = f.

  Notation res := (router_res rules body ignored rest).

  Lemma router_ops f b : Permutation (r_viol (res f b)) (r_viol (res f false)).
  Proof.
    destruct b; [ | apply Permutation_refl]. cbn [router_res r_viol]. unfold router_report.
    apply flat_map_perm_pointwise. intros r Hr. apply Permutation_filter'. apply H_ops. exact Hr.
  Qed.

  Lemma router_loc f b v : In v (r_viol (res f b)) -> v_file v = f.
  Proof.
    cbn [router_res r_viol]. unfold router_report. intros Hv. apply in_flat_map in Hv.
    destruct Hv as (r & Hr & Hv). apply filter_In in Hv. destruct Hv as [Hv _].
    exact (H_loc f r b v Hr Hv).
  Qed.

  Theorem router_single_file_compose (names : list str) (f : str) (merged : list result) :
    NoDup names -> In f names ->
    Permutation merged (map (fun g => res g (collect_flag false (length names))) names) ->
    Permutation
      (filter (of_file f) (f_viol (finalize aggreport None [] (length names) (fold_left merge merged empty_report))))
      (f_viol (lint_names res aggreport [f])).
  Proof. apply single_file_compose_perm; [exact router_ops | exact router_loc]. Qed.
End RouterProofs.

(* ---------------------------------------------------------------- H_ops is necessary *)
(* two files; one rule "r" that also defines [aggregate] and reports one finding per file; the
   router of the seeded change skips it when collecting.  H_loc holds, composition fails. *)
Definition ex_rule : str := [114%N].
Definition ex_f1 : str := [97%N].
Definition ex_f2 : str := [98%N].
Definition ex_body (r f : str) (collect : bool) : list viol := [{| v_file := f; v_key := r |}].
Definition ex_skip_body := skip_when_collecting (fun _ => true) ex_body.
Definition ex_rest (f : str) (collect : bool) : result :=
  {| r_viol := []; r_notices := []; r_aggs := []; r_dirs := [] |}.

Lemma compose_needs_ops_independence :
  let res := router_res (fun _ => [ex_rule]) ex_skip_body (fun _ _ => false) ex_rest in
  (forall f r b v, In r [ex_rule] -> In v (ex_skip_body r f b) -> v_file v = f) /\
  ~ Permutation (ex_skip_body ex_rule ex_f1 true) (ex_skip_body ex_rule ex_f1 false) /\
  NoDup [ex_f1; ex_f2] /\
  ~ Permutation
      (filter (of_file ex_f1) (f_viol (lint_names res (fun _ _ => []) [ex_f1; ex_f2])))
      (f_viol (lint_names res (fun _ _ => []) [ex_f1])).
Proof.
  cbn zeta. repeat split.
  - intros f r b v _ Hv. unfold ex_skip_body, skip_when_collecting, ex_body in Hv.
    destruct (b && true); cbn in Hv; [destruct Hv | ]. destruct Hv as [<- | []]. reflexivity.
  - vm_compute. intros H. apply Permutation_nil in H. discriminate H.
  - repeat constructor; cbn; intuition discriminate.
  - vm_compute. intros H. apply Permutation_nil in H. discriminate H.
Qed.

(* the hypotheses of router_single_file_compose are satisfiable by a non-trivial router *)
Lemma router_hypotheses_satisfiable :
  (forall f r, In r [ex_rule] -> Permutation (ex_body r f true) (ex_body r f false)) /\
  (forall f r b v, In r [ex_rule] -> In v (ex_body r f b) -> v_file v = f) /\
  router_report (fun _ => [ex_rule]) ex_body (fun _ _ => false) ex_f1 true = [{| v_file := ex_f1; v_key := ex_rule |}].
Proof.
  repeat split.
  - intros; apply Permutation_refl.
  - intros f r b v _ [<- | []]. reflexivity.
Qed.
