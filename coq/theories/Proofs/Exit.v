(* Proofs about Model/Exit.v: the exit status as a function of the report and --fail-level. *)
From Regal Require Import Model.ReportData Model.Exit.
From Coq Require Import Lia.
Local Open Scope N_scope.


Lemma levels_distinct : L_ERROR <> L_WARNING.
Proof. discriminate. Qed.

Definition count_lvl (lvl : str) (vs : list violation) : N :=
  N.of_nat (List.length (filter (fun v => str_eqb (v_level v) lvl) vs)).

Lemma tally_fold vs : forall e w,
  fold_left tally_step vs (e, w) = (e + count_lvl L_ERROR vs, w + count_lvl L_WARNING vs).
Proof.
  unfold count_lvl.
  induction vs as [|v vs IH]; intros e w; cbn [fold_left filter List.length].
  - rewrite !N.add_0_r. reflexivity.
  - unfold tally_step at 2.
    destruct (str_eqb (v_level v) L_ERROR) eqn:He.
    + apply str_eqb_eq in He.
      assert (Hw : str_eqb (v_level v) L_WARNING = false).
      { destruct (str_eqb (v_level v) L_WARNING) eqn:Hw; [|reflexivity].
        apply str_eqb_eq in Hw. rewrite He in Hw. discriminate. }
      rewrite Hw, IH. cbn [List.length]. f_equal; lia.
    + destruct (str_eqb (v_level v) L_WARNING) eqn:Hw; rewrite IH; cbn [List.length]; f_equal; lia.
Qed.

Lemma tally_counts vs : tally vs = (count_lvl L_ERROR vs, count_lvl L_WARNING vs).
Proof. unfold tally. rewrite tally_fold. reflexivity. Qed.

Lemma count_pos lvl r : 0 <? count_lvl lvl (r_violations r) = true <-> has_level lvl r.
Proof.
  unfold count_lvl, has_level. rewrite N.ltb_lt. split.
  - intros H. destruct (filter (fun v => str_eqb (v_level v) lvl) (r_violations r)) as [|v l] eqn:E.
    + cbn in H. lia.
    + assert (Hin : In v (filter (fun v => str_eqb (v_level v) lvl) (r_violations r))) by (rewrite E; left; reflexivity).
      apply filter_In in Hin. destruct Hin as [Hin Hl]. exists v. split; [assumption | apply str_eqb_eq; assumption].
  - intros [v [Hin Hl]].
    assert (Hf : In v (filter (fun v => str_eqb (v_level v) lvl) (r_violations r))).
    { apply filter_In. split; [assumption | apply str_eqb_eq; assumption]. }
    destruct (filter (fun v => str_eqb (v_level v) lvl) (r_violations r)); [contradiction | cbn; lia].
Qed.

Lemma count_zero lvl r : 0 <? count_lvl lvl (r_violations r) = false <-> ~ has_level lvl r.
Proof.
  rewrite <- count_pos. destruct (0 <? count_lvl lvl (r_violations r)); split; intros H; congruence.
Qed.

(* the decision table of RunE, for the two fail levels the flag documents *)
Lemma exit_code_done fl r :
  fl = L_ERROR \/ fl = L_WARNING ->
  exit_code fl (LintDone r) =
    if 0 <? count_lvl L_ERROR (r_violations r) then 3
    else if str_eqb fl L_WARNING && (0 <? count_lvl L_WARNING (r_violations r)) then 2
    else 0.
Proof.
  intros Hfl. unfold exit_code, lint_run_e. rewrite tally_counts.
  destruct Hfl as [-> | ->];
    destruct (0 <? count_lvl L_ERROR (r_violations r));
    destruct (0 <? count_lvl L_WARNING (r_violations r)); reflexivity.
Qed.

Theorem exit_code_spec_proof : forall fl res,
  fl = L_ERROR \/ fl = L_WARNING ->
  (exit_code fl res = 1 <-> res = LintFailed) /\
  (forall r, res = LintDone r ->
     (exit_code fl res = 3 <-> has_level L_ERROR r) /\
     (exit_code fl res = 2 <-> fl = L_WARNING /\ ~ has_level L_ERROR r /\ has_level L_WARNING r) /\
     (exit_code fl res = 0 <-> ~ has_level L_ERROR r /\ (fl = L_WARNING -> ~ has_level L_WARNING r))).
Proof.
  intros fl res Hfl. split.
  - destruct res as [|r].
    + split; reflexivity.
    + rewrite exit_code_done by assumption.
      destruct (0 <? count_lvl L_ERROR (r_violations r));
        destruct (str_eqb fl L_WARNING && (0 <? count_lvl L_WARNING (r_violations r)));
        split; intros H; discriminate.
  - intros r ->. rewrite exit_code_done by assumption.
    pose proof (count_pos L_ERROR r) as PE. pose proof (count_zero L_ERROR r) as ZE.
    pose proof (count_pos L_WARNING r) as PW. pose proof (count_zero L_WARNING r) as ZW.
    pose proof levels_distinct as LD.
    destruct (0 <? count_lvl L_ERROR (r_violations r));
      destruct (0 <? count_lvl L_WARNING (r_violations r));
      destruct Hfl as [-> | ->]; cbn;
      repeat split; intros; try discriminate; try congruence; try tauto;
      try (match goal with H : _ /\ _ |- _ => destruct H end; try discriminate; try congruence; tauto).
Qed.

(* a fail level other than the two documented ones never fails the command *)
Lemma exit_code_other_level fl r :
  fl <> L_ERROR -> fl <> L_WARNING -> exit_code fl (LintDone r) = 0.
Proof.
  intros H1 H2. unfold exit_code, lint_run_e.
  destruct (tally (r_violations r)) as [e w].
  destruct (str_eqb fl L_ERROR) eqn:E1; [apply str_eqb_eq in E1; contradiction|].
  destruct (str_eqb fl L_WARNING) eqn:E2; [apply str_eqb_eq in E2; contradiction|].
  reflexivity.
Qed.

(* ---------------------------------------------------------------- delivery *)

Lemma run_exit_delivery_failed fl open_res o publish_res :
  open_res = IoErr \/ publish_res = IoErr -> run_exit fl open_res o publish_res = 1.
Proof.
  unfold run_exit, lint_fn. intros [-> | ->]; [reflexivity|].
  destruct open_res; [|reflexivity]. destruct o; reflexivity.
Qed.

Lemma run_exit_delivered fl r : run_exit fl IoOk (Linted r) IoOk = exit_code fl (LintDone r).
Proof. reflexivity. Qed.

Lemma run_exit_one_iff fl open_res o publish_res :
  fl = L_ERROR \/ fl = L_WARNING ->
  (run_exit fl open_res o publish_res = 1 <-> open_res = IoErr \/ o = LintErr \/ publish_res = IoErr).
Proof.
  intros Hfl. unfold run_exit.
  destruct (exit_code_spec_proof fl (lint_fn open_res o publish_res) Hfl) as [H1 _].
  rewrite H1. unfold lint_fn.
  destruct open_res; [|split; auto].
  destruct o as [|r]; [split; auto|].
  destruct publish_res; split; auto; try discriminate.
  intros [H|[H|H]]; discriminate.
Qed.

Lemma write_at_0_nil data : write_at 0 [] data = data.
Proof.
  unfold write_at. cbn [firstn app]. rewrite skipn_nil. apply app_nil_r.
Qed.

Lemma file_after_is_rendering prev rendering : file_after prev rendering = rendering.
Proof. unfold file_after, open_truncating. apply write_at_0_nil. Qed.

Lemma file_after_keeping_spec prev rendering :
  file_after_keeping prev rendering =
  (rendering ++ skipn (List.length rendering) (match prev with Some s => s | None => [] end))%list.
Proof. unfold file_after_keeping, open_keeping, write_at. reflexivity. Qed.

Lemma file_after_keeping_ok_when_not_shorter prev rendering :
  (List.length (match prev with Some s => s | None => [] end) <= List.length rendering)%nat ->
  file_after_keeping prev rendering = rendering.
Proof.
  intros H. rewrite file_after_keeping_spec, skipn_all2 by exact H. apply app_nil_r.
Qed.
