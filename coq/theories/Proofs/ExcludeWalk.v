(* Proofs about Model/ExcludeWalk.v: the walk of a directory given by a clean absolute path yields
   <that path>/<relative name>, the relative names do not depend on the path, and the filter sees
   the relative names only. *)
From Regal Require Import Model.ExcludeWalk Model.Provider Proofs.CleanPath Proofs.Exclude.
From Coq Require Import Lia.

Lemma node_ind2 (P : node -> Prop) :
  P File -> (forall cs, Forall (fun kc => P (snd kc)) cs -> P (Dir cs)) -> forall n, P n.
Proof.
  intros Hf Hd. fix IH 1. intros [ | cs]; [exact Hf | ].
  apply Hd. induction cs as [ | [nm c] cs IHcs]; constructor; [apply IH | exact IHcs].
Qed.

(* ------------------------------------------------------------------ strings *)

Lemma has_prefix_app_sep (u v e : str) :
  ~ In SLASH e -> has_prefix (u ++ SLASH :: v) e = has_prefix u e.
Proof.
  revert u. induction e as [|c e IH]; intros u Hn; [reflexivity|].
  destruct u as [|x u]; cbn [app has_prefix].
  - destruct (N.eqb_spec SLASH c) as [E|E]; [|reflexivity].
    exfalso. apply Hn. left. symmetry. exact E.
  - rewrite IH; [reflexivity|]. intros H. apply Hn. right. exact H.
Qed.

Lemma has_suffix_after_sep (a nm e : str) :
  ~ In SLASH e -> has_suffix (a ++ SLASH :: nm) e = has_suffix nm e.
Proof.
  intros Hn. unfold has_suffix. rewrite rev_app_distr. cbn [rev]. rewrite <- app_assoc. cbn [app].
  apply has_prefix_app_sep. intros H. apply Hn. apply in_rev. exact H.
Qed.

Lemma cpath_snoc_shape cs c : exists a, cpath (cs ++ [c]) = a ++ SLASH :: c.
Proof.
  destruct cs as [|w cs'].
  - exists []. reflexivity.
  - exists (cpath (w :: cs')). apply cpath_snoc. discriminate.
Qed.

Lemma last_not_slash (a c : str) : c <> [] -> ~ In SLASH c -> has_suffix (a ++ c) [SLASH] = false.
Proof.
  intros Hne Hn. unfold has_suffix. rewrite rev_app_distr. cbn [rev app].
  destruct (rev c) as [|x t] eqn:E.
  - exfalso. apply Hne. rewrite <- (rev_involutive c), E. reflexivity.
  - cbn [app has_prefix]. destruct (N.eqb_spec x SLASH) as [->|]; [|reflexivity].
    exfalso. apply Hn. apply in_rev. rewrite E. left. reflexivity.
Qed.

Lemma cpath_no_trailing_sep ps :
  Forall regular ps -> ps <> [] -> has_suffix (cpath ps) [SLASH] = false.
Proof.
  intros Hr Hne.
  destruct (exists_last Hne) as [qs [c ->]].
  destruct (cpath_snoc_shape qs c) as [a ->].
  apply Forall_app in Hr as [_ Hc]. inversion Hc as [|? ? [Hc1 [Hc2 _]] _]; subst.
  change (a ++ SLASH :: c) with (a ++ [SLASH] ++ c). rewrite app_assoc.
  apply last_not_slash; assumption.
Qed.

Lemma norm_prefix_cpath ps :
  Forall regular ps -> ps <> [] -> go_norm_prefix (cpath ps) = cpath ps ++ [SLASH].
Proof.
  intros Hr Hne. unfold go_norm_prefix. rewrite cpath_no_trailing_sep by assumption. reflexivity.
Qed.

Lemma norm_prefix_slash (p : str) : go_norm_prefix (p ++ [SLASH]) = p ++ [SLASH].
Proof.
  unfold go_norm_prefix.
  assert (H : has_suffix (p ++ [SLASH]) [SLASH] = true) by (apply has_suffix_spec; exists p; reflexivity).
  rewrite H. reflexivity.
Qed.

Lemma go_trim_below (R r : str) : go_trim (R ++ SLASH :: r) (R ++ [SLASH]) = r.
Proof.
  unfold go_trim.
  assert (E : str_eqb (R ++ [SLASH]) [] = false) by (destruct R; reflexivity).
  rewrite E. change (R ++ SLASH :: r) with (R ++ [SLASH] ++ r). rewrite app_assoc.
  apply trim_prefix_app.
Qed.

(* ------------------------------------------------------------------ the walk *)

Section WalkProofs.
  Variable skips : list str.
  Variable ext : str.
  Hypothesis ext_no_sep : ~ In SLASH ext.

  Notation walk := (walk skips ext).
  Notation rel_walk := (rel_walk skips ext).

  Definition below (R r : str) : str := match r with [] => R | _ => R ++ SLASH :: r end.

  Lemma rjoin_not_nil nm s : nm <> [] -> rjoin nm s <> [].
  Proof. intros Hne. unfold rjoin. destruct s; [exact Hne|]. destruct nm; [contradiction | discriminate]. Qed.

  Lemma below_rjoin R nm s : nm <> [] -> below R (rjoin nm s) = below (R ++ SLASH :: nm) s.
  Proof.
    intros Hne. unfold below at 1. pose proof (rjoin_not_nil nm s Hne) as Hn.
    destruct (rjoin nm s) eqn:E; [contradiction|]. rewrite <- E. clear E Hn.
    unfold rjoin, below. destruct s as [|x s]; [reflexivity|].
    rewrite <- app_assoc. reflexivity.
  Qed.

  (* a node reached under a clean absolute path (not the file system root itself): what the walk
     returns is that path followed by the relative names *)
  Lemma walk_cpath n : names_regular n -> forall cs name,
    Forall regular cs -> cs <> [] -> (n = File -> exists qs, cs = qs ++ [name]) ->
    walk (cpath cs) name n = map (below (cpath cs)) (rel_walk name n).
  Proof.
    induction n as [|chs IH] using node_ind2; intros Hnr cs name Hcs Hne Hfile.
    - cbn [Discover.walk ExcludeWalk.rel_walk].
      destruct (Hfile eq_refl) as [qs ->].
      destruct (cpath_snoc_shape qs name) as [a Ea]. rewrite Ea at 1.
      rewrite has_suffix_after_sep by exact ext_no_sep.
      destruct (has_suffix name ext); reflexivity.
    - cbn [Discover.walk ExcludeWalk.rel_walk].
      destruct (is_skip skips name); [reflexivity|].
      inversion Hnr as [|? Hall]; subst. clear Hnr Hfile.
      induction chs as [|[nm c] chs IHchs]; [reflexivity|].
      inversion IH as [|? ? IHc IHrest]; subst.
      inversion Hall as [|? ? [Hnm Hc] Hallrest]; subst. cbn [fst snd] in *.
      rewrite map_app. f_equal; [|apply IHchs; assumption].
      unfold join_path. rewrite pjoin_cpath_comp by assumption.
      rewrite (IHc Hc (cs ++ [nm]) nm).
      + rewrite map_map. apply map_ext. intros s.
        destruct Hnm as [Hnm_ne _]. rewrite below_rjoin by exact Hnm_ne.
        rewrite cpath_snoc by exact Hne. reflexivity.
      + apply Forall_app. split; [assumption | constructor; [assumption | constructor]].
      + destruct cs; discriminate.
      + intros _. exists cs. reflexivity.
  Qed.

  (* below a directory every relative name is non-empty *)
  Lemma rel_walk_dir_nonempty name chs :
    names_regular (Dir chs) -> forall r, In r (rel_walk name (Dir chs)) -> r <> [].
  Proof.
    intros Hnr r. cbn [ExcludeWalk.rel_walk]. destruct (is_skip skips name); [intros []|].
    inversion Hnr as [|? Hall]; subst. clear Hnr.
    induction chs as [|[nm c] chs IHchs]; [intros []|].
    inversion Hall as [|? ? [[Hnm _] _] Hrest]; subst. cbn [fst] in Hnm.
    intros Hin. apply in_app_or in Hin as [Hin|Hin]; [|apply IHchs; assumption].
    apply in_map_iff in Hin as [s [<- _]]. apply rjoin_not_nil. exact Hnm.
  Qed.

  Lemma walk_dir_cpath ps name chs :
    Forall regular ps -> ps <> [] -> names_regular (Dir chs) ->
    walk (cpath ps) name (Dir chs)
    = map (fun r => cpath ps ++ SLASH :: r) (rel_walk name (Dir chs)).
  Proof.
    intros Hps Hne Hnr. rewrite walk_cpath by (try assumption; discriminate).
    apply map_ext_in. intros r Hr. pose proof (rel_walk_dir_nonempty name chs Hnr r Hr) as Hr0.
    unfold below. destruct r; [contradiction | reflexivity].
  Qed.

  (* the name of the start directory matters only through is_skip *)
  Lemma rel_walk_dir_name name name' chs :
    is_skip skips name = is_skip skips name' -> rel_walk name (Dir chs) = rel_walk name' (Dir chs).
  Proof. intros E. cbn [ExcludeWalk.rel_walk]. rewrite E. reflexivity. Qed.
End WalkProofs.

(* ------------------------------------------------------------------ the filter sees relative names only *)

Section FilterProofs.
  Variable glob_ok : str -> bool.
  Variable glob_match : str -> str -> bool.
  Notation go_excluded_by := (go_excluded_by glob_ok glob_match).
  Notation go_filter_paths := (go_filter_paths glob_ok glob_match).

  Lemma excluded_by_trim ignore f npre :
    go_excluded_by ignore f npre = go_excluded_by ignore (go_trim f npre) [].
  Proof.
    induction ignore as [|p ps IH]; [reflexivity|]. cbn [Exclude.go_excluded_by].
    destruct (str_eqb p []); [exact IH|].
    assert (E : go_exclude_file glob_ok glob_match p f npre
                = go_exclude_file glob_ok glob_match p (go_trim f npre) []).
    { unfold go_exclude_file. destruct p; [reflexivity|]. reflexivity. }
    rewrite E. destruct (go_exclude_file glob_ok glob_match p (go_trim f npre) []) as [[|]| |]; try reflexivity.
    exact IH.
  Qed.

  Lemma filter_paths_map (g : str -> str) npre ignore :
    (forall r, go_trim (g r) npre = r) ->
    forall rels, go_filter_paths (map g rels) ignore npre
                 = option_map (map g) (go_filter_paths rels ignore []).
  Proof.
    intros Hg. induction rels as [|r rels IH]; [reflexivity|].
    cbn [map Exclude.go_filter_paths]. rewrite excluded_by_trim, Hg.
    rewrite (excluded_by_trim ignore r []). change (go_trim r []) with r.
    destruct (go_excluded_by ignore r []) as [[|]| |]; try reflexivity.
    - exact IH.
    - rewrite IH. destruct (go_filter_paths rels ignore []); reflexivity.
  Qed.
End FilterProofs.

(* ------------------------------------------------------------------ main statements *)

Section Main.
  Variable glob_ok : str -> bool.
  Variable glob_match : str -> str -> bool.
  Variable skips : list str.
  Variable ext : str.
  Hypothesis ext_no_sep : ~ In SLASH ext.

  Notation go_walk_filter := (go_walk_filter glob_ok glob_match skips ext).
  Notation go_filter_paths := (go_filter_paths glob_ok glob_match).
  Notation rel_walk := (rel_walk skips ext).

  (* prefix = the directory itself, with or without trailing separator *)
  Definition is_root_prefix (R pre : str) : Prop := pre = R \/ pre = R ++ [SLASH].

  Lemma root_prefix_norm ps pre :
    Forall regular ps -> ps <> [] -> is_root_prefix (cpath ps) pre ->
    go_norm_prefix pre = cpath ps ++ [SLASH].
  Proof.
    intros Hps Hne [->| ->]; [apply norm_prefix_cpath; assumption | apply norm_prefix_slash].
  Qed.

  Theorem walk_root_never_excluded ps name chs ignore pre :
    Forall regular ps -> ps <> [] -> names_regular (Dir chs) -> is_root_prefix (cpath ps) pre ->
    go_walk_filter (cpath ps) name (Dir chs) ignore pre
    = option_map (map (fun r => cpath ps ++ SLASH :: r))
                 (go_filter_paths (rel_walk name (Dir chs)) ignore []).
  Proof.
    intros Hps Hne Hnr Hpre. unfold ExcludeWalk.go_walk_filter.
    rewrite (root_prefix_norm ps pre Hps Hne Hpre).
    rewrite (walk_dir_cpath skips ext ext_no_sep ps name chs Hps Hne Hnr).
    apply filter_paths_map. intros r. apply go_trim_below.
  Qed.

  Lemma option_map_map_id {A B} (f : A -> B) (g : B -> A) (o : option (list A)) :
    (forall x, g (f x) = x) -> option_map (map g) (option_map (map f) o) = o.
  Proof.
    intros H. destruct o as [l|]; [|reflexivity]. cbn. f_equal. rewrite map_map.
    rewrite <- (map_id l) at 2. apply map_ext. exact H.
  Qed.

  Theorem ancestors_irrelevant ps ps' name name' chs ignore pre pre' :
    Forall regular ps -> ps <> [] -> Forall regular ps' -> ps' <> [] ->
    names_regular (Dir chs) ->
    is_skip skips name = is_skip skips name' ->
    is_root_prefix (cpath ps) pre -> is_root_prefix (cpath ps') pre' ->
    option_map (map (fun f => go_rel f pre)) (go_walk_filter (cpath ps) name (Dir chs) ignore pre)
    = option_map (map (fun f => go_rel f pre')) (go_walk_filter (cpath ps') name' (Dir chs) ignore pre').
  Proof.
    intros Hps Hne Hps' Hne' Hnr Hskip Hpre Hpre'.
    rewrite (walk_root_never_excluded ps name chs ignore pre Hps Hne Hnr Hpre).
    rewrite (walk_root_never_excluded ps' name' chs ignore pre' Hps' Hne' Hnr Hpre').
    rewrite (rel_walk_dir_name skips ext name name' chs Hskip).
    rewrite !option_map_map_id; [reflexivity| |].
    - intros r. unfold go_rel. rewrite (root_prefix_norm ps' pre' Hps' Hne' Hpre'). apply go_trim_below.
    - intros r. unfold go_rel. rewrite (root_prefix_norm ps pre Hps Hne Hpre). apply go_trim_below.
  Qed.

  (* in the domain where every expansion compiles: kept = the files whose RELATIVE name matches no pattern *)
  Theorem walk_kept_exact ps name chs ignore pre :
    Forall regular ps -> ps <> [] -> names_regular (Dir chs) -> is_root_prefix (cpath ps) pre ->
    (forall p, In p ignore -> p <> [] -> compiles glob_ok p = true) ->
    go_walk_filter (cpath ps) name (Dir chs) ignore pre
    = Some (map (fun r => cpath ps ++ SLASH :: r)
                (filter (fun r => negb (matches_any glob_ok glob_match ignore r)) (rel_walk name (Dir chs)))).
  Proof.
    intros Hps Hne Hnr Hpre Hc.
    rewrite (walk_root_never_excluded ps name chs ignore pre Hps Hne Hnr Hpre).
    rewrite (filter_exact glob_ok glob_match _ ignore [] Hc). reflexivity.
  Qed.
End Main.
