(* Proofs about Model/FixLoop.v (C12): termination under a progress hypothesis, post-condition,
   idempotence, and unconditional termination when only use-assignment-operator or only
   non-raw-regex-pattern is enabled (measures from Proofs/Fixes.v). *)
From Regal Require Import Model.FixLoop Proofs.Fixes.
From Coq Require Import Lia.

Local Open Scope nat_scope.

Section LoopProofs.
  Variable lint : fs -> option (list violation).
  Variable oracle_fix : rule -> str -> str -> fix_result.
  Variable rename_on_conflict : bool.
  Variable free_name : fs -> str -> str.

  Notation apply_fix := (apply_fix oracle_fix).
  Notation pass := (pass oracle_fix rename_on_conflict free_name).
  Notation loop := (loop lint oracle_fix rename_on_conflict free_name).

  (* the fix declines the violation on the current content of its file *)
  Definition declined (files : fs) (v : violation) : Prop :=
    exists content, fs_get files (v_file v) = Some content /\
                    apply_fix (v_rule v) (v_file v) content (v_loc v) = FNone.

  Lemma pass_made_mono vs : forall files fixed c files' made' c',
    pass vs files fixed true c = POk files' made' c' -> made' = true.
  Proof.
    induction vs as [|v vs IH]; intros files fixed c files' made' c' H; simpl in H.
    - injection H as _ <- _. reflexivity.
    - destruct (skip_violation fixed v); [eapply IH; exact H|].
      destruct (fs_get files (v_file v)) as [content|]; [|discriminate].
      destruct (apply_fix (v_rule v) (v_file v) content (v_loc v)) as [|c2|to|].
      + eapply IH; exact H.
      + eapply IH; exact H.
      + destruct (handle_rename rename_on_conflict free_name files (v_file v) to content) as [f2 cf].
        injection H as _ <- _. reflexivity.
      + discriminate.
  Qed.

  Lemma pass_nothing_made vs : forall files c files' c',
    pass vs files [] false c = POk files' false c' ->
    files' = files /\ c' = c /\ Forall (declined files) vs.
  Proof.
    induction vs as [|v vs IH]; intros files c files' c' H; simpl in H.
    - injection H as <- <-. repeat split. constructor.
    - destruct (fs_get files (v_file v)) as [content|] eqn:Hg; [|discriminate].
      destruct (apply_fix (v_rule v) (v_file v) content (v_loc v)) as [|c2|to|] eqn:Ha.
      + destruct (IH _ _ _ _ H) as (E1 & E2 & F). repeat split; auto.
        constructor; [exists content; split; assumption | exact F].
      + apply pass_made_mono in H. discriminate.
      + destruct (handle_rename rename_on_conflict free_name files (v_file v) to content) as [f2 cf].
        discriminate.
      + discriminate.
  Qed.

  Lemma pass_all_declined vs : forall files c,
    Forall (declined files) vs -> pass vs files [] false c = POk files false c.
  Proof.
    induction vs as [|v vs IH]; intros files c F; simpl; [reflexivity|].
    inversion F as [|? ? (content & Hg & Ha) F']; subst.
    rewrite Hg, Ha. apply IH. exact F'.
  Qed.

  (* ---- post-condition: the files returned were linted last, and every violation still reported for
          them is one its fix declines (nothing fixable remains) ---- *)
  Theorem loop_postcondition fuel : forall files c files' c',
    loop fuel files c = Done files' c' ->
    exists vs, lint files' = Some vs /\ Forall (declined files') vs.
  Proof.
    induction fuel as [|f IH]; intros files c files' c' H; [discriminate|].
    cbn [FixLoop.loop] in H.
    destruct (lint files) as [[|v vs]|] eqn:Hl; [| |discriminate].
    - injection H as <- <-. exists []. split; [exact Hl|constructor].
    - destruct (pass (v :: vs) files [] false c) as [|files2 made c2] eqn:Hp; [discriminate|].
      destruct made.
      + eapply IH. exact H.
      + injection H as <- <-.
        destruct (pass_nothing_made _ _ _ _ _ Hp) as (-> & -> & F).
        exists (v :: vs). split; assumption.
  Qed.

  (* ---- idempotence: fixing the result again changes nothing ---- *)
  Theorem loop_idempotent fuel files c files' c' :
    loop fuel files c = Done files' c' ->
    forall fuel2 c2, loop (S fuel2) files' c2 = Done files' c2.
  Proof.
    intros H fuel2 c2.
    destruct (loop_postcondition _ _ _ _ _ H) as (vs & Hl & F).
    cbn [FixLoop.loop]. rewrite Hl. destruct vs as [|v vs]; [reflexivity|].
    rewrite (pass_all_declined _ _ c2 F). reflexivity.
  Qed.

  (* ---- termination under a progress hypothesis with an explicit measure ---- *)
  Section Progress.
    Variable mu : fs -> nat.
    Hypothesis H_progress : forall files vs files' c c',
      lint files = Some vs -> pass vs files [] false c = POk files' true c' -> mu files' < mu files.

    Theorem loop_terminates fuel : forall files c,
      mu files < fuel -> loop fuel files c <> OutOfFuel.
    Proof.
      induction fuel as [|f IH]; intros files c Hlt; [lia|].
      cbn [FixLoop.loop].
      destruct (lint files) as [[|v vs]|] eqn:Hl; try discriminate.
      destruct (pass (v :: vs) files [] false c) as [|files2 made c2] eqn:Hp; [discriminate|].
      destruct made; [|discriminate].
      apply IH. pose proof (H_progress _ _ _ _ _ Hl Hp). lia.
    Qed.
  End Progress.

  (* ---- a measure that is a sum over the files ---- *)
  Section SumMeasure.
    Variable m : str -> nat.
    Definition mu_sum (files : fs) : nat := fold_right (fun pc acc => m (snd pc) + acc) 0 files.

    Lemma mu_sum_put files : forall p c0 c1,
      fs_get files p = Some c0 -> mu_sum (fs_put files p c1) + m c0 = mu_sum files + m c1.
    Proof.
      induction files as [|[q d] t IH]; intros p c0 c1 Hg; [discriminate|].
      simpl in *. destruct (str_eqb q p).
      - injection Hg as ->. simpl. lia.
      - simpl. specialize (IH p c0 c1 Hg). lia.
    Qed.

    (* a rule whose fix is a text fix decreasing [m] *)
    Variable r : rule.
    Variable fixr : str -> list loc -> fix_out.
    Hypothesis H_fix : forall file content l, apply_fix r file content l = of_fix_out (fixr content [l]).
    Hypothesis H_dec : forall content l c2, fixr content [l] = Changed c2 -> m c2 < m content.

    Lemma pass_sum_decreases vs : forall files fixed made c files' made' c',
      Forall (fun v => v_rule v = r) vs ->
      pass vs files fixed made c = POk files' made' c' ->
      mu_sum files' <= mu_sum files /\ (made = false -> made' = true -> mu_sum files' < mu_sum files).
    Proof.
      induction vs as [|v vs IH]; intros files fixed made c files' made' c' Hr H; simpl in H.
      - injection H as <- <- _. split; [lia|]. intros -> Hm. discriminate.
      - pose proof (Forall_inv Hr) as Hv. pose proof (Forall_inv_tail Hr) as Hr'. cbv beta in Hv.
        destruct (skip_violation fixed v); [eapply IH; eassumption|].
        destruct (fs_get files (v_file v)) as [content|] eqn:Hg; [|discriminate].
        rewrite Hv, H_fix in H.
        destruct (fixr content [v_loc v]) as [|c2] eqn:Hf; cbn [of_fix_out] in H.
        + eapply IH; eassumption.
        + pose proof (H_dec _ _ _ Hf) as Hd.
          pose proof (mu_sum_put files (v_file v) content c2 Hg) as Hput.
          destruct (IH _ _ _ _ _ _ _ Hr' H) as [Hle _].
          split; [lia|]. intros _ _. lia.
    Qed.

    Theorem single_rule_terminates :
      (forall files vs, lint files = Some vs -> Forall (fun v => v_rule v = r) vs) ->
      forall files c, loop (S (mu_sum files)) files c <> OutOfFuel.
    Proof.
      intros Hlint files c.
      apply (loop_terminates mu_sum); [|lia].
      intros f vs f' c0 c' Hl Hp.
      destruct (pass_sum_decreases vs f [] false c0 f' true c' (Hlint _ _ Hl) Hp) as [_ Hlt].
      apply Hlt; reflexivity.
    Qed.
  End SumMeasure.

  (* with only use-assignment-operator enabled, fixing terminates whatever columns the linter reports:
     every applied fix removes one lone '=' from the file *)
  Theorem uao_only_terminates :
    (forall files vs, lint files = Some vs -> Forall (fun v => v_rule v = RUao) vs) ->
    forall files c, loop (S (mu_sum (lone_cnt NL) files)) files c <> OutOfFuel.
  Proof.
    apply (single_rule_terminates (lone_cnt NL) RUao uao_fix).
    - reflexivity.
    - intros content l c2 H. rewrite (uao_progress _ _ _ H). lia.
  Qed.

  Theorem nrr_only_terminates :
    (forall files vs, lint files = Some vs -> Forall (fun v => v_rule v = RNrr) vs) ->
    forall files c, loop (S (mu_sum (count_byte DQ) files)) files c <> OutOfFuel.
  Proof.
    apply (single_rule_terminates (count_byte DQ) RNrr nrr_fix).
    - reflexivity.
    - intros content l c2 H. rewrite (nrr_progress _ _ _ H). lia.
  Qed.
End LoopProofs.
