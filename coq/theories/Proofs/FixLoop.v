(* Proofs about Model/FixLoop.v (C12): termination under a progress hypothesis, post-condition,
   idempotence, and unconditional termination when only use-assignment-operator or only
   non-raw-regex-pattern is enabled (measures from Proofs/Fixes.v); the candidate loop of a rename
   (OnConflictRename) ends within |files| + 1 rounds when the candidate function never repeats a name. *)
From Regal Require Import Model.FixLoop Proofs.Fixes.
From Coq Require Import Lia.

Local Open Scope nat_scope.

(* ================================================================ the candidate loop of handleRename *)
Section RenameLoopProofs.
  Variable candidate : str -> str.
  Notation cand_iter := (cand_iter candidate).
  Notation rename_loop := (rename_loop candidate).

  Lemma cand_iter_S k to : cand_iter (S k) to = candidate (cand_iter k to).
  Proof. revert to. induction k as [|k IH]; intros to; [reflexivity|]. simpl. rewrite <- IH. reflexivity. Qed.

  Lemma fs_get_in files : forall p, fs_get files p <> None -> In p (map fst files).
  Proof.
    induction files as [|[q c] t IH]; intros p H; simpl in *; [congruence|].
    destruct (str_eqb_spec q p) as [->|Hne]; [left; reflexivity|right; apply IH; exact H].
  Qed.

  (* what a finished loop returns: the k-th candidate, free, after k occupied ones *)
  Lemma rename_loop_spec fuel : forall files to k n,
    rename_loop fuel files to = Some (k, n) ->
    n = cand_iter k to /\ fs_get files n = None /\ k < fuel /\
    (forall j, j < k -> fs_get files (cand_iter j to) <> None).
  Proof.
    induction fuel as [|f IH]; intros files to k n H; simpl in H; [discriminate|].
    destruct (fs_get files to) as [c|] eqn:Hg.
    - destruct (FixLoop.rename_loop candidate f files (candidate to)) as [[k' n']|] eqn:Hr; [|discriminate].
      injection H as <- <-. destruct (IH _ _ _ _ Hr) as (Hn & Hfree & Hk & Hocc).
      repeat split; [exact Hn | exact Hfree | lia |].
      intros j Hj. destruct j as [|j]; simpl; [congruence|]. apply Hocc. lia.
    - injection H as <- <-. repeat split; [exact Hg | lia |]. intros j Hj. lia.
  Qed.

  Lemma rename_loop_out_of_fuel fuel : forall files to,
    rename_loop fuel files to = None -> forall j, j < fuel -> fs_get files (cand_iter j to) <> None.
  Proof.
    induction fuel as [|f IH]; intros files to H j Hj; [lia|]. simpl in H.
    destruct (fs_get files to) as [c|] eqn:Hg; [|discriminate].
    destruct (FixLoop.rename_loop candidate f files (candidate to)) as [[k' n']|] eqn:Hr; [discriminate|].
    destruct j as [|j]; simpl; [congruence|]. apply (IH _ _ Hr). lia.
  Qed.

  Lemma nodup_map_seq_fx {A} (f : nat -> A) n :
    (forall i j, i <> j -> f i <> f j) -> NoDup (map f (seq 0 n)).
  Proof.
    intros Hinj.
    assert (G : forall len s, NoDup (map f (seq s len))).
    { induction len as [|len IH]; intros s; simpl; [constructor|].
      constructor; [|apply IH].
      intros Hin. apply in_map_iff in Hin as [j [Hfj Hj]]. apply in_seq in Hj.
      apply (Hinj j s); [lia | exact Hfj]. }
    apply G.
  Qed.

  (* pigeonhole: n pairwise different names that are all held need n files *)
  Lemma occupied_bound files to n :
    (forall i j, i <> j -> cand_iter i to <> cand_iter j to) ->
    (forall j, j < n -> fs_get files (cand_iter j to) <> None) ->
    n <= length files.
  Proof.
    intros Hinj Hocc.
    assert (Hnd : NoDup (map (fun k => cand_iter k to) (seq 0 n))) by (apply nodup_map_seq_fx; exact Hinj).
    assert (Hincl : incl (map (fun k => cand_iter k to) (seq 0 n)) (map fst files)).
    { intros x Hx. apply in_map_iff in Hx as [k [<- Hk]]. apply in_seq in Hk.
      apply fs_get_in. apply Hocc. lia. }
    pose proof (NoDup_incl_length Hnd Hincl) as Hlen.
    rewrite !map_length, seq_length in Hlen. exact Hlen.
  Qed.

  (* ---- rename mode terminates: a candidate function that never repeats a name (a strictly increasing
          counter) finds a free name within |files| + 1 rounds ---- *)
  Theorem rename_loop_terminates files to fuel :
    (forall i j, i <> j -> cand_iter i to <> cand_iter j to) ->
    length files < fuel ->
    exists k, k <= length files
      /\ rename_loop fuel files to = Some (k, cand_iter k to)
      /\ fs_get files (cand_iter k to) = None
      /\ (forall j, j < k -> fs_get files (cand_iter j to) <> None).
  Proof.
    intros Hinj Hfuel.
    destruct (rename_loop fuel files to) as [[k n]|] eqn:Hr.
    - destruct (rename_loop_spec _ _ _ _ _ Hr) as (-> & Hfree & _ & Hocc).
      exists k. repeat split; [|exact Hfree|exact Hocc].
      apply (occupied_bound files to k Hinj Hocc).
    - pose proof (rename_loop_out_of_fuel _ _ _ Hr) as Hocc.
      pose proof (occupied_bound files to fuel Hinj Hocc). lia.
  Qed.

  (* the number of rounds does not depend on the fuel once there is enough of it *)
  Lemma rename_loop_fuel_irrelevant fuel1 fuel2 files to r1 r2 :
    rename_loop fuel1 files to = Some r1 -> rename_loop fuel2 files to = Some r2 -> r1 = r2.
  Proof.
    revert fuel2 to r1 r2. induction fuel1 as [|f1 IH]; intros fuel2 to r1 r2 H1 H2; [discriminate|].
    destruct fuel2 as [|f2]; [discriminate|]. simpl in H1, H2.
    destruct (fs_get files to) as [c|]; [|congruence].
    destruct (FixLoop.rename_loop candidate f1 files (candidate to)) as [[k1 n1]|] eqn:E1; [|discriminate].
    destruct (FixLoop.rename_loop candidate f2 files (candidate to)) as [[k2 n2]|] eqn:E2; [|discriminate].
    pose proof (IH _ _ _ _ E1 E2) as E. injection E as -> ->. congruence.
  Qed.
End RenameLoopProofs.

Section LoopProofs.
  Variable lint : fs -> option (list violation).
  Variable oracle_fix : rule -> str -> str -> fix_result.
  Variable rename_on_conflict : bool.
  Variable candidate : str -> str.
  Variable rfuel : nat.

  Notation apply_fix := (apply_fix oracle_fix).
  Notation pass := (pass oracle_fix rename_on_conflict candidate rfuel).
  Notation loop := (loop lint oracle_fix rename_on_conflict candidate rfuel).
  Notation handle_rename := (handle_rename rename_on_conflict candidate rfuel).

  (* the fix declines the violation on the current content of its file *)
  Definition declined (files : fs) (v : violation) : Prop :=
    exists content, fs_get files (v_file v) = Some content /\
                    apply_fix (v_rule v) (v_file v) content (v_loc v) = FNone.

  Lemma pass_made_mono vs : forall files fixed c files' made' c',
    pass vs files fixed true c = POk files' made' c' -> made' = true.
  Proof.
    induction vs as [|v vs IH]; intros files fixed c files' made' c' H; simpl in H.
    - injection H as _ <- _. reflexivity.
    - destruct (skip_violation fixed v); [eapply IH; exact H|].
      destruct (fs_get files (v_file v)) as [content|]; [|discriminate].
      destruct (apply_fix (v_rule v) (v_file v) content (v_loc v)) as [|c2|to|].
      + eapply IH; exact H.
      + eapply IH; exact H.
      + destruct (handle_rename files (v_file v) to content) as [[f2 cf]|]; [|discriminate].
        injection H as _ <- _. reflexivity.
      + discriminate.
  Qed.

  Lemma pass_nothing_made vs : forall files c files' c',
    pass vs files [] false c = POk files' false c' ->
    files' = files /\ c' = c /\ Forall (declined files) vs.
  Proof.
    induction vs as [|v vs IH]; intros files c files' c' H; simpl in H.
    - injection H as <- <-. repeat split. constructor.
    - destruct (fs_get files (v_file v)) as [content|] eqn:Hg; [|discriminate].
      destruct (apply_fix (v_rule v) (v_file v) content (v_loc v)) as [|c2|to|] eqn:Ha.
      + destruct (IH _ _ _ _ H) as (E1 & E2 & F). repeat split; auto.
        constructor; [exists content; split; assumption | exact F].
      + apply pass_made_mono in H. discriminate.
      + destruct (handle_rename files (v_file v) to content) as [[f2 cf]|]; discriminate.
      + discriminate.
  Qed.

  Lemma pass_all_declined vs : forall files c,
    Forall (declined files) vs -> pass vs files [] false c = POk files false c.
  Proof.
    induction vs as [|v vs IH]; intros files c F; simpl; [reflexivity|].
    inversion F as [|? ? (content & Hg & Ha) F']; subst.
    rewrite Hg, Ha. apply IH. exact F'.
  Qed.

  (* ---- post-condition: the files returned were linted last, and every violation still reported for
          them is one its fix declines (nothing fixable remains) ---- *)
  Theorem loop_postcondition fuel : forall files c files' c',
    loop fuel files c = Done files' c' ->
    exists vs, lint files' = Some vs /\ Forall (declined files') vs.
  Proof.
    induction fuel as [|f IH]; intros files c files' c' H; [discriminate|].
    cbn [FixLoop.loop] in H.
    destruct (lint files) as [[|v vs]|] eqn:Hl; [| |discriminate].
    - injection H as <- <-. exists []. split; [exact Hl|constructor].
    - destruct (pass (v :: vs) files [] false c) as [| |files2 made c2] eqn:Hp; [discriminate|discriminate|].
      destruct made.
      + eapply IH. exact H.
      + injection H as <- <-.
        destruct (pass_nothing_made _ _ _ _ _ Hp) as (-> & -> & F).
        exists (v :: vs). split; assumption.
  Qed.

  (* ---- idempotence: fixing the result again changes nothing ---- *)
  Theorem loop_idempotent fuel files c files' c' :
    loop fuel files c = Done files' c' ->
    forall fuel2 c2, loop (S fuel2) files' c2 = Done files' c2.
  Proof.
    intros H fuel2 c2.
    destruct (loop_postcondition _ _ _ _ _ H) as (vs & Hl & F).
    cbn [FixLoop.loop]. rewrite Hl. destruct vs as [|v vs]; [reflexivity|].
    rewrite (pass_all_declined _ _ c2 F). reflexivity.
  Qed.

  (* ---- the text fixes never move a file ---- *)
  Definition never_moves (r : rule) : Prop :=
    forall file content l to, apply_fix r file content l <> FRename to.

  Lemma of_fix_out_not_rename o to : of_fix_out o <> FRename to.
  Proof. destruct o; discriminate. Qed.

  Lemma text_rule_never_moves r : (r = RUao \/ r = RNwc \/ r = RNrr) -> never_moves r.
  Proof. intros [H|[H|H]]; subst r; intros file content l to; apply of_fix_out_not_rename. Qed.

  Lemma pass_no_move_no_fuel vs : forall files fixed made c,
    Forall (fun v => never_moves (v_rule v)) vs -> pass vs files fixed made c <> PFuel.
  Proof.
    induction vs as [|v vs IH]; intros files fixed made c F; simpl; [discriminate|].
    pose proof (Forall_inv F) as Hv. pose proof (Forall_inv_tail F) as F'. cbv beta in Hv.
    destruct (skip_violation fixed v); [apply IH; exact F'|].
    destruct (fs_get files (v_file v)) as [content|]; [|discriminate].
    destruct (apply_fix (v_rule v) (v_file v) content (v_loc v)) as [|c2|to|] eqn:Ha.
    - apply IH; exact F'.
    - apply IH; exact F'.
    - exfalso. exact (Hv _ _ _ _ Ha).
    - discriminate.
  Qed.

  (* ---- the number of files never grows ---- *)
  Lemma fs_put_length_in files : forall p c0 c, fs_get files p = Some c0 -> length (fs_put files p c) = length files.
  Proof.
    induction files as [|[q d] t IH]; intros p c0 c H; simpl in *; [discriminate|].
    destruct (str_eqb q p); simpl; [reflexivity|]. f_equal. eapply IH; exact H.
  Qed.

  Lemma fs_put_length_le files : forall p c, length (fs_put files p c) <= S (length files).
  Proof.
    induction files as [|[q d] t IH]; intros p c; simpl; [lia|].
    destruct (str_eqb q p); simpl; [lia|]. specialize (IH p c). lia.
  Qed.

  Lemma fs_del_length_le files : forall p, length (fs_del files p) <= length files.
  Proof.
    induction files as [|[q d] t IH]; intros p; simpl; [lia|].
    destruct (str_eqb q p); simpl; specialize (IH p); lia.
  Qed.

  Lemma fs_del_length files : forall p c0, fs_get files p = Some c0 -> S (length (fs_del files p)) <= length files.
  Proof.
    induction files as [|[q d] t IH]; intros p c0 H; simpl in *; [discriminate|].
    destruct (str_eqb q p); simpl.
    - pose proof (fs_del_length_le t p). lia.
    - specialize (IH p c0 H). lia.
  Qed.

  Lemma handle_rename_length files from to content files' cf :
    fs_get files from = Some content ->
    handle_rename files from to content = Some (files', cf) -> length files' <= length files.
  Proof.
    intros Hg H. unfold FixLoop.handle_rename in H.
    pose proof (fs_del_length files from content Hg) as Hd.
    destruct (fs_get files to).
    - destruct rename_on_conflict.
      + destruct (rename_loop candidate rfuel files to) as [[k name]|]; [|discriminate].
        injection H as <- _. pose proof (fs_put_length_le (fs_del files from) name content). lia.
      + injection H as <- _. lia.
    - injection H as <- _. pose proof (fs_put_length_le (fs_del files from) to content). lia.
  Qed.

  Lemma pass_length_le vs : forall files fixed made c files' made' c',
    pass vs files fixed made c = POk files' made' c' -> length files' <= length files.
  Proof.
    induction vs as [|v vs IH]; intros files fixed made c files' made' c' H; simpl in H.
    - injection H as <- _ _. lia.
    - destruct (skip_violation fixed v); [eapply IH; exact H|].
      destruct (fs_get files (v_file v)) as [content|] eqn:Hg; [|discriminate].
      destruct (apply_fix (v_rule v) (v_file v) content (v_loc v)) as [|c2|to|].
      + eapply IH; exact H.
      + apply IH in H. rewrite (fs_put_length_in _ _ _ c2 Hg) in H. exact H.
      + destruct (handle_rename files (v_file v) to content) as [[f2 cf]|] eqn:Hr; [|discriminate].
        injection H as <- _ _. eapply handle_rename_length; eassumption.
      + discriminate.
  Qed.

  (* ---- termination under a progress hypothesis with an explicit measure ---- *)
  Section Progress.
    Variable mu : fs -> nat.
    Hypothesis H_progress : forall files vs files' c c',
      lint files = Some vs -> pass vs files [] false c = POk files' true c' -> mu files' < mu files.

    (* no candidate loop of the run is cut short (discharged below, and trivially when nothing moves) *)
    Theorem loop_terminates_gen (P : fs -> Prop) :
      (forall files vs c, P files -> lint files = Some vs -> pass vs files [] false c <> PFuel) ->
      (forall files vs c files' made c', P files -> lint files = Some vs ->
          pass vs files [] false c = POk files' made c' -> P files') ->
      forall fuel files c, P files -> mu files < fuel -> loop fuel files c <> OutOfFuel.
    Proof.
      intros Hnf Hpres fuel.
      induction fuel as [|f IH]; intros files c HP Hlt; [lia|].
      cbn [FixLoop.loop].
      destruct (lint files) as [[|v vs]|] eqn:Hl; try discriminate.
      destruct (pass (v :: vs) files [] false c) as [| |files2 made c2] eqn:Hp; [discriminate| |].
      - exfalso. exact (Hnf _ _ _ HP Hl Hp).
      - destruct made; [|discriminate].
        apply IH; [eapply Hpres; eassumption|]. pose proof (H_progress _ _ _ _ _ Hl Hp). lia.
    Qed.

    (* every target a moving fix asks for starts a candidate sequence that never repeats a name *)
    Hypothesis H_targets : forall r file content to,
      oracle_fix r file content = FRename to ->
      forall i j, i <> j -> cand_iter candidate i to <> cand_iter candidate j to.

    Lemma apply_fix_rename_oracle r file content l to :
      apply_fix r file content l = FRename to -> oracle_fix r file content = FRename to.
    Proof.
      destruct r; cbn [FixLoop.apply_fix]; intros H; try exact H; exfalso; exact (of_fix_out_not_rename _ _ H).
    Qed.

    Lemma pass_no_fuel vs : forall files fixed made c,
      length files < rfuel -> pass vs files fixed made c <> PFuel.
    Proof.
      induction vs as [|v vs IH]; intros files fixed made c Hlen; simpl; [discriminate|].
      destruct (skip_violation fixed v); [apply IH; exact Hlen|].
      destruct (fs_get files (v_file v)) as [content|] eqn:Hg; [|discriminate].
      destruct (apply_fix (v_rule v) (v_file v) content (v_loc v)) as [|c2|to|] eqn:Ha.
      - apply IH; exact Hlen.
      - apply IH. rewrite (fs_put_length_in _ _ _ c2 Hg). exact Hlen.
      - unfold FixLoop.handle_rename. destruct (fs_get files to); [|discriminate].
        destruct rename_on_conflict; [|discriminate].
        destruct (rename_loop_terminates candidate files to rfuel
                    (H_targets _ _ _ _ (apply_fix_rename_oracle _ _ _ _ _ Ha)) Hlen) as (k & _ & -> & _).
        discriminate.
      - discriminate.
    Qed.

    Theorem loop_terminates fuel files c :
      mu files < fuel -> length files < rfuel -> loop fuel files c <> OutOfFuel.
    Proof.
      intros Hmu Hlen.
      apply (loop_terminates_gen (fun f => length f < rfuel)); [| |exact Hlen|exact Hmu].
      - intros f vs c0 HP _. apply pass_no_fuel. exact HP.
      - intros f vs c0 f' made c' HP _ Hp. pose proof (pass_length_le _ _ _ _ _ _ _ _ Hp). lia.
    Qed.
  End Progress.

  (* ---- a measure that is a sum over the files ---- *)
  Section SumMeasure.
    Variable m : str -> nat.
    Definition mu_sum (files : fs) : nat := fold_right (fun pc acc => m (snd pc) + acc) 0 files.

    Lemma mu_sum_put files : forall p c0 c1,
      fs_get files p = Some c0 -> mu_sum (fs_put files p c1) + m c0 = mu_sum files + m c1.
    Proof.
      induction files as [|[q d] t IH]; intros p c0 c1 Hg; [discriminate|].
      simpl in *. destruct (str_eqb q p).
      - injection Hg as ->. simpl. lia.
      - simpl. specialize (IH p c0 c1 Hg). lia.
    Qed.

    (* a rule whose fix is a text fix decreasing [m] *)
    Variable r : rule.
    Variable fixr : str -> list loc -> fix_out.
    Hypothesis H_fix : forall file content l, apply_fix r file content l = of_fix_out (fixr content [l]).
    Hypothesis H_dec : forall content l c2, fixr content [l] = Changed c2 -> m c2 < m content.

    Lemma pass_sum_decreases vs : forall files fixed made c files' made' c',
      Forall (fun v => v_rule v = r) vs ->
      pass vs files fixed made c = POk files' made' c' ->
      mu_sum files' <= mu_sum files /\ (made = false -> made' = true -> mu_sum files' < mu_sum files).
    Proof.
      induction vs as [|v vs IH]; intros files fixed made c files' made' c' Hr H; simpl in H.
      - injection H as <- <- _. split; [lia|]. intros -> Hm. discriminate.
      - pose proof (Forall_inv Hr) as Hv. pose proof (Forall_inv_tail Hr) as Hr'. cbv beta in Hv.
        destruct (skip_violation fixed v); [eapply IH; eassumption|].
        destruct (fs_get files (v_file v)) as [content|] eqn:Hg; [|discriminate].
        rewrite Hv, H_fix in H.
        destruct (fixr content [v_loc v]) as [|c2] eqn:Hf; cbn [of_fix_out] in H.
        + eapply IH; eassumption.
        + pose proof (H_dec _ _ _ Hf) as Hd.
          pose proof (mu_sum_put files (v_file v) content c2 Hg) as Hput.
          destruct (IH _ _ _ _ _ _ _ Hr' H) as [Hle _].
          split; [lia|]. intros _ _. lia.
    Qed.

    Theorem single_rule_terminates :
      (forall files vs, lint files = Some vs -> Forall (fun v => v_rule v = r) vs) ->
      forall files c, loop (S (mu_sum files)) files c <> OutOfFuel.
    Proof.
      intros Hlint files c.
      apply (loop_terminates_gen mu_sum) with (P := fun _ => True); [| | |exact I|lia].
      - intros f vs f' c0 c' Hl Hp.
        destruct (pass_sum_decreases vs f [] false c0 f' true c' (Hlint _ _ Hl) Hp) as [_ Hlt].
        apply Hlt; reflexivity.
      - intros f vs c0 _ Hl. apply pass_no_move_no_fuel.
        eapply Forall_impl; [|exact (Hlint _ _ Hl)]. cbv beta. intros v -> file content l to.
        rewrite H_fix. apply of_fix_out_not_rename.
      - intros; exact I.
    Qed.
  End SumMeasure.

  (* ---- any combination of the three text rules: the total text measure decreases with every
          iteration that fixes something, provided the no-whitespace-comment violations the linter
          reports point at a '#' directly followed by a non-blank (what the rule reports) ---- *)
  Section TextRules.
    Definition is_text (r : rule) : bool :=
      match r with RUao | RNwc | RNrr => true | _ => false end.

    Definition agree_off (rows : list Z) (c0 c : str) : Prop :=
      forall r, ~ In r rows -> get_line (lines_of c) r = get_line (lines_of c0) r.

    (* files0: the files that were linted; files/fixed: the state within the pass *)
    Definition inv (files0 files : fs) (fixed : fixed_map) : Prop :=
      forall f,
        match fixed_get fixed f with
        | None => fs_get files f = fs_get files0 f
        | Some (r, rows) =>
            r = RNwc -> exists c0 c, fs_get files0 f = Some c0 /\ fs_get files f = Some c /\ agree_off rows c0 c
        end.

    Lemma fs_get_put_same files p c : fs_get (fs_put files p c) p = Some c.
    Proof.
      induction files as [|[q d] t IH]; simpl.
      - rewrite str_eqb_refl. reflexivity.
      - destruct (str_eqb q p) eqn:E; simpl; rewrite E; [reflexivity|exact IH].
    Qed.

    Lemma fs_get_put_other files p c g : g <> p -> fs_get (fs_put files p c) g = fs_get files g.
    Proof.
      intros Hne. induction files as [|[q d] t IH]; simpl.
      - destruct (str_eqb_spec p g); [congruence|reflexivity].
      - destruct (str_eqb_spec q p) as [->|Hqp]; simpl.
        + destruct (str_eqb_spec p g); [congruence|reflexivity].
        + destruct (str_eqb_spec q g); [reflexivity|exact IH].
    Qed.

    Lemma fixed_get_add_other m p r row g : g <> p -> fixed_get (fixed_add m p r row) g = fixed_get m g.
    Proof.
      intros Hne. induction m as [|[q [r0 rows]] t IH]; simpl.
      - destruct (str_eqb_spec p g); [congruence|reflexivity].
      - destruct (str_eqb_spec q p) as [->|Hqp]; simpl.
        + destruct (str_eqb_spec p g); [congruence|reflexivity].
        + destruct (str_eqb_spec q g); [reflexivity|exact IH].
    Qed.

    Lemma fixed_get_add_same m p r row :
      fixed_get (fixed_add m p r row) p =
      match fixed_get m p with
      | Some (r0, rows) => Some (r0, rows ++ [row])
      | None => Some (r, [row])
      end.
    Proof.
      induction m as [|[q [r0 rows]] t IH]; simpl.
      - rewrite str_eqb_refl. reflexivity.
      - destruct (str_eqb q p) eqn:E; simpl; rewrite E; [reflexivity|exact IH].
    Qed.

    Variable files0 : fs.
    (* what is known about the violations of this lint pass *)
    Definition good_viol (v : violation) : Prop :=
      is_text (v_rule v) = true /\
      (v_rule v = RNwc -> forall c0, fs_get files0 (v_file v) = Some c0 -> nwc_reported c0 (v_loc v)).

    Notation mu := (mu_sum text_measure).

    Lemma pass_text_decreases vs : forall files fixed made c files' made' c',
      Forall good_viol vs -> inv files0 files fixed ->
      pass vs files fixed made c = POk files' made' c' ->
      mu files' <= mu files /\ (made = false -> made' = true -> mu files' < mu files).
    Proof.
      induction vs as [|v vs IH]; intros files fixed made c files' made' c' Hgood Hinv H; simpl in H.
      - injection H as <- <- _. split; [lia|]. intros -> Hm. discriminate.
      - pose proof (Forall_inv Hgood) as [Htext Hspec]. pose proof (Forall_inv_tail Hgood) as Hgood'.
        destruct (skip_violation fixed v) eqn:Hskip; [eapply IH; eassumption|].
        destruct (fs_get files (v_file v)) as [content|] eqn:Hg; [|discriminate].
        (* the state after a content fix still satisfies the invariant *)
        assert (Hstep : forall c2,
                   (v_rule v = RNwc -> nwc_fix content [v_loc v] = Changed c2) ->
                   inv files0 (fs_put files (v_file v) c2)
                       (fixed_add fixed (v_file v) (v_rule v) (l_row (v_loc v)))).
        { intros c2 Hnwc f. destruct (str_eqb_spec f (v_file v)) as [->|Hne].
          - rewrite fixed_get_add_same, fs_get_put_same.
            specialize (Hinv (v_file v)). unfold skip_violation in Hskip.
            destruct (fixed_get fixed (v_file v)) as [[r0 rows]|] eqn:Hfg.
            + intros ->. apply orb_false_iff in Hskip. destruct Hskip as [Hr Hrows].
              apply negb_false_iff in Hr.
              assert (Hv : v_rule v = RNwc) by (destruct (v_rule v); try discriminate; reflexivity).
              destruct (Hinv eq_refl) as (c0 & cc & H0 & Hc & Hag).
              rewrite Hg in Hc. injection Hc as <-.
              exists c0, c2. repeat split; auto.
              intros r Hr'. rewrite (nwc_fix_other_rows _ _ _ (Hnwc Hv)).
              * apply Hag. intros Hin. apply Hr'. apply in_or_app. left. exact Hin.
              * intros ->. apply Hr'. apply in_or_app. right. left. reflexivity.
            + intros Hv. rewrite Hg in Hinv.
              exists content, c2. repeat split; auto.
              intros r Hr'. apply (nwc_fix_other_rows _ _ _ (Hnwc Hv)).
              intros ->. apply Hr'. left. reflexivity.
          - rewrite fixed_get_add_other by exact Hne. rewrite fs_get_put_other by exact Hne. apply Hinv. }
        (* the content the fix is applied to still has, at the row of the violation, the line that was linted *)
        assert (Hrep : v_rule v = RNwc -> nwc_reported content (v_loc v)).
        { intros Hv. specialize (Hinv (v_file v)). unfold skip_violation in Hskip.
          destruct (fixed_get fixed (v_file v)) as [[r0 rows]|] eqn:Hfg.
          - apply orb_false_iff in Hskip. destruct Hskip as [Hr Hrows]. apply negb_false_iff in Hr.
            assert (Hr0 : r0 = RNwc) by (rewrite Hv in Hr; destruct r0; try discriminate; reflexivity).
            destruct (Hinv Hr0) as (c0 & cc & H0 & Hc & Hag). rewrite Hg in Hc. injection Hc as <-.
            apply (nwc_reported_same_line c0); [|apply Hspec; assumption].
            apply Hag. intros Hin.
            assert (Hex : existsb (Z.eqb (l_row (v_loc v))) rows = true).
            { apply existsb_exists. exists (l_row (v_loc v)). split; [exact Hin|apply Z.eqb_refl]. }
            congruence.
          - rewrite Hg in Hinv. apply Hspec; [exact Hv|]. symmetry. exact Hinv. }
        destruct (v_rule v) eqn:Hv; try discriminate Htext; cbn [FixLoop.apply_fix] in H.
        + destruct (uao_fix content [v_loc v]) as [|c2] eqn:Hf; cbn [of_fix_out] in H.
          * eapply IH; eassumption.
          * pose proof (uao_decreases_total _ _ _ Hf) as Hd.
            pose proof (mu_sum_put text_measure files (v_file v) content c2 Hg) as Hput.
            destruct (IH _ _ _ _ _ _ _ Hgood' (Hstep c2 ltac:(discriminate)) H) as [Hle _].
            split; [lia|]. intros _ _. lia.
        + destruct (nwc_fix content [v_loc v]) as [|c2] eqn:Hf; cbn [of_fix_out] in H.
          * eapply IH; eassumption.
          * destruct (nwc_total _ _ _ Hf) as [_ Hd]. specialize (Hd (Hrep eq_refl)).
            pose proof (mu_sum_put text_measure files (v_file v) content c2 Hg) as Hput.
            destruct (IH _ _ _ _ _ _ _ Hgood' (Hstep c2 (fun _ => eq_refl)) H) as [Hle _].
            split; [lia|]. intros _ _. lia.
        + destruct (nrr_fix content [v_loc v]) as [|c2] eqn:Hf; cbn [of_fix_out] in H.
          * eapply IH; eassumption.
          * pose proof (nrr_decreases_total _ _ _ Hf) as Hd.
            pose proof (mu_sum_put text_measure files (v_file v) content c2 Hg) as Hput.
            destruct (IH _ _ _ _ _ _ _ Hgood' (Hstep c2 ltac:(discriminate)) H) as [Hle _].
            split; [lia|]. intros _ _. lia.
    Qed.
  End TextRules.

  Theorem text_rules_terminate :
    (forall files vs, lint files = Some vs -> Forall (good_viol files) vs) ->
    forall files c, loop (S (mu_sum text_measure files)) files c <> OutOfFuel.
  Proof.
    intros Hlint files c.
    apply (loop_terminates_gen (mu_sum text_measure)) with (P := fun _ => True); [| | |exact I|lia].
    - intros f vs f' c0 c' Hl Hp.
      assert (Hinv : inv f f []) by (intros g; reflexivity).
      destruct (pass_text_decreases f vs f [] false c0 f' true c' (Hlint _ _ Hl) Hinv Hp) as [_ Hlt].
      apply Hlt; reflexivity.
    - intros f vs c0 _ Hl. apply pass_no_move_no_fuel.
      eapply Forall_impl; [|exact (Hlint _ _ Hl)]. cbv beta. intros v [Ht _].
      apply text_rule_never_moves. destruct (v_rule v); try discriminate Ht; tauto.
    - intros; exact I.
  Qed.

  (* with only use-assignment-operator enabled, fixing terminates whatever columns the linter reports:
     every applied fix removes one lone '=' from the file *)
  Theorem uao_only_terminates :
    (forall files vs, lint files = Some vs -> Forall (fun v => v_rule v = RUao) vs) ->
    forall files c, loop (S (mu_sum (lone_cnt NL) files)) files c <> OutOfFuel.
  Proof.
    apply (single_rule_terminates (lone_cnt NL) RUao uao_fix).
    - reflexivity.
    - intros content l c2 H. rewrite (uao_progress _ _ _ H). lia.
  Qed.

  Theorem nrr_only_terminates :
    (forall files vs, lint files = Some vs -> Forall (fun v => v_rule v = RNrr) vs) ->
    forall files c, loop (S (mu_sum (count_byte DQ) files)) files c <> OutOfFuel.
  Proof.
    apply (single_rule_terminates (count_byte DQ) RNrr nrr_fix).
    - reflexivity.
    - intros content l c2 H. rewrite (nrr_progress _ _ _ H). lia.
  Qed.
End LoopProofs.
