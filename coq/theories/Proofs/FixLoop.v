(* Proofs about Model/FixLoop.v (C12): termination under a progress hypothesis, post-condition,
   idempotence, and unconditional termination when only use-assignment-operator or only
   non-raw-regex-pattern is enabled (measures from Proofs/Fixes.v). *)
From Regal Require Import Model.FixLoop Proofs.Fixes.
From Coq Require Import Lia.

Local Open Scope nat_scope.

Section LoopProofs.
  Variable lint : fs -> option (list violation).
  Variable oracle_fix : rule -> str -> str -> fix_result.
  Variable rename_on_conflict : bool.
  Variable free_name : fs -> str -> str.

  Notation apply_fix := (apply_fix oracle_fix).
  Notation pass := (pass oracle_fix rename_on_conflict free_name).
  Notation loop := (loop lint oracle_fix rename_on_conflict free_name).

  (* the fix declines the violation on the current content of its file *)
  Definition declined (files : fs) (v : violation) : Prop :=
    exists content, fs_get files (v_file v) = Some content /\
                    apply_fix (v_rule v) (v_file v) content (v_loc v) = FNone.

  Lemma pass_made_mono vs : forall files fixed c files' made' c',
    pass vs files fixed true c = POk files' made' c' -> made' = true.
  Proof.
    induction vs as [|v vs IH]; intros files fixed c files' made' c' H; simpl in H.
    - injection H as _ <- _. reflexivity.
    - destruct (skip_violation fixed v); [eapply IH; exact H|].
      destruct (fs_get files (v_file v)) as [content|]; [|discriminate].
      destruct (apply_fix (v_rule v) (v_file v) content (v_loc v)) as [|c2|to|].
      + eapply IH; exact H.
      + eapply IH; exact H.
      + destruct (handle_rename rename_on_conflict free_name files (v_file v) to content) as [f2 cf].
        injection H as _ <- _. reflexivity.
      + discriminate.
  Qed.

  Lemma pass_nothing_made vs : forall files c files' c',
    pass vs files [] false c = POk files' false c' ->
    files' = files /\ c' = c /\ Forall (declined files) vs.
  Proof.
    induction vs as [|v vs IH]; intros files c files' c' H; simpl in H.
    - injection H as <- <-. repeat split. constructor.
    - destruct (fs_get files (v_file v)) as [content|] eqn:Hg; [|discriminate].
      destruct (apply_fix (v_rule v) (v_file v) content (v_loc v)) as [|c2|to|] eqn:Ha.
      + destruct (IH _ _ _ _ H) as (E1 & E2 & F). repeat split; auto.
        constructor; [exists content; split; assumption | exact F].
      + apply pass_made_mono in H. discriminate.
      + destruct (handle_rename rename_on_conflict free_name files (v_file v) to content) as [f2 cf].
        discriminate.
      + discriminate.
  Qed.

  Lemma pass_all_declined vs : forall files c,
    Forall (declined files) vs -> pass vs files [] false c = POk files false c.
  Proof.
    induction vs as [|v vs IH]; intros files c F; simpl; [reflexivity|].
    inversion F as [|? ? (content & Hg & Ha) F']; subst.
    rewrite Hg, Ha. apply IH. exact F'.
  Qed.

  (* ---- post-condition: the files returned were linted last, and every violation still reported for
          them is one its fix declines (nothing fixable remains) ---- *)
  Theorem loop_postcondition fuel : forall files c files' c',
    loop fuel files c = Done files' c' ->
    exists vs, lint files' = Some vs /\ Forall (declined files') vs.
  Proof.
    induction fuel as [|f IH]; intros files c files' c' H; [discriminate|].
    cbn [FixLoop.loop] in H.
    destruct (lint files) as [[|v vs]|] eqn:Hl; [| |discriminate].
    - injection H as <- <-. exists []. split; [exact Hl|constructor].
    - destruct (pass (v :: vs) files [] false c) as [|files2 made c2] eqn:Hp; [discriminate|].
      destruct made.
      + eapply IH. exact H.
      + injection H as <- <-.
        destruct (pass_nothing_made _ _ _ _ _ Hp) as (-> & -> & F).
        exists (v :: vs). split; assumption.
  Qed.

  (* ---- idempotence: fixing the result again changes nothing ---- *)
  Theorem loop_idempotent fuel files c files' c' :
    loop fuel files c = Done files' c' ->
    forall fuel2 c2, loop (S fuel2) files' c2 = Done files' c2.
  Proof.
    intros H fuel2 c2.
    destruct (loop_postcondition _ _ _ _ _ H) as (vs & Hl & F).
    cbn [FixLoop.loop]. rewrite Hl. destruct vs as [|v vs]; [reflexivity|].
    rewrite (pass_all_declined _ _ c2 F). reflexivity.
  Qed.

  (* ---- termination under a progress hypothesis with an explicit measure ---- *)
  Section Progress.
    Variable mu : fs -> nat.
    Hypothesis H_progress : forall files vs files' c c',
      lint files = Some vs -> pass vs files [] false c = POk files' true c' -> mu files' < mu files.

    Theorem loop_terminates fuel : forall files c,
      mu files < fuel -> loop fuel files c <> OutOfFuel.
    Proof.
      induction fuel as [|f IH]; intros files c Hlt; [lia|].
      cbn [FixLoop.loop].
      destruct (lint files) as [[|v vs]|] eqn:Hl; try discriminate.
      destruct (pass (v :: vs) files [] false c) as [|files2 made c2] eqn:Hp; [discriminate|].
      destruct made; [|discriminate].
      apply IH. pose proof (H_progress _ _ _ _ _ Hl Hp). lia.
    Qed.
  End Progress.

  (* ---- a measure that is a sum over the files ---- *)
  Section SumMeasure.
    Variable m : str -> nat.
    Definition mu_sum (files : fs) : nat := fold_right (fun pc acc => m (snd pc) + acc) 0 files.

    Lemma mu_sum_put files : forall p c0 c1,
      fs_get files p = Some c0 -> mu_sum (fs_put files p c1) + m c0 = mu_sum files + m c1.
    Proof.
      induction files as [|[q d] t IH]; intros p c0 c1 Hg; [discriminate|].
      simpl in *. destruct (str_eqb q p).
      - injection Hg as ->. simpl. lia.
      - simpl. specialize (IH p c0 c1 Hg). lia.
    Qed.

    (* a rule whose fix is a text fix decreasing [m] *)
    Variable r : rule.
    Variable fixr : str -> list loc -> fix_out.
    Hypothesis H_fix : forall file content l, apply_fix r file content l = of_fix_out (fixr content [l]).
    Hypothesis H_dec : forall content l c2, fixr content [l] = Changed c2 -> m c2 < m content.

    Lemma pass_sum_decreases vs : forall files fixed made c files' made' c',
      Forall (fun v => v_rule v = r) vs ->
      pass vs files fixed made c = POk files' made' c' ->
      mu_sum files' <= mu_sum files /\ (made = false -> made' = true -> mu_sum files' < mu_sum files).
    Proof.
      induction vs as [|v vs IH]; intros files fixed made c files' made' c' Hr H; simpl in H.
      - injection H as <- <- _. split; [lia|]. intros -> Hm. discriminate.
      - pose proof (Forall_inv Hr) as Hv. pose proof (Forall_inv_tail Hr) as Hr'. cbv beta in Hv.
        destruct (skip_violation fixed v); [eapply IH; eassumption|].
        destruct (fs_get files (v_file v)) as [content|] eqn:Hg; [|discriminate].
        rewrite Hv, H_fix in H.
        destruct (fixr content [v_loc v]) as [|c2] eqn:Hf; cbn [of_fix_out] in H.
        + eapply IH; eassumption.
        + pose proof (H_dec _ _ _ Hf) as Hd.
          pose proof (mu_sum_put files (v_file v) content c2 Hg) as Hput.
          destruct (IH _ _ _ _ _ _ _ Hr' H) as [Hle _].
          split; [lia|]. intros _ _. lia.
    Qed.

    Theorem single_rule_terminates :
      (forall files vs, lint files = Some vs -> Forall (fun v => v_rule v = r) vs) ->
      forall files c, loop (S (mu_sum files)) files c <> OutOfFuel.
    Proof.
      intros Hlint files c.
      apply (loop_terminates mu_sum); [|lia].
      intros f vs f' c0 c' Hl Hp.
      destruct (pass_sum_decreases vs f [] false c0 f' true c' (Hlint _ _ Hl) Hp) as [_ Hlt].
      apply Hlt; reflexivity.
    Qed.
  End SumMeasure.

  (* ---- any combination of the three text rules: the total text measure decreases with every
          iteration that fixes something, provided the no-whitespace-comment violations the linter
          reports point at a '#' directly followed by a non-blank (what the rule reports) ---- *)
  Section TextRules.
    Definition is_text (r : rule) : bool :=
      match r with RUao | RNwc | RNrr => true | _ => false end.

    Definition agree_off (rows : list Z) (c0 c : str) : Prop :=
      forall r, ~ In r rows -> get_line (lines_of c) r = get_line (lines_of c0) r.

    (* files0: the files that were linted; files/fixed: the state within the pass *)
    Definition inv (files0 files : fs) (fixed : fixed_map) : Prop :=
      forall f,
        match fixed_get fixed f with
        | None => fs_get files f = fs_get files0 f
        | Some (r, rows) =>
            r = RNwc -> exists c0 c, fs_get files0 f = Some c0 /\ fs_get files f = Some c /\ agree_off rows c0 c
        end.

    Lemma fs_get_put_same files p c : fs_get (fs_put files p c) p = Some c.
    Proof.
      induction files as [|[q d] t IH]; simpl.
      - rewrite str_eqb_refl. reflexivity.
      - destruct (str_eqb q p) eqn:E; simpl; rewrite E; [reflexivity|exact IH].
    Qed.

    Lemma fs_get_put_other files p c g : g <> p -> fs_get (fs_put files p c) g = fs_get files g.
    Proof.
      intros Hne. induction files as [|[q d] t IH]; simpl.
      - destruct (str_eqb_spec p g); [congruence|reflexivity].
      - destruct (str_eqb_spec q p) as [->|Hqp]; simpl.
        + destruct (str_eqb_spec p g); [congruence|reflexivity].
        + destruct (str_eqb_spec q g); [reflexivity|exact IH].
    Qed.

    Lemma fixed_get_add_other m p r row g : g <> p -> fixed_get (fixed_add m p r row) g = fixed_get m g.
    Proof.
      intros Hne. induction m as [|[q [r0 rows]] t IH]; simpl.
      - destruct (str_eqb_spec p g); [congruence|reflexivity].
      - destruct (str_eqb_spec q p) as [->|Hqp]; simpl.
        + destruct (str_eqb_spec p g); [congruence|reflexivity].
        + destruct (str_eqb_spec q g); [reflexivity|exact IH].
    Qed.

    Lemma fixed_get_add_same m p r row :
      fixed_get (fixed_add m p r row) p =
      match fixed_get m p with
      | Some (r0, rows) => Some (r0, rows ++ [row])
      | None => Some (r, [row])
      end.
    Proof.
      induction m as [|[q [r0 rows]] t IH]; simpl.
      - rewrite str_eqb_refl. reflexivity.
      - destruct (str_eqb q p) eqn:E; simpl; rewrite E; [reflexivity|exact IH].
    Qed.

    Variable files0 : fs.
    (* what is known about the violations of this lint pass *)
    Definition good_viol (v : violation) : Prop :=
      is_text (v_rule v) = true /\
      (v_rule v = RNwc -> forall c0, fs_get files0 (v_file v) = Some c0 -> nwc_reported c0 (v_loc v)).

    Notation mu := (mu_sum text_measure).

    Lemma pass_text_decreases vs : forall files fixed made c files' made' c',
      Forall good_viol vs -> inv files0 files fixed ->
      pass vs files fixed made c = POk files' made' c' ->
      mu files' <= mu files /\ (made = false -> made' = true -> mu files' < mu files).
    Proof.
      induction vs as [|v vs IH]; intros files fixed made c files' made' c' Hgood Hinv H; simpl in H.
      - injection H as <- <- _. split; [lia|]. intros -> Hm. discriminate.
      - pose proof (Forall_inv Hgood) as [Htext Hspec]. pose proof (Forall_inv_tail Hgood) as Hgood'.
        destruct (skip_violation fixed v) eqn:Hskip; [eapply IH; eassumption|].
        destruct (fs_get files (v_file v)) as [content|] eqn:Hg; [|discriminate].
        (* the state after a content fix still satisfies the invariant *)
        assert (Hstep : forall c2,
                   (v_rule v = RNwc -> nwc_fix content [v_loc v] = Changed c2) ->
                   inv files0 (fs_put files (v_file v) c2)
                       (fixed_add fixed (v_file v) (v_rule v) (l_row (v_loc v)))).
        { intros c2 Hnwc f. destruct (str_eqb_spec f (v_file v)) as [->|Hne].
          - rewrite fixed_get_add_same, fs_get_put_same.
            specialize (Hinv (v_file v)). unfold skip_violation in Hskip.
            destruct (fixed_get fixed (v_file v)) as [[r0 rows]|] eqn:Hfg.
            + intros ->. apply orb_false_iff in Hskip. destruct Hskip as [Hr Hrows].
              apply negb_false_iff in Hr.
              assert (Hv : v_rule v = RNwc) by (destruct (v_rule v); try discriminate; reflexivity).
              destruct (Hinv eq_refl) as (c0 & cc & H0 & Hc & Hag).
              rewrite Hg in Hc. injection Hc as <-.
              exists c0, c2. repeat split; auto.
              intros r Hr'. rewrite (nwc_fix_other_rows _ _ _ (Hnwc Hv)).
              * apply Hag. intros Hin. apply Hr'. apply in_or_app. left. exact Hin.
              * intros ->. apply Hr'. apply in_or_app. right. left. reflexivity.
            + intros Hv. rewrite Hg in Hinv.
              exists content, c2. repeat split; auto.
              intros r Hr'. apply (nwc_fix_other_rows _ _ _ (Hnwc Hv)).
              intros ->. apply Hr'. left. reflexivity.
          - rewrite fixed_get_add_other by exact Hne. rewrite fs_get_put_other by exact Hne. apply Hinv. }
        (* the content the fix is applied to still has, at the row of the violation, the line that was linted *)
        assert (Hrep : v_rule v = RNwc -> nwc_reported content (v_loc v)).
        { intros Hv. specialize (Hinv (v_file v)). unfold skip_violation in Hskip.
          destruct (fixed_get fixed (v_file v)) as [[r0 rows]|] eqn:Hfg.
          - apply orb_false_iff in Hskip. destruct Hskip as [Hr Hrows]. apply negb_false_iff in Hr.
            assert (Hr0 : r0 = RNwc) by (rewrite Hv in Hr; destruct r0; try discriminate; reflexivity).
            destruct (Hinv Hr0) as (c0 & cc & H0 & Hc & Hag). rewrite Hg in Hc. injection Hc as <-.
            apply (nwc_reported_same_line c0); [|apply Hspec; assumption].
            apply Hag. intros Hin.
            assert (Hex : existsb (Z.eqb (l_row (v_loc v))) rows = true).
            { apply existsb_exists. exists (l_row (v_loc v)). split; [exact Hin|apply Z.eqb_refl]. }
            congruence.
          - rewrite Hg in Hinv. apply Hspec; [exact Hv|]. symmetry. exact Hinv. }
        destruct (v_rule v) eqn:Hv; try discriminate Htext; cbn [FixLoop.apply_fix] in H.
        + destruct (uao_fix content [v_loc v]) as [|c2] eqn:Hf; cbn [of_fix_out] in H.
          * eapply IH; eassumption.
          * pose proof (uao_decreases_total _ _ _ Hf) as Hd.
            pose proof (mu_sum_put text_measure files (v_file v) content c2 Hg) as Hput.
            destruct (IH _ _ _ _ _ _ _ Hgood' (Hstep c2 ltac:(discriminate)) H) as [Hle _].
            split; [lia|]. intros _ _. lia.
        + destruct (nwc_fix content [v_loc v]) as [|c2] eqn:Hf; cbn [of_fix_out] in H.
          * eapply IH; eassumption.
          * destruct (nwc_total _ _ _ Hf) as [_ Hd]. specialize (Hd (Hrep eq_refl)).
            pose proof (mu_sum_put text_measure files (v_file v) content c2 Hg) as Hput.
            destruct (IH _ _ _ _ _ _ _ Hgood' (Hstep c2 (fun _ => eq_refl)) H) as [Hle _].
            split; [lia|]. intros _ _. lia.
        + destruct (nrr_fix content [v_loc v]) as [|c2] eqn:Hf; cbn [of_fix_out] in H.
          * eapply IH; eassumption.
          * pose proof (nrr_decreases_total _ _ _ Hf) as Hd.
            pose proof (mu_sum_put text_measure files (v_file v) content c2 Hg) as Hput.
            destruct (IH _ _ _ _ _ _ _ Hgood' (Hstep c2 ltac:(discriminate)) H) as [Hle _].
            split; [lia|]. intros _ _. lia.
    Qed.
  End TextRules.

  Theorem text_rules_terminate :
    (forall files vs, lint files = Some vs -> Forall (good_viol files) vs) ->
    forall files c, loop (S (mu_sum text_measure files)) files c <> OutOfFuel.
  Proof.
    intros Hlint files c.
    apply (loop_terminates (mu_sum text_measure)); [|lia].
    intros f vs f' c0 c' Hl Hp.
    assert (Hinv : inv f f []) by (intros g; reflexivity).
    destruct (pass_text_decreases f vs f [] false c0 f' true c' (Hlint _ _ Hl) Hinv Hp) as [_ Hlt].
    apply Hlt; reflexivity.
  Qed.

  (* with only use-assignment-operator enabled, fixing terminates whatever columns the linter reports:
     every applied fix removes one lone '=' from the file *)
  Theorem uao_only_terminates :
    (forall files vs, lint files = Some vs -> Forall (fun v => v_rule v = RUao) vs) ->
    forall files c, loop (S (mu_sum (lone_cnt NL) files)) files c <> OutOfFuel.
  Proof.
    apply (single_rule_terminates (lone_cnt NL) RUao uao_fix).
    - reflexivity.
    - intros content l c2 H. rewrite (uao_progress _ _ _ H). lia.
  Qed.

  Theorem nrr_only_terminates :
    (forall files vs, lint files = Some vs -> Forall (fun v => v_rule v = RNrr) vs) ->
    forall files c, loop (S (mu_sum (count_byte DQ) files)) files c <> OutOfFuel.
  Proof.
    apply (single_rule_terminates (count_byte DQ) RNrr nrr_fix).
    - reflexivity.
    - intros content l c2 H. rewrite (nrr_progress _ _ _ H). lia.
  Qed.
End LoopProofs.
