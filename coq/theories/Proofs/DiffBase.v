(* Basic facts about the pieces of Model/Diff.v: result monad, the line accessors, the V array,
   slide and del_loop.  Everything is stated for abstract accessors [geta]/[getb] that agree
   pointwise with list indexing ([list_get]); [lines_get_map] discharges this for the
   PositiveMap accessors that [operations] really uses. *)
From Regal Require Export Model.LspApply.
From Coq Require Import Lia.
Open Scope Z_scope.

Lemma bind_ok {T U} (r : res T) (f : T -> res U) (u : U) :
  bind r f = Ok u -> exists t, r = Ok t /\ f t = Ok u.
Proof. destruct r as [t| |]; simpl; intros H; try discriminate. exists t; auto. Qed.

Ltac bind_inv H x Hx :=
  let H' := fresh H in
  apply bind_ok in H; destruct H as [x [Hx H']]; rename H' into H.

(* l[i] with Go's bounds check *)
Definition list_get {A} (l : list A) (i : Z) : res A :=
  if i <? 0 then Panic
  else match nth_error l (Z.to_nat i) with Some u => Ok u | None => Panic end.

Lemma list_get_ok {A} (l : list A) i u :
  list_get l i = Ok u <-> 0 <= i /\ nth_error l (Z.to_nat i) = Some u.
Proof.
  unfold list_get. destruct (Z.ltb_spec i 0) as [Hi|Hi].
  - split; [discriminate | lia].
  - destruct (nth_error l (Z.to_nat i)) as [v|]; split.
    + intros [= ->]. auto.
    + intros [_ [= ->]]. reflexivity.
    + discriminate.
    + intros [_ ?]; discriminate.
Qed.

Lemma list_get_in {A} (l : list A) i :
  0 <= i < Z.of_nat (length l) -> exists u, list_get l i = Ok u.
Proof.
  intros Hi. unfold list_get. destruct (Z.ltb_spec i 0) as [H|H]; [lia|].
  destruct (nth_error l (Z.to_nat i)) as [u|] eqn:E; [eauto|].
  apply nth_error_None in E. lia.
Qed.

Lemma list_get_not_fuel {A} (l : list A) i : list_get l i <> Fuel.
Proof.
  unfold list_get. destruct (i <? 0); [discriminate|].
  destruct (nth_error l (Z.to_nat i)); discriminate.
Qed.

Lemma lines_map_from_find {A} (l : list A) : forall p m q,
  (forall q', (p <= q')%positive -> PositiveMap.find q' m = None) ->
  PositiveMap.find q (lines_map_from l p m) =
  if (q <? p)%positive then PositiveMap.find q m
  else nth_error l (Pos.to_nat q - Pos.to_nat p).
Proof.
  induction l as [|u l IH]; intros p m q Hm; simpl.
  - destruct (Pos.ltb_spec q p) as [H|H]; [reflexivity|].
    rewrite Hm by assumption. destruct (Pos.to_nat q - Pos.to_nat p)%nat; reflexivity.
  - rewrite IH.
    + destruct (Pos.ltb_spec q (Pos.succ p)) as [H1|H1]; destruct (Pos.ltb_spec q p) as [H2|H2]; try lia.
      * rewrite PositiveMap.gso by lia. reflexivity.
      * assert (q = p) by lia. subst q. rewrite PositiveMap.gss.
        replace (Pos.to_nat p - Pos.to_nat p)%nat with O by lia. reflexivity.
      * replace (Pos.to_nat q - Pos.to_nat p)%nat with (S (Pos.to_nat q - Pos.to_nat (Pos.succ p)))%nat by lia.
        reflexivity.
    + intros q' Hq'. rewrite PositiveMap.gso by lia. apply Hm. lia.
Qed.

Lemma lines_get_map {A} (l : list A) i : lines_get (lines_map l) i = list_get l i.
Proof.
  unfold lines_get, list_get, lines_map. destruct (Z.ltb_spec i 0) as [H|H]; [reflexivity|].
  rewrite lines_map_from_find by (intros; apply PositiveMap.gempty).
  destruct (Pos.ltb_spec (Z.to_pos (i + 1)) 1) as [H1|H1]; [lia|].
  replace (Pos.to_nat (Z.to_pos (i + 1)) - Pos.to_nat 1)%nat with (Z.to_nat i) by lia.
  reflexivity.
Qed.

(* ---------------------------------------------------------------- the V array *)

Lemma vraw_empty i : vraw vempty i = 0.
Proof. unfold vraw, vempty. rewrite PositiveMap.gempty. reflexivity. Qed.

Lemma vraw_add_same V i x : vraw (PositiveMap.add (Z.to_pos (i + 1)) x V) i = x.
Proof. unfold vraw. rewrite PositiveMap.gss. reflexivity. Qed.

Lemma vraw_add_other V i j x :
  0 <= i -> 0 <= j -> i <> j -> vraw (PositiveMap.add (Z.to_pos (i + 1)) x V) j = vraw V j.
Proof. intros Hi Hj Hij. unfold vraw. rewrite PositiveMap.gso by lia. reflexivity. Qed.

Section Accessors.
  Variable A : Type.
  Variable eqb : A -> A -> bool.
  Variables a b : list A.
  Variables geta getb : Z -> res A.
  Variable sfuel : nat.
  Hypothesis Hga : forall i, geta i = list_get a i.
  Hypothesis Hgb : forall i, getb i = list_get b i.

  Notation Mz := (Z.of_nat (length a)).
  Notation Nz := (Z.of_nat (length b)).

  (* a[x] == b[y], both in range *)
  Definition eq_at (x y : Z) : Prop :=
    0 <= x /\ 0 <= y /\
    exists u v, nth_error a (Z.to_nat x) = Some u /\ nth_error b (Z.to_nat y) = Some v /\ eqb u v = true.

  Lemma eq_at_range x y : eq_at x y -> 0 <= x < Mz /\ 0 <= y < Nz.
  Proof.
    intros [Hx [Hy [u [v [Hu [Hv _]]]]]].
    assert (Z.to_nat x < length a)%nat by (apply nth_error_Some; congruence).
    assert (Z.to_nat y < length b)%nat by (apply nth_error_Some; congruence).
    lia.
  Qed.

  (* n diagonal steps from (x, y), each over equal lines *)
  Definition diag_ok (x y n : Z) : Prop := forall i, 0 <= i < n -> eq_at (x + i) (y + i).

  Lemma diag_ok_nil x y n : n <= 0 -> diag_ok x y n.
  Proof. intros Hn i Hi. lia. Qed.

  Lemma diag_ok_cons x y n : 0 <= n -> eq_at x y -> diag_ok (x + 1) (y + 1) n -> diag_ok x y (n + 1).
  Proof.
    intros Hn H0 H i Hi. destruct (Z.eq_dec i 0) as [->|Hne].
    - rewrite !Z.add_0_r. assumption.
    - replace (x + i) with (x + 1 + (i - 1)) by lia. replace (y + i) with (y + 1 + (i - 1)) by lia.
      apply H. lia.
  Qed.

  Lemma diag_ok_app x y n m : 0 <= n -> diag_ok x y n -> diag_ok (x + n) (y + n) m -> diag_ok x y (n + m).
  Proof.
    intros Hn H1 H2 i Hi. destruct (Z.lt_ge_cases i n) as [Hlt|Hge].
    - apply H1. lia.
    - replace (x + i) with (x + n + (i - n)) by lia. replace (y + i) with (y + n + (i - n)) by lia.
      apply H2. lia.
  Qed.

  Lemma diag_ok_le x y n m : m <= n -> diag_ok x y n -> diag_ok x y m.
  Proof. intros Hm H i Hi. apply H. lia. Qed.

  (* x0 <= x and the lines on the diagonal between them are equal *)
  Definition slides (x0 y0 x : Z) : Prop := x0 <= x /\ diag_ok x0 y0 (x - x0).

  (* the loop stopped for a reason *)
  Definition slide_stops (x y : Z) : Prop := ~ (x < Mz /\ y < Nz /\ eq_at x y).

  Lemma slide_spec fuel : forall x y x',
    slide A eqb Mz Nz geta getb fuel x y = Ok x' -> slides x y x' /\ slide_stops x' (y + (x' - x)).
  Proof.
    induction fuel as [|f IH]; intros x y x' H; simpl in H.
    - destruct ((x <? Mz) && (y <? Nz)) eqn:Hc.
      + bind_inv H u Hu. bind_inv H v Hv. rewrite Hga in Hu. rewrite Hgb in Hv.
        destruct (eqb u v) eqn:Huv; [discriminate|]. injection H as <-.
        split; [split; [lia | apply diag_ok_nil; lia]|].
        replace (y + (x - x)) with y by lia. intros [_ [_ [_ [_ [u' [v' [Hu' [Hv' Huv']]]]]]]].
        apply list_get_ok in Hu, Hv. destruct Hu as [_ Hu], Hv as [_ Hv]. congruence.
      + injection H as <-. split; [split; [lia | apply diag_ok_nil; lia]|].
        replace (y + (x - x)) with y by lia. intros [H1 [H2 _]].
        apply andb_false_iff in Hc. destruct Hc as [Hc|Hc]; apply Z.ltb_ge in Hc; lia.
    - destruct ((x <? Mz) && (y <? Nz)) eqn:Hc.
      + bind_inv H u Hu. bind_inv H v Hv. rewrite Hga in Hu. rewrite Hgb in Hv.
        apply list_get_ok in Hu, Hv. destruct Hu as [Hx Hu], Hv as [Hy Hv].
        destruct (eqb u v) eqn:Huv.
        * apply IH in H. destruct H as [[Hle Hd] Hs].
          split; [split; [lia|]|].
          -- replace (x' - x) with ((x' - (x + 1)) + 1) by lia. apply diag_ok_cons; [lia| |assumption].
             split; [assumption|]. split; [assumption|]. exists u, v. auto.
          -- replace (y + (x' - x)) with (y + 1 + (x' - (x + 1))) by lia. assumption.
        * injection H as <-. split; [split; [lia | apply diag_ok_nil; lia]|].
          replace (y + (x - x)) with y by lia. intros [_ [_ [_ [_ [u' [v' [Hu' [Hv' Huv']]]]]]]]. congruence.
      + injection H as <-. split; [split; [lia | apply diag_ok_nil; lia]|].
        replace (y + (x - x)) with y by lia. intros [H1 [H2 _]].
        apply andb_false_iff in Hc. destruct Hc as [Hc|Hc]; apply Z.ltb_ge in Hc; lia.
  Qed.

  (* with enough fuel and a start inside the first quadrant, slide neither panics nor runs dry *)
  Lemma slide_total fuel : forall x y,
    0 <= x -> 0 <= y -> (Z.to_nat (Mz - x) < fuel)%nat ->
    exists x', slide A eqb Mz Nz geta getb fuel x y = Ok x'.
  Proof.
    induction fuel as [|f IH]; intros x y Hx Hy Hf; [lia|]. simpl.
    destruct ((x <? Mz) && (y <? Nz)) eqn:Hc; [|eauto].
    apply andb_true_iff in Hc. destruct Hc as [Hc1 Hc2]. apply Z.ltb_lt in Hc1, Hc2.
    rewrite Hga, Hgb.
    destruct (list_get_in a x) as [u Hu]; [lia|]. destruct (list_get_in b y) as [v Hv]; [lia|].
    rewrite Hu, Hv. simpl. destruct (eqb u v); [|eauto].
    apply IH; lia.
  Qed.

  Lemma del_loop_spec t : forall x,
    x + Z.of_nat t <= Mz -> del_loop Mz t x = x + Z.of_nat t.
  Proof.
    induction t as [|t IH]; intros x Hx; simpl; [lia|].
    destruct (Z.eqb_spec (x + 1) Mz) as [He|Hne].
    - lia.
    - rewrite IH by lia. lia.
  Qed.
End Accessors.
