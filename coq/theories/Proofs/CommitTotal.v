(* The commit cannot stop half way: on a tree-shaped file system, for clean paths, once the
   directory-creation phase has gone through, every os call of the delete and write phases succeeds. *)
From Regal Require Import Model.Commit Proofs.Provider Proofs.CleanPath Proofs.Commit.
From Coq Require Import Lia.
Local Open Scope nat_scope.

Lemma Forall_firstn_reg {A} (P : A -> Prop) (l : list A) k : Forall P l -> Forall P (firstn k l).
Proof.
  revert k. induction l as [|x l IH]; intros k H; destruct k; simpl; try constructor.
  - inversion H; assumption.
  - apply IH. inversion H; assumption.
Qed.

Section Tree.
  Variable C : Type.
  Implicit Types (fs : fsys C) (d p f : str).

  Lemma in_entries fs p : In p (fs_entries fs) <-> fs_is_file fs p = true \/ fs_is_dir fs p = true.
  Proof.
    unfold fs_entries, fs_is_file, fs_is_dir. rewrite in_app_iff, amem_in, str_in_spec. tauto.
  Qed.

  Lemma in_children fs d p :
    In p (fs_children fs d) <-> In p (fs_entries fs) /\ dir p = d /\ p <> d.
  Proof.
    unfold fs_children. rewrite filter_In, andb_true_iff, negb_true_iff, str_eqb_eq, str_eqb_false. tauto.
  Qed.

  Lemma children_nil fs d :
    fs_children fs d = [] <-> forall p, In p (fs_entries fs) -> dir p = d -> p = d.
  Proof.
    split.
    - intros H p Hp Hd. destruct (str_eqb_spec p d) as [|Hne]; [assumption|].
      assert (Hin : In p (fs_children fs d)) by (apply in_children; tauto). rewrite H in Hin. destruct Hin.
    - intros H. destruct (fs_children fs d) as [|x l] eqn:E; [reflexivity|].
      assert (Hx : In x (fs_children fs d)) by (rewrite E; left; reflexivity).
      apply in_children in Hx as [H1 [H2 H3]]. exfalso. apply H3. apply H; assumption.
  Qed.

  (* ------------------------------------------------------------ removing things from a tree *)

  Definition rm_file fs f : fsys C := {| fs_files := adel (fs_files fs) f; fs_dirs := fs_dirs fs |}.
  Definition rm_dir fs d : fsys C := {| fs_files := fs_files fs; fs_dirs := sdel d (fs_dirs fs) |}.

  Lemma os_remove_file fs f : fs_is_file fs f = true -> os_remove fs f = OsOk (rm_file fs f).
  Proof. intros H. unfold os_remove. rewrite H. reflexivity. Qed.

  Lemma os_remove_dir fs d :
    fs_is_file fs d = false -> fs_is_dir fs d = true -> fs_children fs d = [] ->
    os_remove fs d = OsOk (rm_dir fs d).
  Proof. intros H1 H2 H3. unfold os_remove. rewrite H1, H2, H3. reflexivity. Qed.

  Lemma is_file_rm_file fs f p : fs_is_file (rm_file fs f) p = fs_is_file fs p && negb (str_eqb p f).
  Proof.
    unfold fs_is_file, rm_file, amem. simpl.
    destruct (str_eqb_spec p f) as [->|Hne].
    - rewrite aget_adel_eq, andb_false_r. reflexivity.
    - rewrite aget_adel_neq by congruence. rewrite andb_true_r. reflexivity.
  Qed.

  Lemma is_dir_rm_dir fs d p : fs_is_dir (rm_dir fs d) p = fs_is_dir fs p && negb (str_eqb p d).
  Proof.
    unfold fs_is_dir, rm_dir. simpl.
    destruct (str_in p (sdel d (fs_dirs fs))) eqn:E.
    - apply str_in_spec, in_sdel in E as [Hne Hin]. apply str_in_spec in Hin. rewrite Hin.
      apply str_eqb_false in Hne. rewrite Hne. reflexivity.
    - apply str_in_false in E. destruct (str_in p (fs_dirs fs)) eqn:E2; [|reflexivity].
      destruct (str_eqb_spec p d) as [->|Hne]; [reflexivity|].
      exfalso. apply E. apply in_sdel. split; [exact Hne | apply str_in_spec; exact E2].
  Qed.

  Lemma tree_rm_file fs f : fs_tree fs -> fs_is_file fs f = true -> fs_tree (rm_file fs f).
  Proof.
    intros T Hf. constructor.
    - intros p Hp. rewrite is_file_rm_file in Hp. apply andb_true_iff in Hp as [Hp _].
      apply (tr_wf fs T). exact Hp.
    - simpl. apply nodup_keys_adel. apply (tr_nodup fs T).
    - apply (tr_root fs T).
    - intros p Hp. apply (tr_parent fs T). apply in_entries. apply in_entries in Hp as [Hp|Hp].
      + left. rewrite is_file_rm_file in Hp. apply andb_true_iff in Hp. tauto.
      + right. exact Hp.
  Qed.

  Lemma tree_rm_dir fs d :
    fs_tree fs -> fs_is_dir fs d = true -> fs_children fs d = [] -> d <> [SLASH] -> fs_tree (rm_dir fs d).
  Proof.
    intros T Hd Hc Hne. constructor.
    - intros p Hp. rewrite is_dir_rm_dir. rewrite (tr_wf fs T p Hp). reflexivity.
    - apply (tr_nodup fs T).
    - rewrite is_dir_rm_dir, (tr_root fs T). apply str_eqb_false in Hne.
      rewrite str_eqb_sym in Hne. rewrite Hne. reflexivity.
    - intros p Hp.
      assert (Hp' : In p (fs_entries fs) /\ p <> d).
      { apply in_entries in Hp as [Hp|Hp].
        - split; [apply in_entries; left; exact Hp|]. intros ->.
          unfold fs_is_file in Hp. simpl in Hp. rewrite (tr_wf fs T d Hp) in Hd. discriminate.
        - rewrite is_dir_rm_dir in Hp. apply andb_true_iff in Hp as [Hp Hn].
          split; [apply in_entries; right; exact Hp|]. apply negb_true_iff, str_eqb_false in Hn. exact Hn. }
      destruct Hp' as [Hin Hpd].
      rewrite is_dir_rm_dir, (tr_parent fs T p Hin). simpl.
      apply negb_true_iff, str_eqb_false. intros Heq.
      apply Hpd. apply (proj1 (children_nil fs d) Hc p Hin Heq).
  Qed.

  (* ------------------------------------------------------------ directories removable in sequence *)

  Inductive rm_chain : fsys C -> list str -> Prop :=
  | rc_nil fs : rm_chain fs []
  | rc_cons fs d ds :
      fs_is_file fs d = false -> fs_is_dir fs d = true -> fs_children fs d = [] -> d <> [SLASH] ->
      rm_chain (rm_dir fs d) ds -> rm_chain fs (d :: ds).

  Fixpoint rm_dirs fs (ds : list str) : fsys C :=
    match ds with [] => fs | d :: ds' => rm_dirs (rm_dir fs d) ds' end.

  Lemma rm_chain_loop : forall ds fs,
    fs_tree fs -> rm_chain fs ds ->
    (fix go (fs : fsys C) (ds : list str) : commit_result C :=
       match ds with
       | [] => CommitOk fs
       | d :: ds' => match os_remove fs d with
                     | OsOk fs' => go fs' ds'
                     | OsErr => CommitFailed fs
                     end
       end) fs ds = CommitOk (rm_dirs fs ds)
    /\ fs_tree (rm_dirs fs ds).
  Proof.
    induction ds as [|d ds IH]; intros fs T H.
    - split; [reflexivity | exact T].
    - inversion H as [|? ? ? Hf Hd Hc Hne Hrest]; subst.
      rewrite (os_remove_dir fs d Hf Hd Hc). simpl rm_dirs.
      apply IH; [apply tree_rm_dir; assumption | exact Hrest].
  Qed.

  (* the children of [d] once [a] (a directory, not a file) is gone *)
  Lemma children_rm_dir fs a d c :
    fs_is_file fs a = false ->
    In c (fs_children (rm_dir fs a) d) -> In c (fs_children fs d) /\ c <> a.
  Proof.
    intros Hfa H. apply in_children in H as [Hin [Hd Hne]].
    apply in_entries in Hin as [Hin|Hin].
    - split.
      + apply in_children. split; [apply in_entries; left; exact Hin | tauto].
      + intros ->. unfold fs_is_file in Hin, Hfa. simpl in Hin. congruence.
    - rewrite is_dir_rm_dir in Hin. apply andb_true_iff in Hin as [Hin Hn].
      split; [apply in_children; split; [apply in_entries; right; exact Hin | tauto]|].
      apply negb_true_iff, str_eqb_false in Hn. exact Hn.
  Qed.

  Lemma rm_chain_snoc : forall acc fs d,
    rm_chain fs acc -> ~ In d acc ->
    fs_is_file fs d = false -> fs_is_dir fs d = true -> d <> [SLASH] ->
    (forall c, In c (fs_children fs d) -> In c acc) ->
    rm_chain fs (acc ++ [d]).
  Proof.
    induction acc as [|a acc IH]; intros fs d H Hni Hf Hd Hne Hch.
    - simpl. constructor; try assumption; [|constructor].
      destruct (fs_children fs d) as [|c l] eqn:E; [reflexivity|].
      exfalso. apply (Hch c). left. reflexivity.
    - inversion H as [|? ? ? Hfa Hda Hca Hnea Hrest]; subst. simpl.
      constructor; try assumption.
      apply IH; try assumption.
      + intros Hin. apply Hni. right. exact Hin.
      + rewrite is_dir_rm_dir, Hd. simpl. apply negb_true_iff, str_eqb_false.
        intros ->. apply Hni. left. reflexivity.
      + intros c Hc. apply (children_rm_dir fs a d c Hfa) in Hc as [Hc Hca'].
        destruct (Hch c Hc) as [<-|Hin]; [contradiction | exact Hin].
  Qed.

  (* ------------------------------------------------------------ the walk of DirCleanUpPaths *)

  Lemma cpath_length_snoc cs c : regular c -> length (cpath cs) < length (cpath (cs ++ [c])).
  Proof.
    intros [Hne _]. destruct cs as [|w cs'].
    - simpl. destruct c; [contradiction | simpl; lia].
    - rewrite cpath_snoc by discriminate. rewrite app_length. simpl. lia.
  Qed.

  Lemma cpath_snoc_not_root cs c : regular c -> cpath (cs ++ [c]) <> [SLASH].
  Proof.
    intros Hc Heq. pose proof (cpath_length_snoc cs c Hc) as H. rewrite Heq in H.
    unfold cpath in H. simpl in H. lia.
  Qed.

  Lemma last_opt_in {A} (l : list A) x : last_opt l = Some x -> In x l.
  Proof.
    unfold last_opt. destruct (rev l) as [|y t] eqn:E; [discriminate|].
    intros [= <-]. apply in_rev. rewrite E. left. reflexivity.
  Qed.

  Lemma walk_ok fs target preserve ps :
    fs_tree fs -> ~ In target (fs_entries fs) -> In (cpath ps) preserve ->
    forall fuel rest acc,
    Forall regular (ps ++ rest) ->
    length rest < fuel ->
    fs_is_dir fs (cpath (ps ++ rest)) = true ->
    rm_chain fs acc ->
    (forall a, In a acc -> length (cpath (ps ++ rest)) < length a) ->
    exists ds, cleanup_walk fuel fs target preserve (cpath (ps ++ rest)) acc = CwOk ds /\ rm_chain fs ds.
  Proof.
    intros T Htgt Hpres. induction fuel as [|fuel IH]; intros rest acc Hreg Hfuel Hdir Hchain Hlen; [lia|].
    cbn [cleanup_walk].
    destruct (str_in (cpath (ps ++ rest)) preserve) eqn:Ep; [exists acc; split; [reflexivity | exact Hchain]|].
    destruct (Nat.eqb (length (split_on SLASH (cpath (ps ++ rest)))) 1); [exists acc; split; [reflexivity | exact Hchain]|].
    rewrite Hdir. cbn [negb].
    match goal with |- context [forallb ?sk ?l] => destruct (forallb sk l) eqn:Eall end;
      [|exists acc; split; [reflexivity | exact Hchain]].
    (* the walk goes up: rest cannot be empty *)
    destruct (exists_last (l := rest)) as [rest' [c Hrest]].
    { intros ->. rewrite app_nil_r in Ep. apply str_in_false in Ep. contradiction. }
    subst rest. rewrite app_assoc in *.
    apply Forall_app in Hreg as [Hreg' Hc]. inversion Hc as [|? ? Hcreg _]; subst.
    rewrite dir_cpath_snoc by assumption.
    set (d := cpath ((ps ++ rest') ++ [c])) in *.
    assert (Hfile : fs_is_file fs d = false).
    { destruct (fs_is_file fs d) eqn:E; [|reflexivity]. rewrite (tr_wf fs T d E) in Hdir. discriminate. }
    apply IH.
    - exact Hreg'.
    - rewrite app_length in Hfuel. simpl in Hfuel. lia.
    - rewrite <- (dir_cpath_snoc (ps ++ rest') c Hreg' Hcreg). apply (tr_parent fs T).
      apply in_entries. right. exact Hdir.
    - apply rm_chain_snoc; try assumption.
      + intros Hin. specialize (Hlen d Hin). lia.
      + apply cpath_snoc_not_root. exact Hcreg.
      + intros x Hx. rewrite forallb_forall in Eall. specialize (Eall x Hx).
        apply orb_true_iff in Eall as [Eall|Eall].
        * apply str_eqb_eq in Eall. subst x. exfalso. apply Htgt.
          apply in_children in Hx. tauto.
        * apply andb_true_iff in Eall as [_ Eall].
          destruct (last_opt acc) as [l|] eqn:El; [|discriminate].
          apply str_eqb_eq in Eall. subst x. apply last_opt_in. exact El.
    - intros a Ha. apply in_app_or in Ha as [Ha|[<-|[]]].
      + specialize (Hlen a Ha). pose proof (cpath_length_snoc (ps ++ rest') c Hcreg). fold d in H. lia.
      + apply cpath_length_snoc. exact Hcreg.
  Qed.

  (* ------------------------------------------------------------ the delete phase cannot fail *)

  Lemma is_file_rm_dirs : forall ds fs p, fs_is_file (rm_dirs fs ds) p = fs_is_file fs p.
  Proof. induction ds as [|d ds IH]; intros fs p; simpl; [reflexivity | rewrite IH; reflexivity]. Qed.

  Lemma is_dir_rm_dirs : forall ds fs p, fs_is_dir (rm_dirs fs ds) p = true -> fs_is_dir fs p = true.
  Proof.
    induction ds as [|d ds IH]; intros fs p H; simpl in H; [exact H|].
    apply IH in H. rewrite is_dir_rm_dir in H. apply andb_true_iff in H. tauto.
  Qed.

  Lemma comps_le_length cs : Forall regular cs -> length cs <= length (cpath cs).
  Proof.
    induction cs as [|c cs IH] using rev_ind; intros H; [simpl; lia|].
    apply Forall_app in H as [Hcs Hc]. inversion Hc as [|? ? Hcr _]; subst.
    pose proof (cpath_length_snoc cs c Hcr) as Hl. specialize (IH Hcs). rewrite app_length.
    change (length [c]) with 1. unfold str in *. lia.
  Qed.

  Lemma delete_one_total roots fs f :
    fs_tree fs -> fs_is_file fs f = true -> anchored (preserve_dirs roots) f ->
    exists ds, delete_one roots fs f = CommitOk (rm_dirs (rm_file fs f) ds)
               /\ fs_tree (rm_dirs (rm_file fs f) ds).
  Proof.
    intros T Hf [ps [rest [nb [-> [Hreg [Hnb Hpres]]]]]].
    set (f := cpath ((ps ++ rest) ++ [nb])) in *.
    unfold delete_one. rewrite (os_remove_file fs f Hf).
    pose proof (tree_rm_file fs f T Hf) as T1.
    assert (Hgone : ~ In f (fs_entries (rm_file fs f))).
    { intros Hin. apply in_entries in Hin as [Hin|Hin].
      - rewrite is_file_rm_file, str_eqb_refl, andb_false_r in Hin. discriminate.
      - unfold fs_is_dir in Hin. simpl in Hin. fold (fs_is_dir fs f) in Hin.
        rewrite (tr_wf fs T f Hf) in Hin. discriminate. }
    assert (Hdir : fs_is_dir (rm_file fs f) (cpath (ps ++ rest)) = true).
    { unfold fs_is_dir. simpl. fold (fs_is_dir fs (cpath (ps ++ rest))).
      rewrite <- (dir_cpath_snoc (ps ++ rest) nb Hreg Hnb). apply (tr_parent fs T).
      apply in_entries. left. exact Hf. }
    unfold dir_cleanup_paths.
    replace (dir f) with (cpath (ps ++ rest)) by (symmetry; apply dir_cpath_snoc; assumption).
    destruct (walk_ok (rm_file fs f) f (preserve_dirs roots) ps T1 Hgone Hpres
                      (S (length f)) rest [] Hreg) as [ds [Hw Hch]].
    - pose proof (comps_le_length ((ps ++ rest) ++ [nb])) as Hl.
      assert (Hall : Forall regular ((ps ++ rest) ++ [nb])).
      { apply Forall_app. split; [exact Hreg | constructor; [exact Hnb | constructor]]. }
      specialize (Hl Hall). fold f in Hl. rewrite !app_length in Hl. change (length [nb]) with 1 in Hl.
      unfold str in *. lia.
    - exact Hdir.
    - constructor.
    - intros a [].
    - rewrite Hw. destruct (rm_chain_loop ds (rm_file fs f) T1 Hch) as [Hloop Ht].
      exists ds. split; [exact Hloop | exact Ht].
  Qed.

  Lemma delete_phase_total roots : forall dl fs,
    fs_tree fs -> NoDup dl ->
    (forall f, In f dl -> fs_is_file fs f = true /\ anchored (preserve_dirs roots) f) ->
    exists fs', delete_phase roots fs dl = CommitOk fs'
                /\ fs_tree fs'
                /\ (forall p, fs_is_file fs' p = fs_is_file fs p && negb (str_in p dl))
                /\ (forall p, fs_is_dir fs' p = true -> fs_is_dir fs p = true).
  Proof.
    induction dl as [|f dl IH]; intros fs T Hnd Hall.
    - exists fs. split; [reflexivity|]. split; [exact T|]. split; [|auto].
      intros p. simpl. rewrite andb_true_r. reflexivity.
    - inversion Hnd as [|? ? Hnf Hnd']; subst.
      destruct (Hall f (or_introl eq_refl)) as [Hf Ha].
      destruct (delete_one_total roots fs f T Hf Ha) as [ds [H1 T1]].
      set (fs1 := rm_dirs (rm_file fs f) ds) in *.
      destruct (IH fs1 T1 Hnd') as [fs' [H2 [T2 [Hfiles Hdirs]]]].
      { intros g Hg. destruct (Hall g (or_intror Hg)) as [Hgf Hga]. split; [|exact Hga].
        unfold fs1. rewrite is_file_rm_dirs, is_file_rm_file, Hgf. simpl.
        apply negb_true_iff, str_eqb_false. intros ->. contradiction. }
      exists fs'. split; [simpl; rewrite H1; exact H2|]. split; [exact T2|]. split.
      + intros p. rewrite Hfiles. unfold fs1. rewrite is_file_rm_dirs, is_file_rm_file. simpl.
        destruct (fs_is_file fs p); simpl; [|reflexivity].
        destruct (str_eqb p f); simpl; [reflexivity|]. reflexivity.
      + intros p Hp. apply Hdirs in Hp. unfold fs1 in Hp. apply is_dir_rm_dirs in Hp. exact Hp.
  Qed.

  (* ------------------------------------------------------------ MkdirAll on a tree *)

  Definition add_dir fs d : fsys C := {| fs_files := fs_files fs; fs_dirs := fs_dirs fs ++ [d] |}.

  Lemma is_dir_add_dir fs d p : fs_is_dir (add_dir fs d) p = fs_is_dir fs p || str_eqb p d.
  Proof.
    unfold fs_is_dir, add_dir. simpl.
    destruct (str_in p (fs_dirs fs ++ [d])) eqn:E.
    - apply str_in_spec, in_app_or in E as [E|[<-|[]]].
      + apply str_in_spec in E. rewrite E. reflexivity.
      + rewrite str_eqb_refl, orb_true_r. reflexivity.
    - apply str_in_false in E. symmetry. apply orb_false_iff. split.
      + apply str_in_false. intros H. apply E. apply in_or_app. left. exact H.
      + apply str_eqb_false. intros ->. apply E. apply in_or_app. right. left. reflexivity.
  Qed.

  Lemma tree_add_dir fs d :
    fs_tree fs -> fs_is_file fs d = false -> fs_is_dir fs (dir d) = true -> fs_tree (add_dir fs d).
  Proof.
    intros T Hf Hp. constructor.
    - intros p Hpf. rewrite is_dir_add_dir. unfold fs_is_file in Hpf. simpl in Hpf.
      fold (fs_is_file fs p) in Hpf. rewrite (tr_wf fs T p Hpf). simpl.
      apply str_eqb_false. intros ->. congruence.
    - apply (tr_nodup fs T).
    - rewrite is_dir_add_dir, (tr_root fs T). reflexivity.
    - intros p Hin. rewrite is_dir_add_dir. apply orb_true_iff. left.
      apply in_entries in Hin as [Hin|Hin].
      + apply (tr_parent fs T). apply in_entries. left. exact Hin.
      + rewrite is_dir_add_dir in Hin. apply orb_true_iff in Hin as [Hin|Hin].
        * apply (tr_parent fs T). apply in_entries. right. exact Hin.
        * apply str_eqb_eq in Hin. subst p. exact Hp.
  Qed.

  Lemma firstn_snoc_le {A} (l : list A) x k : k <= length l -> firstn k (l ++ [x]) = firstn k l.
  Proof. intros H. rewrite firstn_app. replace (k - length l) with 0 by lia. simpl. apply app_nil_r. Qed.

  (* with enough fuel MkdirAll answers; if it succeeds the tree stays a tree, the file map is
     untouched, every directory on the way exists, and nothing else was created *)
  Lemma mkdir_all_tree : forall ds fuel fs,
    fs_tree fs -> Forall regular ds -> length ds < fuel ->
    (exists r, os_mkdir_all fuel fs (cpath ds) = Some r) /\
    (forall fs', os_mkdir_all fuel fs (cpath ds) = Some (OsOk fs') ->
       fs_tree fs' /\ fs_files fs' = fs_files fs
       /\ (forall k, fs_is_dir fs' (cpath (firstn k ds)) = true)
       /\ (forall p, fs_is_dir fs p = true -> fs_is_dir fs' p = true)
       /\ (forall p, fs_is_dir fs' p = true -> fs_is_dir fs p = true \/ exists k, p = cpath (firstn k ds))) /\
    ((forall k, fs_is_file fs (cpath (firstn k ds)) = false) ->
       exists fs', os_mkdir_all fuel fs (cpath ds) = Some (OsOk fs')).
  Proof.
    induction ds as [|c ds' IH] using rev_ind; intros fuel fs T Hreg Hfuel.
    - assert (E : os_mkdir_all fuel fs (cpath []) = Some (OsOk fs)).
      { destruct fuel; simpl; change (cpath []) with [SLASH]; rewrite (tr_root fs T); reflexivity. }
      rewrite E. split; [eexists; reflexivity|]. split.
      + intros fs' [= <-]. split; [exact T|]. split; [reflexivity|]. split.
        * intros k. destruct k; simpl; apply (tr_root fs T).
        * split; [auto | intros p Hp; left; exact Hp].
      + intros _. eexists. reflexivity.
    - apply Forall_app in Hreg as [Hreg' Hc]. inversion Hc as [|? ? Hcr _]; subst.
      set (d := cpath (ds' ++ [c])).
      destruct (fs_is_dir fs d) eqn:Ed.
      + (* already there *)
        assert (E : os_mkdir_all fuel fs d = Some (OsOk fs)) by (destruct fuel; simpl; rewrite Ed; reflexivity).
        rewrite E. split; [eexists; reflexivity|]. split.
        * intros fs' [= <-]. split; [exact T|]. split; [reflexivity|]. split.
          -- (* every prefix is a directory: walk up with tr_parent *)
             assert (G : forall n ds0 c0, length ds0 = n -> Forall regular (ds0 ++ [c0]) ->
                          fs_is_dir fs (cpath (ds0 ++ [c0])) = true -> fs_is_dir fs (cpath ds0) = true).
             { intros n ds0 c0 _ Hr Hd0. apply Forall_app in Hr as [Hr0 Hc0]. inversion Hc0; subst.
               rewrite <- (dir_cpath_snoc ds0 c0) by assumption. apply (tr_parent fs T).
               apply in_entries. right. exact Hd0. }
             assert (Hall : forall l, Forall regular l -> fs_is_dir fs (cpath l) = true ->
                                      forall k, fs_is_dir fs (cpath (firstn k l)) = true).
             { induction l as [|x l IHl] using rev_ind; intros Hrl Hdl k.
               - destruct k; exact Hdl.
               - destruct (Nat.le_gt_cases k (length l)) as [Hk|Hk].
                 + rewrite firstn_snoc_le by exact Hk. apply IHl.
                   * apply Forall_app in Hrl. tauto.
                   * eapply G; [reflexivity | exact Hrl | exact Hdl].
                 + rewrite firstn_all2 by (rewrite app_length; simpl; lia). exact Hdl. }
             apply Hall; [apply Forall_app; split; [exact Hreg' | constructor; [exact Hcr | constructor]] | exact Ed].
          -- split; [auto | intros p Hp; left; exact Hp].
        * intros _. eexists. reflexivity.
      + destruct fuel as [|fuel']; [lia|].
        assert (Hpd : dir d = cpath ds') by (apply dir_cpath_snoc; assumption).
        assert (Hneq : str_eqb (dir d) d = false).
        { apply str_eqb_false. rewrite Hpd. intros Heq.
          pose proof (cpath_length_snoc ds' c Hcr) as Hl. fold d in Hl. rewrite <- Heq in Hl. lia. }
        rewrite app_length in Hfuel. simpl in Hfuel.
        destruct (IH fuel' fs T Hreg' ltac:(lia)) as [[r0 Hr0] [Hok Hsucc]].
        destruct (fs_is_file fs d) eqn:Ef.
        * (* a regular file is in the way *)
          assert (E : os_mkdir_all (S fuel') fs d = Some OsErr) by (simpl; rewrite Ed, Ef; reflexivity).
          rewrite E. split; [eexists; reflexivity|]. split; [discriminate|].
          intros Hnf. specialize (Hnf (length (ds' ++ [c]))). rewrite firstn_all in Hnf. fold d in Hnf. congruence.
        * assert (E : os_mkdir_all (S fuel') fs d =
                      match os_mkdir_all fuel' fs (cpath ds') with
                      | Some (OsOk fs1) => Some (OsOk (add_dir fs1 d))
                      | r => r end).
          { simpl. rewrite Ed, Ef, Hneq, Hpd. reflexivity. }
          rewrite E. split; [rewrite Hr0; destruct r0; eexists; reflexivity|]. split.
          -- intros fs' H. destruct (os_mkdir_all fuel' fs (cpath ds')) as [[fs1|]|] eqn:E1; try discriminate.
             injection H as <-. destruct (Hok fs1 eq_refl) as [T1 [Hf1 [Hpre1 [Hup1 Hdown1]]]].
             assert (Hfd : fs_is_file fs1 d = false) by (unfold fs_is_file; rewrite Hf1; exact Ef).
             assert (Hdp : fs_is_dir fs1 (dir d) = true).
             { rewrite Hpd. specialize (Hpre1 (length ds')). rewrite firstn_all in Hpre1. exact Hpre1. }
             split; [apply tree_add_dir; assumption|]. split; [exact Hf1|]. split.
             ++ intros k. rewrite is_dir_add_dir.
                destruct (Nat.le_gt_cases k (length ds')) as [Hk|Hk].
                ** rewrite firstn_snoc_le by exact Hk. rewrite Hpre1. reflexivity.
                ** rewrite firstn_all2 by (rewrite app_length; simpl; lia). fold d.
                   rewrite str_eqb_refl, orb_true_r. reflexivity.
             ++ split.
                ** intros p Hp. rewrite is_dir_add_dir, (Hup1 p Hp). reflexivity.
                ** intros p Hp. rewrite is_dir_add_dir in Hp. apply orb_true_iff in Hp as [Hp|Hp].
                   --- destruct (Hdown1 p Hp) as [H|[k ->]]; [left; exact H|]. right.
                       exists (Nat.min k (length ds')).
                       rewrite firstn_snoc_le by lia.
                       destruct (Nat.le_gt_cases k (length ds')) as [Hk|Hk].
                       +++ rewrite Nat.min_l by exact Hk. reflexivity.
                       +++ rewrite Nat.min_r by lia. rewrite firstn_all, firstn_all2 by lia. reflexivity.
                   --- apply str_eqb_eq in Hp. subst p. right. exists (length (ds' ++ [c])).
                       rewrite firstn_all. reflexivity.
          -- intros Hnf. destruct Hsucc as [fs1 H1].
             { intros k. specialize (Hnf (Nat.min k (length ds'))).
               rewrite firstn_snoc_le in Hnf by lia.
               destruct (Nat.le_gt_cases k (length ds')) as [Hk|Hk].
               - rewrite Nat.min_l in Hnf by exact Hk. exact Hnf.
               - rewrite Nat.min_r in Hnf by lia. rewrite firstn_all in Hnf. rewrite firstn_all2 by lia. exact Hnf. }
             rewrite H1. eexists. reflexivity.
  Qed.

  (* ------------------------------------------------------------ targets *)
  Lemma cpath_inj a b : Forall regular a -> Forall regular b -> cpath a = cpath b -> a = b.
  Proof.
    intros Ha Hb H. apply (f_equal comps_of) in H. rewrite !comps_of_cpath in H by assumption. exact H.
  Qed.

  Lemma treg_all t : treg t -> Forall regular (fst t ++ [snd t]).
  Proof. intros [H1 H2]. apply Forall_app. split; [exact H1 | constructor; [exact H2 | constructor]]. Qed.

  Lemma tpath_not_on_own_way t : treg t -> ~ on_the_way (tpath t) t.
  Proof.
    intros Ht [k Hk]. unfold tpath in Hk. apply cpath_inj in Hk.
    - apply (f_equal (@length str)) in Hk. rewrite app_length, firstn_length in Hk. simpl in Hk. lia.
    - apply treg_all. exact Ht.
    - apply Forall_firstn_reg. apply Ht.
  Qed.

  (* ------------------------------------------------------------ writing a file into a tree *)

  Definition set_file fs f (c : C) : fsys C := {| fs_files := aset (fs_files fs) f c; fs_dirs := fs_dirs fs |}.

  Lemma is_file_set_file fs f c p : fs_is_file (set_file fs f c) p = fs_is_file fs p || str_eqb p f.
  Proof.
    unfold fs_is_file, set_file, amem. simpl.
    destruct (str_eqb_spec p f) as [->|Hne].
    - rewrite aget_aset_eq, orb_true_r. reflexivity.
    - rewrite aget_aset_neq by congruence. rewrite orb_false_r. reflexivity.
  Qed.

  Lemma tree_set_file fs f c :
    fs_tree fs -> fs_is_dir fs f = false -> fs_is_dir fs (dir f) = true -> fs_tree (set_file fs f c).
  Proof.
    intros T Hnd Hp. constructor.
    - intros p Hpf. rewrite is_file_set_file in Hpf. apply orb_true_iff in Hpf as [Hpf|Hpf].
      + apply (tr_wf fs T p Hpf).
      + apply str_eqb_eq in Hpf. subst p. exact Hnd.
    - simpl. apply nodup_keys_aset. apply (tr_nodup fs T).
    - apply (tr_root fs T).
    - intros p Hin. change (fs_is_dir (set_file fs f c) (dir p)) with (fs_is_dir fs (dir p)).
      apply in_entries in Hin as [Hin|Hin].
      + rewrite is_file_set_file in Hin. apply orb_true_iff in Hin as [Hin|Hin].
        * apply (tr_parent fs T). apply in_entries. left. exact Hin.
        * apply str_eqb_eq in Hin. subst p. exact Hp.
      + apply (tr_parent fs T). apply in_entries. right. exact Hin.
  Qed.

  Lemma write_one_total files fs (t : target) c :
    fs_tree fs -> treg t -> aget files (tpath t) = Some c ->
    (forall k, fs_is_file fs (cpath (firstn k (fst t))) = false) ->
    fs_is_dir fs (tpath t) = false ->
    exists fs', write_one files fs (tpath t) = CommitOk fs'
                /\ fs_tree fs'
                /\ (forall p, fs_is_file fs' p = fs_is_file fs p || str_eqb p (tpath t))
                /\ (forall p, fs_is_dir fs' p = true -> fs_is_dir fs p = true \/ on_the_way p t).
  Proof.
    intros T [Hds Hnb] Hc Hnf Hnd. unfold write_one. rewrite Hc.
    assert (Hdir : dir (tpath t) = cpath (fst t)) by (apply dir_cpath_snoc; assumption).
    rewrite Hdir.
    assert (Hfuel : length (fst t) < S (length (tpath t))).
    { pose proof (comps_le_length (fst t ++ [snd t]) (treg_all t (conj Hds Hnb))) as Hl.
      rewrite app_length in Hl. change (length [snd t]) with 1 in Hl. unfold tpath. unfold str in *. lia. }
    destruct (mkdir_all_tree (fst t) (S (length (tpath t))) fs T Hds Hfuel) as [_ [Hok Hsucc]].
    destruct (Hsucc Hnf) as [fs1 H1]. rewrite H1.
    destruct (Hok fs1 H1) as [T1 [Hf1 [Hpre [Hup Hdown]]]].
    assert (Hnd1 : fs_is_dir fs1 (tpath t) = false).
    { destruct (fs_is_dir fs1 (tpath t)) eqn:E; [|reflexivity].
      destruct (Hdown _ E) as [H|H]; [congruence|].
      exfalso. apply (tpath_not_on_own_way t (conj Hds Hnb)). exact H. }
    assert (Hpd : fs_is_dir fs1 (cpath (fst t)) = true).
    { specialize (Hpre (length (fst t))). rewrite firstn_all in Hpre. exact Hpre. }
    unfold os_write_file. rewrite Hnd1, Hdir, Hpd.
    exists (set_file fs1 (tpath t) c). split; [reflexivity|]. split.
    - apply tree_set_file; [exact T1 | exact Hnd1 | rewrite Hdir; exact Hpd].
    - split.
      + intros p. rewrite is_file_set_file. unfold fs_is_file at 1. rewrite Hf1. reflexivity.
      + intros p Hp. change (fs_is_dir (set_file fs1 (tpath t) c) p) with (fs_is_dir fs1 p) in Hp.
        destruct (Hdown p Hp) as [H|[k ->]]; [left; exact H | right; exists k; reflexivity].
  Qed.

  Lemma write_phase_total files : forall tl fs,
    fs_tree fs -> Forall treg tl -> independent tl ->
    (forall t, In t tl ->
       aget files (tpath t) <> None
       /\ (forall k, fs_is_file fs (cpath (firstn k (fst t))) = false)
       /\ fs_is_dir fs (tpath t) = false) ->
    exists fs', write_phase files fs (map tpath tl) = CommitOk fs'.
  Proof.
    induction tl as [|t tl IH]; intros fs T Hreg Hind Hall.
    - exists fs. reflexivity.
    - inversion Hreg as [|? ? Ht Hreg']; subst.
      destruct (Hall t (or_introl eq_refl)) as [Hc [Hnf Hnd]].
      destruct (aget files (tpath t)) as [c|] eqn:Ec; [|congruence].
      destruct (write_one_total files fs t c T Ht Ec Hnf Hnd) as [fs1 [H1 [T1 [Hfiles Hdirs]]]].
      destruct (IH fs1 T1 Hreg') as [fs' H'].
      + intros a b Ha Hb. apply Hind; right; assumption.
      + intros u Hu. destruct (Hall u (or_intror Hu)) as [Huc [Hunf Hund]].
        split; [exact Huc|]. split.
        * intros k. rewrite Hfiles, Hunf. cbn [orb]. apply str_eqb_false. intros Heq.
          apply (Hind t u (or_introl eq_refl) (or_intror Hu)). exists k. symmetry. exact Heq.
        * destruct (fs_is_dir fs1 (tpath u)) eqn:E; [|reflexivity].
          destruct (Hdirs _ E) as [H|H]; [congruence|].
          exfalso. apply (Hind u t (or_intror Hu) (or_introl eq_refl)). exact H.
      + exists fs'. cbn [map write_phase]. rewrite H1. exact H'.
  Qed.

  (* ------------------------------------------------------------ the directory creation phase *)

  Lemma mkdir_phase_tree : forall tl fs,
    fs_tree fs -> Forall treg tl ->
    mkdir_phase fs (map tpath tl) <> CommitOutOfFuel /\
    forall fs0, mkdir_phase fs (map tpath tl) = CommitOk fs0 ->
      fs_tree fs0 /\ fs_files fs0 = fs_files fs
      /\ (forall t k, In t tl -> fs_is_dir fs0 (cpath (firstn k (fst t))) = true)
      /\ (forall p, fs_is_dir fs0 p = true -> fs_is_dir fs p = true \/ exists t, In t tl /\ on_the_way p t).
  Proof.
    induction tl as [|t tl IH]; intros fs T Hreg.
    - split; [discriminate|]. intros fs0 [= <-]. split; [exact T|]. split; [reflexivity|].
      split; [intros t k []|]. intros p Hp. left. exact Hp.
    - inversion Hreg as [|? ? [Hds Hnb] Hreg']; subst.
      cbn [map mkdir_phase].
      assert (Hdir : dir (tpath t) = cpath (fst t)) by (apply dir_cpath_snoc; assumption).
      rewrite Hdir.
      assert (Hfuel : length (fst t) < S (length (tpath t))).
      { pose proof (comps_le_length (fst t ++ [snd t]) (treg_all t (conj Hds Hnb))) as Hl.
        rewrite app_length in Hl. change (length [snd t]) with 1 in Hl. unfold tpath. unfold str in *. lia. }
      destruct (mkdir_all_tree (fst t) (S (length (tpath t))) fs T Hds Hfuel) as [[r0 Hr0] [Hok _]].
      rewrite Hr0. destruct r0 as [fs1|].
      + destruct (Hok fs1 Hr0) as [T1 [Hf1 [Hpre [Hup Hdown]]]].
        destruct (IH fs1 T1 Hreg') as [Hfuel' Hrest].
        split; [exact Hfuel'|]. intros fs0 H0.
        destruct (Hrest fs0 H0) as [T0 [Hf0 [Hpre0 Hdown0]]].
        split; [exact T0|]. split; [congruence|]. split.
        * intros u k [<-|Hu]; [|apply Hpre0; exact Hu].
          (* directories only get added in this phase *)
          assert (Hmono : forall tl' (fsa fsb : fsys C), mkdir_phase fsa (map tpath tl') = CommitOk fsb ->
                           forall p, fs_is_dir fsa p = true -> fs_is_dir fsb p = true).
          { induction tl' as [|v tl' IHm]; intros fsa fsb Hm p Hp; cbn [map mkdir_phase] in Hm.
            - injection Hm as <-. exact Hp.
            - destruct (os_mkdir_all (S (length (tpath v))) fsa (dir (tpath v))) as [[fsc|]|] eqn:Ec; try discriminate.
              apply (IHm fsc fsb Hm). apply (os_mkdir_all_ok _ _ _ _ _ Ec). exact Hp. }
          apply (Hmono tl fs1 fs0 H0). apply Hpre.
        * intros p Hp. destruct (Hdown0 p Hp) as [H|[u [Hu Hw]]].
          -- destruct (Hdown p H) as [H'|[k ->]]; [left; exact H'|].
             right. exists t. split; [left; reflexivity | exists k; reflexivity].
          -- right. exists u. split; [right; exact Hu | exact Hw].
      + split; discriminate.
  Qed.

  (* ------------------------------------------------------------ the commit cannot stop half way *)

  Theorem commit_total_lemma roots fs files dl (tl : list target) :
    fs_tree fs ->
    Forall treg tl -> independent tl ->
    (forall t, In t tl -> aget files (tpath t) <> None /\ fs_is_dir fs (tpath t) = false) ->
    NoDup dl ->
    (forall f, In f dl -> fs_is_file fs f = true /\ anchored (preserve_dirs roots) f) ->
    (exists fs', commit roots fs files dl (map tpath tl) = CommitOk fs')
    \/ (exists fs', commit roots fs files dl (map tpath tl) = CommitFailed fs'
                    /\ fs_files fs' = fs_files fs).
  Proof.
    intros T Hreg Hind Htl Hnd Hdl. unfold commit.
    destruct (mkdir_phase_tree tl fs T Hreg) as [Hfuel Hok].
    destruct (mkdir_phase fs (map tpath tl)) as [fs0|fsx|] eqn:E0.
    - left. destruct (Hok fs0 eq_refl) as [T0 [Hf0 [Hpre0 Hdown0]]].
      unfold commit_pinned.
      destruct (delete_phase_total roots dl fs0 T0 Hnd) as [fs1 [H1 [T1 [Hfiles1 Hdirs1]]]].
      { intros f Hf. destruct (Hdl f Hf) as [Hff Ha]. split; [|exact Ha].
        unfold fs_is_file. rewrite Hf0. exact Hff. }
      rewrite H1.
      apply (write_phase_total files tl fs1 T1 Hreg Hind).
      intros t Ht. destruct (Htl t Ht) as [Hc Hnd_t]. split; [exact Hc|]. split.
      + intros k. rewrite Hfiles1.
        destruct (fs_is_file fs0 (cpath (firstn k (fst t)))) eqn:E; [|reflexivity].
        pose proof (tr_wf fs0 T0 _ E) as W. rewrite (Hpre0 t k Ht) in W. discriminate.
      + destruct (fs_is_dir fs1 (tpath t)) eqn:E; [|reflexivity].
        apply Hdirs1 in E. destruct (Hdown0 _ E) as [H|[u [Hu Hw]]]; [congruence|].
        exfalso. apply (Hind t u Ht Hu). exact Hw.
    - right. exists fsx. split; [reflexivity|]. eapply mkdir_phase_failed_files. exact E0.
    - contradiction.
  Qed.
End Tree.
