(* C15 — proofs about the job-atomic model of the diagnostics pipeline (Model/Lsp.v). *)
From Coq Require Import List NArith Bool Lia Permutation Arith.
From Regal Require Import Model.Lsp.
Import ListNotations.
Open Scope N_scope.

Local Arguments upd : simpl never.
Local Arguments updl : simpl never.
Local Arguments merge_rules : simpl never.

(* ------------------------------------------------------------------ generic list facts *)
Lemma mem_In r l : mem r l = true <-> In r l.
Proof.
  induction l as [|x l IH]; simpl; [split; [discriminate|tauto]|].
  rewrite orb_true_iff, IH, N.eqb_eq. split; intros [H|H]; auto.
Qed.

Lemma filter_nil_of {A} (p : A -> bool) l : (forall x, In x l -> p x = false) -> filter p l = [].
Proof.
  induction l as [|x l IH]; simpl; intros H; [reflexivity|].
  rewrite (H x (or_introl eq_refl)). apply IH. intros y Hy. apply H. right; exact Hy.
Qed.

Lemma filter_all_of {A} (p : A -> bool) l : (forall x, In x l -> p x = true) -> filter p l = l.
Proof.
  induction l as [|x l IH]; simpl; intros H; [reflexivity|].
  rewrite (H x (or_introl eq_refl)). f_equal. apply IH. intros y Hy. apply H. right; exact Hy.
Qed.

Lemma filter_filter_neg {A} (p : A -> bool) l : filter p (filter (fun x => negb (p x)) l) = [].
Proof.
  apply filter_nil_of. intros x Hx. apply filter_In in Hx. destruct Hx as [_ Hx].
  destruct (p x); [discriminate|reflexivity].
Qed.

Lemma filter_comm_id {A} (p q : A -> bool) l :
  (forall x, In x l -> p x = true -> q x = true) -> filter p (filter q l) = filter p l.
Proof.
  induction l as [|x l IH]; simpl; intros H; [reflexivity|].
  assert (IH' : filter p (filter q l) = filter p l) by (apply IH; intros y Hy; apply H; right; exact Hy).
  destruct (q x) eqn:Hq; simpl.
  - rewrite IH'. reflexivity.
  - destruct (p x) eqn:Hp.
    + rewrite (H x (or_introl eq_refl) Hp) in Hq. discriminate.
    + exact IH'.
Qed.

Lemma partition_perm {A} (p q : A -> bool) l :
  (forall x, In x l -> p x = true \/ q x = true) ->
  (forall x, p x = true -> q x = false) ->
  Permutation l (filter p l ++ filter q l).
Proof.
  intros Hc Hd. induction l as [|x l IH]; simpl; [constructor|].
  assert (IH' : Permutation l (filter p l ++ filter q l)) by (apply IH; intros y Hy; apply Hc; right; exact Hy).
  destruct (p x) eqn:Hp.
  - rewrite (Hd x Hp). simpl. constructor. exact IH'.
  - destruct (Hc x (or_introl eq_refl)) as [H|H]; [congruence|]. rewrite H.
    apply Permutation_cons_app. exact IH'.
Qed.

Lemma In_app_l {A} (x : A) l l' : In x l -> In x (l ++ l').
Proof. intros H; apply in_or_app; left; exact H. Qed.

Lemma In_app_last {A} (x : A) l : In x (l ++ [x]).
Proof. apply in_or_app; right; left; reflexivity. Qed.

Lemma app_last_not_nil {A} (l : list A) x : l ++ [x] <> [].
Proof. destruct l; discriminate. Qed.

(* ------------------------------------------------------------------ SetFileDiagnosticsForRules algebra *)
Section Merge.
  Variables (R1 R2 : list rule).
  Hypothesis disj : forall r, mem r R1 = true -> mem r R2 = false.

  Definition codes_in (R : list rule) (l : list diag) : Prop := forall d, In d l -> mem (code d) R = true.

  (* the part of the merged list that belongs to the evaluated rules is exactly the new result *)
  Lemma merge_own cur new :
    codes_in R1 new -> filter (fun d => mem (code d) R1) (merge_rules R1 cur new) = new.
  Proof.
    intros Hn. unfold merge_rules. rewrite filter_app.
    rewrite (filter_filter_neg (fun d => mem (code d) R1)). simpl.
    apply filter_all_of. exact Hn.
  Qed.

  (* ... and the part that belongs to disjoint rules is untouched *)
  Lemma merge_other cur new :
    codes_in R1 new ->
    filter (fun d => mem (code d) R2) (merge_rules R1 cur new) = filter (fun d => mem (code d) R2) cur.
  Proof.
    intros Hn. unfold merge_rules. rewrite filter_app.
    rewrite (filter_nil_of (fun d => mem (code d) R2) new).
    - rewrite app_nil_r. apply filter_comm_id. intros d _ H2.
      destruct (mem (code d) R1) eqn:H1; [rewrite (disj _ H1) in H2; discriminate|reflexivity].
    - intros d Hd. apply disj. apply Hn. exact Hd.
  Qed.
End Merge.

(* file-rule and aggregate-rule updates commute (up to order) when their rule sets are disjoint *)
Lemma set_for_rules_merge_lemma R1 R2 cur n1 n2 :
  (forall r, mem r R1 = true -> mem r R2 = false) ->
  codes_in R1 n1 -> codes_in R2 n2 ->
  Permutation (merge_rules R2 (merge_rules R1 cur n1) n2) (merge_rules R1 (merge_rules R2 cur n2) n1).
Proof.
  intros Hd H1 H2.
  assert (Hd' : forall r, mem r R2 = true -> mem r R1 = false).
  { intros r Hr. destruct (mem r R1) eqn:E; [rewrite (Hd r E) in Hr; discriminate|reflexivity]. }
  unfold merge_rules. rewrite !filter_app.
  rewrite (filter_all_of (fun d => negb (mem (code d) R2)) n1).
  2:{ intros d Hdn. rewrite (Hd _ (H1 d Hdn)). reflexivity. }
  rewrite (filter_all_of (fun d => negb (mem (code d) R1)) n2).
  2:{ intros d Hdn. rewrite (Hd' _ (H2 d Hdn)). reflexivity. }
  assert (E : filter (fun d => negb (mem (code d) R2)) (filter (fun d => negb (mem (code d) R1)) cur)
            = filter (fun d => negb (mem (code d) R1)) (filter (fun d => negb (mem (code d) R2)) cur)).
  { induction cur as [|d cur IH]; simpl; [reflexivity|].
    destruct (mem (code d) R1) eqn:E1; destruct (mem (code d) R2) eqn:E2; simpl;
      rewrite ?E1, ?E2; simpl; rewrite ?IH; reflexivity. }
  rewrite E. rewrite <- !app_assoc. apply Permutation_app_head. apply Permutation_app_comm.
Qed.

(* ------------------------------------------------------------------ the invariant *)
Section Conv.
  Variable U : list uri.
  Variable parses : content -> bool.
  Variable perr : uri -> content -> list diag.
  Variable fdiags : cfg -> uri -> content -> list diag.
  Variable areport : cfg -> fmap (cfg * content) -> uri -> list diag.
  Variable nonagg agg : cfg -> list rule.

  (* what the theorems assume of the linter (checked by the harness on every tabulated value) *)
  Hypothesis H_fcodes : forall k u c d, In d (fdiags k u c) -> mem (code d) (nonagg k) = true.
  Hypothesis H_acodes : forall k m u d, In d (areport k m u) -> mem (code d) (agg k) = true.
  Hypothesis H_disj : forall k r, mem r (nonagg k) = true -> mem r (agg k) = false.
  Hypothesis H_aext : forall k m1 m2 u, (forall v, m1 v = m2 v) -> areport k m1 u = areport k m2 u.
  Hypothesis H_adom : forall k m u, m u = None -> areport k m u = [].

  Let fx := current.
  Notation step' := (step U parses perr fdiags areport nonagg agg fx).
  Notation run' := (run U parses perr fdiags areport nonagg agg fx).
  Notation count' := (count_modules U).
  Notation fresh' := (fresh U parses perr fdiags areport).
  Notation send' := (send perr).

  Lemma H_disj' k r : mem r (agg k) = true -> mem r (nonagg k) = false.
  Proof. intros H. destruct (mem r (nonagg k)) eqn:E; [rewrite (H_disj _ _ E) in H; discriminate|reflexivity]. Qed.

  Definition nonagg_part (s : state) (u : uri) := filter (fun d => mem (code d) (nonagg (conf s))) (diags s u).
  Definition agg_part (s : state) (u : uri) := filter (fun d => mem (code d) (agg (conf s))) (diags s u).
  Definition target_file (s : state) (u : uri) :=
    match modules s u with Some m => fdiags (conf s) u m | None => [] end.

  Definition ow_pending (s : state) := exists j, In j (qw s ++ qr s) /\ w_overwrite j = true /\ w_aggonly j = false.
  Definition full_pending (s : state) := exists j, In j (qw s ++ qr s) /\ w_aggonly j = false.
  Definition agg_pending (s : state) :=
    (exists u, In u (qf s) /\ contents s u <> None) \/ qw s <> [] \/ qr s <> [].

  (* every cached diagnostic belongs to a rule that is enabled under the current config *)
  Definition junkfree (s : state) : Prop :=
    forall u d, In d (diags s u) -> mem (code d) (nonagg (conf s)) = true \/ mem (code d) (agg (conf s)) = true.
  (* no file currently shows parse errors *)
  Definition nomasked (s : state) : Prop := forall u, perrs s u = None.

  (* the parse-related cache entries of [u] reflect its contents [c] *)
  Definition parse_state (s : state) (u : uri) (c : content) : Prop :=
    if parses c then modules s u = Some c /\ perrs s u = None else perrs s u = Some c.

  Record Inv (s : state) : Prop := {
    i_infl : inflight s = None;
    i_cont : forall u c, contents s u = Some c -> In u U;
    i_dom : forall u, contents s u = None ->
              modules s u = None /\ perrs s u = None /\ aggs s u = None /\ diags s u = [] /\ pub s u = [];
    i_parse : forall u c, contents s u = Some c -> In u (qf s) \/ parse_state s u c;
    i_aggs : ow_pending s \/ forall u, aggs s u = ideal_aggs s u;
    i_file : full_pending s \/
             forall u, contents s u <> None -> In u (qf s) \/ masked s u = true \/ nonagg_part s u = target_file s u;
    i_agg : agg_pending s \/ (count' s <= 1)%nat \/
            forall u, contents s u <> None -> masked s u = true \/ agg_part s u = areport (conf s) (aggs s) u;
    i_codes : full_pending s \/ junkfree s;
    i_pub : count' s = 0%nat \/ qw s ++ qr s <> [] \/ forall u, contents s u <> None -> pub s u = send' s u;
    i_nodiag : forall u, modules s u = None -> diags s u = [];
    i_noagg : forall u, modules s u = None -> aggs s u = None;
    i_jobs : forall j, In j (qw s ++ qr s) -> w_overwrite j = true -> w_aggonly j = false }.

  Notation au_label := (job_atomic_label U).

  Lemma upd_same {A} (m : fmap A) u x : upd m u x u = x.
  Proof. unfold upd. rewrite N.eqb_refl. reflexivity. Qed.
  Lemma upd_other {A} (m : fmap A) u x v : v <> u -> upd m u x v = m v.
  Proof. intros H. unfold upd. destruct (N.eqb_spec v u); [contradiction|reflexivity]. Qed.
  Lemma updl_same {A} (m : uri -> list A) u x : updl m u x u = x.
  Proof. unfold updl. rewrite N.eqb_refl. reflexivity. Qed.
  Lemma updl_other {A} (m : uri -> list A) u x v : v <> u -> updl m u x v = m v.
  Proof. intros H. unfold updl. destruct (N.eqb_spec v u); [contradiction|reflexivity]. Qed.

  Lemma count_zero_none s u : In u U -> count' s = 0%nat -> modules s u = None.
  Proof.
    unfold count_modules. intros Hu Hc.
    destruct (modules s u) eqn:E; [|reflexivity].
    assert (Hin : In u (filter (fun u => is_some (modules s u)) U)).
    { apply filter_In. split; [exact Hu|]. rewrite E. reflexivity. }
    destruct (filter (fun u => is_some (modules s u)) U); [destruct Hin|discriminate].
  Qed.

  Lemma count_all_none s : (forall u, In u U -> modules s u = None) -> count' s = 0%nat.
  Proof.
    intros H. unfold count_modules. rewrite filter_nil_of; [reflexivity|].
    intros u Hu. rewrite (H u Hu). reflexivity.
  Qed.

  Lemma all_modules_none s : Inv s -> count' s = 0%nat -> forall u, modules s u = None.
  Proof.
    intros I Hz u. destruct (contents s u) as [c|] eqn:Ec.
    - apply count_zero_none; [apply (i_cont _ I u c Ec)|exact Hz].
    - apply (i_dom _ I u Ec).
  Qed.

  Lemma send_noperr s u : perrs s u = None -> send' s u = diags s u.
  Proof. intros H. unfold send. rewrite H. reflexivity. Qed.

  (* ---------------- initial state ---------------- *)
  Lemma inv_init f k : in_universe_init U f -> Inv (init_state parses f k).
  Proof.
    intros Hf. constructor; simpl.
    - reflexivity.
    - exact Hf.
    - intros u E. rewrite E. repeat split.
    - intros u c E. right. unfold parse_state. simpl. rewrite E. destruct (parses c); auto.
    - left. exists (job_full true). simpl. auto.
    - left. exists (job_full true). simpl. auto.
    - left. right. left. discriminate.
    - left. exists (job_full true). simpl. auto.
    - right. left. discriminate.
    - reflexivity.
    - reflexivity.
    - intros j [<-|[<-|[]]] _; reflexivity.
  Qed.

  (* ---------------- handlers ---------------- *)
  Lemma pend_app_ow s j :
    (exists j0, In j0 (qw s ++ qr s) /\ w_overwrite j0 = true /\ w_aggonly j0 = false) ->
    exists j0, In j0 ((qw s ++ [j]) ++ qr s) /\ w_overwrite j0 = true /\ w_aggonly j0 = false.
  Proof.
    intros [j0 [Hin H]]. exists j0. split; [|exact H].
    apply in_app_or in Hin. apply in_or_app. destruct Hin as [Hin|Hin]; [left; apply In_app_l; exact Hin|right; exact Hin].
  Qed.

  Lemma pend_app_full s j :
    (exists j0, In j0 (qw s ++ qr s) /\ w_aggonly j0 = false) ->
    exists j0, In j0 ((qw s ++ [j]) ++ qr s) /\ w_aggonly j0 = false.
  Proof.
    intros [j0 [Hin H]]. exists j0. split; [|exact H].
    apply in_app_or in Hin. apply in_or_app. destruct Hin as [Hin|Hin]; [left; apply In_app_l; exact Hin|right; exact Hin].
  Qed.

  Lemma jobs_app s j :
    (forall j0, In j0 (qw s ++ qr s) -> w_overwrite j0 = true -> w_aggonly j0 = false) ->
    (w_overwrite j = true -> w_aggonly j = false) ->
    forall j0, In j0 ((qw s ++ [j]) ++ qr s) -> w_overwrite j0 = true -> w_aggonly j0 = false.
  Proof.
    intros H Hj j0 Hin. apply in_app_or in Hin. destruct Hin as [Hin|Hin].
    - apply in_app_or in Hin. destruct Hin as [Hin|[<-|[]]]; [apply H; apply In_app_l; exact Hin|exact Hj].
    - apply H. apply in_or_app. right. exact Hin.
  Qed.

  Lemma app_app_not_nil {A} (a b : list A) x : (a ++ [x]) ++ b <> [].
  Proof. destruct a; discriminate. Qed.

  Lemma inv_set s u c : In u U -> Inv s ->
    Inv (set_qf (set_contents s (upd (contents s) u (Some c))) (qf s ++ [u])).
  Proof.
    intros Hu I. destruct I. constructor; simpl.
    - (* infl *) assumption.
    - (* cont *) intros v c' E. destruct (N.eqb_spec v u) as [->|Hne]; [exact Hu|].
      rewrite upd_other in E by exact Hne. eauto.
    - (* dom *) intros v E. destruct (N.eqb_spec v u) as [->|Hne]; [rewrite upd_same in E; discriminate|].
      rewrite upd_other in E by exact Hne. auto.
    - (* parse *) intros v c' E. destruct (N.eqb_spec v u) as [->|Hne].
      + left. apply In_app_last.
      + rewrite upd_other in E by exact Hne. destruct (i_parse0 v c' E) as [H|H]; [left; apply In_app_l; exact H|right; exact H].
    - (* aggs *) exact i_aggs0.
    - (* file *) destruct i_file0 as [H|H]; [left; exact H|right].
      intros v Hv. destruct (N.eqb_spec v u) as [->|Hne].
      + left. apply In_app_last.
      + rewrite upd_other in Hv by exact Hne. destruct (H v Hv) as [H'|H']; [left; apply In_app_l; exact H'|right; exact H'].
    - (* agg *) left. left. exists u. simpl. split; [apply In_app_last|]. rewrite upd_same. discriminate.
    - (* codes *) exact i_codes0.
    - (* pub *) destruct i_pub0 as [H|[H|H]]; [left; exact H|right; left; exact H|right; right].
      intros v Hv. change (send' (set_qf (set_contents s (upd (contents s) u (Some c))) (qf s ++ [u])) v) with (send' s v).
      destruct (N.eqb_spec v u) as [->|Hne].
      + destruct (contents s u) as [c0|] eqn:Ec; [apply H; rewrite Ec; discriminate|].
        destruct (i_dom0 u Ec) as (_ & Hp & _ & Hd & Hpub). rewrite Hpub, (send_noperr s u Hp), Hd. reflexivity.
      + rewrite upd_other in Hv by exact Hne. apply H. exact Hv.
    - (* nodiag *) assumption.
    - (* noagg *) assumption.
    - (* jobs *) assumption.
  Qed.

  (* cache.Delete + publish of the deleted URI *)
  Definition deleted (s : state) (u : uri) : state :=
    publish perr (del s u) u.

  Lemma deleted_fields s u :
    contents (deleted s u) = upd (contents s) u None /\ modules (deleted s u) = upd (modules s) u None /\
    perrs (deleted s u) = upd (perrs s) u None /\ aggs (deleted s u) = upd (aggs s) u None /\
    diags (deleted s u) = updl (diags s) u [] /\ conf (deleted s u) = conf s /\ qf (deleted s u) = qf s /\
    qw (deleted s u) = qw s /\ qr (deleted s u) = qr s /\ inflight (deleted s u) = inflight s /\
    pub (deleted s u) = updl (pub s) u [].
  Proof.
    unfold deleted, publish, del. simpl. repeat split; try reflexivity.
    unfold send. simpl. rewrite upd_same, updl_same. reflexivity.
  Qed.
  Opaque deleted.

  Lemma send_deleted_other s u v : v <> u -> send' (deleted s u) v = send' s v.
  Proof.
    intros Hne. destruct (deleted_fields s u) as (_ & _ & Ep & _ & Ed & _).
    unfold send. rewrite Ep, Ed, upd_other, updl_other by exact Hne. reflexivity.
  Qed.

  Lemma masked_deleted_other s u v : v <> u -> masked (deleted s u) v = masked s v.
  Proof.
    intros Hne. destruct (deleted_fields s u) as (_ & _ & Ep & _). unfold masked. rewrite Ep, upd_other by exact Hne. reflexivity.
  Qed.

  Lemma count_deleted_zero s u : Inv s -> count' s = 0%nat -> count' (deleted s u) = 0%nat.
  Proof.
    intros I Hz. apply count_all_none. intros v _. destruct (deleted_fields s u) as (_ & Em & _). rewrite Em.
    destruct (N.eqb_spec v u) as [->|Hne]; [apply upd_same|rewrite upd_other by exact Hne; apply all_modules_none; assumption].
  Qed.

  (* the clauses of the invariant after [deleted], with the queue-dependent ones stated relative to the
     old queues (delete and rename then add their own job) *)
  Lemma inv_deleted_core s u : Inv s ->
    let s1 := deleted s u in
    inflight s1 = None /\
    (forall v c, contents s1 v = Some c -> In v U) /\
    (forall v, contents s1 v = None ->
       modules s1 v = None /\ perrs s1 v = None /\ aggs s1 v = None /\ diags s1 v = [] /\ pub s1 v = []) /\
    (forall v c, contents s1 v = Some c -> In v (qf s) \/ parse_state s1 v c) /\
    ((forall v, aggs s v = ideal_aggs s v) -> forall v, aggs s1 v = ideal_aggs s1 v) /\
    ((forall v, contents s v <> None -> In v (qf s) \/ masked s v = true \/ nonagg_part s v = target_file s v) ->
      forall v, contents s1 v <> None -> In v (qf s) \/ masked s1 v = true \/ nonagg_part s1 v = target_file s1 v) /\
    (junkfree s -> junkfree s1) /\
    ((forall v, contents s v <> None -> pub s v = send' s v) -> forall v, contents s1 v <> None -> pub s1 v = send' s1 v) /\
    (forall v, modules s1 v = None -> diags s1 v = []) /\
    (forall v, modules s1 v = None -> aggs s1 v = None).
  Proof.
    intros I s1. destruct (deleted_fields s u) as (Ec & Em & Ep & Ea & Ed & Ek & Eqf & Eqw & Eqr & Ei & Epub).
    pose proof I as I0. destruct I. subst s1. rewrite Ei.
    split; [exact i_infl0|].
    split. { intros v c H. rewrite Ec in H. destruct (N.eqb_spec v u) as [->|Hne]; [rewrite upd_same in H; discriminate|].
             rewrite upd_other in H by exact Hne. apply (i_cont0 v c H). }
    split. { intros v. rewrite Ec, Em, Ep, Ea, Ed, Epub. destruct (N.eqb_spec v u) as [->|Hne].
             - rewrite !upd_same, !updl_same. auto.
             - rewrite !upd_other, !updl_other by exact Hne. apply i_dom0. }
    split. { intros v c. unfold parse_state. rewrite Em, Ec, Ep. destruct (N.eqb_spec v u) as [->|Hne].
             - rewrite upd_same. discriminate.
             - rewrite !upd_other by exact Hne. apply i_parse0. }
    split. { intros H v. unfold ideal_aggs. rewrite Ea, Em, Ek. destruct (N.eqb_spec v u) as [->|Hne].
             - rewrite !upd_same. reflexivity.
             - rewrite !upd_other by exact Hne. apply H. }
    split. { intros H v. destruct (N.eqb_spec v u) as [->|Hne].
             - rewrite Ec, upd_same. intros Hc; contradiction.
             - rewrite (masked_deleted_other s u v Hne). unfold nonagg_part, target_file. rewrite Ec, Ed, Em, Ek.
               rewrite !upd_other, updl_other by exact Hne. apply H. }
    split. { intros H v d. rewrite Ed, Ek. destruct (N.eqb_spec v u) as [->|Hne].
             - rewrite updl_same. intros [].
             - rewrite updl_other by exact Hne. apply H. }
    split. { intros H v. destruct (N.eqb_spec v u) as [->|Hne].
             - rewrite Ec, upd_same. intros Hc; contradiction.
             - rewrite (send_deleted_other s u v Hne), Epub, Ec, updl_other, upd_other by exact Hne. apply H. }
    split. { intros v. rewrite Em, Ed. destruct (N.eqb_spec v u) as [->|Hne].
             - rewrite updl_same. reflexivity.
             - rewrite upd_other, updl_other by exact Hne. auto. }
    intros v. rewrite Em, Ea. destruct (N.eqb_spec v u) as [->|Hne].
    - rewrite !upd_same. reflexivity.
    - rewrite !upd_other by exact Hne. auto.
  Qed.

  Lemma ow_pending_deleted s u : ow_pending s -> ow_pending (deleted s u).
  Proof. unfold ow_pending. destruct (deleted_fields s u) as (_&_&_&_&_&_&_&Eqw&Eqr&_). rewrite Eqw, Eqr. auto. Qed.
  Lemma full_pending_deleted s u : full_pending s -> full_pending (deleted s u).
  Proof. unfold full_pending. destruct (deleted_fields s u) as (_&_&_&_&_&_&_&Eqw&Eqr&_). rewrite Eqw, Eqr. auto. Qed.

  Lemma inv_delete s u : Inv s -> Inv (set_qw (deleted s u) (qw (deleted s u) ++ [job_agg])).
  Proof.
    intros I. pose proof (inv_deleted_core s u I) as C. cbv zeta in C.
    destruct C as (C1 & C2 & C3 & C4 & C5 & C6 & C7 & C8 & C9 & C10).
    destruct (deleted_fields s u) as (Ec & Em & Ep & Ea & Ed & Ek & Eqf & Eqw & Eqr & Ei & Epub).
    destruct I. constructor; simpl.
    - exact C1.
    - exact C2.
    - exact C3.
    - intros v c E. rewrite Eqf. apply C4. exact E.
    - destruct i_aggs0 as [H|H].
      + left. apply ow_pending_deleted with (u := u) in H. unfold ow_pending in *. simpl. apply pend_app_ow. exact H.
      + right. apply C5. exact H.
    - destruct i_file0 as [H|H].
      + left. apply full_pending_deleted with (u := u) in H. unfold full_pending in *. simpl. apply pend_app_full. exact H.
      + right. rewrite Eqf. apply C6. exact H.
    - left. right. left. apply app_last_not_nil.
    - destruct i_codes0 as [H|H].
      + left. apply full_pending_deleted with (u := u) in H. unfold full_pending in *. simpl. apply pend_app_full. exact H.
      + right. apply C7. exact H.
    - right. left. apply app_app_not_nil.
    - exact C9.
    - exact C10.
    - apply jobs_app; [rewrite Eqw, Eqr; exact i_jobs0|discriminate].
  Qed.

  Lemma inv_rename s u v c : In v U -> contents s u = Some c -> Inv s ->
    Inv (set_qf (set_contents (deleted s u) (upd (contents (deleted s u)) v (Some c))) (qf (deleted s u) ++ [v])).
  Proof.
    intros Hv Hc I. pose proof (inv_deleted_core s u I) as C. cbv zeta in C.
    destruct C as (C1 & C2 & C3 & C4 & C5 & C6 & C7 & C8 & C9 & C10).
    destruct (deleted_fields s u) as (Ec & Em & Ep & Ea & Ed & Ek & Eqf & Eqw & Eqr & Ei & Epub).
    pose proof I as I0. destruct I. constructor; simpl.
    - exact C1.
    - intros w c' E. destruct (N.eqb_spec w v) as [->|Hne]; [exact Hv|].
      rewrite upd_other in E by exact Hne. eauto.
    - intros w E. destruct (N.eqb_spec w v) as [->|Hne]; [rewrite upd_same in E; discriminate|].
      rewrite upd_other in E by exact Hne. apply C3. exact E.
    - intros w c' E. rewrite Eqf. destruct (N.eqb_spec w v) as [->|Hne].
      + left. apply In_app_last.
      + rewrite upd_other in E by exact Hne. destruct (C4 w c' E) as [H|H]; [left; apply In_app_l; exact H|right; exact H].
    - destruct i_aggs0 as [H|H].
      + left. apply ow_pending_deleted with (u := u) in H. exact H.
      + right. apply C5. exact H.
    - destruct i_file0 as [H|H].
      + left. apply full_pending_deleted with (u := u) in H. exact H.
      + right. rewrite Eqf. intros w Hw. destruct (N.eqb_spec w v) as [->|Hne].
        * left. apply In_app_last.
        * rewrite upd_other in Hw by exact Hne. destruct (C6 H w Hw) as [H'|H']; [left; apply In_app_l; exact H'|right; exact H'].
    - left. left. exists v. simpl. split; [apply In_app_last|]. rewrite upd_same. discriminate.
    - destruct i_codes0 as [H|H].
      + left. apply full_pending_deleted with (u := u) in H. exact H.
      + right. apply C7. exact H.
    - (* pub *)
      destruct i_pub0 as [H|[H|H]].
      + left. change (count' (set_qf (set_contents (deleted s u) (upd (contents (deleted s u)) v (Some c))) (qf (deleted s u) ++ [v])))
          with (count' (deleted s u)). apply count_deleted_zero; assumption.
      + right. left. rewrite Eqw, Eqr. exact H.
      + right. right. intros w Hw.
        change (send' (set_qf (set_contents (deleted s u) (upd (contents (deleted s u)) v (Some c))) (qf (deleted s u) ++ [v])) w)
          with (send' (deleted s u) w).
        destruct (contents (deleted s u) w) as [cw|] eqn:Ew.
        * apply (C8 H). rewrite Ew. discriminate.
        * destruct (C3 w Ew) as (_ & Hp & _ & Hd & Hpub). rewrite Hpub, (send_noperr _ w Hp), Hd. reflexivity.
    - exact C9.
    - exact C10.
    - rewrite Eqw, Eqr. exact i_jobs0.
  Qed.

  Lemma inv_config s k : Inv s -> Inv (set_qw (set_conf s k) (qw s ++ [job_full true])).
  Proof.
    intros I. destruct I.
    assert (Hnew : exists j0, In j0 ((qw s ++ [job_full true]) ++ qr s) /\ w_overwrite j0 = true /\ w_aggonly j0 = false).
    { exists (job_full true). split; [apply In_app_l; apply In_app_last|split; reflexivity]. }
    constructor; simpl; try assumption.
    - left. exact Hnew.
    - left. destruct Hnew as [j [H1 [_ H2]]]. exists j; auto.
    - left. right. left. apply app_last_not_nil.
    - left. destruct Hnew as [j [H1 [_ H2]]]. exists j; auto.
    - right. left. apply app_app_not_nil.
    - apply jobs_app; [exact i_jobs0|reflexivity].
  Qed.

  Lemma inv_handle e s s' : in_universe_label U (LEvent e) -> Inv s -> handle perr fx e s = Some s' -> Inv s'.
  Proof.
    intros Hok I Hs. destruct e as [u c|u|u v|k]; simpl in Hs.
    - injection Hs as <-. apply inv_set; assumption.
    - injection Hs as <-. exact (inv_delete s u I).
    - destruct (contents s u) as [c|] eqn:Hc; [|discriminate]. injection Hs as <-.
      exact (inv_rename s u v c Hok Hc I).
    - injection Hs as <-. apply inv_config. exact I.
  Qed.

  (* ---------------- dispatcher ---------------- *)
  Lemma inv_dispatch s s' : Inv s -> dispatch s = Some s' -> Inv s'.
  Proof.
    intros I Hs. unfold dispatch in Hs. destruct (qw s) as [|j q] eqn:Hq; [discriminate|].
    destruct (w_aggonly j && Nat.ltb 5 (length (qr s))) eqn:Hdrop; injection Hs as <-.
    - (* rate limited *)
      apply andb_true_iff in Hdrop. destruct Hdrop as [Hagg Hlen]. apply Nat.ltb_lt in Hlen.
      assert (Hqr : qr s <> []) by (destruct (qr s); [simpl in Hlen; lia|discriminate]).
      assert (Hkeep : forall j0, In j0 (qw s ++ qr s) -> w_aggonly j0 = false -> In j0 (q ++ qr s)).
      { intros j0 Hin Hj0. rewrite Hq in Hin. simpl in Hin. destruct Hin as [->|Hin]; [congruence|exact Hin]. }
      destruct I. constructor; simpl; try assumption.
      + destruct i_aggs0 as [[j0 [Hin [Ho Ha]]]|H]; [left; exists j0; simpl; auto|right; exact H].
      + destruct i_file0 as [[j0 [Hin Ha]]|H]; [left; exists j0; simpl; auto|right; exact H].
      + left. right. right. exact Hqr.
      + destruct i_codes0 as [[j0 [Hin Ha]]|H]; [left; exists j0; simpl; auto|right; exact H].
      + destruct i_pub0 as [H|[H|H]]; [left; exact H| |right; right; exact H].
        right. left. intros E. apply app_eq_nil in E. destruct E as [_ E]. contradiction.
      + intros j0 Hin. apply i_jobs0. rewrite Hq. right. exact Hin.
    - assert (Hkeep : forall j0, In j0 (qw s ++ qr s) -> In j0 (q ++ qr s ++ [j])).
      { intros j0 Hin. rewrite Hq in Hin. simpl in Hin. destruct Hin as [->|Hin].
        - apply in_or_app. right. apply In_app_last.
        - apply in_app_or in Hin. apply in_or_app. destruct Hin as [Hin|Hin]; [left; exact Hin|right; apply In_app_l; exact Hin]. }
      destruct I. constructor; simpl; try assumption.
      + destruct i_aggs0 as [[j0 [Hin Ha]]|H]; [left; exists j0; simpl; auto|right; exact H].
      + destruct i_file0 as [[j0 [Hin Ha]]|H]; [left; exists j0; simpl; auto|right; exact H].
      + left. right. right. apply app_last_not_nil.
      + destruct i_codes0 as [[j0 [Hin Ha]]|H]; [left; exists j0; simpl; auto|right; exact H].
      + destruct i_pub0 as [H|[H|H]]; [left; exact H| |right; right; exact H].
        right. left. intros E. apply app_eq_nil in E. destruct E as [_ E]. apply (app_last_not_nil _ _ E).
      + intros j0 Hin. apply i_jobs0. rewrite Hq. apply in_app_or in Hin. destruct Hin as [Hin|Hin].
        * right. apply In_app_l. exact Hin.
        * apply in_app_or in Hin. destruct Hin as [Hin|[<-|[]]]; [right; apply in_or_app; right; exact Hin|left; reflexivity].
  Qed.

  (* ---------------- file-lint job ---------------- *)
  Lemma inv_file_job s s' : Inv s -> file_job parses perr fdiags nonagg fx s = Some s' -> Inv s'.
  Proof.
    intros I Hs. unfold file_job in Hs. rewrite (i_infl _ I) in Hs.
    destruct (qf s) as [|u q] eqn:Hq; [discriminate|]. simpl in Hs.
    destruct (contents s u) as [c|] eqn:Hc.
    2:{ (* no contents any more: the job is abandoned *)
      injection Hs as <-. destruct I. constructor; simpl; try assumption.
      + intros v c' E. destruct (i_parse0 v c' E) as [H|H]; [|right; exact H].
        rewrite Hq in H. destruct H as [->|H]; [congruence|left; exact H].
      + destruct i_file0 as [H|H]; [left; exact H|right]. intros v Hv. destruct (H v Hv) as [H'|H']; [|right; exact H'].
        rewrite Hq in H'. destruct H' as [->|H']; [contradiction|left; exact H'].
      + destruct i_agg0 as [[[v [Hv1 Hv2]]|H]|H]; [|left; right; exact H|right; exact H].
        left. left. exists v. simpl. split; [|exact Hv2]. rewrite Hq in Hv1. destruct Hv1 as [->|Hv1]; [contradiction|exact Hv1]. }
    unfold update_parse in Hs. simpl in Hs.
    destruct (parses c) eqn:Hp.
    - (* the contents parse *)
      simpl in Hs. rewrite upd_same in Hs.
      unfold file_store in Hs. simpl in Hs. rewrite Hc in Hs. unfold masked in Hs. simpl in Hs.
      rewrite upd_same in Hs. simpl in Hs. injection Hs as <-.
      destruct I. constructor; simpl.
      + assumption.
      + assumption.
      + intros v E. assert (Hne : v <> u) by (intros ->; congruence).
        rewrite !upd_other, !updl_other by exact Hne. apply i_dom0. exact E.
      + intros v c' E. unfold parse_state. simpl. destruct (N.eqb_spec v u) as [->|Hne].
        * right. assert (c' = c) by congruence. subst c'. rewrite Hp, !upd_same. auto.
        * rewrite !upd_other by exact Hne. destruct (i_parse0 v c' E) as [H|H]; [|right; exact H].
          rewrite Hq in H. destruct H as [->|H]; [contradiction|left; exact H].
      + destruct i_aggs0 as [H|H].
        * left. unfold ow_pending in *. simpl. apply pend_app_ow. exact H.
        * right. intros v. unfold ideal_aggs. simpl. destruct (N.eqb_spec v u) as [->|Hne].
          -- rewrite !upd_same. reflexivity.
          -- rewrite !upd_other by exact Hne. apply H.
      + destruct i_file0 as [H|H].
        * left. unfold full_pending in *. simpl. apply pend_app_full. exact H.
        * right. intros v Hv. unfold nonagg_part, target_file, masked. simpl. destruct (N.eqb_spec v u) as [->|Hne].
          -- right. right. rewrite updl_same, upd_same. apply merge_own. intros d Hd. apply (H_fcodes _ _ _ _ Hd).
          -- rewrite updl_other, !upd_other by exact Hne. destruct (H v Hv) as [H'|H']; [|right; exact H'].
             rewrite Hq in H'. destruct H' as [->|H']; [contradiction|left; exact H'].
      + left. right. left. apply app_last_not_nil.
      + destruct i_codes0 as [H|H].
        * left. unfold full_pending in *. simpl. apply pend_app_full. exact H.
        * right. intros v d. simpl. destruct (N.eqb_spec v u) as [->|Hne].
          -- rewrite updl_same. unfold merge_rules. intros Hd. apply in_app_or in Hd. destruct Hd as [Hd|Hd].
             ++ apply filter_In in Hd. apply (H u d). tauto.
             ++ left. apply (H_fcodes _ _ _ _ Hd).
          -- rewrite updl_other by exact Hne. apply H.
      + right. left. apply app_app_not_nil.
      + intros v. destruct (N.eqb_spec v u) as [->|Hne]; [rewrite upd_same; discriminate|].
        rewrite upd_other, updl_other by exact Hne. auto.
      + intros v. destruct (N.eqb_spec v u) as [->|Hne]; [rewrite upd_same; discriminate|].
        rewrite !upd_other by exact Hne. auto.
      + apply jobs_app; [exact i_jobs0|discriminate].
    - (* parse failure: the last good module (if any) stays *)
      simpl in Hs. unfold file_store in Hs. simpl in Hs. rewrite Hc in Hs. unfold masked in Hs. simpl in Hs.
      rewrite upd_same in Hs. simpl in Hs.
      destruct (modules s u) as [mc|] eqn:Hm; simpl in Hs; injection Hs as <-.
      + destruct I. constructor; simpl.
        * assumption.
        * assumption.
        * intros v E. assert (Hne : v <> u) by (intros ->; congruence).
          rewrite !upd_other, !updl_other by exact Hne. apply i_dom0. exact E.
        * intros v c' E. unfold parse_state. simpl. destruct (N.eqb_spec v u) as [->|Hne].
          -- right. assert (c' = c) by congruence. subst c'. rewrite Hp, upd_same. reflexivity.
          -- rewrite !upd_other by exact Hne. destruct (i_parse0 v c' E) as [H|H]; [|right; exact H].
             rewrite Hq in H. destruct H as [->|H]; [contradiction|left; exact H].
        * destruct i_aggs0 as [H|H].
          -- left. unfold ow_pending in *. simpl. apply pend_app_ow. exact H.
          -- right. intros v. unfold ideal_aggs. simpl. destruct (N.eqb_spec v u) as [->|Hne].
             ++ rewrite upd_same, Hm. reflexivity.
             ++ rewrite upd_other by exact Hne. apply H.
        * destruct i_file0 as [H|H].
          -- left. unfold full_pending in *. simpl. apply pend_app_full. exact H.
          -- right. intros v Hv. unfold masked. simpl. destruct (N.eqb_spec v u) as [->|Hne].
             ++ right. left. rewrite upd_same. reflexivity.
             ++ rewrite upd_other by exact Hne. destruct (H v Hv) as [H'|H']; [|right; exact H'].
                rewrite Hq in H'. destruct H' as [->|H']; [contradiction|left; exact H'].
        * left. right. left. apply app_last_not_nil.
        * destruct i_codes0 as [H|H].
          -- left. unfold full_pending in *. simpl. apply pend_app_full. exact H.
          -- right. exact H.
        * right. left. apply app_app_not_nil.
        * assumption.
        * intros v. destruct (N.eqb_spec v u) as [->|Hne]; [rewrite Hm; discriminate|].
          rewrite upd_other by exact Hne. auto.
        * apply jobs_app; [exact i_jobs0|discriminate].
      + destruct I. constructor; simpl.
        * assumption.
        * assumption.
        * intros v E. assert (Hne : v <> u) by (intros ->; congruence).
          rewrite !upd_other, !updl_other by exact Hne. apply i_dom0. exact E.
        * intros v c' E. unfold parse_state. simpl. destruct (N.eqb_spec v u) as [->|Hne].
          -- right. assert (c' = c) by congruence. subst c'. rewrite Hp, upd_same. reflexivity.
          -- rewrite !upd_other by exact Hne. destruct (i_parse0 v c' E) as [H|H]; [|right; exact H].
             rewrite Hq in H. destruct H as [->|H]; [contradiction|left; exact H].
        * destruct i_aggs0 as [H|H].
          -- left. unfold ow_pending in *. simpl. apply pend_app_ow. exact H.
          -- right. exact H.
        * destruct i_file0 as [H|H].
          -- left. unfold full_pending in *. simpl. apply pend_app_full. exact H.
          -- right. intros v Hv. unfold masked. simpl. destruct (N.eqb_spec v u) as [->|Hne].
             ++ right. left. rewrite upd_same. reflexivity.
             ++ rewrite upd_other by exact Hne. destruct (H v Hv) as [H'|H']; [|right; exact H'].
                rewrite Hq in H'. destruct H' as [->|H']; [contradiction|left; exact H'].
        * left. right. left. apply app_last_not_nil.
        * destruct i_codes0 as [H|H].
          -- left. unfold full_pending in *. simpl. apply pend_app_full. exact H.
          -- right. exact H.
        * right. left. apply app_app_not_nil.
        * assumption.
        * assumption.
        * apply jobs_app; [exact i_jobs0|discriminate].
  Qed.

  (* ---------------- workspace-lint run ---------------- *)
  Lemma nonagg_of_full s u :
    filter (fun d => mem (code d) (nonagg (conf s))) (full_fd U fdiags areport s u) = target_file s u.
  Proof.
    unfold full_fd, target_file. rewrite filter_app.
    rewrite (filter_all_of _ (match modules s u with Some m => fdiags (conf s) u m | None => [] end)).
    2:{ intros d Hd. destruct (modules s u); [apply (H_fcodes _ _ _ _ Hd)|destruct Hd]. }
    rewrite filter_nil_of; [apply app_nil_r|].
    intros d Hd. destruct (Nat.ltb 1 (count' s)); [|destruct Hd]. apply H_disj'. apply (H_acodes _ _ _ _ Hd).
  Qed.

  Lemma agg_of_full s u :
    filter (fun d => mem (code d) (agg (conf s))) (full_fd U fdiags areport s u)
    = if Nat.ltb 1 (count' s) then areport (conf s) (ideal_aggs s) u else [].
  Proof.
    unfold full_fd. rewrite filter_app. rewrite filter_nil_of.
    2:{ intros d Hd. destruct (modules s u); [|destruct Hd]. apply H_disj. apply (H_fcodes _ _ _ _ Hd). }
    simpl. apply filter_all_of. intros d Hd. destruct (Nat.ltb 1 (count' s)); [|destruct Hd]. apply (H_acodes _ _ _ _ Hd).
  Qed.

  Lemma codes_of_full s u d : In d (full_fd U fdiags areport s u) ->
    mem (code d) (nonagg (conf s)) = true \/ mem (code d) (agg (conf s)) = true.
  Proof.
    unfold full_fd. intros Hd. apply in_app_or in Hd. destruct Hd as [Hd|Hd].
    - left. destruct (modules s u); [apply (H_fcodes _ _ _ _ Hd)|destruct Hd].
    - right. destruct (Nat.ltb 1 (count' s)); [apply (H_acodes _ _ _ _ Hd)|destruct Hd].
  Qed.

  Lemma full_nomodule s u : modules s u = None -> full_fd U fdiags areport s u = [].
  Proof.
    intros H. unfold full_fd. rewrite H. simpl. destruct (Nat.ltb 1 (count' s)); [|reflexivity].
    apply H_adom. unfold ideal_aggs. rewrite H. reflexivity.
  Qed.

  (* the only place where the side condition is needed: a full run leaves the diagnostics of files that
     currently show parse errors untouched *)
  Lemma inv_ws_run s s' : Inv s -> junkfree s \/ nomasked s ->
    ws_run U perr fdiags areport agg fx s = Some s' -> Inv s'.
  Proof.
    intros I Hside Hs. unfold ws_run in Hs. destruct (qr s) as [|j q] eqn:Hq; [discriminate|].
    change (count' (set_qr s q)) with (count' s) in Hs.
    assert (Hrest : forall j0, In j0 (qw s ++ qr s) -> j0 <> j -> In j0 (qw s ++ q)).
    { intros j0 Hin Hne. rewrite Hq in Hin. apply in_app_or in Hin. apply in_or_app.
      destruct Hin as [Hin|[Hin|Hin]]; [left; exact Hin|congruence|right; exact Hin]. }
    assert (Hsub : forall j0, In j0 (qw s ++ q) -> In j0 (qw s ++ qr s)).
    { intros j0 Hin. rewrite Hq. apply in_app_or in Hin. apply in_or_app. destruct Hin; [left|right; right]; assumption. }
    destruct (Nat.eqb (count' s) 0) eqn:Hz.
    - (* no module at all: the run is skipped *)
      simpl in Hs. injection Hs as <-. apply Nat.eqb_eq in Hz.
      pose proof (all_modules_none s I Hz) as Hallnone.
      destruct I. constructor; simpl; try assumption.
      + right. intros v. unfold ideal_aggs. simpl. rewrite (Hallnone v). apply i_noagg0. apply Hallnone.
      + right. intros v Hv. right. right. unfold nonagg_part, target_file. simpl.
        rewrite (Hallnone v), (i_nodiag0 v (Hallnone v)). reflexivity.
      + right. left. change (count' (set_qr s q)) with (count' s). lia.
      + right. intros v d Hd. simpl in Hd. rewrite (i_nodiag0 v (Hallnone v)) in Hd. destruct Hd.
      + left. exact Hz.
      + intros j0 Hin. apply i_jobs0. apply Hsub. exact Hin.
    - (* the run *)
      apply Nat.eqb_neq in Hz. injection Hs as <-.
      set (s0 := set_qr s q).
      assert (Hdiags : forall v, run_diags U fdiags areport agg fx j s0 v =
                match contents s v with
                | None => diags s v
                | Some _ =>
                    if w_aggonly j
                    then (if masked s v then diags s v else merge_rules (agg (conf s)) (diags s v) (areport (conf s) (aggs s) v))
                    else (if masked s v then diags s v else full_fd U fdiags areport s v)
                end).
      { intros v. unfold run_diags. simpl. unfold agg_fd. simpl. rewrite andb_true_r. reflexivity. }
      assert (Hjshape : w_overwrite j = true -> w_aggonly j = false).
      { apply (i_jobs _ I). rewrite Hq. apply in_or_app. right. left. reflexivity. }
      pose proof I as I0. destruct I. constructor; simpl; try assumption.
      + (* dom *)
        intros v E. destruct (i_dom0 v E) as (Hm & Hp & Ha & Hd & Hpub).
        rewrite Hdiags, E. repeat split; try assumption.
        unfold run_aggs. destruct (w_overwrite j); [|exact Ha].
        destruct (w_aggonly j); [reflexivity|]. unfold ideal_aggs. simpl. rewrite Hm. reflexivity.
      + (* aggregates *)
        unfold run_aggs. destruct (w_overwrite j) eqn:Ho.
        * first [rewrite (Hjshape eq_refl)|rewrite (Hjshape Ho)]. right. intros v. reflexivity.
        * destruct i_aggs0 as [[j0 [Hin [Ho0 Ha0]]]|H].
          -- left. exists j0. simpl. split; [|auto]. apply Hrest; [exact Hin|congruence].
          -- right. exact H.
      + (* file part *)
        destruct (w_aggonly j) eqn:Ha.
        * destruct i_file0 as [[j0 [Hin Ha0]]|H].
          -- left. exists j0. simpl. split; [|exact Ha0]. apply Hrest; [exact Hin|congruence].
          -- right. intros v Hv. destruct (H v Hv) as [H'|[H'|H']]; [left; exact H'|right; left; exact H'|].
             destruct (masked s v) eqn:Em; [right; left; exact Em|right; right].
             unfold nonagg_part, target_file in *. simpl. rewrite Hdiags, Em.
             destruct (contents s v); [|contradiction].
             rewrite (merge_other (agg (conf s)) (nonagg (conf s))); [exact H'|apply H_disj'|].
             intros d Hd. apply (H_acodes _ _ _ _ Hd).
        * right. intros v Hv. right. destruct (masked s v) eqn:Em; [left; exact Em|right].
          unfold nonagg_part, target_file. simpl. rewrite Hdiags, Em.
          destruct (contents s v); [|contradiction]. apply nonagg_of_full.
      + (* aggregate part *)
        destruct (w_aggonly j) eqn:Ha.
        * right. right. intros v Hv. destruct (masked s v) eqn:Em; [left; exact Em|right].
          unfold agg_part. simpl. rewrite Hdiags, Em. destruct (contents s v); [|contradiction].
          unfold run_aggs. destruct (w_overwrite j) eqn:Ho;
            [first [discriminate (Hjshape eq_refl)|rewrite (Hjshape Ho) in Ha; discriminate|rewrite (Hjshape eq_refl) in Ha; discriminate]|].
          apply merge_own. intros d Hd. apply (H_acodes _ _ _ _ Hd).
        * destruct (Nat.ltb 1 (count' s)) eqn:Hc1.
          2:{ right. left. change (count' (publish_all perr (set_aggs (set_diags s0 (run_diags U fdiags areport agg fx j s0)) (run_aggs j s0)))) with (count' s).
              apply Nat.ltb_ge in Hc1. exact Hc1. }
          unfold run_aggs. destruct (w_overwrite j) eqn:Ho.
          -- right. right. intros v Hv. destruct (masked s v) eqn:Em; [left; exact Em|right].
             unfold agg_part. simpl. rewrite Hdiags, Em. rewrite ?Ha. destruct (contents s v); [|contradiction].
             rewrite agg_of_full, Hc1. reflexivity.
          -- destruct i_aggs0 as [[j0 [Hin [Ho0 Ha0]]]|H].
             ++ left. assert (Hin' : In j0 (qw s ++ q)) by (apply Hrest; [exact Hin|congruence]).
                apply in_app_or in Hin'. destruct Hin' as [Hin'|Hin'].
                ** right. left. simpl. intros E. rewrite E in Hin'. destruct Hin'.
                ** right. right. simpl. intros E. rewrite E in Hin'. destruct Hin'.
             ++ right. right. intros v Hv. destruct (masked s v) eqn:Em; [left; exact Em|right].
                unfold agg_part. simpl. rewrite Hdiags, Em. rewrite ?Ha. destruct (contents s v); [|contradiction].
                rewrite agg_of_full, Hc1. apply H_aext. intros w. symmetry. apply H.
      + (* codes *)
        destruct (w_aggonly j) eqn:Ha.
        * destruct i_codes0 as [[j0 [Hin Ha0]]|H].
          -- left. exists j0. simpl. split; [|exact Ha0]. apply Hrest; [exact Hin|congruence].
          -- right. intros v d. simpl. rewrite Hdiags. destruct (contents s v); [|apply H].
             destruct (masked s v); [apply H|].
             unfold merge_rules. intros Hd. apply in_app_or in Hd. destruct Hd as [Hd|Hd].
             ++ apply filter_In in Hd. apply (H v d). tauto.
             ++ right. apply (H_acodes _ _ _ _ Hd).
        * right. intros v d. simpl. rewrite Hdiags. destruct (contents s v) eqn:Ec.
          -- destruct (masked s v) eqn:Em.
             ++ destruct Hside as [Hj|Hn]; [apply Hj|]. unfold masked in Em. rewrite (Hn v) in Em. discriminate.
             ++ apply codes_of_full.
          -- destruct (i_dom0 v Ec) as (_ & _ & _ & Hd & _). rewrite Hd. intros [].
      + (* pub *)
        right. right. intros v Hv. destruct (contents s v); [reflexivity|contradiction].
      + (* nodiag *)
        intros v Hm. rewrite Hdiags. destruct (contents s v) eqn:Ec; [|apply i_nodiag0; exact Hm].
        destruct (w_aggonly j); destruct (masked s v); try (apply i_nodiag0; exact Hm).
        * rewrite (i_nodiag0 v Hm). unfold merge_rules. simpl. apply H_adom. apply i_noagg0. exact Hm.
        * apply full_nomodule. exact Hm.
      + (* noagg *)
        intros v Hm. unfold run_aggs. destruct (w_overwrite j); [|apply i_noagg0; exact Hm].
        destruct (w_aggonly j); [reflexivity|]. unfold ideal_aggs. simpl. rewrite Hm. reflexivity.
      + intros j0 Hin. apply i_jobs0. apply Hsub. exact Hin.
  Qed.

  (* ---------------- every job-atomic step preserves the invariant ---------------- *)
  Lemma inv_step l s s' : au_label l -> Inv s -> junkfree s \/ nomasked s -> step' l s = Some s' -> Inv s'.
  Proof.
    intros [Hat Hu] I Hside Hs. destruct l; simpl in Hs; try discriminate Hat.
    - eapply inv_handle; eassumption.
    - eapply inv_file_job; eassumption.
    - eapply inv_dispatch; eassumption.
    - eapply inv_ws_run; eassumption.
  Qed.

  (* ---------------- the two side invariants ---------------- *)
  (* (a) histories that never introduce an unparseable document: no file ever shows parse errors *)
  Definition clean (s : state) : Prop :=
    nomasked s /\ forall u c, contents s u = Some c -> parses c = true.

  Lemma clean_init f k : parse_ok_init U parses f -> clean (init_state parses f k).
  Proof.
    intros Hf. split; simpl.
    - intros u. simpl. destruct (f u) as [c|] eqn:E; [|reflexivity]. rewrite (proj1 (Hf u c E)). reflexivity.
    - intros u c E. apply (Hf u c E).
  Qed.

  Lemma file_store_perrs s u m : perrs (file_store perr fdiags nonagg s u m) = perrs s.
  Proof.
    unfold file_store. destruct m as [mc|]; simpl; [|reflexivity].
    destruct (is_some (contents s u) && negb (masked s u)); reflexivity.
  Qed.

  Lemma file_store_contents s u m : contents (file_store perr fdiags nonagg s u m) = contents s.
  Proof.
    unfold file_store. destruct m as [mc|]; simpl; [|reflexivity].
    destruct (is_some (contents s u) && negb (masked s u)); reflexivity.
  Qed.

  Lemma clean_step l s s' : parse_ok_label U parses l -> clean s -> step' l s = Some s' -> clean s'.
  Proof.
    intros Hok [Hn Hc] Hs. destruct l as [e| | | | |]; simpl in Hs; try contradiction.
    - destruct e as [u c|u|u v|k]; simpl in Hs.
      + injection Hs as <-. destruct Hok as [Hp _]. split; simpl; [exact Hn|].
        intros w c' E. destruct (N.eqb_spec w u) as [->|Hne]; [rewrite upd_same in E; congruence|].
        rewrite upd_other in E by exact Hne. eauto.
      + injection Hs as <-. split; simpl.
        * intros w. simpl. destruct (N.eqb_spec w u) as [->|Hne]; [apply upd_same|rewrite upd_other by exact Hne; apply Hn].
        * intros w c' E. destruct (N.eqb_spec w u) as [->|Hne]; [rewrite upd_same in E; discriminate|].
          rewrite upd_other in E by exact Hne. eauto.
      + destruct (contents s u) as [c|] eqn:Ec; [|discriminate]. injection Hs as <-. split; simpl.
        * intros w. simpl. destruct (N.eqb_spec w u) as [->|Hne]; [apply upd_same|rewrite upd_other by exact Hne; apply Hn].
        * intros w c' E. destruct (N.eqb_spec w v) as [->|Hne]; [rewrite upd_same in E; injection E as <-; eauto|].
          rewrite upd_other in E by exact Hne.
          destruct (N.eqb_spec w u) as [->|Hne2]; [rewrite upd_same in E; discriminate|].
          rewrite upd_other in E by exact Hne2. eauto.
      + injection Hs as <-. split; simpl; assumption.
    - unfold file_job in Hs. destruct (inflight s); [discriminate|]. destruct (qf s) as [|u q]; [discriminate|]. simpl in Hs.
      destruct (contents s u) as [c|] eqn:Ec.
      + unfold update_parse in Hs. rewrite (Hc u c Ec) in Hs. injection Hs as <-. split.
        * intros w. rewrite file_store_perrs. simpl.
          destruct (N.eqb_spec w u) as [->|Hne]; [apply upd_same|rewrite upd_other by exact Hne; apply Hn].
        * intros w c' E. rewrite file_store_contents in E. simpl in E. eauto.
      + injection Hs as <-. split; simpl; assumption.
    - unfold dispatch in Hs. destruct (qw s) as [|j q]; [discriminate|].
      destruct (w_aggonly j && Nat.ltb 5 (length (qr s))); injection Hs as <-; split; simpl; assumption.
    - unfold ws_run in Hs. destruct (qr s) as [|j q]; [discriminate|].
      destruct (Nat.eqb (count' (set_qr s q)) 0); injection Hs as <-; split; simpl; assumption.
  Qed.

  (* (b) histories without config change: the cached diagnostics never leave the enabled rules *)
  Lemma junkfree_init f k : junkfree (init_state parses f k).
  Proof. intros u d H. destruct H. Qed.

  Lemma junkfree_step l s s' : atomic l = true -> no_config_label l -> junkfree s -> step' l s = Some s' -> junkfree s'.
  Proof.
    intros Hat Hnc Hj Hs. destruct l as [e| | | | |]; simpl in Hs; try discriminate Hat.
    - destruct e as [u c|u|u v|k]; simpl in Hs; try contradiction.
      + injection Hs as <-. exact Hj.
      + injection Hs as <-. intros w d. simpl. destruct (N.eqb_spec w u) as [->|Hne].
        * rewrite updl_same. intros [].
        * rewrite updl_other by exact Hne. apply Hj.
      + destruct (contents s u) as [c|]; [|discriminate]. injection Hs as <-. intros w d. simpl.
        destruct (N.eqb_spec w u) as [->|Hne].
        * rewrite updl_same. intros [].
        * rewrite updl_other by exact Hne. apply Hj.
    - unfold file_job in Hs. destruct (inflight s); [discriminate|]. destruct (qf s) as [|u q]; [discriminate|]. simpl in Hs.
      destruct (contents s u) as [c|] eqn:Ec; [|injection Hs as <-; exact Hj].
      injection Hs as <-. unfold file_store.
      set (s1 := update_parse parses fx (set_qf s q) u c).
      assert (E1 : diags s1 = diags s /\ conf s1 = conf s).
      { unfold s1, update_parse. destruct (parses c); simpl; auto. }
      destruct E1 as [Ed Ek].
      destruct (modules s1 u) as [mc|]; simpl.
      + destruct (is_some (contents s1 u) && negb (masked s1 u)); simpl.
        * intros w d. simpl. rewrite Ek. destruct (N.eqb_spec w u) as [->|Hne].
          -- rewrite updl_same, Ed. unfold merge_rules. intros Hd. apply in_app_or in Hd. destruct Hd as [Hd|Hd].
             ++ apply filter_In in Hd. apply (Hj u d). tauto.
             ++ left. apply (H_fcodes _ _ _ _ Hd).
          -- rewrite updl_other, Ed by exact Hne. apply Hj.
        * intros w d. simpl. rewrite Ek, Ed. apply Hj.
      + intros w d. simpl. rewrite Ek, Ed. apply Hj.
    - unfold dispatch in Hs. destruct (qw s) as [|j q]; [discriminate|].
      destruct (w_aggonly j && Nat.ltb 5 (length (qr s))); injection Hs as <-; exact Hj.
    - unfold ws_run in Hs. destruct (qr s) as [|j q]; [discriminate|].
      destruct (Nat.eqb (count' (set_qr s q)) 0); injection Hs as <-; [exact Hj|].
      intros w d. simpl. unfold run_diags. simpl.
      destruct (contents s w); [|apply Hj].
      destruct (w_aggonly j).
      + match goal with |- context [if ?b then _ else _] => destruct b end; [apply Hj|].
        unfold merge_rules. intros Hd. apply in_app_or in Hd. destruct Hd as [Hd|Hd].
        * apply filter_In in Hd. apply (Hj w d). tauto.
        * right. unfold agg_fd in Hd. simpl in Hd. apply (H_acodes _ _ _ _ Hd).
      + match goal with |- context [if ?b then _ else _] => destruct b end; [apply Hj|].
        apply (codes_of_full (set_qr s q) w d).
  Qed.

  (* ---------------- runs ---------------- *)
  Lemma inv_run_clean ls : forall s s',
    Forall (parse_ok_label U parses) ls -> Inv s -> clean s -> run' ls s = Some s' -> Inv s' /\ clean s'.
  Proof.
    induction ls as [|l ls IH]; intros s s' Hok I Hc Hr; simpl in Hr.
    - injection Hr as <-. auto.
    - inversion Hok as [|? ? Hl Hls]; subst. destruct (step' l s) as [s1|] eqn:Hs; [|discriminate].
      apply (IH s1 s' Hls); [|eapply clean_step; eassumption|exact Hr].
      apply (inv_step l s s1); [|exact I|right; apply Hc|exact Hs].
      destruct l as [e| | | | |]; simpl in Hl; try contradiction; split; try reflexivity; try exact I.
      destruct e; simpl in *; tauto.
  Qed.

  Lemma inv_run_noconfig ls : forall s s',
    Forall au_label ls -> Forall no_config_label ls -> Inv s -> junkfree s -> run' ls s = Some s' -> Inv s' /\ junkfree s'.
  Proof.
    induction ls as [|l ls IH]; intros s s' Hau Hnc I Hj Hr; simpl in Hr.
    - injection Hr as <-. auto.
    - inversion Hau as [|? ? Hl Hls]; subst. inversion Hnc as [|? ? Hl2 Hls2]; subst.
      destruct (step' l s) as [s1|] eqn:Hs; [|discriminate].
      apply (IH s1 s' Hls Hls2); [|eapply junkfree_step; try eassumption; apply Hl|exact Hr].
      apply (inv_step l s s1 Hl I); [left; exact Hj|exact Hs].
  Qed.

  (* ---------------- at quiescence the invariant is the specification ---------------- *)
  Lemma quiescent_converged s : Inv s -> quiescent s -> count' s <> 1%nat ->
    (forall u c, contents s u = Some c -> parses c = true) ->
    forall u, Permutation (pub s u) (fresh' (contents s) (conf s) u).
  Proof.
    intros I (Hqf & Hqw & Hqr & _) Hcount Hall u. pose proof I as I0. destruct I.
    assert (Hps : forall v c, contents s v = Some c -> modules s v = Some c /\ perrs s v = None).
    { intros v c Ec. destruct (i_parse0 v c Ec) as [H|H]; [rewrite Hqf in H; destruct H|].
      unfold parse_state in H. rewrite (Hall v c Ec) in H. exact H. }
    assert (Hmod : forall v, modules s v = contents s v).
    { intros v. destruct (contents s v) as [c|] eqn:Ec; [apply (Hps v c Ec)|apply (i_dom0 v Ec)]. }
    assert (Hnm : forall v, masked s v = false).
    { intros v. unfold masked. destruct (contents s v) as [c|] eqn:Ec.
      - rewrite (proj2 (Hps v c Ec)). reflexivity.
      - destruct (i_dom0 v Ec) as (_ & Hp & _). rewrite Hp. reflexivity. }
    assert (Hnopend : forall P : wjob -> Prop, ~ (exists j, In j (qw s ++ qr s) /\ P j)).
    { intros P [j [Hin _]]. rewrite Hqw, Hqr in Hin. destruct Hin. }
    assert (Haggs : forall v, aggs s v = ideal_aggs s v).
    { destruct i_aggs0 as [H|H]; [exfalso; apply (Hnopend (fun j => w_overwrite j = true /\ w_aggonly j = false)); exact H|exact H]. }
    assert (Hcountp : count_parsed U parses (contents s) = count' s).
    { unfold count_parsed, count_modules. f_equal. apply filter_ext. intros v. rewrite Hmod.
      destruct (contents s v) as [c|] eqn:Ec; [|reflexivity]. simpl. apply (Hall v c Ec). }
    unfold fresh. destruct (contents s u) as [c|] eqn:Ec.
    2:{ destruct (i_dom0 u Ec) as (_ & _ & _ & _ & Hpub). rewrite Hpub. constructor. }
    rewrite (Hall u c Ec), Hcountp.
    assert (Hc2 : (2 <= count' s)%nat).
    { destruct (count' s) as [|[|n]] eqn:En; [|contradiction|lia].
      pose proof (count_zero_none s u (i_cont0 u c Ec) En) as Hn. rewrite Hmod, Ec in Hn. discriminate. }
    assert (Hpub : pub s u = diags s u).
    { destruct i_pub0 as [H|[H|H]]; [lia|rewrite Hqw, Hqr in H; contradiction|].
      rewrite (H u) by (rewrite Ec; discriminate). apply send_noperr. apply (Hps u c Ec). }
    rewrite Hpub.
    assert (Hcodes : forall d, In d (diags s u) ->
              mem (code d) (nonagg (conf s)) = true \/ mem (code d) (agg (conf s)) = true).
    { destruct i_codes0 as [H|H]; [exfalso; apply (Hnopend (fun j => w_aggonly j = false)); exact H|apply H]. }
    eapply Permutation_trans; [apply (partition_perm (fun d => mem (code d) (nonagg (conf s))) (fun d => mem (code d) (agg (conf s))))|].
    - exact Hcodes.
    - intros d. apply H_disj.
    - assert (Hf : filter (fun d => mem (code d) (nonagg (conf s))) (diags s u) = fdiags (conf s) u c).
      { destruct i_file0 as [H|H]; [exfalso; apply (Hnopend (fun j => w_aggonly j = false)); exact H|].
        destruct (H u) as [H'|[H'|H']]; [rewrite Ec; discriminate|rewrite Hqf in H'; destruct H'|rewrite Hnm in H'; discriminate|].
        unfold nonagg_part, target_file in H'. rewrite Hmod, Ec in H'. exact H'. }
      rewrite Hf. apply Permutation_app_head.
      assert (Hlt : Nat.ltb 1 (count' s) = true) by (apply Nat.ltb_lt; lia). rewrite Hlt.
      destruct i_agg0 as [[[v [Hv _]]|[H|H]]|[H|H]].
      + rewrite Hqf in Hv. destruct Hv.
      + contradiction.
      + contradiction.
      + lia.
      + destruct (H u) as [H'|H']; [rewrite Ec; discriminate|rewrite Hnm in H'; discriminate|].
        fold (agg_part s u). rewrite H'.
        erewrite H_aext; [apply Permutation_refl|]. intros w. rewrite Haggs. unfold ideal_aggs, fresh_aggs.
        rewrite Hmod. destruct (contents s w) as [cw|] eqn:Ew; [|reflexivity]. rewrite (Hall w cw Ew). reflexivity.
  Qed.

  Lemma deleted_has_none s : Inv s -> forall u, contents s u = None -> pub s u = [].
  Proof. intros I u Hc. apply (i_dom _ I u Hc). Qed.

  (* (a) parse-failure-free histories, config changes allowed *)
  Theorem converges_job_atomic_partial_lemma :
    forall (f : fmap content) (k : cfg) (ls : list label) (s : state),
      parse_ok_init U parses f -> Forall (parse_ok_label U parses) ls ->
      run' ls (init_state parses f k) = Some s ->
      quiescent s ->
      count' s <> 1%nat ->
      (forall u, Permutation (pub s u) (fresh' (contents s) (conf s) u)) /\
      (forall u, contents s u = None -> pub s u = []).
  Proof.
    intros f k ls s Hf Hls Hr Hq Hc.
    assert (Hfu : in_universe_init U f) by (intros u c E; apply (Hf u c E)).
    destruct (inv_run_clean ls _ _ Hls (inv_init f k Hfu) (clean_init f k Hf) Hr) as [I [_ Hall]].
    split; [apply quiescent_converged; assumption|apply deleted_has_none; exact I].
  Qed.

  (* (b) arbitrary contents (documents may stop parsing and parse again), no config change: converged as
     soon as every file of the workspace parses *)
  Theorem converges_job_atomic_noconfig_lemma :
    forall (f : fmap content) (k : cfg) (ls : list label) (s : state),
      in_universe_init U f -> Forall au_label ls -> Forall no_config_label ls ->
      run' ls (init_state parses f k) = Some s ->
      quiescent s ->
      count' s <> 1%nat ->
      (forall u c, contents s u = Some c -> parses c = true) ->
      (forall u, Permutation (pub s u) (fresh' (contents s) (conf s) u)) /\
      (forall u, contents s u = None -> pub s u = []).
  Proof.
    intros f k ls s Hf Hau Hnc Hr Hq Hc Hall.
    destruct (inv_run_noconfig ls _ _ Hau Hnc (inv_init f k Hf) (junkfree_init f k) Hr) as [I _].
    split; [apply quiescent_converged; assumption|apply deleted_has_none; exact I].
  Qed.
End Conv.

(* ------------------------------------------------------------------ closed statements *)
Theorem converges_job_atomic_partial_closed :
  forall (U : list uri) parses perr fdiags areport nonagg agg,
    linter_ok parses perr fdiags areport nonagg agg ->
    forall (f : fmap content) (k : cfg) (ls : list label) (s : state),
      parse_ok_init U parses f ->
      Forall (parse_ok_label U parses) ls ->
      run U parses perr fdiags areport nonagg agg current ls (init_state parses f k) = Some s ->
      quiescent s ->
      count_modules U s <> 1%nat ->
      (forall u, Permutation (pub s u) (fresh U parses perr fdiags areport (contents s) (conf s) u)) /\
      (forall u, contents s u = None -> pub s u = []).
Proof.
  intros U parses perr fdiags areport nonagg agg [H1 H2 H3 H4 H5 _].
  apply (converges_job_atomic_partial_lemma U parses perr fdiags areport nonagg agg H1 H2 H3 H4 H5).
Qed.

Theorem converges_job_atomic_noconfig_closed :
  forall (U : list uri) parses perr fdiags areport nonagg agg,
    linter_ok parses perr fdiags areport nonagg agg ->
    forall (f : fmap content) (k : cfg) (ls : list label) (s : state),
      in_universe_init U f ->
      Forall (job_atomic_label U) ls -> Forall no_config_label ls ->
      run U parses perr fdiags areport nonagg agg current ls (init_state parses f k) = Some s ->
      quiescent s ->
      count_modules U s <> 1%nat ->
      (forall u c, contents s u = Some c -> parses c = true) ->
      (forall u, Permutation (pub s u) (fresh U parses perr fdiags areport (contents s) (conf s) u)) /\
      (forall u, contents s u = None -> pub s u = []).
Proof.
  intros U parses perr fdiags areport nonagg agg [H1 H2 H3 H4 H5 _].
  apply (converges_job_atomic_noconfig_lemma U parses perr fdiags areport nonagg agg H1 H2 H3 H4 H5).
Qed.

Lemma w_linter_ok : linter_ok w_parses w_perr w_fd w_ar w_nonagg w_agg.
Proof.
  constructor.
  - intros k u c d. unfold w_fd, w_nonagg. destruct (N.eqb c 3); simpl; [|intros []].
    destruct (N.eqb k 1); simpl; [intros []|]. intros [<-|[]]. reflexivity.
  - intros k m u d. unfold w_ar, w_agg. destruct (N.eqb k 2); [intros []|].
    destruct (N.eqb u 0 && w_has m 0 && negb (w_has m 1)); [|intros []]. intros [<-|[]]. reflexivity.
  - intros k r. unfold w_nonagg, w_agg. destruct (N.eqb k 1) eqn:E1; simpl; [discriminate|].
    rewrite orb_false_r. intros Hr. apply N.eqb_eq in Hr. subst r. destruct (N.eqb k 2); reflexivity.
  - intros k m1 m2 u H. unfold w_ar, w_has. rewrite !H. reflexivity.
  - intros k m u H. unfold w_ar. destruct (N.eqb k 2); [reflexivity|].
    destruct (N.eqb_spec u 0) as [->|Hne]; [|reflexivity]. unfold w_has. rewrite H. reflexivity.
  - intros u c _. discriminate.
Qed.

Lemma quiescentb_spec s : quiescentb s = true -> quiescent s.
Proof.
  unfold quiescentb, quiescent. destruct (qf s); [|discriminate]. destruct (qw s); [|discriminate].
  destruct (qr s); [|discriminate]. destruct (inflight s); [discriminate|]. auto.
Qed.

Lemma diverges_refutes fx (sched_ok : label -> Prop) init ls u :
  diverges fx init ls u = true ->
  Forall (in_universe_label wU) ls -> Forall sched_ok ls ->
  (forall v c, find (fun p => N.eqb (fst p) v) init = Some (v, c) -> In v wU) ->
  (forall v p, find (fun p => N.eqb (fst p) v) init = Some p -> fst p = v) ->
  ~ converges_statement fx sched_ok.
Proof.
  intros Hd Hu Hs Hin Hfst Hconv. unfold diverges in Hd.
  destruct (w_run fx init ls) as [s|] eqn:Hr; [|discriminate].
  apply andb_true_iff in Hd. destruct Hd as [Hq Hlen]. apply negb_true_iff, Nat.eqb_neq in Hlen.
  apply Hlen. apply Permutation_length.
  apply (Hconv wU w_parses w_perr w_fd w_ar w_nonagg w_agg w_linter_ok (w_init init) 0 ls s); try assumption.
  - intros v c E. unfold w_init in E. destruct (find (fun p => N.eqb (fst p) v) init) as [p|] eqn:Ef; [|discriminate].
    injection E as <-. apply (Hin v (snd p)). rewrite Ef. f_equal. pose proof (Hfst v p Ef) as Hp. destruct p as [a b]. simpl in *. subst a. reflexivity.
  - apply quiescentb_spec. exact Hq.
Qed.

Ltac solve_forall := repeat (constructor; try exact I; try reflexivity; try (simpl; tauto)).

Lemma refute_with fx (sched_ok : label -> Prop) (w : list (uri * content) * list label * uri) :
  wdiv fx w = true ->
  Forall (in_universe_label wU) (snd (fst w)) -> Forall sched_ok (snd (fst w)) ->
  forallb (fun p => mem (fst p) wU) (fst (fst w)) = true ->
  ~ converges_statement fx sched_ok.
Proof.
  intros Hd Hu Hs Hall. destruct w as [[init ls] u]. simpl in *.
  apply (diverges_refutes fx sched_ok init ls u Hd Hu Hs).
  - intros v c E. apply find_some in E. destruct E as [Hin _].
    rewrite forallb_forall in Hall. apply mem_In. apply (Hall _ Hin).
  - intros v p E. apply find_some in E. destruct E as [_ E]. apply N.eqb_eq in E. exact E.
Qed.

(* the unrestricted job-atomic statement is false of the current code: four independent witnesses *)
Lemma refuted_parse_failure : ~ converges_statement current atomic_label.
Proof. apply (refute_with current atomic_label wit_parse_failure); [vm_compute; reflexivity| | |reflexivity]; solve_forall. Qed.
Lemma refuted_single_module : ~ converges_statement current atomic_label.
Proof. apply (refute_with current atomic_label wit_single_module); [vm_compute; reflexivity| | |reflexivity]; solve_forall. Qed.
Lemma refuted_disabled_rule : ~ converges_statement current atomic_label.
Proof. apply (refute_with current atomic_label wit_disabled_rule); [vm_compute; reflexivity| | |reflexivity]; solve_forall. Qed.
Lemma refuted_no_modules : ~ converges_statement current atomic_label.
Proof. apply (refute_with current atomic_label wit_no_modules); [vm_compute; reflexivity| | |reflexivity]; solve_forall. Qed.
(* each witness stops diverging when (only) the corresponding defect is repaired in the model *)
Lemma witnesses_attributed :
  wdiv (Build_fixes true true true false false false) wit_parse_failure = false /\
  wdiv (Build_fixes true true false false true false) wit_single_module = false /\
  wdiv (Build_fixes true true false true false false) wit_disabled_rule = false /\
  wdiv (Build_fixes true true false false false true) wit_no_modules = false.
Proof. vm_compute. repeat split. Qed.

Lemma witnesses_all :
  (wdiv current wit_parse_failure = true /\ wdiv (Build_fixes true true true false false false) wit_parse_failure = false) /\
  (wdiv current wit_single_module = true /\ wdiv (Build_fixes true true false false true false) wit_single_module = false) /\
  (wdiv current wit_disabled_rule = true /\ wdiv (Build_fixes true true false true false false) wit_disabled_rule = false) /\
  (wdiv current wit_no_modules = true /\ wdiv (Build_fixes true true false false false true) wit_no_modules = false).
Proof. vm_compute. repeat split. Qed.

(* the two repaired defects: witnesses against the pinned behaviour that no longer diverge *)
Lemma pinned_refuted_delete : ~ converges_statement pinned atomic_label /\ wdiv current wit_delete = false.
Proof.
  split; [|vm_compute; reflexivity].
  apply (refute_with pinned atomic_label wit_delete); [vm_compute; reflexivity| | |reflexivity]; solve_forall.
Qed.
Lemma pinned_refuted_config : ~ converges_statement pinned atomic_label /\ wdiv current wit_config = false.
Proof.
  split; [|vm_compute; reflexivity].
  apply (refute_with pinned atomic_label wit_config); [vm_compute; reflexivity| | |reflexivity]; solve_forall.
Qed.

(* fine-grained schedules (a file job split around a delete) refute convergence even on parse-failure-free
   histories with several modules *)
Lemma fine_refuted : ~ converges_statement current any_label.
Proof. apply (refute_with current any_label wit_race); [vm_compute; reflexivity| | |reflexivity]; solve_forall. Qed.

Lemma ex_history_ok :
  Forall (parse_ok_label wU w_parses) ex_history /\
  match w_run current [(0, 0); (1, 1)] ex_history with
  | Some s => quiescentb s = true /\ count_modules wU s = 2%nat /\ pub s 0 = [] /\ conf s = 2
  | None => False
  end.
Proof. split; [unfold ex_history; solve_forall|vm_compute; repeat split]. Qed.

(* non-vacuity of the no-config theorem: b stops parsing, a is edited meanwhile, b parses again *)
Lemma ex_history2_ok :
  Forall (job_atomic_label wU) ex_history2 /\ Forall no_config_label ex_history2 /\
  match w_run current [(0, 0); (1, 1); (2, 1)] ex_history2 with
  | Some s => quiescentb s = true /\ count_modules wU s = 3%nat /\ pub s 1 = [(1, 30)] /\
              forallb (fun u => match contents s u with Some c => w_parses c | None => true end) wU = true
  | None => False
  end.
Proof. split; [unfold ex_history2; solve_forall|split; [unfold ex_history2; solve_forall|vm_compute; repeat split]]. Qed.
