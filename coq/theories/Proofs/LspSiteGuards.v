(* C17 — the (site, guard) pairs of internal/lsp are the ones the model was written from (vm_compute against the
   regenerated Gen/LspShape.v). *)
From Coq Require Import List NArith Bool.
From Regal Require Import Base.Str Base.StrLit Model.LspSiteGuards Gen.LspShape.
Import ListNotations.

Lemma guarded_sites_match_lemma :
  lsp_guarded_sites = modelled_guarded_sites /\
  forallb site_guard_ok lsp_guarded_sites = true /\
  protected_count lsp_guarded_sites = 56%nat.
Proof. vm_compute. repeat split. Qed.
