(* C04: the obligations on the tables regenerated from /repo (Gen/RulesTable.v), and the
   theorems of Proofs/Precedence.v instantiated with them. *)
From Regal Require Import Base.Str Model.Precedence Proofs.Precedence Gen.RulesTable.

Lemma tables_ok_bundle : tables_ok bundled_rules provided_rules = true.
Proof. vm_compute. reflexivity. Qed.

Lemma tables_ok_bundled_have_level bundled provided c t :
  tables_ok bundled provided = true -> In (c, t) bundled ->
  exists pl, rule_level_of provided c t = Some pl /\ level_ok pl = true.
Proof.
  unfold tables_ok. rewrite !andb_true_iff. intros [[[[_ _] H] _] _] Hin.
  rewrite forallb_forall in H. specialize (H _ Hin). simpl in H.
  destruct (rule_level_of provided c t) as [pl|]; [|discriminate]. exists pl. auto.
Qed.

Lemma tables_ok_names_unique bundled provided :
  tables_ok bundled provided = true -> keys_nodup (provided_conf_levels provided) = true.
Proof. unfold tables_ok. rewrite !andb_true_iff. tauto. Qed.

Lemma tables_ok_provided_bundled bundled provided c t l :
  tables_ok bundled provided = true -> rule_level_of provided c t = Some l -> In (c, t) bundled.
Proof.
  unfold tables_ok. rewrite !andb_true_iff. intros [[[_ _] H] _] Hl.
  rewrite forallb_forall in H. unfold rule_level_of in Hl.
  destruct (assoc c provided) as [rs|] eqn:Ec; [|discriminate].
  specialize (H _ (assoc_In _ _ _ Ec)). simpl in H. rewrite forallb_forall in H.
  specialize (H _ (assoc_In _ _ _ Hl)). simpl in H. apply pair_in_spec. exact H.
Qed.

(* a bundled rule of the tree as it is now: the decision is the README chain with the rule's
   provided level as Regal's built-in default *)
Lemma bundled_rule_decision user custom p cat title excluded noticed :
  user_wf user = true ->
  In (cat, title) bundled_rules ->
  exists pl, rule_level_of provided_rules cat title = Some pl /\ level_ok pl = true /\
  let merged := linter_config provided_rules user custom in
  impl_decision (builtin_can_report p merged cat title excluded noticed)
                (violation_level p merged cat title)
  = if excluded || noticed then Off
    else spec_decision p cat title (spec_user_level user cat title pl).
Proof.
  intros Hwf Hin.
  destruct (tables_ok_bundled_have_level _ _ _ _ tables_ok_bundle Hin) as [pl [Hpl Hok]].
  exists pl. split; [assumption|]. split; [assumption|].
  apply builtin_decision_eq_spec; [assumption | exact (tables_ok_names_unique _ _ tables_ok_bundle) | assumption].
Qed.

Lemma bundle_enabled_list_exact user custom p noticed t :
  user_wf user = true ->
  let merged := linter_config provided_rules user custom in
  In t (determine_enabled_rules p merged bundled_rules noticed custom) <->
  (exists c, In (c, t) bundled_rules /\ builtin_can_report p merged c t false (noticed c t) = true) \/
  (exists c, In (c, t) custom /\ custom_can_report p merged c t false = true).
Proof.
  intros Hwf. apply enabled_list_exact_lemma; [assumption|].
  intros c t' Hin. destruct (tables_ok_bundled_have_level _ _ _ _ tables_ok_bundle Hin) as [pl [Hpl _]].
  rewrite Hpl. discriminate.
Qed.

(* DetermineEnabledAggregateRules: the same over the rules that define `aggregate` *)
Lemma bundle_enabled_aggregate_list_exact user custom p bundled_agg custom_agg t :
  user_wf user = true ->
  (forall c t', In (c, t') bundled_agg -> In (c, t') bundled_rules) ->
  let merged := linter_config provided_rules user custom in
  In t (determine_enabled_aggregate_rules p merged bundled_agg custom_agg) <->
  (exists c, In (c, t) bundled_agg /\ builtin_can_report p merged c t false false = true) \/
  (exists c, In (c, t) custom_agg /\ custom_can_report p merged c t false = true).
Proof.
  intros Hwf Hsub. unfold determine_enabled_aggregate_rules.
  apply (enabled_list_exact_gen provided_rules user custom p bundled_agg (fun _ _ => false) custom_agg t Hwf).
  intros c t' Hin. destruct (tables_ok_bundled_have_level _ _ _ _ tables_ok_bundle (Hsub _ _ Hin)) as [pl [Hpl _]].
  rewrite Hpl. discriminate.
Qed.

(* the same list read through the aggregate_report entry point: a rule is listed iff its
   aggregate_report may run for some supplied aggregates *)
Lemma bundle_enabled_aggregate_list_fires user custom p bundled_agg custom_agg t :
  user_wf user = true ->
  (forall c t', In (c, t') bundled_agg -> In (c, t') bundled_rules) ->
  let merged := linter_config provided_rules user custom in
  In t (determine_enabled_aggregate_rules p merged bundled_agg custom_agg) <->
  (exists c, In (c, t) bundled_agg /\
             exists supplied, branch_gate false BAggregateReport p merged c t false false supplied = true) \/
  (exists c, In (c, t) custom_agg /\
             exists supplied, branch_gate true BAggregateReport p merged c t false false supplied = true).
Proof.
  intros Hwf Hsub merged.
  pose proof (bundle_enabled_aggregate_list_exact user custom p bundled_agg custom_agg t Hwf Hsub) as E.
  cbv zeta in E. fold merged in E. rewrite E. clear E.
  pose proof (fun c => branch_gates_agree false BAggregateReport p merged c t) as Hb.
  pose proof (fun c => branch_gates_agree true BAggregateReport p merged c t) as Hc.
  cbn [branch_gate] in Hb, Hc.
  split.
  - intros [[c [Hin H]]|[c [Hin H]]].
    + left. exists c. split; [assumption|]. exists true. cbn [branch_gate]. rewrite Hb. exact H.
    + right. exists c. split; [assumption|]. exists true. cbn [branch_gate]. rewrite Hc. exact H.
  - intros [[c [Hin [s H]]]|[c [Hin [s H]]]].
    + left. exists c. split; [assumption|]. cbn [branch_gate] in H. rewrite <- Hb. exact H.
    + right. exists c. split; [assumption|]. cbn [branch_gate] in H. rewrite <- Hc.
      unfold custom_can_aggregate_report in *. destruct s; [exact H|discriminate].
Qed.
