(* FindClosestMatchingRoot: the answer is the path itself, "" or a root that is a parent
   directory of the path; none that is one is longer. *)
From Regal Require Import Model.Rename Proofs.Provider Proofs.CleanPath.
From Coq Require Import Lia.

Section Loop.
  Variable matchf : str -> str -> bool.

  Lemma fcmr_loop_result path : forall roots cur best,
    let r := fcmr_loop matchf path roots cur best in
    (r = path /\ In path roots)
    \/ (In r roots /\ matchf path r = true)
    \/ r = match best with Some b => b | None => [] end.
  Proof.
    induction roots as [|x roots IH]; intros cur best; simpl.
    - right; right; reflexivity.
    - destruct (str_eqb_spec x path) as [->|Hne].
      + left. split; [reflexivity | left; reflexivity].
      + destruct (matchf path x) eqn:Hm; simpl.
        * destruct (Nat.ltb cur (length x)).
          -- destruct (IH (length x) (Some x)) as [[H1 H2]|[[H1 H2]|H]].
             ++ left. split; [exact H1 | right; exact H2].
             ++ right; left. split; [right; exact H1 | exact H2].
             ++ right; left. simpl in H. rewrite H. split; [left; reflexivity | exact Hm].
          -- destruct (IH cur best) as [[H1 H2]|[[H1 H2]|H]].
             ++ left. split; [exact H1 | right; exact H2].
             ++ right; left. split; [right; exact H1 | exact H2].
             ++ right; right. exact H.
        * destruct (IH cur best) as [[H1 H2]|[[H1 H2]|H]].
          -- left. split; [exact H1 | right; exact H2].
          -- right; left. split; [right; exact H1 | exact H2].
          -- right; right. exact H.
  Qed.

  (* no matching root is longer than the answer (when the path itself is not a root) *)
  Lemma fcmr_loop_longest path : forall roots cur best,
    ~ In path roots ->
    (match best with Some b => length b = cur | None => cur = O end) ->
    let r := fcmr_loop matchf path roots cur best in
    (cur <= length r)%nat /\
    forall x, In x roots -> matchf path x = true -> (length x <= length r)%nat.
  Proof.
    induction roots as [|x roots IH]; intros cur best Hnin Hbest; simpl.
    - split; [destruct best; simpl; lia | intros x []].
    - destruct (str_eqb_spec x path) as [->|Hne]; [exfalso; apply Hnin; left; reflexivity|].
      assert (Hnin' : ~ In path roots) by (intros H; apply Hnin; right; exact H).
      destruct (matchf path x) eqn:Hm; simpl.
      + destruct (Nat.ltb_spec cur (length x)) as [Hlt|Hge].
        * destruct (IH (length x) (Some x) Hnin' eq_refl) as [H1 H2].
          split; [lia|]. intros y [<-|Hy] Hmy; [exact H1 | apply H2; assumption].
        * destruct (IH cur best Hnin' Hbest) as [H1 H2].
          split; [exact H1|]. intros y [<-|Hy] Hmy; [lia | apply H2; assumption].
      + destruct (IH cur best Hnin' Hbest) as [H1 H2].
        split; [exact H1|]. intros y [<-|Hy] Hmy; [congruence | apply H2; assumption].
  Qed.
End Loop.

(* string level: what "matches" means for the repaired code *)
Lemma root_matches_spec path root :
  root_matches path root = true <-> exists rest, path = trim_suffix root [SLASH] ++ [SLASH] ++ rest.
Proof.
  unfold root_matches. rewrite has_prefix_spec. split; intros [t Ht]; exists t; rewrite Ht.
  - rewrite <- app_assoc. reflexivity.
  - rewrite <- app_assoc. reflexivity.
Qed.

Theorem fcmr_sound path roots :
  let r := find_closest_matching_root path roots in
  r = [] \/ r = path
  \/ (In r roots /\ exists rest, path = trim_suffix r [SLASH] ++ [SLASH] ++ rest).
Proof.
  unfold find_closest_matching_root.
  destruct (fcmr_loop_result root_matches path roots O None) as [[H _]|[[H1 H2]|H]].
  - right; left. exact H.
  - right; right. split; [exact H1 | apply root_matches_spec; exact H2].
  - left. exact H.
Qed.

Theorem fcmr_closest path roots x :
  ~ In path roots -> In x roots -> root_matches path x = true ->
  (length x <= length (find_closest_matching_root path roots))%nat.
Proof.
  intros Hnin Hx Hm. unfold find_closest_matching_root.
  destruct (fcmr_loop_longest root_matches path roots O None Hnin eq_refl) as [_ H].
  apply H; assumption.
Qed.

(* ---------------------------------------------------------------- component level *)

Lemma trim_suffix_last_ne (s : str) x : x <> SLASH -> trim_suffix (s ++ [x]) [SLASH] = s ++ [x].
Proof.
  intros Hx. unfold trim_suffix. rewrite rev_app_distr. simpl.
  destruct (N.eqb_spec x SLASH); [contradiction | reflexivity].
Qed.

Lemma cpath_not_slash_end cs : cs <> [] -> Forall regular cs -> trim_suffix (cpath cs) [SLASH] = cpath cs.
Proof.
  intros Hne Hall.
  destruct (exists_last Hne) as [cs' [c ->]].
  apply Forall_app in Hall as [_ Hc]. inversion Hc as [|? ? [Hcne [Hcs _]] _]; subst.
  destruct (exists_last Hcne) as [c0 [x ->]].
  assert (Hx : x <> SLASH).
  { intros ->. apply Hcs. apply in_or_app; right; left; reflexivity. }
  assert (Hform : exists pre, cpath (cs' ++ [c0 ++ [x]]) = pre ++ [x]).
  { destruct cs' as [|w cs''].
    - exists (SLASH :: c0). reflexivity.
    - rewrite cpath_snoc by discriminate. exists (cpath (w :: cs'') ++ SLASH :: c0).
      rewrite <- app_assoc. reflexivity. }
  destruct Hform as [pre Hpre].
  exact (eq_trans (f_equal (fun s => trim_suffix s [SLASH]) Hpre)
                  (eq_trans (trim_suffix_last_ne pre x Hx) (eq_sym Hpre))).
Qed.

(* for clean paths the answer contains the file component-wise *)
Theorem fcmr_contains_components ps roots cs :
  Forall regular ps -> Forall regular cs ->
  find_closest_matching_root (cpath ps) roots = cpath cs ->
  exists qs, ps = cs ++ qs.
Proof.
  intros Hps Hcs Hr.
  pose proof (fcmr_sound (cpath ps) roots) as H. cbv zeta in H. rewrite Hr in H.
  destruct H as [H|[H|[_ [rest H]]]].
  - discriminate.
  - exists []. rewrite app_nil_r. apply (f_equal comps_of) in H.
    rewrite !comps_of_cpath in H by assumption. symmetry. exact H.
  - exists (comps_of rest).
    apply (f_equal comps_of) in H. rewrite comps_of_cpath in H by assumption.
    destruct cs as [|c cs'].
    + change (trim_suffix (cpath []) [SLASH]) with (@nil N) in H.
      change ([] ++ [SLASH] ++ rest) with ([] ++ SLASH :: rest) in H.
      rewrite comps_of_app_sep in H. exact H.
    + rewrite cpath_not_slash_end in H by (try discriminate; assumption).
      change ([SLASH] ++ rest) with (SLASH :: rest) in H.
      rewrite comps_of_app_sep, comps_of_cpath in H by assumption. exact H.
Qed.

(* the pinned code: a sibling directory sharing a name prefix is taken for the root *)
Definition pin_path : str := [47;119;47;102;111;111;98;97;114;47;121;46;114;101;103;111]. (* /w/foobar/y.rego *)
Definition pin_root : str := [47;119;47;102;111;111].                                      (* /w/foo *)

Lemma fcmr_pinned_refuted :
  exists path roots,
    let r := find_closest_matching_root_pinned path roots in
    r <> [] /\ r <> path /\ In r roots
    /\ ~ (exists rest, path = trim_suffix r [SLASH] ++ [SLASH] ++ rest).
Proof.
  exists pin_path, [pin_root]. cbv zeta.
  assert (E : find_closest_matching_root_pinned pin_path [pin_root] = pin_root) by (vm_compute; reflexivity).
  rewrite E. repeat split; try discriminate.
  - left; reflexivity.
  - intros [rest H]. apply (f_equal (fun s => nth 6 s 0%N)) in H. vm_compute in H. discriminate.
Qed.

(* the repaired code on the same input *)
Lemma fcmr_pinned_witness_repaired :
  find_closest_matching_root pin_path [pin_root] = [].
Proof. vm_compute. reflexivity. Qed.
