(* Facts about the path model on "good" component lists: components that are
   non-empty, contain no separator and are neither "." nor "..". *)
From Regal Require Import Base.PathModel.

Definition good_comp (c : str) : Prop :=
  c <> [] /\ ~ In SLASH c /\ c <> [DOT] /\ c <> dotdot.

Definition good_comps (cs : list str) : Prop := Forall good_comp cs.

(* "/"-terminated encoding: "/" ++ c1 ++ "/" ++ ... ++ cn ++ "/" *)
Fixpoint enc_tail (cs : list str) : str :=
  match cs with [] => [] | c :: cs' => c ++ [SLASH] ++ enc_tail cs' end.
Definition enc (cs : list str) : str := SLASH :: enc_tail cs.

Lemma split_on_app_sep c a b :
  ~ In c a -> split_on c (a ++ c :: b) = a :: split_on c b.
Proof.
  induction a as [|x a IH]; intros Hn; simpl.
  - rewrite N.eqb_refl. reflexivity.
  - destruct (N.eqb_spec x c) as [->|Hne]; [exfalso; apply Hn; left; reflexivity|].
    rewrite IH by (intros H; apply Hn; right; exact H). reflexivity.
Qed.

Lemma split_on_nosep c a : ~ In c a -> split_on c a = [a].
Proof.
  induction a as [|x a IH]; intros Hn; simpl; [reflexivity|].
  destruct (N.eqb_spec x c) as [->|Hne]; [exfalso; apply Hn; left; reflexivity|].
  rewrite IH by (intros H; apply Hn; right; exact H). reflexivity.
Qed.

Lemma split_on_join cs :
  cs <> [] -> Forall (fun c => ~ In SLASH c) cs -> split_on SLASH (join [SLASH] cs) = cs.
Proof.
  induction cs as [|c cs IH]; intros Hne Hall; [contradiction|].
  inversion Hall as [|? ? Hc Hcs]; subst.
  destruct cs as [|c' cs'].
  - simpl. apply split_on_nosep; assumption.
  - rewrite join_cons2.
    change (c ++ [SLASH] ++ join [SLASH] (c' :: cs')) with (c ++ SLASH :: join [SLASH] (c' :: cs')).
    rewrite split_on_app_sep by assumption.
    rewrite IH; [reflexivity | discriminate | assumption].
Qed.

Lemma good_not_special c : good_comp c ->
  str_eqb c [] = false /\ str_eqb c [DOT] = false /\ str_eqb c dotdot = false.
Proof.
  intros (H1 & _ & H3 & H4). repeat split.
  - destruct (str_eqb_spec c []); congruence.
  - destruct (str_eqb_spec c [DOT]); congruence.
  - destruct (str_eqb_spec c dotdot); congruence.
Qed.

Lemma clean_comps_good r cs st :
  good_comps cs -> clean_comps r cs st = rev st ++ cs.
Proof.
  revert st; induction cs as [|c cs IH]; intros st Hg; simpl.
  - rewrite app_nil_r; reflexivity.
  - inversion Hg as [|? ? Hc Hcs]; subst.
    destruct (good_not_special c Hc) as (E1 & E2 & E3).
    rewrite E1, E2, E3. simpl. rewrite IH by assumption.
    simpl. rewrite <- app_assoc. reflexivity.
Qed.

Lemma clean_comps_skip_empty r cs st : clean_comps r ([] :: cs) st = clean_comps r cs st.
Proof. reflexivity. Qed.

Lemma join_app_enc cs : cs <> [] -> join [SLASH] cs ++ [SLASH] = enc_tail cs.
Proof.
  induction cs as [|c cs IH]; intros Hne; [contradiction|].
  destruct cs as [|c' cs'].
  - simpl. reflexivity.
  - rewrite join_cons2.
    change (enc_tail (c :: c' :: cs')) with (c ++ [SLASH] ++ enc_tail (c' :: cs')).
    rewrite <- IH by discriminate.
    rewrite <- !app_assoc. reflexivity.
Qed.

(* path.Clean of "/"-rooted input with extra slashes around good components *)
Lemma clean_rooted_good (pre : nat) cs :
  good_comps cs -> cs <> [] ->
  clean (repeat SLASH (S pre) ++ join [SLASH] cs) = SLASH :: join [SLASH] cs.
Proof.
  intros Hg Hne. unfold clean. cbn [repeat app is_rooted]. rewrite N.eqb_refl.
  assert (Hs : forall n, clean_comps true (split_on SLASH (repeat SLASH n ++ join [SLASH] cs)) [] = cs).
  { induction n as [|n IHn]; cbn [repeat app].
    - rewrite split_on_join; [|assumption|].
      + rewrite clean_comps_good by assumption. reflexivity.
      + eapply Forall_impl; [|exact Hg]. intros c (_ & H & _); exact H.
    - cbn [split_on]. rewrite N.eqb_refl. rewrite clean_comps_skip_empty. exact IHn. }
  cbn [split_on]. rewrite N.eqb_refl, clean_comps_skip_empty, Hs. reflexivity.
Qed.

Lemma clean_root_only n : clean (repeat SLASH (S n)) = [SLASH].
Proof.
  unfold clean. change (is_rooted (repeat SLASH (S n))) with (N.eqb SLASH SLASH).
  rewrite N.eqb_refl.
  assert (Hs : forall k, clean_comps true (split_on SLASH (repeat SLASH k)) [] = []).
  { induction k as [|k IHk]; [reflexivity|]. cbn [repeat split_on]. rewrite N.eqb_refl. exact IHk. }
  rewrite Hs. reflexivity.
Qed.

Lemma clean_rooted_trailing cs :
  good_comps cs -> cs <> [] ->
  clean (SLASH :: join [SLASH] cs ++ [SLASH]) = SLASH :: join [SLASH] cs.
Proof.
  intros Hg Hne. unfold clean. cbn [is_rooted]. rewrite N.eqb_refl.
  cbn [split_on]. rewrite N.eqb_refl, clean_comps_skip_empty.
  assert (Hns : Forall (fun c => ~ In SLASH c) cs)
    by (eapply Forall_impl; [|exact Hg]; intros c (_ & H & _); exact H).
  assert (E : split_on SLASH (join [SLASH] cs ++ [SLASH]) = cs ++ [[]]).
  { clear Hg. induction cs as [|c cs IH]; [contradiction|].
    inversion Hns as [|? ? Hc Hcs]; subst.
    destruct cs as [|c' cs'].
    - simpl. rewrite split_on_app_sep by assumption. reflexivity.
    - rewrite join_cons2. rewrite <- !app_assoc.
      change (c ++ [SLASH] ++ join [SLASH] (c' :: cs') ++ [SLASH])
        with (c ++ SLASH :: (join [SLASH] (c' :: cs') ++ [SLASH])).
      rewrite split_on_app_sep by assumption.
      rewrite IH; [reflexivity | discriminate | assumption]. }
  rewrite E.
  assert (C : forall st, clean_comps true (cs ++ [[]]) st = rev st ++ cs).
  { clear E Hne Hns. induction cs as [|c cs IH]; intros st.
    - simpl. rewrite app_nil_r. reflexivity.
    - inversion Hg as [|? ? Hc Hcs]; subst.
      destruct (good_not_special c Hc) as (E1 & E2 & E3).
      cbn [app clean_comps]. rewrite E1, E2, E3. cbn [orb].
      rewrite IH by assumption. simpl. rewrite <- app_assoc. reflexivity. }
  rewrite C. reflexivity.
Qed.

(* prefix test on encodings = component-wise prefix *)
Lemma has_prefix_enc_tail ks ds :
  Forall (fun c => ~ In SLASH c) ks -> Forall (fun c => ~ In SLASH c) ds ->
  has_prefix (enc_tail ds) (enc_tail ks) = comps_prefix ks ds.
Proof.
  revert ds; induction ks as [|k ks IH]; intros ds Hk Hd; [reflexivity|].
  inversion Hk as [|? ? Hk1 Hks]; subst.
  destruct ds as [|d ds].
  - cbn [enc_tail comps_prefix]. destruct k; reflexivity.
  - inversion Hd as [|? ? Hd1 Hds]; subst. cbn [enc_tail comps_prefix].
    (* compare k ++ "/" ++ .. against d ++ "/" ++ .. *)
    clear Hd Hk. revert d Hd1. induction k as [|x k IHk]; intros d Hd1.
    + destruct d as [|y d].
      * cbn [app has_prefix str_eqb andb]. rewrite N.eqb_refl. cbn [andb]. apply IH; assumption.
      * cbn [app has_prefix str_eqb andb].
        destruct (N.eqb_spec y SLASH) as [->|Hne]; [exfalso; apply Hd1; left; reflexivity|].
        reflexivity.
    + destruct d as [|y d].
      * cbn [app has_prefix str_eqb andb].
        destruct (N.eqb_spec SLASH x) as [<-|Hne]; [exfalso; apply Hk1; left; reflexivity|].
        reflexivity.
      * cbn [app has_prefix str_eqb].
        rewrite (N.eqb_sym y x).
        destruct (N.eqb x y) eqn:Exy; cbn [andb]; [|reflexivity].
        apply IHk.
        -- intros H; apply Hk1; right; exact H.
        -- intros H; apply Hd1; right; exact H.
Qed.

Lemma has_prefix_enc ks ds :
  Forall (fun c => ~ In SLASH c) ks -> Forall (fun c => ~ In SLASH c) ds ->
  has_prefix (enc ds) (enc ks) = comps_prefix ks ds.
Proof.
  intros Hk Hd. unfold enc. cbn [has_prefix]. rewrite N.eqb_refl. cbn [andb].
  apply has_prefix_enc_tail; assumption.
Qed.

Lemma upto_last_slash_app a base :
  ~ In SLASH base -> upto_last_slash (a ++ SLASH :: base) = a ++ [SLASH].
Proof.
  intros Hb.
  assert (Hbase : upto_last_slash base = []).
  { induction base as [|x b IH]; [reflexivity|]. cbn [upto_last_slash].
    rewrite IH by (intros H; apply Hb; right; exact H).
    destruct (N.eqb_spec x SLASH) as [->|]; [exfalso; apply Hb; left; reflexivity | reflexivity]. }
  assert (Hs : upto_last_slash (SLASH :: base) = [SLASH]).
  { cbn [upto_last_slash]. rewrite Hbase, N.eqb_refl. reflexivity. }
  induction a as [|x a IH]; [exact Hs|].
  cbn [app upto_last_slash]. rewrite IH.
  destruct (a ++ [SLASH]) eqn:E; [destruct a; discriminate | reflexivity].
Qed.
