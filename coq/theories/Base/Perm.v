(* all permutations of a short list (used to model Go's random map iteration order) *)
From Coq Require Import List.
Import ListNotations.

Fixpoint inserts {A} (x : A) (l : list A) : list (list A) :=
  match l with
  | [] => [[x]]
  | y :: l' => (x :: l) :: map (cons y) (inserts x l')
  end.

Fixpoint perms {A} (l : list A) : list (list A) :=
  match l with
  | [] => [[]]
  | x :: l' => flat_map (inserts x) (perms l')
  end.
