(* Unix path functions of Go's standard library, as the regal code uses them:
   path.Clean, path.Join, filepath.Dir, filepath.Base (GOOS=linux).
   The stdlib is MODELLED here; the harness compares these with the real
   functions on generated paths (correspondence relation "pathmodel"). *)
From Regal Require Export Base.Str.

Definition SLASH : N := 47.
Definition DOT : N := 46.
Definition dotdot : str := [DOT; DOT].

Definition is_rooted (p : str) : bool :=
  match p with c :: _ => N.eqb c SLASH | [] => false end.

(* process the components left to right keeping a stack (reversed) *)
Fixpoint clean_comps (rooted : bool) (comps : list str) (stack : list str) : list str :=
  match comps with
  | [] => rev stack
  | c :: cs =>
    if str_eqb c [] || str_eqb c [DOT] then clean_comps rooted cs stack
    else if str_eqb c dotdot then
      match stack with
      | top :: rest =>
          if str_eqb top dotdot then clean_comps rooted cs (dotdot :: stack)
          else clean_comps rooted cs rest
      | [] => if rooted then clean_comps rooted cs []
              else clean_comps rooted cs [dotdot]
      end
    else clean_comps rooted cs (c :: stack)
  end.

(* path.Clean *)
Definition clean (p : str) : str :=
  let rooted := is_rooted p in
  let comps := clean_comps rooted (split_on SLASH p) [] in
  if rooted then SLASH :: join [SLASH] comps
  else match comps with [] => [DOT] | _ => join [SLASH] comps end.

(* path.Join: empty elements are ignored, the rest joined by "/" and cleaned;
   all empty gives "" *)
Definition pjoin (elems : list str) : str :=
  match filter (fun e => negb (str_eqb e [])) elems with
  | [] => []
  | es => clean (join [SLASH] es)
  end.

(* index one past the last slash: path[:i+1] of filepath.Dir *)
Fixpoint upto_last_slash (p : str) : str :=
  match p with
  | [] => []
  | c :: p' =>
    let r := upto_last_slash p' in
    match r with
    | [] => if N.eqb c SLASH then [c] else []
    | _ => c :: r
    end
  end.

(* filepath.Dir on unix *)
Definition dir (p : str) : str := clean (upto_last_slash p).

Fixpoint after_last_slash (p : str) : str :=
  match p with
  | [] => []
  | c :: p' => if existsb (N.eqb SLASH) p' then after_last_slash p'
               else if N.eqb c SLASH then p' else p
  end.

(* component-wise ancestor-or-equal on clean paths, given as component lists *)
Fixpoint comps_prefix (a p : list str) : bool :=
  match a, p with
  | [], _ => true
  | x :: a', y :: p' => str_eqb x y && comps_prefix a' p'
  | _ :: _, [] => false
  end.

Definition comps_of (p : str) : list str :=
  filter (fun c => negb (str_eqb c [])) (split_on SLASH p).
