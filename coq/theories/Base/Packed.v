(* Case-file helpers built on the primitive 63-bit integers.  Only Check/ files and generated case
   files may import this: Uint63 brings the specification axioms of the primitives into the
   dependency closure, which no theorem under Props/ may have. *)
From Regal Require Export Base.Str.
(* Compact spelling for case files: Coq elaborates one primitive integer much faster than seven
   list cells.  [packed [len; w1; w2; …]] = the first [len] bytes of the big-endian 7-byte words. *)
From Coq Require Import Uint63 ZArith.

Definition bytes7 (x : int) : str :=
  map (fun sh => Z.to_N (Uint63.to_Z (Uint63.land (Uint63.lsr x sh) 255%uint63)))
      [48; 40; 32; 24; 16; 8; 0]%uint63.

Definition packed (l : list int) : str :=
  match l with
  | [] => []
  | n :: r => firstn (Z.to_nat (Uint63.to_Z n)) (flat_map bytes7 r)
  end.

(* 63-bit multiplicative digest of a byte string (wrap-around arithmetic of the primitive integers),
   spelled as 9 bytes: a NUL marker and the 8 big-endian bytes of the digest. *)
Definition digest_step (h : int) (b : N) : int :=
  Uint63.add (Uint63.mul h 1099511628211%uint63) (Uint63.of_Z (Z.of_N (b + 1))).
Definition digest (s : str) : int := fold_left digest_step s 1469598103934665603%uint63.
Definition digest_str (s : str) : str :=
  let h := digest s in
  0 :: map (fun sh => Z.to_N (Uint63.to_Z (Uint63.land (Uint63.lsr h sh) 255%uint63)))
           [56; 48; 40; 32; 24; 16; 8; 0]%uint63.
