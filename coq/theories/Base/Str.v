(* Byte strings as [list N] and the string operations the Go/Rego code uses.
   Definitions and their basic algebra; no property theorems here. *)
From Coq Require Export List NArith ZArith Bool Lia.
Export ListNotations.
Open Scope N_scope.

Definition str := list N.

Fixpoint str_eqb (a b : str) : bool :=
  match a, b with
  | [], [] => true
  | x :: a', y :: b' => N.eqb x y && str_eqb a' b'
  | _, _ => false
  end.

Lemma str_eqb_spec a b : reflect (a = b) (str_eqb a b).
Proof.
  revert b; induction a as [|x a IH]; intros [|y b]; simpl; try (constructor; congruence).
  destruct (N.eqb_spec x y) as [->|Hne]; simpl.
  - destruct (IH b) as [->|Hne]; constructor; congruence.
  - constructor; congruence.
Qed.

Lemma str_eqb_eq a b : str_eqb a b = true <-> a = b.
Proof. destruct (str_eqb_spec a b); split; congruence. Qed.

Lemma str_eqb_refl a : str_eqb a a = true.
Proof. apply str_eqb_eq; reflexivity. Qed.

(* strings.HasPrefix *)
Fixpoint has_prefix (s p : str) {struct p} : bool :=
  match p, s with
  | [], _ => true
  | y :: p', x :: s' => N.eqb x y && has_prefix s' p'
  | _ :: _, [] => false
  end.

Lemma has_prefix_spec s p : has_prefix s p = true <-> exists t, s = p ++ t.
Proof.
  revert s; induction p as [|y p IH]; intros s; simpl.
  - split; [intros _; exists s; reflexivity | reflexivity].
  - destruct s as [|x s]; [split; [discriminate | intros [t Ht]; discriminate]|].
    rewrite andb_true_iff, IH, N.eqb_eq. split.
    + intros [-> [t ->]]. exists t; reflexivity.
    + intros [t Ht]. injection Ht as -> ->. split; [reflexivity | exists t; reflexivity].
Qed.

Lemma has_prefix_app p t : has_prefix (p ++ t) p = true.
Proof. apply has_prefix_spec; exists t; reflexivity. Qed.

Lemma has_prefix_refl s : has_prefix s s = true.
Proof. apply has_prefix_spec; exists []; rewrite app_nil_r; reflexivity. Qed.

(* strings.TrimPrefix *)
Fixpoint drop_prefix (s p : str) {struct p} : option str :=
  match p, s with
  | [], _ => Some s
  | y :: p', x :: s' => if N.eqb x y then drop_prefix s' p' else None
  | _ :: _, [] => None
  end.

Definition trim_prefix (s p : str) : str :=
  match drop_prefix s p with Some t => t | None => s end.

Lemma drop_prefix_spec s p t : drop_prefix s p = Some t <-> s = p ++ t.
Proof.
  revert s; induction p as [|y p IH]; intros s; simpl.
  - split; [intros [= ->]; reflexivity | intros ->; reflexivity].
  - destruct s as [|x s]; [split; discriminate|].
    destruct (N.eqb_spec x y) as [->|Hne].
    + rewrite IH. split; [intros ->; reflexivity | intros [= ->]; reflexivity].
    + split; [discriminate | intros [= Hxy _]; contradiction].
Qed.

Lemma trim_prefix_app p t : trim_prefix (p ++ t) p = t.
Proof.
  unfold trim_prefix.
  destruct (drop_prefix (p ++ t) p) as [u|] eqn:E.
  - apply drop_prefix_spec in E. apply app_inv_head in E. congruence.
  - assert (H : drop_prefix (p ++ t) p = Some t) by (apply drop_prefix_spec; reflexivity).
    congruence.
Qed.

Definition has_suffix (s p : str) : bool := has_prefix (rev s) (rev p).

Lemma has_suffix_spec s p : has_suffix s p = true <-> exists t, s = t ++ p.
Proof.
  unfold has_suffix. rewrite has_prefix_spec. split; intros [t Ht].
  - exists (rev t). rewrite <- (rev_involutive s), Ht, rev_app_distr, rev_involutive. reflexivity.
  - exists (rev t). rewrite Ht, rev_app_distr. reflexivity.
Qed.

Definition trim_suffix (s p : str) : str :=
  match drop_prefix (rev s) (rev p) with Some t => rev t | None => s end.

(* strings.Split on a single byte: never returns [] *)
Fixpoint split_on (c : N) (s : str) : list str :=
  match s with
  | [] => [[]]
  | x :: s' =>
      if N.eqb x c then [] :: split_on c s'
      else match split_on c s' with
           | [] => [[x]]            (* unreachable, see split_on_nonempty *)
           | w :: ws => (x :: w) :: ws
           end
  end.

Lemma split_on_nonempty c s : split_on c s <> [].
Proof.
  induction s as [|x s IH]; simpl; [discriminate|].
  destruct (N.eqb x c); [discriminate|]. destruct (split_on c s); discriminate.
Qed.

(* strings.Join with a separator string *)
Fixpoint join (sep : str) (l : list str) : str :=
  match l with
  | [] => []
  | [w] => w
  | w :: ws => w ++ sep ++ join sep ws
  end.

Lemma join_cons2 sep w w' ws : join sep (w :: w' :: ws) = w ++ sep ++ join sep (w' :: ws).
Proof. reflexivity. Qed.

Lemma join_split c s : join [c] (split_on c s) = s.
Proof.
  induction s as [|x s IH]; [reflexivity|].
  cbn [split_on].
  pose proof (split_on_nonempty c s) as Hn.
  destruct (split_on c s) as [|w ws] eqn:E; [contradiction|].
  destruct (N.eqb_spec x c) as [->|Hne].
  - rewrite join_cons2, IH. reflexivity.
  - destruct ws as [|w' ws'].
    + cbn [join] in *. rewrite IH. reflexivity.
    + rewrite join_cons2 in *. rewrite <- IH. reflexivity.
Qed.

Lemma split_on_no_sep c s w : In w (split_on c s) -> ~ In c w.
Proof.
  revert w; induction s as [|x s IH]; simpl; intros w Hw.
  - destruct Hw as [<-|[]]; auto.
  - destruct (N.eqb_spec x c) as [->|Hne].
    + destruct Hw as [<-|Hw]; [auto | apply IH; assumption].
    + destruct (split_on c s) as [|w0 ws] eqn:E.
      * destruct Hw as [<-|[]]. intros [H|[]]; congruence.
      * destruct Hw as [<-|Hw].
        -- intros [H|H]; [congruence|]. apply (IH w0); [left; reflexivity | assumption].
        -- apply IH; right; assumption.
Qed.

Fixpoint str_in (s : str) (l : list str) : bool :=
  match l with [] => false | x :: l' => str_eqb s x || str_in s l' end.

Lemma str_in_spec s l : str_in s l = true <-> In s l.
Proof.
  induction l as [|x l IH]; simpl; [split; [discriminate | tauto]|].
  rewrite orb_true_iff, IH, str_eqb_eq. split; intros [H|H]; auto.
Qed.

(* index of first occurrence of byte c *)
Fixpoint index_byte (c : N) (s : str) : option nat :=
  match s with
  | [] => None
  | x :: s' => if N.eqb x c then Some O
               else match index_byte c s' with Some i => Some (S i) | None => None end
  end.

(* strings.Index for a substring *)
Fixpoint index_of (s p : str) : option nat :=
  if has_prefix s p then Some O else
  match s with
  | [] => None
  | _ :: s' => match index_of s' p with Some i => Some (S i) | None => None end
  end.

Definition contains (s p : str) : bool :=
  match index_of s p with Some _ => true | None => false end.

(* strings.ReplaceAll for non-empty [old] *)
Fixpoint replace_all_fuel (fuel : nat) (s old new : str) : str :=
  match fuel with
  | O => s
  | S f =>
    match s with
    | [] => []
    | x :: s' =>
      match drop_prefix s old with
      | Some rest => match old with [] => s | _ => new ++ replace_all_fuel f rest old new end
      | None => x :: replace_all_fuel f s' old new
      end
    end
  end.
Definition replace_all (s old new : str) : str := replace_all_fuel (S (length s)) s old new.

(* decimal rendering of naturals (strconv.Itoa on non-negative ints) *)
Fixpoint show_N_fuel (fuel : nat) (n : N) (acc : str) : str :=
  match fuel with
  | O => acc
  | S f => let d := 48 + n mod 10 in
           if n <? 10 then d :: acc else show_N_fuel f (n / 10) (d :: acc)
  end.
Definition show_N (n : N) : str := show_N_fuel (S (N.to_nat (N.log2 n))) n [].

Definition is_digit (c : N) : bool := (48 <=? c) && (c <=? 57).

Fixpoint read_N_acc (s : str) (acc : N) : option N :=
  match s with
  | [] => Some acc
  | c :: s' => if is_digit c then read_N_acc s' (acc * 10 + (c - 48)) else None
  end.
Definition read_N (s : str) : option N :=
  match s with [] => None | _ => read_N_acc s 0 end.
