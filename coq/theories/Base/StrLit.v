(* Readable byte-string literals for models and case files:
   [lit "abc"] is the byte string of a Coq string literal, [unhex "616263"] decodes the
   hexadecimal spelling the case-file printers use for arbitrary bytes. *)
From Coq Require Import String Ascii.
From Regal Require Export Base.Str.

Fixpoint lit (s : string) : str :=
  match s with
  | EmptyString => []
  | String a r => N_of_ascii a :: lit r
  end.

Definition hexval (a : ascii) : N :=
  let n := N_of_ascii a in
  if (48 <=? n) && (n <=? 57) then n - 48
  else if (97 <=? n) && (n <=? 102) then n - 87
  else if (65 <=? n) && (n <=? 70) then n - 55
  else 0.

Fixpoint unhex (s : string) : str :=
  match s with
  | String a (String b r) => (16 * hexval a + hexval b) :: unhex r
  | _ => []
  end.

Lemma lit_app a b : lit (a ++ b)%string = lit a ++ lit b.
Proof. induction a as [|c a IH]; simpl; [reflexivity | rewrite IH; reflexivity]. Qed.
