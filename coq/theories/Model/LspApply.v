(* Applying a TextEdit[] to a document as the LSP 3.17 specification defines it
   (the specification side of C16; independent of the diff model):
   * every range refers to the ORIGINAL document;
   * a position whose line is past the last line denotes the end of the document
     ("if a line number is greater than the number of lines in a document, it defaults
     back to the number of lines in the document");
   * edits never overlap; several inserts at one position appear in array order
     (so: stable sort by start offset, then splice left to right).
   Only positions with character = 0 are given a meaning here (the server only ever
   produces those; a UTF-16 column model is not needed): any other position makes
   [lsp_apply] return None.  Definitions only. *)
From Regal Require Export Model.Diff.
Open Scope nat_scope.

(* byte offset of the start of line l (0-based); lines end at '\n', '\r\n' or a lone '\r'
   ([eol_here]); clamps to the end of the document *)
Fixpoint line_start (s : str) (l : nat) {struct s} : nat :=
  match l with
  | O => O
  | S l' =>
      match s with
      | [] => O
      | c :: s' => S (line_start s' (if eol_here c s' then l' else l))
      end
  end.

Definition pos_offset (s : str) (line char : Z) : option nat :=
  if (0 <=? line)%Z && (char =? 0)%Z then Some (line_start s (Z.to_nat line)) else None.

(* an edit resolved to byte offsets of the original document *)
Definition oedit := (nat * nat * str)%type.

Definition resolve (s : str) (e : text_edit) : option oedit :=
  match pos_offset s (e_sl e) (e_sc e), pos_offset s (e_el e) (e_ec e) with
  | Some so, Some eo => Some (so, eo, e_text e)
  | _, _ => None
  end.

Fixpoint resolve_all (s : str) (es : list text_edit) : option (list oedit) :=
  match es with
  | [] => Some []
  | e :: r =>
      match resolve s e, resolve_all s r with
      | Some o, Some os => Some (o :: os)
      | _, _ => None
      end
  end.

(* stable insertion sort by start offset ([o] precedes, in the array, every element of [l]) *)
Fixpoint insert_by_start (o : oedit) (l : list oedit) : list oedit :=
  match l with
  | [] => [o]
  | p :: l' => if fst (fst p) <? fst (fst o) then p :: insert_by_start o l' else o :: l
  end.

Definition sort_by_start (l : list oedit) : list oedit :=
  fold_right insert_by_start [] l.

(* start <= end for every edit, and each edit ends before the next one starts *)
Fixpoint disjoint_from (pos : nat) (l : list oedit) : bool :=
  match l with
  | [] => true
  | (so, eo, _) :: r => (pos <=? so) && (so <=? eo) && disjoint_from eo r
  end.

(* copy the original up to each edit, put the new text, continue after the edit *)
Fixpoint splice (l : list oedit) (s : str) (pos : nat) : str :=
  match l with
  | [] => skipn pos s
  | (so, eo, t) :: r => firstn (so - pos) (skipn pos s) ++ t ++ splice r s eo
  end.

Definition lsp_apply (es : list text_edit) (s : str) : option str :=
  match resolve_all s es with
  | None => None
  | Some os =>
      let sorted := sort_by_start os in
      if disjoint_from 0 sorted then Some (splice sorted s 0) else None
  end.

(* ---- the other clauses of the property, as decidable predicates ---- *)

Definition pos_le (l1 c1 l2 c2 : Z) : bool := ((l1 <? l2) || ((l1 =? l2) && (c1 <=? c2)))%Z.

(* edits ordered by start, and each ends no later than the next one starts *)
Fixpoint edits_ordered (es : list text_edit) : bool :=
  match es with
  | [] => true
  | e :: r =>
      pos_le (e_sl e) (e_sc e) (e_el e) (e_ec e) &&
      match r with
      | [] => true
      | e' :: _ => pos_le (e_el e) (e_ec e) (e_sl e') (e_sc e')
      end && edits_ordered r
  end.

(* within the document: 0 <= line <= number of lines of [splitLines], character 0.
   Line = number of lines is the end-of-document position (a real position when the
   document ends in a newline or is empty; otherwise the one the specification clamps). *)
Definition edit_in_doc (s : str) (e : text_edit) : bool :=
  let n := Z.of_nat (length (split_lines s)) in
  ((0 <=? e_sl e) && (e_sl e <=? n) && (e_sc e =? 0) &&
   (0 <=? e_el e) && (e_el e <=? n) && (e_ec e =? 0))%Z.

(* ---- real positions vs. the clamp ----
   A document has [count_eol s + 1] lines (the last one possibly empty); line l is a real line
   iff l <= count_eol s.  [open_tail s]: the last line is non-empty and unterminated. *)
Fixpoint count_eol (s : str) : nat :=
  match s with
  | [] => O
  | c :: s' => (if eol_here c s' then 1 else 0) + count_eol s'
  end.

Fixpoint open_tail (s : str) : bool :=
  match s with
  | [] => false
  | c :: s' => match s' with [] => negb (eol_here c []) | _ => open_tail s' end
  end.

(* every position is an existing position of the document (no reliance on the clamp) *)
Definition edit_in_doc_strict (s : str) (e : text_edit) : bool :=
  let n := Z.of_nat (count_eol s) in
  ((0 <=? e_sl e) && (e_sl e <=? n) && (e_sc e =? 0) &&
   (0 <=? e_el e) && (e_el e <=? n) && (e_ec e =? 0))%Z.
