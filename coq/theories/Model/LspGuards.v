(* C17 — guard skeletons of the language-server request handlers and workers, and the channel network.

   For every handled method (internal/lsp/server.go: Handle) and every worker loop body, the skeleton
   records which pointers are dereferenced and which slices are indexed with a constant, under which
   nil / ok / len tests.  Everything else (cache look-ups with an `ok` result that is tested, calls into
   other packages) is left out: panics inside callees are exercised by the harness only.

   [Reload f] marks a point where another goroutine may have changed the fact [f] since it was last
   tested (a second call of l.getLoadedConfig(), code running in a freshly spawned goroutine).

   Definitions only. *)
From Coq Require Import List NArith Bool String.
Import ListNotations.

Inductive fact :=
| FCfgLoaded          (* l.getLoadedConfig() != nil *)
| FTextPresent        (* didSave: params.Text != nil *)
| FTextCRLF           (* strings.Contains( *params.Text, "\r\n") *)
| FFilesNonEmpty      (* len(params.Files) > 0 *)
| FChangesNonEmpty    (* len(params.ContentChanges) > 0 *)
| FWatchedNonEmpty    (* len(params.Changes) > 0 *)
| FIgnored            (* l.ignoreURI(uri) *)
| FContentEmpty       (* cached contents == "" *)
| FInitOpts           (* params.InitializationOptions != nil *)
| FFormatterOpt       (* clientInitializationOptions.Formatter != nil *)
| FDebugLensOpt       (* clientInitializationOptions.EnableDebugCodelens != nil *)
| FEvalInlineOpt      (* clientInitializationOptions.EvalCodelensDisplayInline != nil *)
| FClientVSCode       (* l.clientIdentifier == clients.IdentifierVSCode *)
| FDiagPresent        (* the request carries at least one diagnostic *)
| FDiagCodeDesc       (* that diagnostic has a codeDescription *)
| FArgsOne            (* len(params.Arguments) == 1 *)
| FArgDiag            (* commandArgs.Diagnostic != nil *)
| FFixResult          (* len(fixResults) > 0 *)
| FHasComment         (* len(module.Comments) > 0 *)
| FCached             (* cache.GetContentAndModule / GetFileContents returned ok *)
| FEvalCommand.       (* params.Command == "regal.eval" *)

Scheme Equality for fact.

(* pointers that are dereferenced, slices that are indexed with 0 *)
Inductive ptr := PCfg | PText | PInitOpts | PFormatter | PDebugLens | PEvalInline | PDiagCodeDesc | PArgDiag.
Inductive idx := IFiles0 | IChanges0 | IWatched0 | IArgs0 | IFixResults0 | IComments0.

Definition nonnil (p : ptr) : fact :=
  match p with
  | PCfg => FCfgLoaded | PText => FTextPresent | PInitOpts => FInitOpts | PFormatter => FFormatterOpt
  | PDebugLens => FDebugLensOpt | PEvalInline => FEvalInlineOpt | PDiagCodeDesc => FDiagCodeDesc | PArgDiag => FArgDiag
  end.

Definition inbounds (i : idx) : fact :=
  match i with
  | IFiles0 => FFilesNonEmpty | IChanges0 => FChangesNonEmpty | IWatched0 => FWatchedNonEmpty
  | IArgs0 => FArgsOne | IFixResults0 => FFixResult | IComments0 => FHasComment
  end.

Inductive prog :=
| Done
| Test (f : fact) (pt pf : prog)       (* if f { pt } else { pf } *)
| Deref (p : ptr) (k : prog)           (* *p or p.field *)
| Index (i : idx) (k : prog)           (* s[0] *)
| Reload (f : fact) (k : prog).        (* f may have been changed by another goroutine *)

Inductive outcome := Ok | Panic.

Definition env := fact -> bool.
Definition set_fact (e : env) (f : fact) (b : bool) : env := fun g => if fact_beq g f then b else e g.

(* [adv]: the values other goroutines give to reloaded facts, in order *)
Fixpoint exec (p : prog) (e : env) (adv : list bool) {struct p} : outcome :=
  match p with
  | Done => Ok
  | Test f pt pf => if e f then exec pt e adv else exec pf e adv
  | Deref q k => if e (nonnil q) then exec k e adv else Panic
  | Index i k => if e (inbounds i) then exec k e adv else Panic
  | Reload f k => match adv with b :: adv' => exec k (set_fact e f b) adv' | [] => exec k e [] end
  end.

(* static check: every dereference / index is dominated by a test that established it *)
Fixpoint known_get (kn : list (fact * bool)) (f : fact) {struct kn} : option bool :=
  match kn with
  | [] => None
  | (g, b) :: kn' => if fact_beq g f then Some b else known_get kn' f
  end.

Fixpoint known_del (kn : list (fact * bool)) (f : fact) {struct kn} : list (fact * bool) :=
  match kn with
  | [] => []
  | (g, b) :: kn' => if fact_beq g f then known_del kn' f else (g, b) :: known_del kn' f
  end.

Fixpoint safe (kn : list (fact * bool)) (p : prog) {struct p} : bool :=
  match p with
  | Done => true
  | Test f pt pf =>
      match known_get kn f with
      | Some true => safe kn pt
      | Some false => safe kn pf
      | None => safe ((f, true) :: kn) pt && safe ((f, false) :: kn) pf
      end
  | Deref q k => match known_get kn (nonnil q) with Some true => safe kn k | _ => false end
  | Index i k => match known_get kn (inbounds i) with Some true => safe kn k | _ => false end
  | Reload f k => safe (known_del kn f) k
  end.

(* the risky accesses of a skeleton, in order (compared with the shape extracted from server.go) *)
Inductive access := ADeref (p : ptr) | AIndex (i : idx).
Fixpoint accesses (p : prog) {struct p} : list access :=
  match p with
  | Done => []
  | Test _ pt pf => accesses pt ++ accesses pf
  | Deref q k => ADeref q :: accesses k
  | Index i k => AIndex i :: accesses k
  | Reload _ k => accesses k
  end.

(* ------------------------------------------------------------------ the skeletons *)
Inductive unit_ :=     (* request handlers, then worker loop bodies *)
| HInitialize | HInitialized | HCodeAction | HDefinition | HDiagnostic | HDidOpen | HDidClose | HDidSave
| HDocumentSymbol | HDidChange | HFoldingRange | HFormatting | HHover | HInlayHint | HCodeLens | HCompletion
| HDidChangeWatchedFiles | HWorkspaceDiagnostic | HDidRenameFiles | HDidDeleteFiles | HDidCreateFiles
| HExecuteCommand | HWorkspaceSymbol | HShutdown | HCancelRequest
| WConfigReload | WConfigDrop | WCommand | WFileJob | WWorkspaceRun | WHover | WTemplate | WStateTick.

Definition all_units : list unit_ :=
  [HInitialize; HInitialized; HCodeAction; HDefinition; HDiagnostic; HDidOpen; HDidClose; HDidSave;
   HDocumentSymbol; HDidChange; HFoldingRange; HFormatting; HHover; HInlayHint; HCodeLens; HCompletion;
   HDidChangeWatchedFiles; HWorkspaceDiagnostic; HDidRenameFiles; HDidDeleteFiles; HDidCreateFiles;
   HExecuteCommand; HWorkspaceSymbol; HShutdown; HCancelRequest;
   WConfigReload; WConfigDrop; WCommand; WFileJob; WWorkspaceRun; WHover; WTemplate; WStateTick].

(* sequential composition: [b] runs after every path through [a] *)
Fixpoint seqp (a b : prog) {struct a} : prog :=
  match a with
  | Done => b
  | Test f x y => Test f (seqp x b) (seqp y b)
  | Deref q k => Deref q (seqp k b)
  | Index i k => Index i (seqp k b)
  | Reload f k => Reload f (seqp k b)
  end.
Notation "a ;; b" := (seqp a b) (at level 60, right associativity).

(* cfg := l.getLoadedConfig(): every call is a fresh read of a pointer that the config worker replaces *)
Definition read_cfg (nonnil_ nil_ : prog) : prog := Reload FCfgLoaded (Test FCfgLoaded nonnil_ nil_).

(* l.ignoreURI: cfg := l.getLoadedConfig(); if cfg == nil { return false }; ... cfg.Ignore.Files *)
Definition ignore_uri (ign notign : prog) : prog :=
  read_cfg (Deref PCfg (Test FIgnored ign notign)) notign.

(* l.builtinsForCurrentCapabilities: cfg nil-checked before cfg.CapabilitiesURL *)
Definition builtins : prog := read_cfg (Deref PCfg Done) Done.

(* which revision of server.go *)
Inductive revision := Pinned | Current.

Definition didsave (r : revision) : prog :=
  match r with
  | Pinned =>
      (* if params.Text != nil && l.getLoadedConfig() == nil { ... cfg := l.getLoadedConfig(); ... *cfg } *)
      Test FTextPresent
        (read_cfg Done
           (Deref PText (Test FTextCRLF (Reload FCfgLoaded (Deref PCfg Done)) Done)))
        Done
  | Current =>
      (* if cfg := l.getLoadedConfig(); params.Text != nil && cfg != nil { ... *params.Text ... *cfg } *)
      Reload FCfgLoaded
        (Test FTextPresent
           (Test FCfgLoaded (Deref PText (Test FTextCRLF (Deref PCfg Done) Done)) Done)
           Done)
  end.

Definition didcreate (r : revision) : prog :=
  match r with
  | Pinned => Index IFiles0 (ignore_uri Done Done)       (* l.ignoreURI(params.Files[0].URI) *)
  | Current => ignore_uri Done Done                      (* per file inside the range loop *)
  end.

Definition codeaction (r : revision) : prog :=
  ignore_uri Done
    (Test FDiagPresent
       (Test FClientVSCode
          (match r with
           | Pinned => Deref PDiagCodeDesc Done                                   (* diag.CodeDescription.Href *)
           | Current => Test FDiagCodeDesc (Deref PDiagCodeDesc Done) Done
           end)
          Done)
       Done).

Definition config_reload (r : revision) : prog :=
  (* cfg := l.getLoadedConfig(); if cfg != nil && cfg.CapabilitiesURL != "" ...; then, in a new goroutine: *)
  read_cfg (Deref PCfg Done) Done;;
  match r with
  | Pinned => Reload FCfgLoaded (Deref PCfg Done)        (* go func() { l.getLoadedConfig().Features... } *)
  | Current => Done                                      (* the value is taken from mergedConfig before `go` *)
  end.

Definition command_worker : prog :=
  Test FArgsOne
    (Index IArgs0
       (Test FEvalCommand
          (Test FCached
             (Test FHasComment (Index IComments0 Done) Done;;
              Test FEvalInlineOpt (Deref PEvalInline Done) Done)
             Done)
          (Test FCached
             (Test FArgDiag (Deref PArgDiag Done) Done;;
              Test FFixResult (Index IFixResults0 Done) Done)
             Done)))
    Done.

Definition formatting : prog :=
  ignore_uri Done Done;;
  Test FContentEmpty Done
    (Test FFormatterOpt (Deref PFormatter Done) Done;;
     Test FFixResult (Index IFixResults0 Done) Done;;
     read_cfg (Deref PCfg Done) Done).

Definition skeleton (r : revision) (u : unit_) : prog :=
  match u with
  | HInitialize => Test FInitOpts (Deref PInitOpts Done) Done
  | HInitialized | HDiagnostic | HWorkspaceDiagnostic | HShutdown | HCancelRequest | HExecuteCommand => Done
  | HCodeAction => codeaction r
  | HDefinition => ignore_uri Done (Test FCached (read_cfg (Deref PCfg Done) Done) Done)
  | HDidOpen | HDidClose | HHover | HDidRenameFiles => ignore_uri Done Done
  | HDidSave => didsave r
  | HDocumentSymbol => ignore_uri Done (Test FCached builtins Done)
  | HDidChange => Test FChangesNonEmpty (ignore_uri (Index IChanges0 Done) (Index IChanges0 Done)) Done
  | HFoldingRange => Test FCached Done Done
  | HFormatting => formatting
  | HInlayHint | HCompletion => ignore_uri Done builtins
  | HCodeLens => Test FCached (Test FDebugLensOpt (Deref PDebugLens Done) Done) Done
  | HDidChangeWatchedFiles => Test FWatchedNonEmpty (Index IWatched0 Done) Done;; ignore_uri Done Done
  | HDidDeleteFiles | HDidCreateFiles => didcreate r
  | HWorkspaceSymbol => builtins
  | WConfigReload => config_reload r
  | WConfigDrop | WTemplate => Done
  | WCommand => command_worker
  | WFileJob => builtins;; read_cfg (Deref PCfg Done) Done
  | WWorkspaceRun => read_cfg (Deref PCfg Done) Done
  | WHover | WStateTick => ignore_uri Done builtins
  end.

(* ------------------------------------------------------------------ the channel network *)
(* Stages that hold queued work, in the order in which work flows (server.go: NewLanguageServer,
   StartDiagnosticsWorker).  Every stage has one consumer goroutine. *)
Inductive stage := STemplate | SFile | SWorkspace | SRuns | SHoverJobs | SCommands.

Definition all_stages : list stage := [STemplate; SFile; SWorkspace; SRuns; SHoverJobs; SCommands].

(* which stage the consumer of a stage may send to while processing one job *)
Definition sends_to (s : stage) : option stage :=
  match s with
  | STemplate => Some SFile          (* StartTemplateWorker: l.lintFileJobs <- updateEvent *)
  | SFile => Some SWorkspace         (* file worker: l.lintWorkspaceJobs <- ... *)
  | SWorkspace => Some SRuns         (* dispatcher: workspaceLintRuns <- job (or drops it) *)
  | SRuns | SHoverJobs | SCommands => None
  end.

(* potential: work in an earlier stage weighs more than anything it can generate downstream *)
Definition weight (s : stage) : nat :=
  match s with
  | STemplate => 8 | SFile => 4 | SWorkspace => 2 | SRuns => 1 | SHoverJobs => 1 | SCommands => 1
  end.

Definition capacity (s : stage) : nat := 10.

(* queue lengths *)
Definition net := stage -> nat.

Definition stage_eqb (a b : stage) : bool :=
  match a, b with
  | STemplate, STemplate | SFile, SFile | SWorkspace, SWorkspace | SRuns, SRuns
  | SHoverJobs, SHoverJobs | SCommands, SCommands => true
  | _, _ => false
  end.

Definition net_upd (n : net) (s : stage) (v : nat) : net := fun t => if stage_eqb t s then v else n t.

(* One job of stage [s] is processed; [emit] says whether it produces its downstream job (an abandoned
   file job or a rate-limited workspace job produces nothing).  The send blocks while the target channel
   is full, so the step is enabled only if there is room. *)
Definition net_step (s : stage) (emit : bool) (n : net) : option net :=
  match n s with
  | O => None
  | S k =>
      match sends_to s, emit with
      | Some t, true => if Nat.ltb (n t) (capacity t) then Some (net_upd (net_upd n s k) t (S (n t))) else None
      | _, _ => Some (net_upd n s k)
      end
  end.

Definition potential (n : net) : nat :=
  fold_right (fun s acc => weight s * n s + acc) 0 all_stages.

Definition net_idle (n : net) : Prop := forall s, n s = 0.

(* the dispatcher drops an aggregate-only job instead of forwarding it when more than 5 runs are queued;
   the choice of [emit] for SWorkspace is the dispatcher's, for SFile the outcome of the job *)
Definition well_bounded (n : net) : Prop := forall s, n s <= capacity s.

Fixpoint net_run (steps : list (stage * bool)) (n : net) {struct steps} : option net :=
  match steps with
  | [] => Some n
  | (s, emit) :: rest => match net_step s emit n with Some n' => net_run rest n' | None => None end
  end.


(* the valuation in which exactly the listed facts hold *)
Definition env_of (l : list fact) : env := fun f => existsb (fact_beq f) l.


(* ------------------------------------------------------------------ source sites *)
(* Every risky access and every job-channel send of internal/lsp/server.go (as listed by
   tools/gen/lspshape.py, same order and kinds) with the unit whose skeleton models it.
   [None]: guarded by a len test on a local slice right next to it (configRoots, roots, docSnippets) or a
   channel send (kind 5, covered by the channel network); not part of a guard skeleton. *)
Scheme Equality for ptr.
Scheme Equality for idx.
Definition access_beq (a b : access) : bool :=
  match a, b with
  | ADeref p, ADeref q => ptr_beq p q
  | AIndex i, AIndex j => idx_beq i j
  | _, _ => false
  end.

Definition modelled_sites : list (string * nat * option (unit_ * access)) := [
  ("StartDiagnosticsWorker", 5, None); ("StartDiagnosticsWorker", 5, None); ("StartDiagnosticsWorker", 5, None);
  ("StartConfigWorker", 2, Some (WConfigReload, ADeref PCfg));      (* cfg.CapabilitiesURL, nil-checked *)
  ("StartConfigWorker", 2, Some (WConfigReload, ADeref PCfg));
  ("StartConfigWorker", 5, None); ("StartConfigWorker", 5, None);
  ("StartCommandWorker", 1, Some (WCommand, AIndex IArgs0));         (* params.Arguments[0], len-checked *)
  ("StartCommandWorker", 1, Some (WCommand, AIndex IArgs0));
  ("StartCommandWorker", 1, Some (WCommand, AIndex IComments0));     (* currentModule.Comments[0], len-checked *)
  ("StartCommandWorker", 3, Some (WCommand, ADeref PEvalInline));
  ("StartWorkspaceStateWorker", 5, None);
  ("StartTemplateWorker", 5, None);
  ("templateContentsForFile", 1, None);                              (* roots[0] after len(roots) == 1 *)
  ("fixEditParams", 1, Some (WCommand, AIndex IFixResults0));        (* fixResults[0] after len(fixResults) == 0 return *)
  ("handleTextDocumentHover", 4, None);                              (* diagnostics produced by the server always carry one *)
  ("handleTextDocumentHover", 1, None);                              (* docSnippets[0] after len(docSnippets) == 1 *)
  ("handleTextDocumentCodeAction", 4, Some (HCodeAction, ADeref PDiagCodeDesc));
  ("handleWorkspaceExecuteCommand", 5, None);
  ("handleTextDocumentCodeLens", 3, Some (HCodeLens, ADeref PDebugLens));
  ("handleTextDocumentDidOpen", 5, None); ("handleTextDocumentDidOpen", 5, None);
  ("handleTextDocumentDidChange", 1, Some (HDidChange, AIndex IChanges0));
  ("handleTextDocumentDidChange", 1, Some (HDidChange, AIndex IChanges0));
  ("handleTextDocumentDidChange", 5, None); ("handleTextDocumentDidChange", 5, None);
  ("handleTextDocumentDidSave", 3, Some (HDidSave, ADeref PText));
  ("handleTextDocumentDidSave", 2, Some (HDidSave, ADeref PCfg));
  ("handleTextDocumentFormatting", 5, None);
  ("handleTextDocumentFormatting", 3, Some (HFormatting, ADeref PFormatter));
  ("handleTextDocumentFormatting", 1, Some (HFormatting, AIndex IFixResults0));
  ("handleTextDocumentFormatting", 2, Some (HFormatting, ADeref PCfg));
  ("handleWorkspaceDidCreateFiles", 5, None); ("handleWorkspaceDidCreateFiles", 5, None); ("handleWorkspaceDidCreateFiles", 5, None);
  ("handleWorkspaceDidDeleteFiles", 5, None);
  ("handleWorkspaceDidRenameFiles", 5, None); ("handleWorkspaceDidRenameFiles", 5, None); ("handleWorkspaceDidRenameFiles", 5, None);
  ("handleInitialize", 1, None); ("handleInitialize", 1, None); ("handleInitialize", 1, None); ("handleInitialize", 1, None);
                                                                     (* configRoots[0] inside switch on len(configRoots) *)
  ("handleInitialize", 3, Some (HInitialize, ADeref PInitOpts));
  ("handleInitialize", 5, None);
  ("handleInitialized", 5, None);
  ("handleWorkspaceDidChangeWatchedFiles", 1, Some (HDidChangeWatchedFiles, AIndex IWatched0));
  ("handleWorkspaceDidChangeWatchedFiles", 1, Some (HDidChangeWatchedFiles, AIndex IWatched0));
  ("handleWorkspaceDidChangeWatchedFiles", 5, None);
  ("getFilteredModules", 2, Some (HDefinition, ADeref PCfg));
  ("getFilteredModules", 2, Some (HDefinition, ADeref PCfg));
  ("ignoreURI", 2, Some (HDidOpen, ADeref PCfg));
  ("builtinsForCurrentCapabilities", 2, Some (HWorkspaceSymbol, ADeref PCfg))
]%string.

Definition site_modelled (s : string * nat * option (unit_ * access)) : bool :=
  match snd s with
  | Some (u, a) => existsb (access_beq a) (accesses (skeleton Current u))
  | None => true
  end.
