(* C01, seeded round 3 -- the Go map of directory -> Rego version is ranged over in a random order
   (rules.RegoVersionFromVersionsMap, modelled in Model/Version.v of C20, imported read-only):
   vocabulary for "the selected version does not depend on the iteration order", and the variant of the
   lookup that compares the length of the NORMALISED key (NOT the code; class of seeded change C01-6).
   Definitions only. *)
From Regal Require Export Model.Version.
From Coq Require Import List.
Import ListNotations.

Definition lookup_step_norm (d : str) (acc : nat * version) (kv : str * version) : nat * version :=
  let '(longest, sel) := acc in
  let '(k, v) := kv in
  if has_prefix (d ++ [SLASH]) (matching_dir k)
  then if Nat.leb longest (length (matching_dir k)) then (length (matching_dir k), v) else acc
  else acc.

Definition version_from_map_norm (m : vmap) (filename : str) (default : version) : version :=
  match m with
  | [] => default
  | _ => snd (fold_left (lookup_step_norm (dir filename)) m (O, default))
  end.

(* the entry is looked at by the lookup of a file in directory d *)
Definition key_matches (d : str) (k : str) : bool := has_prefix (d ++ [SLASH]) (matching_dir k).

(* no two matching keys of the same raw length carry different versions *)
Definition ties_agree (d : str) (m : vmap) : Prop :=
  forall k1 v1 k2 v2, In (k1, v1) m -> In (k2, v2) m ->
    key_matches d k1 = true -> key_matches d k2 = true -> length k1 = length k2 -> v1 = v2.
