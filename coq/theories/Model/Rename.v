(* Model of the moving part of `regal fix`:
     pkg/fixer/rename.go            renameCandidate
     internal/util/util.go          FindClosestMatchingRoot
     pkg/fixer/fixes/directorypackagemismatch.go   target computation
     bundle/.../directory_package_mismatch.rego    when the rule fires
     pkg/fixer/report.go            the conflict registers
     pkg/fixer/fixer.go             handleRename (both policies), applyLinterFixes
   Definitions only.  Paths are byte strings; path functions are those of
   Base/PathModel.v (Go stdlib, modelled). *)
From Regal Require Export Model.Provider.

Definition is_nil {A} (l : list A) : bool := match l with [] => true | _ => false end.

(* ---------------------------------------------------------------- stdlib pieces *)

Fixpoint drop_trailing_slashes_rev (r : str) : str :=
  match r with
  | c :: r' => if N.eqb c SLASH then drop_trailing_slashes_rev r' else r
  | [] => []
  end.

(* filepath.Base *)
Definition path_base (p : str) : str :=
  match p with
  | [] => [DOT]
  | _ => let q := rev (drop_trailing_slashes_rev (rev p)) in
         match after_last_slash q with
         | [] => match q with [] => [SLASH] | _ => [] end   (* only slashes -> "/" *)
         | b => b
         end
  end.

(* suffix of s starting at the last occurrence of c *)
Fixpoint from_last (c : N) (s : str) : option str :=
  match s with
  | [] => None
  | x :: s' => match from_last c s' with
               | Some r => Some r
               | None => if N.eqb x c then Some s else None
               end
  end.

(* filepath.Ext *)
Definition path_ext (p : str) : str :=
  match from_last DOT (after_last_slash p) with Some e => e | None => [] end.

(* (before, after) the last occurrence of c *)
Fixpoint split_last (c : N) (s : str) : option (str * str) :=
  match s with
  | [] => None
  | x :: s' => match split_last c s' with
               | Some (a, b) => Some (x :: a, b)
               | None => if N.eqb x c then Some ([], s') else None
               end
  end.

Definition UNDERSCORE : N := 95.
Definition NEWLINE : N := 10.
Definition s_test : str := [95; 116; 101; 115; 116].        (* "_test" *)
Definition s_us1 : str := [95; 49].                           (* "_1" *)
Definition MAXINT : N := 9223372036854775807.
(* "-9223372036854775808": what fmt prints after MaxInt64 + 1 wrapped around *)
Definition s_minint : str := [45;57;50;50;51;51;55;50;48;51;54;56;53;52;55;55;53;56;48;56].

(* the regexp "^( .* )_( \d+ )$" (written with spaces here): the last underscore, followed by one or more digits up to the
   end; `.` does not match a newline *)
Definition re_name_num (b : str) : option (str * str) :=
  match split_last UNDERSCORE b with
  | Some (pre, ds) =>
      if negb (is_nil ds) && forallb is_digit ds && negb (existsb (N.eqb NEWLINE) pre)
      then Some (pre, ds) else None
  | None => None
  end.

(* strconv.Atoi on a digit string with the error ignored: saturates at MaxInt64 *)
Definition atoi_sat (ds : str) : N :=
  match read_N_acc ds 0 with Some n => N.min n MAXINT | None => 0 end.

(* num++ ; fmt.Sprintf("%d", num) with 64-bit wrap-around *)
Definition incr_show (n : N) : str :=
  if N.eqb n MAXINT then s_minint else show_N (n + 1).

(* the part of renameCandidate that works on the base name without "_test" and extension *)
Definition next_base (b : str) : str :=
  match re_name_num b with
  | Some (stem, ds) => stem ++ [UNDERSCORE] ++ incr_show (atoi_sat ds)
  | None => b ++ s_us1
  end.

(* renameCandidate *)
Definition rename_candidate (old : str) : str :=
  let d := dir old in
  let bwe := path_base old in
  let ext := path_ext bwe in
  let b0 := trim_suffix bwe ext in
  let is_t := has_suffix b0 s_test in
  let b1 := if is_t then trim_suffix b0 s_test else b0 in
  let suffix := if is_t then s_test else [] in
  pjoin [d; next_base b1 ++ suffix ++ ext].

(* ---------------------------------------------------------------- closest root *)

(* repaired code: strings.HasPrefix(path, strings.TrimSuffix(root, "/") + "/") *)
Definition root_matches (path root : str) : bool :=
  has_prefix path (trim_suffix root [SLASH] ++ [SLASH]).

(* pinned code: strings.HasPrefix(path, root) *)
Definition root_matches_pinned (path root : str) : bool := has_prefix path root.

Fixpoint fcmr_loop (matchf : str -> str -> bool) (path : str) (roots : list str)
         (cur : nat) (best : option str) : str :=
  match roots with
  | [] => match best with Some r => r | None => [] end
  | r :: rs =>
      if str_eqb r path then path
      else if negb (matchf path r) then fcmr_loop matchf path rs cur best
      else if Nat.ltb cur (length r) then fcmr_loop matchf path rs (length r) (Some r)
      else fcmr_loop matchf path rs cur best
  end.

(* FindClosestMatchingRoot *)
Definition find_closest_matching_root (path : str) (roots : list str) : str :=
  fcmr_loop root_matches path roots O None.
Definition find_closest_matching_root_pinned (path : str) (roots : list str) : str :=
  fcmr_loop root_matches_pinned path roots O None.

(* ---------------------------------------------------------------- directory-package-mismatch *)

(* package path without "data"; the last part loses "_test" (exclude-test-suffix, the default) *)
Definition pkg_parts (pkg : list str) : list str :=
  match rev pkg with
  | last :: r => rev (trim_suffix last s_test :: r)
  | [] => []
  end.

Fixpoint list_str_eqb (a b : list str) : bool :=
  match a, b with
  | [], [] => true
  | x :: a', y :: b' => str_eqb x y && list_str_eqb a' b'
  | _, _ => false
  end.

Definition lastn {A} (n : nat) (l : list A) : list A := skipn (length l - n) l.

(* the Rego rule: the last n directory components of the absolute file name differ from the
   n parts of the package path *)
Definition dpm_violates (abs : str) (parts : list str) : bool :=
  let dirs := removelast (split_on SLASH abs) in
  negb (list_str_eqb (lastn (length parts) dirs) parts).

(* DirectoryPackageMismatch.Fix: (root, new path); [basedir] = "" when no root matched *)
Definition dpm_root (basedir filename : str) : str :=
  clean (if is_nil basedir then dir filename else basedir).
Definition dpm_target (basedir filename : str) (parts : list str) : str :=
  pjoin [dpm_root basedir filename; pjoin parts; path_base filename].

(* ---------------------------------------------------------------- report *)

Inductive conflict_kind := CManyToOne | CSourceFile.
Record report := {
  rp_conflicts : list (conflict_kind * str * str * str);   (* kind, root, new path, old path *)
  rp_moved : list (str * str) }.                            (* new path, old path *)
Definition new_report : report := {| rp_conflicts := []; rp_moved := [] |}.
Definition has_conflicts (r : report) : bool := negb (is_nil (rp_conflicts r)).
Definition add_conflict (r : report) (k : conflict_kind) (root to from : str) : report :=
  {| rp_conflicts := rp_conflicts r ++ [(k, root, to, from)];
     rp_moved := rp_moved r ++ [(to, from)] |}.
Definition add_moved (r : report) (to from : str) : report :=
  {| rp_conflicts := rp_conflicts r; rp_moved := rp_moved r ++ [(to, from)] |}.

(* ---------------------------------------------------------------- handleRename *)

Inductive policy := PError | PRename.

Section Fixer.
  Variable C : Type.

  Inductive step_result :=
  | SOk (p : provider C) (r : report)
  | SErr                      (* the fixer returns an error: the command stops before any disk operation *)
  | SOutOfFuel.               (* the Go loop has no bound; excluded by [candidate_fresh] *)

  (* [ren]: which Rename the provider implements (repaired / pinned) *)
  Variable ren : provider C -> str -> str -> rename_result C.

  Fixpoint handle_rename (fuel : nat) (pol : policy) (starting : list str)
           (p : provider C) (r : report) (root from to : str) : step_result :=
    match fuel with
    | O => SOutOfFuel
    | S fuel' =>
      match ren p from to with
      | RenOk p' => SOk p' (add_moved r to from)
      | RenNotFound => SErr
      | RenConflict =>
          match pol with
          | PError =>
              SOk (pv_delete p from)
                  (add_conflict r (if str_in to starting then CSourceFile else CManyToOne) root to from)
          | PRename => handle_rename fuel' pol starting p r root from (rename_candidate to)
          end
      end
    end.

  (* what one violation makes the fixer do *)
  Inductive fixres :=
  | FixContent (file : str) (g : C -> C)     (* any non-moving fix: Put(file, g(Get(file))) *)
  | FixMove (root from to : str).            (* a fix result with a Rename *)

  Definition apply_fix (fuel : nat) (pol : policy) (starting : list str)
             (p : provider C) (r : report) (x : fixres) : step_result :=
    match x with
    | FixContent file g =>
        match aget (pv_files p) file with
        | Some c => SOk (pv_put p file (g c)) r
        | None => SErr
        end
    | FixMove root from to =>
        match aget (pv_files p) from with
        | Some _ => handle_rename fuel pol starting p r root from to
        | None => SErr
        end
    end.

  Fixpoint run_fixes (fuel : nat) (pol : policy) (starting : list str)
           (p : provider C) (r : report) (xs : list fixres) : step_result :=
    match xs with
    | [] => SOk p r
    | x :: xs' =>
        match apply_fix fuel pol starting p r x with
        | SOk p' r' => run_fixes fuel pol starting p' r' xs'
        | e => e
        end
    end.

  (* -------------------------------------------------------------- the lint/fix loop *)
  (* the linter as an oracle: package path of a content, and the content after all
     non-moving fixes (None: nothing to fix) *)
  Variable lint_pkg : C -> list str.
  Variable lint_fix : C -> option C.
  Variable roots : list str.
  Variable fcmr : str -> list str -> str.

  Definition pending_content (p : provider C) : list fixres :=
    flat_map (fun fc => match lint_fix (snd fc) with
                        | Some c' => [FixContent (fst fc) (fun _ => c')]
                        | None => [] end) (pv_files p).

  Definition pending_moves (p : provider C) : list fixres :=
    flat_map (fun fc =>
      let file := fst fc in
      let parts := pkg_parts (lint_pkg (snd fc)) in
      if dpm_violates file parts then
        let base := fcmr file roots in
        let target := dpm_target base file parts in
        if str_eqb target file then [] else [FixMove (dpm_root base file) file target]
      else []) (pv_files p).

  Inductive loop_result :=
  | LDone (p : provider C) (r : report)
  | LErr
  | LOutOfFuel.

  (* applyLinterFixes: every round applies the pending non-moving fixes and ONE move (the
     report's violation order is schedule dependent: [sched] picks which), then lints again *)
  Fixpoint fix_loop (rounds fuel : nat) (pol : policy) (starting : list str) (sched : list nat)
           (p : provider C) (r : report) : loop_result :=
    match rounds with
    | O => LOutOfFuel
    | S rounds' =>
      match run_fixes fuel pol starting p r (pending_content p) with
      | SOk p1 r1 =>
          let moves := pending_moves p1 in
          match moves with
          | [] => LDone p1 r1
          | _ =>
            let k := match sched with k :: _ => k | [] => O end in
            match nth_error moves (Nat.modulo k (length moves)) with
            | Some m =>
                match apply_fix fuel pol starting p1 r1 m with
                | SOk p2 r2 => fix_loop rounds' fuel pol starting (tl sched) p2 r2
                | SErr => LErr
                | SOutOfFuel => LOutOfFuel
                end
            | None => LErr
            end
          end
      | SErr => LErr
      | SOutOfFuel => LOutOfFuel
      end
    end.
End Fixer.

Arguments SOk {C}. Arguments SErr {C}. Arguments SOutOfFuel {C}.
Arguments FixContent {C}. Arguments FixMove {C}.
Arguments handle_rename {C}. Arguments apply_fix {C}. Arguments run_fixes {C}.
Arguments pending_content {C}. Arguments pending_moves {C}. Arguments fix_loop {C}.
Arguments LDone {C}. Arguments LErr {C}. Arguments LOutOfFuel {C}.

(* ---------------------------------------------------------------- specification vocabulary *)

(* Conservation is stated on files that carry an identity: the content of a file is a pair
   (origin, text); the command loads every file tagged with its own path. *)
Section Origins.
  Variable T : Type.
  Definition tagged := (str * T)%type.
  Definition origin_of (kv : str * tagged) : str := fst (snd kv).
  Definition origins (m : amap tagged) : list str := map origin_of m.
  Definition tag_files (m : amap T) : amap tagged := map (fun kv => (fst kv, (fst kv, snd kv))) m.
  Definition self_tagged (m : amap tagged) : Prop := forall kv, In kv m -> origin_of kv = fst kv.

  (* a non-moving fix rewrites the text, never the identity of the file *)
  Definition preserves_origin (x : fixres tagged) : Prop :=
    match x with
    | FixContent _ g => forall c, fst (g c) = fst c
    | FixMove _ _ _ => True
    end.
End Origins.
Arguments origin_of {T}. Arguments origins {T}. Arguments tag_files {T}.
Arguments self_tagged {T}. Arguments preserves_origin {T}.

(* the k-th name the rename loop tries *)
Fixpoint cand_iter (k : nat) (to : str) : str :=
  match k with O => to | S k' => cand_iter k' (rename_candidate to) end.

(* a clean absolute file name: directory components [ds] and base name [nb] *)
Definition clean_file (to : str) (ds : list str) (nb : str) : Prop :=
  to = cpath (ds ++ [nb]) /\ Forall regular ds /\ regular nb.

(* the names that can make Rename report a conflict *)
Definition occupied {C} (p : provider C) : list str := akeys (pv_files p) ++ pv_disk p.
