(* C01, seeded round 2 — variants that are NOT the code: what the merge of lintWithRegoRules and
   the argument loop of config.walkPaths would be with two "optimisations" that look harmless.
   They are here for the [_refuted] witnesses of Props/C01.v only.  Definitions only. *)
From Regal Require Export Model.Discover.

(* (1) keep the notices of the first worker that has any, instead of appending every worker's
   (class of seeded change C01-3: "notices are the same for each file") *)
Definition lupd_first_notices (r : result) (s : report) : report :=
  {| V := V s; Nn := match Nn s with [] => r_notices r | _ => Nn s end; A := A s; D := D s |}.

Definition merge_first_notices (s : report) (r : result) : report :=
  lupd LDirs r (lupd LAggs r (lupd_first_notices r (lupd LViol r s))).

(* (2) do not walk an argument whose cleaned spelling has the cleaned spelling of an argument
   walked EARLIER as a string prefix (class of seeded change C01-4: "what is below a path that was
   walked already has been found"; "authz-extra" starts with "authz") *)
Definition str_starts_with (s p : str) : bool :=
  match drop_prefix s p with Some _ => true | None => false end.

Section SkipWalk.
  Variable skips : list str.
  Variable ext : str.

  Fixpoint walk_args_skip (root : node) (walked : list str) (args : list str) : dres :=
    match args with
    | [] => DOk []
    | a :: args' =>
      match resolve root a with
      | ROutside => DOut
      | RMissing => match walk_args_skip root walked args' with DOut => DOut | _ => DErr end
      | RNode n =>
          let c := clean a in
          if existsb (str_starts_with c) walked
          then walk_args_skip root walked args'
          else match walk_args_skip root (walked ++ [c]) args' with
               | DOk fs => DOk (walk skips ext a (os_basename a) n ++ fs)
               | r => r
               end
      end
    end.
End SkipWalk.
