(* C05 on DIRECTORY arguments: config.FilterIgnoredPaths with checkFileExists = true walks the
   argument (walkPaths + filepath.WalkDir, the callback keeps the .rego files and prunes
   io.IsSkipWalkDirectory) and hands what it found to filterPaths with the normalised prefix.
   The walk is Model/Discover.v's [walk] (property C02), the matcher Model/Exclude.v's
   [go_filter_paths]; here they are composed, and the walk is described once more by the names
   RELATIVE to the directory it starts at.  Definitions only. *)
From Regal Require Export Model.Exclude Model.Discover.
From Regal Require Import Model.Provider.      (* cpath, regular: clean absolute paths as component lists *)

Section WalkFilter.
  Variable glob_ok : str -> bool.
  Variable glob_match : str -> str -> bool.
  Variable skips : list str.     (* io.IsSkipWalkDirectory: .git .idea node_modules *)
  Variable ext : str.            (* bundle.RegoExt *)

  (* FilterIgnoredPaths([arg], ignore, true, pre) for an argument that exists: [arg] is the
     argument as spelled, [name] the Name() of its FileInfo, [t] what it denotes.  filterPaths is
     called also when the ignore list is empty. *)
  Definition go_walk_filter (arg name : str) (t : node) (ignore : list str) (pre : str)
    : option (list str) :=
    go_filter_paths glob_ok glob_match (walk skips ext arg name t) ignore (go_norm_prefix pre).

  (* child [nm] of a directory, then [s] below it ("" = the child itself) *)
  Definition rjoin (nm s : str) : str := match s with [] => nm | _ => nm ++ SLASH :: s end.

  (* the files the walk finds, named relative to the node it starts at, in walk order; "" stands for
     the node itself (a file given as argument).  The name of the start directory matters for one
     thing only: whether it is a skipped directory. *)
  Fixpoint rel_walk (name : str) (n : node) {struct n} : list str :=
    match n with
    | File => if has_suffix name ext then [[]] else []
    | Dir cs =>
        if is_skip skips name then []
        else (fix go (cs : list (str * node)) : list str :=
                match cs with
                | [] => []
                | (nm, c) :: cs' => map (rjoin nm) (rel_walk nm c) ++ go cs'
                end) cs
    end.
End WalkFilter.

(* every entry name in the tree is a regular path component (non-empty, no separator, not "." / "..") *)
Inductive names_regular : node -> Prop :=
| nr_file : names_regular File
| nr_dir cs : Forall (fun kc => regular (fst kc) /\ names_regular (snd kc)) cs -> names_regular (Dir cs).
