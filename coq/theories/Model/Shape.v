(* Statement shapes of goroutine bodies.

   [gstmt] is what the extractor harness/cmd/goshape prints for a goroutine body of /repo
   (flattened in source order, with the nesting depth of every statement; a deferred call is
   printed where it runs: at the end of the body, last deferred first).  [stmt] is the abstract
   program the worker transition system of Model/Sched.v executes.  [compile] maps one to the
   other and refuses shapes outside the fragment the transition system speaks about
   (conditional locking, an early return that would leave the mutex held).

   Definitions only. *)
From Regal Require Export Base.Str.

Inductive gstmt :=
| GLock (mutex : str) (depth : nat)
| GUnlock (mutex : str) (deferred : bool) (depth : nat)
| GWrite (target : str) (depth : nat)      (* assignment / inc-dec / mutating method call on a captured variable *)
| GRead (target : str) (depth : nat)       (* use of a captured variable *)
| GSend (ch : str) (depth : nat)
| GReturn (depth : nat)
| GCall (name : str) (depth : nat).        (* any other call on a captured variable (wg.Done, pq.Eval, ...) *)

Inductive stmt (L : Type) :=
| SLock | SUnlock
| SWrite (l : L)          (* non-atomic update of the shared location l: load, then store *)
| SRead (l : L)
| SLocal.
Arguments SLock {L}. Arguments SUnlock {L}. Arguments SWrite {L} l. Arguments SRead {L} l.
Arguments SLocal {L}.

Section Compile.
  Variable L : Type.
  Variable classify : str -> L.
  Variable mu : str.                         (* the mutex that is meant to guard the shared state *)

  Definition omap {A B} (f : A -> B) (o : option A) : option B :=
    match o with Some a => Some (f a) | None => None end.

  Definition has_deferred_unlock (g : list gstmt) : bool :=
    existsb (fun s => match s with GUnlock m true _ => str_eqb m mu | _ => false end) g.

  Fixpoint compile_go (deferred in_cs : bool) (g : list gstmt) {struct g} : option (list (stmt L)) :=
    match g with
    | [] => Some []
    | GLock m d :: g' =>
        if str_eqb m mu
        then match d with
             | O => omap (cons SLock) (compile_go deferred true g')
             | S _ => None                                  (* conditional locking *)
             end
        else omap (cons SLocal) (compile_go deferred in_cs g')
    | GUnlock m df d :: g' =>
        if str_eqb m mu
        then if df || Nat.eqb d 0
             then omap (cons SUnlock) (compile_go deferred false g')
             else None                                      (* conditional unlocking *)
        else omap (cons SLocal) (compile_go deferred in_cs g')
    | GReturn _ :: g' =>
        if in_cs && negb deferred then None                 (* would return with the mutex held *)
        else omap (cons SLocal) (compile_go deferred in_cs g')
    | GWrite t _ :: g' => omap (cons (SWrite (classify t))) (compile_go deferred in_cs g')
    | GRead t _ :: g' => omap (cons (SRead (classify t))) (compile_go deferred in_cs g')
    | GSend _ _ :: g' => omap (cons SLocal) (compile_go deferred in_cs g')
    | GCall _ _ :: g' => omap (cons SLocal) (compile_go deferred in_cs g')
    end.

  Definition compile (g : list gstmt) : option (list (stmt L)) :=
    compile_go (has_deferred_unlock g) false g.

  (* a shape that does not compile yields the empty program, which no check accepts *)
  Definition compile_or_empty (g : list gstmt) : list (stmt L) :=
    match compile g with Some p => p | None => [] end.
End Compile.
Arguments compile {L}. Arguments compile_or_empty {L}. Arguments compile_go {L}.

(* ---- the decidable side condition ---------------------------------------------------------- *)
Inductive phase := PBefore | PIn | PAfter.

Section Locked.
  Variable L : Type.
  Variable leqb : L -> L -> bool.

  Definition lmem (l : L) (ls : list L) : bool := existsb (leqb l) ls.

  Fixpoint writes_of (p : list (stmt L)) : list L :=
    match p with
    | [] => []
    | SWrite l :: p' => l :: writes_of p'
    | _ :: p' => writes_of p'
    end.

  (* exactly one critical section; every shared write, and every read of a location that some
     worker writes, happens inside it *)
  Fixpoint locked_ok (written : list L) (ph : phase) (p : list (stmt L)) {struct p} : bool :=
    match p with
    | [] => match ph with PAfter => true | _ => false end
    | SLock :: p' => match ph with PBefore => locked_ok written PIn p' | _ => false end
    | SUnlock :: p' => match ph with PIn => locked_ok written PAfter p' | _ => false end
    | SWrite _ :: p' => match ph with PIn => locked_ok written PIn p' | _ => false end
    | SRead l :: p' =>
        match ph with
        | PIn => locked_ok written PIn p'
        | _ => negb (lmem l written) && locked_ok written ph p'
        end
    | SLocal :: p' => locked_ok written ph p'
    end.

  Definition all_shared_writes_locked (p : list (stmt L)) : bool :=
    locked_ok (writes_of p) PBefore p.

  (* the statements after the first Lock *)
  Fixpoint after_lock (p : list (stmt L)) : list (stmt L) :=
    match p with
    | [] => []
    | SLock :: p' => p'
    | _ :: p' => after_lock p'
    end.

  (* the locations written up to the first Unlock *)
  Fixpoint writes_until_unlock (p : list (stmt L)) : list L :=
    match p with
    | [] => []
    | SUnlock :: _ => []
    | SWrite l :: p' => l :: writes_until_unlock p'
    | _ :: p' => writes_until_unlock p'
    end.

  Definition cs_writes (p : list (stmt L)) : list L := writes_until_unlock (after_lock p).

  (* All assignments to one location inside the critical section (a loop nest appending to the
     same field, the two branches of the empty-marker test) together are ONE update of that
     location in the transition system: later writes of a location already written in the same
     critical section become local steps.  Writes outside a critical section are kept. *)
  Fixpoint dedup_cs_go (in_cs : bool) (seen : list L) (p : list (stmt L)) {struct p} : list (stmt L) :=
    match p with
    | [] => []
    | SLock :: p' => SLock :: dedup_cs_go true [] p'
    | SUnlock :: p' => SUnlock :: dedup_cs_go false [] p'
    | SWrite l :: p' =>
        if in_cs
        then if lmem l seen then SLocal :: dedup_cs_go in_cs seen p'
             else SWrite l :: dedup_cs_go in_cs (l :: seen) p'
        else SWrite l :: dedup_cs_go in_cs seen p'
    | s :: p' => s :: dedup_cs_go in_cs seen p'
    end.
  Definition dedup_cs_writes (p : list (stmt L)) : list (stmt L) := dedup_cs_go false [] p.
End Locked.
Arguments lmem {L}. Arguments writes_of {L}. Arguments locked_ok {L}.
Arguments all_shared_writes_locked {L}. Arguments after_lock {L}.
Arguments writes_until_unlock {L}. Arguments cs_writes {L}. Arguments dedup_cs_writes {L}.
