(* Model of the inline-ignore machinery (C06).  Definitions only.

   bundle/regal/ast/comments.rego   ignore_directives
   bundle/regal/main/main.rego      _ignored, the four `not _ignored(...)` filters, lint.ignore_directives
   bundle/regal/util/util.rego      keys_to_numbers
   pkg/linter/linter.go             regoReport.IgnoreDirectives (map[string]map[string][]string), the carry
                                    into lintWithRegoAggregateRules, WithIgnoreDirectives / exported directives

   Text is a byte string ([str]); the model mirrors the code on valid UTF-8 comment text (OPA's indexof/substring
   count runes, consistently, so the suffix after the first occurrence of the ASCII marker is the same bytes). *)
From Regal Require Export Base.Str.

(* "regal ignore:" *)
Definition MARKER : str := [114;101;103;97;108;32;105;103;110;111;114;101;58].
Definition COMMA : N := 44.
Definition COLON : N := 58.

(* ---------- strings.TrimSpace (Rego trim_space) on UTF-8 bytes ---------- *)

(* unicode.IsSpace, one-byte runes: \t \n \v \f \r and space *)
Definition ascii_space (c : N) : bool := ((9 <=? c) && (c <=? 13)) || (c =? 32).

(* U+0085, U+00A0 : C2 85, C2 A0 *)
Definition uni2_space (c1 c2 : N) : bool := (c1 =? 194) && ((c2 =? 133) || (c2 =? 160)).

(* U+1680 | U+2000..U+200A, U+2028, U+2029, U+202F | U+205F | U+3000 *)
Definition uni3_space (c1 c2 c3 : N) : bool :=
  ((c1 =? 225) && (c2 =? 154) && (c3 =? 128)) ||
  ((c1 =? 226) && (c2 =? 128) &&
     (((128 <=? c3) && (c3 <=? 138)) || (c3 =? 168) || (c3 =? 169) || (c3 =? 175))) ||
  ((c1 =? 226) && (c2 =? 129) && (c3 =? 159)) ||
  ((c1 =? 227) && (c2 =? 128) && (c3 =? 128)).

Fixpoint trim_left (s : str) {struct s} : str :=
  match s with
  | [] => []
  | c :: s1 =>
    if ascii_space c then trim_left s1 else
    match s1 with
    | [] => s
    | c2 :: s2 =>
      if uni2_space c c2 then trim_left s2 else
      match s2 with
      | [] => s
      | c3 :: s3 => if uni3_space c c2 c3 then trim_left s3 else s
      end
    end
  end.

(* the same scan over the reversed string (last byte first) *)
Fixpoint trim_left_rev (s : str) {struct s} : str :=
  match s with
  | [] => []
  | c :: s1 =>
    if ascii_space c then trim_left_rev s1 else
    match s1 with
    | [] => s
    | c2 :: s2 =>
      if uni2_space c2 c then trim_left_rev s2 else
      match s2 with
      | [] => s
      | c3 :: s3 => if uni3_space c3 c2 c then trim_left_rev s3 else s
      end
    end
  end.

Definition trim_right (s : str) : str := rev (trim_left_rev (rev s)).
Definition trim_space (s : str) : str := trim_right (trim_left s).

(* ---------- ignore_directives ---------- *)

(* i := indexof(text, "regal ignore:"); substring(text, i + 13, -1) : the text after the first occurrence *)
Fixpoint after_marker (s : str) {struct s} : option str :=
  match drop_prefix s MARKER with
  | Some rest => Some rest
  | None => match s with [] => None | _ :: s' => after_marker s' end
  end.

(* RE2 `\s` = [\t\n\f\r ] *)
Definition re_space (c : N) : bool :=
  (c =? 9) || (c =? 10) || (c =? 12) || (c =? 13) || (c =? 32).

(* regex.replace(s, `\s`, "") *)
Definition strip_ws (s : str) : str := filter (fun c => negb (re_space c)) s.

(* the rule names of one comment text; None: the comment is not a directive *)
Definition directive_names (text : str) : option (list str) :=
  match after_marker (trim_space text) with
  | Some rest => Some (split_on COMMA (strip_ws rest))
  | None => None
  end.

Record comment := { c_row : N; c_text : str }.

(* row -> rule names, in the order the comments are visited *)
Definition dirmap := list (N * list str).

Definition directive_entries (cs : list comment) : dirmap :=
  flat_map (fun c => match directive_names (c_text c) with
                     | Some ns => [(c_row c + 1, ns)]
                     | None => []
                     end) cs.

Fixpoint names_eqb (a b : list str) {struct a} : bool :=
  match a, b with
  | [], [] => true
  | x :: a', y :: b' => str_eqb x y && names_eqb a' b'
  | _, _ => false
  end.

(* `ignore_directives[row] := rules` is a complete rule generating an object: two different values
   for one key are an evaluation error (eval_conflict_error) *)
Fixpoint dir_conflict (m : dirmap) {struct m} : bool :=
  match m with
  | [] => false
  | (k, ns) :: m' =>
      existsb (fun kv => (fst kv =? k) && negb (names_eqb (snd kv) ns)) m' || dir_conflict m'
  end.

Inductive dir_result := DirOk (m : dirmap) | DirConflict.

Definition ignore_directives (cs : list comment) : dir_result :=
  let m := directive_entries cs in
  if dir_conflict m then DirConflict else DirOk m.

Fixpoint dm_get (m : dirmap) (row : N) {struct m} : option (list str) :=
  match m with
  | [] => None
  | (k, ns) :: m' => if k =? row then Some ns else dm_get m' row
  end.

(* ---------- _ignored ---------- *)

Record violation := {
  v_cat : str; v_title : str; v_file : str;
  v_row : option N;      (* None: the violation carries no location (e.g. no-defined-entrypoint) *)
  v_col : N }.

Definition names_at (m : dirmap) (row : N) (title : str) : bool :=
  match dm_get m row with Some ns => str_in title ns | None => false end.

Definition ignored (v : violation) (m : dirmap) : bool :=
  match v_row v with
  | None => false
  | Some r => names_at m r (v_title v) || names_at m (r + 1) (v_title v)
  end.

(* report contains violation if { ... not _ignored(violation, ast.ignore_directives) } *)
Definition report_filter (raw : list violation) (m : dirmap) : list violation :=
  filter (fun v => negb (ignored v m)) raw.

(* ---------- the Go carry and keys_to_numbers ---------- *)

(* map[string][]string : JSON object whose keys are the decimal renderings of the rows *)
Definition strmap := list (str * list str).
(* map[string]map[string][]string keyed by file name *)
Definition gomap := list (str * strmap).

Definition stringify (m : dirmap) : strmap := map (fun kv => (show_N (fst kv), snd kv)) m.

(* {num: v | some k, v in obj; num := to_number(k)} ; keys that are not numbers are dropped.
   to_number is modelled on decimal digit strings only (all that stringify produces). *)
Definition keys_to_numbers (o : strmap) : dirmap :=
  flat_map (fun kv => match read_N (fst kv) with Some n => [(n, snd kv)] | None => [] end) o.

Fixpoint gm_get (g : gomap) (file : str) {struct g} : option strmap :=
  match g with
  | [] => None
  | (f, o) :: g' => if str_eqb f file then Some o else gm_get g' file
  end.

Fixpoint gm_set (g : gomap) (file : str) (o : strmap) {struct g} : gomap :=
  match g with
  | [] => [(file, o)]
  | (f, o') :: g' => if str_eqb f file then (file, o) :: g' else (f, o') :: gm_set g' file o
  end.

(* lintWithRegoRules: regoReport.IgnoreDirectives[k] = result.IgnoreDirectives[k] for each finished file;
   each file result is {file name: ignore_directives of that file} *)
Definition carry_from (g : gomap) (results : list (str * dirmap)) : gomap :=
  fold_left (fun g r => gm_set g (fst r) (stringify (snd r))) results g.
Definition carry (results : list (str * dirmap)) : gomap := carry_from [] results.

(* Lint with WithIgnoreDirectives(d): entries of d fill in files the run itself did not lint *)
Definition carry_overridden (own : gomap) (given : gomap) : gomap :=
  fold_left (fun g fo => match gm_get g (fst fo) with
                         | Some _ => g
                         | None => gm_set g (fst fo) (snd fo)
                         end) given own.

(* aggregate_report: file := object.get(violation, ["location","file"], "");
   ignore_directives := object.get(input.ignore_directives, file, {});
   not _ignored(violation, util.keys_to_numbers(ignore_directives)) *)
Definition agg_directives (g : gomap) (file : str) : dirmap :=
  match gm_get g file with Some o => keys_to_numbers o | None => [] end.

Definition agg_ignored (g : gomap) (v : violation) : bool :=
  ignored v (agg_directives g (v_file v)).

Definition agg_report_filter (raw : list violation) (g : gomap) : list violation :=
  filter (fun v => negb (agg_ignored g v)) raw.

(* ---------- inserting a directive (the edits of the metamorphic statement) ---------- *)

Definition shift_row (r : N) (row : N) : N := if r <=? row then row + 1 else row.

Definition shift_violation (r : N) (v : violation) : violation :=
  {| v_cat := v_cat v; v_title := v_title v; v_file := v_file v;
     v_row := option_map (shift_row r) (v_row v); v_col := v_col v |}.

Definition shift_comment (r : N) (c : comment) : comment :=
  {| c_row := shift_row r (c_row c); c_text := c_text c |}.

(* a new line holding only the comment [d] becomes row r; old rows >= r move down by one *)
Definition insert_comment_line (r : N) (d : str) (cs : list comment) : list comment :=
  map (shift_comment r) cs ++ [{| c_row := r; c_text := d |}].

(* the comment [d] is appended to the end of row r (which had no comment) *)
Definition append_comment (r : N) (d : str) (cs : list comment) : list comment :=
  cs ++ [{| c_row := r; c_text := d |}].

Definition at_row (v : violation) (r : N) : bool :=
  match v_row v with Some r' => r' =? r | None => false end.

(* ---------- the module text as lines (arguments of the parser / rule oracles) ---------- *)

Definition HASH : N := 35.

(* the line [l] becomes row r; rows are 1-based *)
Definition insert_line (r : N) (l : str) (ls : list str) : list str :=
  firstn (N.to_nat (r - 1)) ls ++ l :: skipn (N.to_nat (r - 1)) ls.

(* [suffix] is appended to the line on row r *)
Definition append_to_line (r : N) (suffix : str) (ls : list str) : list str :=
  firstn (N.to_nat (r - 1)) ls ++
  match skipn (N.to_nat (r - 1)) ls with
  | x :: tl => (x ++ suffix) :: tl
  | [] => []
  end.

Definition is_indent (s : str) : Prop := Forall (fun c => c = 32 \/ c = 9) s.

(* ---------- two-phase use: exported directives of several runs, merged by the caller ---------- *)

(* for every run's Report.IgnoreDirectives: dirs[file] = directives *)
Definition merge_exported (exports : list gomap) : gomap :=
  fold_left (fun g e => fold_left (fun g fo => gm_set g (fst fo) (snd fo)) e g) exports [].

(* what one Lint run over [files] (name, comments) hands to / exports for the aggregate report *)
Definition file_results (files : list (str * list comment)) : list (str * dirmap) :=
  map (fun fc => (fst fc, directive_entries (snd fc))) files.
