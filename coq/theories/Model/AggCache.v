(* Model of the aggregate part of the language server's cache (C09).  Definitions only.

   internal/lsp/cache/cache.go   aggregateData (file URI -> []report.Aggregate), SetFileAggregates, SetAggregates,
                                 GetFileAggregates, Rename, Delete
   pkg/report/report.go          Aggregate.SourceFile, Aggregate.IndexKey

   The concurrent map is an association list with distinct keys; Go's random map iteration order shows up only
   as the order of the lists handed in and out, which the theorems treat up to permutation. *)
From Regal Require Export Base.Str Model.AggPipeline.
From Coq Require Export Permutation.

Section Cache.
  Variable Agg : Type.
  Variable src : Agg -> str.     (* Aggregate.SourceFile: aggregate_source.file, "" when absent *)
  Variable ikey : Agg -> str.    (* Aggregate.IndexKey: rule.category/rule.title, "" when absent *)

  Definition cache := list (str * list Agg).

  Fixpoint c_get (c : cache) (f : str) {struct c} : option (list Agg) :=
    match c with
    | [] => None
    | (k, v) :: c' => if str_eqb k f then Some v else c_get c' f
    end.

  Fixpoint c_set (c : cache) (f : str) (v : list Agg) {struct c} : cache :=
    match c with
    | [] => [(f, v)]
    | (k, v') :: c' => if str_eqb k f then (f, v) :: c' else (k, v') :: c_set c' f v
    end.

  Definition c_delete (c : cache) (f : str) : cache :=
    filter (fun kv => negb (str_eqb (fst kv) f)) c.

  (* concurrent.Map.UpdateValue(key, func(val) { return append(val, a) }) *)
  Definition c_append (c : cache) (f : str) (a : Agg) : cache :=
    match c_get c f with
    | Some v => c_set c f (v ++ [a])
    | None => c_set c f [a]
    end.

  Definition c_lookup (c : cache) (f : str) : list Agg :=
    match c_get c f with Some v => v | None => [] end.

  (* `for _, aggregates := range data { for _, aggregate := range aggregates {` *)
  Definition flatten (data : list (str * list Agg)) : list Agg := flat_map snd data.

  (* SetFileAggregates(fileURI, data): only entries whose source is fileURI are kept *)
  Definition set_file_aggregates (f : str) (data : list (str * list Agg)) (c : cache) : cache :=
    c_set c f (filter (fun a => str_eqb (src a) f) (flatten data)).

  (* SetAggregates(data): Clear, then append every entry under its source file *)
  Definition set_aggregates (data : list (str * list Agg)) : cache :=
    fold_left (fun c a => c_append c (src a) a) (flatten data) [].

  (* GetFileAggregates(): regroup everything by IndexKey; as the log of appends (Model/AggPipeline.v) *)
  Definition get_file_aggregates (c : cache) : list (str * list Agg) :=
    flat_map (fun fe => map (fun a => (ikey a, [a])) (snd fe)) c.

  (* GetFileAggregates(fileURIs...) *)
  Definition get_file_aggregates_of (fs : list str) (c : cache) : list (str * list Agg) :=
    get_file_aggregates (filter (fun fe => str_in (fst fe) fs) c).

  Definition rename (old new : str) (c : cache) : cache :=
    match c_get c old with
    | Some v => c_delete (c_set c new v) old
    | None => c
    end.

  Definition delete (f : str) (c : cache) : cache := c_delete c f.

  Definition cache_entries (c : cache) : list Agg := flat_map snd c.
End Cache.

Arguments c_get {Agg} c f.
Arguments c_set {Agg} c f v.
Arguments c_delete {Agg} c f.
Arguments c_lookup {Agg} c f.
Arguments cache_entries {Agg} c.
Arguments flatten {Agg} data.

(* ---------- what the cache is meant to hold: file |-> multiset of its aggregate entries ---------- *)
Section CacheSpec.
  Variable File : Type.
  Variable Agg : Type.
  Variable fname : File -> str.
  Variable brules : list str.
  Variable ckeys : list str.
  Variable B_aggregate : str -> File -> list Agg.
  Variable C_aggregate : str -> File -> option (list Agg).

  (* every entry a collect run over the single file f exports (the empty marker contributes none) *)
  Definition entries_of (f : File) : list Agg :=
    flatten (file_aggs File Agg brules ckeys B_aggregate C_aggregate f).

  Definition entries_named (fs : list File) (name : str) : list Agg :=
    flat_map entries_of (filter (fun f => str_eqb (fname f) name) fs).

  (* the cache represents the file set: distinct keys, and under every name the entries of the files of that
     name, as a multiset *)
  Definition represents (c : cache Agg) (fs : list File) : Prop :=
    NoDup (map fst c) /\ forall name, Permutation (c_lookup c name) (entries_named fs name).

  (* the workspace after file f' was written (replacing the file of the same name, if any) / a file was removed *)
  Definition replace_file (f' : File) (fs : list File) : list File :=
    f' :: filter (fun g => negb (str_eqb (fname g) (fname f'))) fs.
  Definition remove_file (name : str) (fs : list File) : list File :=
    filter (fun g => negb (str_eqb (fname g) name)) fs.
End CacheSpec.

(* ---------- the per-file directive cache of the language server (after /repo 4817eed) ---------- *)
Section DirCacheSpec.
  Variable File : Type.
  Variable fname : File -> str.
  Variable fcomments : File -> list comment.

  (* Cache.Delete *)
  Definition gm_delete (g : gomap) (name : str) : gomap :=
    filter (fun fo => negb (str_eqb (fst fo) name)) g.

  (* what SetFileIgnoreDirectives stores for a file: report.IgnoreDirectives[file] of its lint *)
  Definition file_dirs (f : File) : strmap := stringify (directive_entries (fcomments f)).

  (* the cache answers like the directives of one run over the current files *)
  Definition dirs_represent (g : gomap) (fs : list File) : Prop :=
    forall name, gm_get g name = gm_get (carry (results_of File fname fcomments fs)) name.
End DirCacheSpec.
