(* Model of the aggregate part of the language server's cache (C09).  Definitions only.

   internal/lsp/cache/cache.go   aggregateData (file URI -> []report.Aggregate), SetFileAggregates, SetAggregates,
                                 GetFileAggregates, Rename, Delete
   pkg/report/report.go          Aggregate.SourceFile, Aggregate.IndexKey

   The concurrent map is an association list with distinct keys; Go's random map iteration order shows up only
   as the order of the lists handed in and out, which the theorems treat up to permutation. *)
From Regal Require Export Base.Str Model.AggPipeline.
From Coq Require Export Permutation.

Section Cache.
  Variable Agg : Type.
  Variable src : Agg -> str.     (* Aggregate.SourceFile: aggregate_source.file, "" when absent *)
  Variable ikey : Agg -> str.    (* Aggregate.IndexKey: rule.category/rule.title, "" when absent *)

  Definition cache := list (str * list Agg).

  Fixpoint c_get (c : cache) (f : str) {struct c} : option (list Agg) :=
    match c with
    | [] => None
    | (k, v) :: c' => if str_eqb k f then Some v else c_get c' f
    end.

  Fixpoint c_set (c : cache) (f : str) (v : list Agg) {struct c} : cache :=
    match c with
    | [] => [(f, v)]
    | (k, v') :: c' => if str_eqb k f then (f, v) :: c' else (k, v') :: c_set c' f v
    end.

  Definition c_delete (c : cache) (f : str) : cache :=
    filter (fun kv => negb (str_eqb (fst kv) f)) c.

  (* concurrent.Map.UpdateValue(key, func(val) { return append(val, a) }) *)
  Definition c_append (c : cache) (f : str) (a : Agg) : cache :=
    match c_get c f with
    | Some v => c_set c f (v ++ [a])
    | None => c_set c f [a]
    end.

  Definition c_lookup (c : cache) (f : str) : list Agg :=
    match c_get c f with Some v => v | None => [] end.

  (* `for _, aggregates := range data { for _, aggregate := range aggregates {` *)
  Definition flatten (data : list (str * list Agg)) : list Agg := flat_map snd data.

  (* SetFileAggregates(fileURI, data): only entries whose source is fileURI are kept *)
  Definition set_file_aggregates (f : str) (data : list (str * list Agg)) (c : cache) : cache :=
    c_set c f (filter (fun a => str_eqb (src a) f) (flatten data)).

  (* SetAggregates(data): Clear, then append every entry under its source file *)
  Definition set_aggregates (data : list (str * list Agg)) : cache :=
    fold_left (fun c a => c_append c (src a) a) (flatten data) [].

  (* GetFileAggregates(): regroup everything by IndexKey; as the log of appends (Model/AggPipeline.v) *)
  Definition get_file_aggregates (c : cache) : list (str * list Agg) :=
    flat_map (fun fe => map (fun a => (ikey a, [a])) (snd fe)) c.

  (* GetFileAggregates(fileURIs...) *)
  Definition get_file_aggregates_of (fs : list str) (c : cache) : list (str * list Agg) :=
    get_file_aggregates (filter (fun fe => str_in (fst fe) fs) c).

  Definition rename (old new : str) (c : cache) : cache :=
    match c_get c old with
    | Some v => c_delete (c_set c new v) old
    | None => c
    end.

  Definition delete (f : str) (c : cache) : cache := c_delete c f.

  Definition cache_entries (c : cache) : list Agg := flat_map snd c.
End Cache.

Arguments c_get {Agg} c f.
Arguments c_set {Agg} c f v.
Arguments c_delete {Agg} c f.
Arguments c_lookup {Agg} c f.
Arguments cache_entries {Agg} c.
Arguments flatten {Agg} data.

(* ---------- what the cache is meant to hold: file |-> multiset of its aggregate entries ---------- *)
Section CacheSpec.
  Variable File : Type.
  Variable Agg : Type.
  Variable fname : File -> str.
  Variable brules : list str.
  Variable ckeys : list str.
  Variable B_aggregate : str -> File -> list Agg.
  Variable C_aggregate : str -> File -> option (list Agg).

  (* every entry a collect run over the single file f exports (the empty marker contributes none) *)
  Definition entries_of (f : File) : list Agg :=
    flatten (file_aggs File Agg brules ckeys B_aggregate C_aggregate f).

  Definition entries_named (fs : list File) (name : str) : list Agg :=
    flat_map entries_of (filter (fun f => str_eqb (fname f) name) fs).

  (* the cache represents the file set: distinct keys, and under every name the entries of the files of that
     name, as a multiset *)
  Definition represents (c : cache Agg) (fs : list File) : Prop :=
    NoDup (map fst c) /\ forall name, Permutation (c_lookup c name) (entries_named fs name).

  (* the workspace after file f' was written (replacing the file of the same name, if any) / a file was removed *)
  Definition replace_file (f' : File) (fs : list File) : list File :=
    f' :: filter (fun g => negb (str_eqb (fname g) (fname f'))) fs.
  Definition remove_file (name : str) (fs : list File) : list File :=
    filter (fun g => negb (str_eqb (fname g) name)) fs.
End CacheSpec.

(* ---------- the per-file directive cache of the language server (after /repo 4817eed) ---------- *)
Section DirCacheSpec.
  Variable File : Type.
  Variable fname : File -> str.
  Variable fcomments : File -> list comment.

  (* Cache.Delete *)
  Definition gm_delete (g : gomap) (name : str) : gomap :=
    filter (fun fo => negb (str_eqb (fst fo) name)) g.

  (* what SetFileIgnoreDirectives stores for a file: report.IgnoreDirectives[file] of its lint *)
  Definition file_dirs (f : File) : strmap := stringify (directive_entries (fcomments f)).

  (* the cache answers like the directives of one run over the current files *)
  Definition dirs_represent (g : gomap) (fs : list File) : Prop :=
    forall name, gm_get g name = gm_get (carry (results_of File fname fcomments fs)) name.
End DirCacheSpec.

(* ---------- the directive cache as explicit map updates (cache.go) ---------- *)

(* SetFileIgnoreDirectives(fileURI, data):  c.ignoreDirectives.Set(fileURI, data[fileURI]).
   data[fileURI] of a Go map that has no such key is the nil map: the file's previous entry is REPLACED in every
   case -- in particular by "no directives" when the re-linted file has none left. *)
Definition set_file_ignore_directives (name : str) (data : gomap) (g : gomap) : gomap :=
  gm_set g name (match gm_get data name with Some o => o | None => [] end).

(* SetIgnoreDirectives(data): Clear, then Set every entry *)
Definition set_ignore_directives (data : gomap) : gomap := dirs_update [] data.

(* ---------- histories of single-file replacements ---------- *)
Section History.
  Variable File : Type.
  Variable Agg : Type.
  Variable fname : File -> str.
  Variable fcomments : File -> list comment.
  Variable brules : list str.
  Variable ckeys : list str.
  Variable B_aggregate : str -> File -> list Agg.
  Variable C_aggregate : str -> File -> option (list Agg).
  Variable B_report : str -> list Agg -> list violation.
  Variable C_report : str -> list Agg -> list violation.
  Variable src : Agg -> str.
  Variable ikey : Agg -> str.

  Notation collect := (collect File Agg brules ckeys B_aggregate C_aggregate).
  Notation exported_dirs := (exported_dirs File fname fcomments).
  Notation lint_aggregate_violations := (lint_aggregate_violations Agg brules ckeys B_report C_report).

  (* the contents of the workspace after the files of [edits] were written one after the other *)
  Definition files_after (fs0 : list File) (edits : list File) : list File :=
    fold_left (fun fs f' => replace_file File fname f' fs) edits fs0.

  (* --- the language server: aggregate cache and directive cache (internal/lsp/lint.go) --- *)
  Definition lsp_state := (cache Agg * gomap)%type.

  (* updateAllDiagnostics(overwriteAggregates): one Lint over all files, SetAggregates + SetIgnoreDirectives *)
  Definition lsp_init (fs : list File) : lsp_state :=
    (set_aggregates Agg src (collect false fs), set_ignore_directives (exported_dirs fs)).

  (* updateFileDiagnostics: Lint of f' alone (collect query, export), SetFileAggregates + SetFileIgnoreDirectives *)
  Definition lsp_replace (st : lsp_state) (f' : File) : lsp_state :=
    (set_file_aggregates Agg src (fname f') (collect true [f']) (fst st),
     set_file_ignore_directives (fname f') (exported_dirs [f']) (snd st)).

  (* Cache.Delete *)
  Definition lsp_delete (st : lsp_state) (name : str) : lsp_state :=
    (delete Agg name (fst st), gm_delete (snd st) name).

  (* updateAllDiagnostics(aggregatesReportOnly): WithAggregates(GetFileAggregates()), WithIgnoreDirectives(cache) *)
  Definition lsp_report (st : lsp_state) : list violation :=
    lint_aggregate_violations [] 0 (Some (get_file_aggregates Agg ikey (fst st)))
                              (lint_dirs File fname fcomments (snd st) []).

  Definition lsp_history (fs0 : list File) (edits : list File) : lsp_state :=
    fold_left lsp_replace edits (lsp_init fs0).

  (* --- a client of the public API: keeps the export of every file's own collect run and ONE directive map that it
         updates from the Report.IgnoreDirectives of every run (dirs[file] = directives) --- *)
  Definition api_state := (list File * gomap)%type.

  Definition api_init (fs : list File) : api_state := (fs, dirs_update [] (exported_dirs fs)).

  Definition api_replace (st : api_state) (f' : File) : api_state :=
    (replace_file File fname f' (fst st), dirs_update (snd st) (exported_dirs [f'])).

  Definition api_delete (st : api_state) (name : str) : api_state :=
    (remove_file File fname name (fst st), gm_delete (snd st) name).

  (* merged[k] = append(merged[k], ...) over the per-file exports *)
  Definition api_aggs (fs : list File) : aggmap Agg := merge_aggs Agg (map (fun f => collect true [f]) fs).

  (* report-only run: WithAggregates(merged).WithIgnoreDirectives(dirs), no input *)
  Definition api_report (st : api_state) : list violation :=
    lint_aggregate_violations [] 0 (Some (api_aggs (fst st))) (lint_dirs File fname fcomments (snd st) []).

  (* the replaced file f' is linted by the reporting run itself, which is handed the directive map as it was
     BEFORE the replacement (stale for f'): the run's own entry for f' must win *)
  Definition api_report_mixed (st : api_state) (f' : File) : list violation :=
    lint_aggregate_violations (collect false [f']) 1 (Some (api_aggs (replace_file File fname f' (fst st))))
                              (lint_dirs File fname fcomments (snd st) [f']).

  Definition api_history (fs0 : list File) (edits : list File) : api_state :=
    fold_left api_replace edits (api_init fs0).
End History.
