(* C02 — the router for bundled rules in bundle/regal/main/main.rego, with the dependence of
   everything on input.regal.operations made explicit.

     lint.violations := report if "lint" in input.regal.operations

     report contains violation if {
       some category, title
       _rules_to_run[category][title]                                  (* configuration + file name *)
       count(object.get(_grouped_notices, [category, title], [])) == 0 (* not gated by a notice *)
       some violation in data.regal.rules[category][title].report      (* the rule body *)
       not _ignored(violation, ast.ignore_directives)                  (* regal ignore directives *)
     }

   The rule bodies are evaluated against the SAME input document as the router, so every rule can
   read input.regal.operations — the list the Go side fills with "lint" and, as soon as more than
   one file is linted (operationCollect in lintWithRegoRules), "collect".  Rules that define BOTH
   [report] and [aggregate] (bugs/impossible-not at the pinned commit) produce their aggregate
   entries and their single-file findings from the same evaluation: for them the question whether
   the findings of [report] survive in a "collect" run is not void.  The oracle [body] therefore
   takes the flag «"collect" ∈ input.regal.operations» as an argument, and the composition theorem
   (Props/C02.v, c02_single_file_compose) asks per rule that this argument is not looked at
   (H_ops).  That hypothesis is what the check tests, rule by rule: see Check/C02Check.v,
   [hops_row] / [router_agrees].

   Definitions only. *)
From Regal Require Export Model.Discover.

Section Router.
  (* the rules the router evaluates for a file: _rules_to_run minus the rules gated by a notice;
     keys "category/title".  In main.rego neither depends on the operations. *)
  Variable rules : str -> list str.
  (* data.regal.rules[category][title].report for (rule, file) when "collect" ∈ operations is [b] *)
  Variable body : str -> str -> bool -> list viol.
  (* _ignored(violation, ast.ignore_directives) in the file *)
  Variable ignored : str -> viol -> bool.
  (* the other three parts of the lint query (notices, aggregates, ignore directives) *)
  Variable rest : str -> bool -> result.

  Definition router_report (f : str) (collect : bool) : list viol :=
    flat_map (fun r => filter (fun v => negb (ignored f v)) (body r f collect)) (rules f).

  (* the rule oracle [res] of Model/Discover.v (lint_names, lint_tree), refined *)
  Definition router_res (f : str) (collect : bool) : result :=
    {| r_viol := router_report f collect;
       r_notices := r_notices (rest f collect);
       r_aggs := r_aggs (rest f collect);
       r_dirs := r_dirs (rest f collect) |}.
End Router.

(* A router that does what the seeded change "aggregate rules report in the aggregate phase" does:
   when collecting, rules that also define [aggregate] are not asked for their report.  Used only
   to show that H_ops is necessary (Props/C02.v, c02_compose_needs_ops_independence). *)
Definition skip_when_collecting (has_aggregate : str -> bool) (body : str -> str -> bool -> list viol)
           (r f : str) (collect : bool) : list viol :=
  if collect && has_aggregate r then [] else body r f collect.
