(* cmd/lint.go (RunE of the lint command: tally of the report against --fail-level),
   cmd/exit.go (ExitError) and main.go (mapping of the returned error to the process status).
   Definitions only. *)
From Regal Require Export Model.ReportData.

(* for i := range rep.Violations { switch Level { case "error": errorsFound++; case "warning": warningsFound++ } } *)
Definition tally_step (acc : N * N) (v : violation) : N * N :=
  let '(e, w) := acc in
  if str_eqb (v_level v) L_ERROR then (e + 1, w)
  else if str_eqb (v_level v) L_WARNING then (e, w + 1)
  else acc.

Definition tally (vs : list violation) : N * N := fold_left tally_step vs (0, 0).

(* what lint(args, params) returned: an error (config unreadable, parse error, unknown format,
   reporter write error, ...) or the report that was published *)
Inductive lint_result := LintFailed | LintDone (r : report).

(* the error value cobra's Execute hands to main *)
Inductive cmd_error := NoError | ExitErr (code : N) | OtherErr.

Definition lint_run_e (fail_level : str) (res : lint_result) : cmd_error :=
  match res with
  | LintFailed => ExitErr 1
  | LintDone r =>
    let '(errorsFound, warningsFound) := tally (r_violations r) in
    let c0 := 0 in
    let c1 := if str_eqb fail_level L_ERROR && (0 <? errorsFound) then 3 else c0 in
    let c2 := if str_eqb fail_level L_WARNING
              then (if 0 <? errorsFound then 3 else if 0 <? warningsFound then 2 else c1)
              else c1 in
    if negb (c2 =? 0) then ExitErr c2 else NoError
  end.

(* main.go: code := 1; if errors.As(err, &ExitError) { code = e.Code() }; nil -> status 0 *)
Definition process_exit (e : cmd_error) : N :=
  match e with NoError => 0 | ExitErr c => c | OtherErr => 1 end.

Definition exit_code (fail_level : str) (res : lint_result) : N :=
  process_exit (lint_run_e fail_level res).

(* "a violation of that level was found" *)
Definition has_level (lvl : str) (r : report) : Prop :=
  exists v, In v (r_violations r) /\ v_level v = lvl.

(* ---------------------------------------------------------------- delivery of the report
   lint() in cmd/lint.go: the output channel is opened first (stdout, or --output-file through
   getWriterForOutputFile), then the linter runs, then the reporter writes to the channel;
   `return result, rep.Publish(ctx, result)` hands the write error back together with the report,
   and RunE looks at the error first.  The outcome of the system calls is an oracle. *)
Inductive io_result := IoOk | IoErr.

(* what regal.Lint returned *)
Inductive lint_outcome := LintErr | Linted (r : report).

Definition lint_fn (open_res : io_result) (o : lint_outcome) (publish_res : io_result) : lint_result :=
  match open_res with
  | IoErr => LintFailed                 (* "failed to open output file before use" *)
  | IoOk =>
      match o with
      | LintErr => LintFailed           (* "error(s) encountered while linting" *)
      | Linted r =>
          match publish_res with
          | IoOk => LintDone r
          | IoErr => LintFailed         (* Publish returned the error of a write (or of the final flush) *)
          end
      end
  end.

Definition run_exit (fail_level : str) (open_res : io_result) (o : lint_outcome) (publish_res : io_result) : N :=
  exit_code fail_level (lint_fn open_res o publish_res).

(* ---- the output file ----
   [prev]: the content of the file before the run (None: no such file).
   getWriterForOutputFile: Stat; the file exists -> OpenFile(O_RDWR|O_CREATE|O_TRUNC), otherwise
   os.Create (which truncates too): in both cases the file is empty and the offset is 0. *)
Definition open_truncating (prev : option str) : str := [].

(* what it must not be: opening without O_TRUNC keeps the previous content *)
Definition open_keeping (prev : option str) : str :=
  match prev with Some s => s | None => [] end.

(* write(2) of [data] at offset [off] (<= length of the file) into a file holding [content] *)
Definition write_at (off : nat) (content data : str) : str :=
  (firstn off content ++ data ++ skipn (off + List.length data) content)%list.

(* the reporter's writes, one after the other from offset 0, amount to one write of the rendering *)
Definition file_after (prev : option str) (rendering : str) : str :=
  write_at 0 (open_truncating prev) rendering.

Definition file_after_keeping (prev : option str) (rendering : str) : str :=
  write_at 0 (open_keeping prev) rendering.
