(* cmd/lint.go (RunE of the lint command: tally of the report against --fail-level),
   cmd/exit.go (ExitError) and main.go (mapping of the returned error to the process status).
   Definitions only. *)
From Regal Require Export Model.ReportData.

(* for i := range rep.Violations { switch Level { case "error": errorsFound++; case "warning": warningsFound++ } } *)
Definition tally_step (acc : N * N) (v : violation) : N * N :=
  let '(e, w) := acc in
  if str_eqb (v_level v) L_ERROR then (e + 1, w)
  else if str_eqb (v_level v) L_WARNING then (e, w + 1)
  else acc.

Definition tally (vs : list violation) : N * N := fold_left tally_step vs (0, 0).

(* what lint(args, params) returned: an error (config unreadable, parse error, unknown format,
   reporter write error, ...) or the report that was published *)
Inductive lint_result := LintFailed | LintDone (r : report).

(* the error value cobra's Execute hands to main *)
Inductive cmd_error := NoError | ExitErr (code : N) | OtherErr.

Definition lint_run_e (fail_level : str) (res : lint_result) : cmd_error :=
  match res with
  | LintFailed => ExitErr 1
  | LintDone r =>
    let '(errorsFound, warningsFound) := tally (r_violations r) in
    let c0 := 0 in
    let c1 := if str_eqb fail_level L_ERROR && (0 <? errorsFound) then 3 else c0 in
    let c2 := if str_eqb fail_level L_WARNING
              then (if 0 <? errorsFound then 3 else if 0 <? warningsFound then 2 else c1)
              else c1 in
    if negb (c2 =? 0) then ExitErr c2 else NoError
  end.

(* main.go: code := 1; if errors.As(err, &ExitError) { code = e.Code() }; nil -> status 0 *)
Definition process_exit (e : cmd_error) : N :=
  match e with NoError => 0 | ExitErr c => c | OtherErr => 1 end.

Definition exit_code (fail_level : str) (res : lint_result) : N :=
  process_exit (lint_run_e fail_level res).

(* "a violation of that level was found" *)
Definition has_level (lvl : str) (r : report) : Prop :=
  exists v, In v (r_violations r) /\ v_level v = lvl.
