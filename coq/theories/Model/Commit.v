(* Model of what cmd/fix.go does after the fixer has returned: conflict abort, git gate,
   deletes with directory clean-up (internal/util DirCleanUpPaths), writes; dry-run.
   The file system is a set of regular files (path -> content) plus a set of directories;
   os.Remove / os.MkdirAll / os.WriteFile fail as the real ones do on the shapes that can
   occur here (missing path, non-empty directory, a regular file where a directory is needed,
   a directory where a file is to be written).  Permissions, symlinks and concurrent
   modification of the tree are outside the model.  Definitions only. *)
From Regal Require Export Model.Rename Model.GitGuard.

Section FS.
  Variable C : Type.

  Record fsys := { fs_files : amap C; fs_dirs : list str }.

  Definition fs_is_file (fs : fsys) (p : str) : bool := amem (fs_files fs) p.
  Definition fs_is_dir (fs : fsys) (p : str) : bool := str_in p (fs_dirs fs).
  Definition fs_entries (fs : fsys) : list str := akeys (fs_files fs) ++ fs_dirs fs.
  (* os.ReadDir *)
  Definition fs_children (fs : fsys) (d : str) : list str :=
    filter (fun p => str_eqb (dir p) d && negb (str_eqb p d)) (fs_entries fs).

  Inductive os_result := OsOk (fs : fsys) | OsErr.

  (* os.Remove: a file, or an EMPTY directory *)
  Definition os_remove (fs : fsys) (p : str) : os_result :=
    if fs_is_file fs p then OsOk {| fs_files := adel (fs_files fs) p; fs_dirs := fs_dirs fs |}
    else if fs_is_dir fs p then
      if is_nil (fs_children fs p)
      then OsOk {| fs_files := fs_files fs; fs_dirs := sdel p (fs_dirs fs) |}
      else OsErr
    else OsErr.

  (* os.MkdirAll; [None] = out of fuel (fuel: number of path components suffices) *)
  Fixpoint os_mkdir_all (fuel : nat) (fs : fsys) (d : str) : option os_result :=
    if fs_is_dir fs d then Some (OsOk fs)
    else if fs_is_file fs d then Some OsErr
    else match fuel with
         | O => None
         | S fuel' =>
           let parent := dir d in
           if str_eqb parent d then Some OsErr      (* "/" or "." missing: not a well-formed tree *)
           else match os_mkdir_all fuel' fs parent with
                | Some (OsOk fs') =>
                    Some (OsOk {| fs_files := fs_files fs'; fs_dirs := fs_dirs fs' ++ [d] |})
                | r => r
                end
         end.

  (* os.WriteFile (the parent exists after MkdirAll) *)
  Definition os_write_file (fs : fsys) (f : str) (c : C) : os_result :=
    if fs_is_dir fs f then OsErr
    else if fs_is_dir fs (dir f)
         then OsOk {| fs_files := aset (fs_files fs) f c; fs_dirs := fs_dirs fs |}
         else OsErr.

  (* is some proper ancestor a regular file (stat then says ENOTDIR) *)
  Fixpoint anc_is_file (fuel : nat) (fs : fsys) (p : str) : bool :=
    match fuel with
    | O => false
    | S fuel' => let q := dir p in
                 if str_eqb q p then false else fs_is_file fs q || anc_is_file fuel' fs q
    end.

  Definition fs_stat (fs : fsys) (p : str) : stat_result :=
    if fs_is_dir fs p then StDir
    else if fs_is_file fs p then StFile
    else if anc_is_file (S (length p)) fs p then StOtherErr
    else StNotExist.

  (* os.Lstat succeeds *)
  Definition fs_exists (fs : fsys) (p : str) : bool := fs_is_file fs p || fs_is_dir fs p.

  (* ------------------------------------------------------------ DirCleanUpPaths *)

  Fixpoint preserve_add (fuel : nat) (acc : list str) (p : str) : list str :=
    match fuel with
    | O => acc
    | S fuel' =>
      let acc' := sadd p acc in
      let q := dir p in
      if str_eqb q [DOT] || str_eqb q [SLASH] then acc'
      else if str_in q acc' then acc'
      else preserve_add fuel' acc' q
    end.

  Definition preserve_dirs (roots : list str) : list str :=
    fold_left (fun acc r => preserve_add (S (length r)) acc r) roots [].

  Definition last_opt {A} (l : list A) : option A :=
    match rev l with x :: _ => Some x | [] => None end.

  Inductive cleanup_result := CwOk (dirs : list str) | CwErr | CwOutOfFuel.

  (* the loop of DirCleanUpPaths, called AFTER the target has been removed *)
  Fixpoint cleanup_walk (fuel : nat) (fs : fsys) (target : str) (preserve : list str)
           (d : str) (dirs : list str) : cleanup_result :=
    match fuel with
    | O => CwOutOfFuel
    | S fuel' =>
      if str_in d preserve then CwOk dirs
      else if Nat.eqb (length (split_on SLASH d)) 1 then CwOk dirs
      else if negb (fs_is_dir fs d) then CwErr
      else
        let skip abs :=
          str_eqb abs target ||
          (fs_is_dir fs abs && match last_opt dirs with Some l => str_eqb l abs | None => false end) in
        if forallb skip (fs_children fs d)
        then cleanup_walk fuel' fs target preserve (dir d) (dirs ++ [d])
        else CwOk dirs
    end.

  Definition dir_cleanup_paths (fs : fsys) (target : str) (roots : list str) : cleanup_result :=
    cleanup_walk (S (length target)) fs target (preserve_dirs roots) (dir target) [].

  (* ------------------------------------------------------------ the commit *)

  Inductive commit_result :=
  | CommitOk (fs : fsys)
  | CommitFailed (fs : fsys)     (* stopped with an error; [fs] is what it left behind *)
  | CommitOutOfFuel.

  Fixpoint remove_all (fs : fsys) (ps : list str) : os_result :=
    match ps with
    | [] => OsOk fs
    | p :: ps' => match os_remove fs p with OsOk fs' => remove_all fs' ps' | OsErr => OsErr end
    end.

  (* one iteration of the delete loop *)
  Definition delete_one (roots : list str) (fs : fsys) (file : str) : commit_result :=
    match os_remove fs file with
    | OsErr => CommitFailed fs
    | OsOk fs1 =>
      match dir_cleanup_paths fs1 file roots with
      | CwOutOfFuel => CommitOutOfFuel
      | CwErr => CommitFailed fs1
      | CwOk dirs =>
        (* os.Remove each listed directory; an error leaves the earlier removals in place *)
        (fix go (fs : fsys) (ds : list str) : commit_result :=
           match ds with
           | [] => CommitOk fs
           | d :: ds' => match os_remove fs d with
                         | OsOk fs' => go fs' ds'
                         | OsErr => CommitFailed fs
                         end
           end) fs1 dirs
      end
    end.

  Fixpoint delete_phase (roots : list str) (fs : fsys) (dl : list str) : commit_result :=
    match dl with
    | [] => CommitOk fs
    | f :: dl' =>
      match delete_one roots fs f with
      | CommitOk fs' => delete_phase roots fs' dl'
      | r => r
      end
    end.

  Definition write_one (files : amap C) (fs : fsys) (f : str) : commit_result :=
    match aget files f with
    | None => CommitFailed fs
    | Some c =>
      match os_mkdir_all (S (length f)) fs (dir f) with
      | None => CommitOutOfFuel
      | Some OsErr => CommitFailed fs
      | Some (OsOk fs1) =>
        match os_write_file fs1 f c with
        | OsOk fs2 => CommitOk fs2
        | OsErr => CommitFailed fs1
        end
      end
    end.

  Fixpoint write_phase (files : amap C) (fs : fsys) (ml : list str) : commit_result :=
    match ml with
    | [] => CommitOk fs
    | f :: ml' =>
      match write_one files fs f with
      | CommitOk fs' => write_phase files fs' ml'
      | r => r
      end
    end.

  (* repaired code: the directories of all files to be written are created BEFORE anything is
     removed *)
  Fixpoint mkdir_phase (fs : fsys) (ml : list str) : commit_result :=
    match ml with
    | [] => CommitOk fs
    | f :: ml' =>
      match os_mkdir_all (S (length f)) fs (dir f) with
      | None => CommitOutOfFuel
      | Some OsErr => CommitFailed fs
      | Some (OsOk fs') => mkdir_phase fs' ml'
      end
    end.

  (* pinned code: deletes (each followed by its directory clean-up), then writes.  [dl]/[ml]:
     DeletedFiles() and ModifiedFiles() in the order the Go sets happen to yield them *)
  Definition commit_pinned (roots : list str) (fs : fsys) (files : amap C) (dl ml : list str)
    : commit_result :=
    match delete_phase roots fs dl with
    | CommitOk fs1 => write_phase files fs1 ml
    | r => r
    end.

  (* repaired code: directory creation, deletes, writes *)
  Definition commit (roots : list str) (fs : fsys) (files : amap C) (dl ml : list str)
    : commit_result :=
    match mkdir_phase fs ml with
    | CommitOk fs0 => commit_pinned roots fs0 files dl ml
    | r => r
    end.

  (* ------------------------------------------------------------ the command *)

  Record flags := { fl_force : bool; fl_dry_run : bool }.

  Inductive outcome :=
  | OutFixerError          (* f.Fix returned an error: exit 1 before anything else *)
  | OutConflicts           (* "fixing failed due to conflicts" *)
  | OutGitRefused          (* no repository / error / files with uncommitted changes *)
  | OutDryRun              (* exit 0, nothing written *)
  | OutDone                (* exit 0 *)
  | OutCommitFailed        (* an os call failed half way *)
  | OutOutOfFuel.

  (* git as seen by the command: what FindGitRepo answers and the status keys *)
  Record git_view := { gv_repo : repo_result; gv_status : list str }.

  (* everything after `fixReport, err := f.Fix(...)` *)
  Definition finish_command (fl : flags) (cwd : str) (gv : git_view) (roots : list str)
             (fs : fsys) (lr : loop_result C) (dl ml : list str) : outcome * fsys :=
    match lr with
    | LErr => (OutFixerError, fs)
    | LOutOfFuel => (OutOutOfFuel, fs)
    | LDone p r =>
      if has_conflicts r then (OutConflicts, fs)
      else
        let gate :=
          if negb (fl_dry_run fl) && negb (fl_force fl)
          then git_guard cwd (gv_repo gv) (gv_status gv) (pv_modified p) (pv_deleted p)
          else GProceed in
        match gate with
        | GRefuse => (OutGitRefused, fs)
        | GProceed =>
          if fl_dry_run fl then (OutDryRun, fs)
          else match commit roots fs (pv_files p) dl ml with
               | CommitOk fs' => (OutDone, fs')
               | CommitFailed fs' => (OutCommitFailed, fs')
               | CommitOutOfFuel => (OutOutOfFuel, fs)
               end
        end
    end.

  (* NewInMemoryFileProviderFromFS over the selected files *)
  Fixpoint load_files (fs : fsys) (sel : list str) (acc : amap C) : option (amap C) :=
    match sel with
    | [] => Some acc
    | f :: sel' => match aget (fs_files fs) f with
                   | Some c => load_files fs sel' (aset acc f c)
                   | None => None          (* "failed to read file" *)
                   end
    end.

  Definition load_provider (fs : fsys) (sel : list str) : option (provider C) :=
    match load_files fs sel [] with
    | Some files => Some (new_provider files (fs_entries fs))
    | None => None
    end.
End FS.

Arguments fs_files {C}. Arguments fs_dirs {C}.
Arguments fs_is_file {C}. Arguments fs_is_dir {C}. Arguments fs_entries {C}. Arguments fs_children {C}.
Arguments OsOk {C}. Arguments OsErr {C}.
Arguments os_remove {C}. Arguments os_mkdir_all {C}. Arguments os_write_file {C}.
Arguments fs_stat {C}. Arguments fs_exists {C}. Arguments anc_is_file {C}.
Arguments cleanup_walk {C}. Arguments dir_cleanup_paths {C}.
Arguments CommitOk {C}. Arguments CommitFailed {C}. Arguments CommitOutOfFuel {C}.
Arguments remove_all {C}. Arguments delete_one {C}. Arguments delete_phase {C}.
Arguments write_one {C}. Arguments write_phase {C}. Arguments commit {C}.
Arguments mkdir_phase {C}. Arguments commit_pinned {C}.
Arguments finish_command {C}. Arguments load_files {C}. Arguments load_provider {C}.

(* ---------------------------------------------------------------- specification vocabulary *)
(* no path is both a regular file and a directory *)
Definition fs_wf {C} (fs : fsys C) : Prop :=
  forall p, fs_is_file fs p = true -> fs_is_dir fs p = false.

(* the tree with every file tagged by its own path *)
Definition tag_fs {T} (fs : fsys T) : fsys (tagged T) :=
  {| fs_files := tag_files (fs_files fs); fs_dirs := fs_dirs fs |}.

Definition no_git_view : git_view := {| gv_repo := RepoNone; gv_status := [] |}.

(* tree-shaped file systems: [fs_wf], a duplicate-free file map, "/" is a directory, the parent
   of every entry is a directory *)
Record fs_tree {C} (fs : fsys C) : Prop := {
  tr_wf : fs_wf fs;
  tr_nodup : NoDup (akeys (fs_files fs));
  tr_root : fs_is_dir fs [SLASH] = true;
  tr_parent : forall p, In p (fs_entries fs) -> fs_is_dir fs (dir p) = true }.
Arguments tr_wf {C} fs. Arguments tr_nodup {C} fs. Arguments tr_root {C} fs. Arguments tr_parent {C} fs.

(* a file to delete: a clean absolute name below a directory that the clean-up preserves
   (a project root or an ancestor of one) *)
Definition anchored (preserve : list str) (f : str) : Prop :=
  exists ps rest nb, f = cpath ((ps ++ rest) ++ [nb]) /\ Forall regular (ps ++ rest) /\ regular nb
                     /\ In (cpath ps) preserve.

(* a file to write: directory components and base name *)
Definition target := (list str * str)%type.
Definition tpath (t : target) : str := cpath (fst t ++ [snd t]).
Definition treg (t : target) : Prop := Forall regular (fst t) /\ regular (snd t).
(* [p] is one of the directories on the way to [t] *)
Definition on_the_way (p : str) (t : target) : Prop := exists k, p = cpath (firstn k (fst t)).
(* no file to write is a directory on the way to another one *)
Definition independent (tl : list target) : Prop :=
  forall t u, In t tl -> In u tl -> ~ on_the_way (tpath t) u.
