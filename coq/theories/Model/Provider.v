(* Model of pkg/fixer/fileprovider/inmem.go (InMemoryFileProvider): the Go map [files]
   and the two sets [modifiedFiles]/[deletedFiles], with Put / Delete / Rename.
   The content type is a parameter: the provider never looks inside a file.
   Go maps and sets are association lists / duplicate-free lists; the iteration order
   of a Go map is never observable through these functions (only through List(),
   ModifiedFiles(), DeletedFiles(), whose order the callers' models take as a
   permutation argument).  Definitions only. *)
From Regal Require Export Base.PathModel.

(* ---- clean absolute paths as component lists (specification vocabulary) ----
   cpath [a;b] = "/a/b", cpath [] = "/", rpath [a;b] = "a/b"; a regular component is a
   non-empty name without separator other than "." and "..". *)
Definition regular (c : str) : Prop :=
  c <> [] /\ ~ In SLASH c /\ c <> [DOT] /\ c <> dotdot.
Definition cpath (cs : list str) : str := SLASH :: join [SLASH] cs.
Definition rpath (cs : list str) : str := join [SLASH] cs.

Section Assoc.
  Context {V : Type}.
  Definition amap := list (str * V).

  Fixpoint aget (m : amap) (k : str) : option V :=
    match m with
    | [] => None
    | (k', v) :: m' => if str_eqb k' k then Some v else aget m' k
    end.

  (* m[k] = v : replace in place, else append *)
  Fixpoint aset (m : amap) (k : str) (v : V) : amap :=
    match m with
    | [] => [(k, v)]
    | (k', v') :: m' => if str_eqb k' k then (k, v) :: m' else (k', v') :: aset m' k v
    end.

  (* delete(m, k) *)
  Fixpoint adel (m : amap) (k : str) : amap :=
    match m with
    | [] => []
    | (k', v') :: m' => if str_eqb k' k then adel m' k else (k', v') :: adel m' k
    end.

  Definition akeys (m : amap) : list str := map fst m.
  Definition amem (m : amap) (k : str) : bool :=
    match aget m k with Some _ => true | None => false end.
End Assoc.
Arguments amap V : clear implicits.

(* util.Set[string] *)
Definition sadd (k : str) (s : list str) : list str := if str_in k s then s else s ++ [k].
Definition sdel (k : str) (s : list str) : list str := filter (fun x => negb (str_eqb x k)) s.

Section Provider.
  Variable C : Type.

  (* [pv_disk]: the paths for which os.Lstat succeeds while the fixer runs (the disk is not
     touched before the commit).  Empty for a provider created from a map
     (NewInMemoryFileProvider); for NewInMemoryFileProviderFromFS it is what makes Rename
     refuse a target that exists on disk without having been loaded (repaired code). *)
  Record provider := {
    pv_files : amap C;
    pv_modified : list str;
    pv_deleted : list str;
    pv_disk : list str }.

  Definition new_provider (files : amap C) (disk : list str) : provider :=
    {| pv_files := files; pv_modified := []; pv_deleted := []; pv_disk := disk |}.

  (* Put *)
  Definition pv_put (p : provider) (f : str) (c : C) : provider :=
    {| pv_files := aset (pv_files p) f c;
       pv_modified := sadd f (pv_modified p);
       pv_deleted := pv_deleted p;
       pv_disk := pv_disk p |}.

  (* Delete *)
  Definition pv_delete (p : provider) (f : str) : provider :=
    {| pv_files := adel (pv_files p) f;
       pv_modified := sdel f (pv_modified p);
       pv_deleted := sadd f (pv_deleted p);
       pv_disk := pv_disk p |}.

  Inductive rename_result :=
  | RenOk (p : provider)
  | RenNotFound            (* "file %s not found" *)
  | RenConflict.           (* RenameConflictError *)

  (* a path on disk that this run has not vacated *)
  Definition disk_occupied (p : provider) (f : str) : bool :=
    str_in f (pv_disk p) && negb (str_in f (pv_deleted p)).

  (* Rename, repaired code: a target is refused when it is held by the provider or
     occupies the disk *)
  Definition pv_rename (p : provider) (from to : str) : rename_result :=
    match aget (pv_files p) from with
    | None => RenNotFound
    | Some c =>
        if amem (pv_files p) to || disk_occupied p to then RenConflict
        else RenOk (pv_delete (pv_put p to c) from)
    end.

  (* Rename as the pinned commit had it: only the in-memory map is consulted *)
  Definition pv_rename_pinned (p : provider) (from to : str) : rename_result :=
    match aget (pv_files p) from with
    | None => RenNotFound
    | Some c =>
        if amem (pv_files p) to then RenConflict
        else RenOk (pv_delete (pv_put p to c) from)
    end.
End Provider.

Arguments pv_files {C}. Arguments pv_modified {C}. Arguments pv_deleted {C}. Arguments pv_disk {C}.
Arguments new_provider {C}. Arguments pv_put {C}. Arguments pv_delete {C}.
Arguments pv_rename {C}. Arguments pv_rename_pinned {C}. Arguments disk_occupied {C}.
Arguments RenOk {C}. Arguments RenNotFound {C}. Arguments RenConflict {C}.

(* ---------------------------------------------------------------- specification: invariant *)
(* What relates the provider to the map [files0] it was loaded with and to the paths [disk] that
   exist while the fixer runs; the command's commit relies on exactly these facts. *)
Section ProviderSpec.
  Variable C : Type.
  Variable files0 : amap C.
  Variable disk : list str.

  Record pinv (p : provider C) : Prop := {
    inv_nodup : NoDup (akeys (pv_files p));
    inv_mod_in : forall f, In f (pv_modified p) -> In f (akeys (pv_files p));
    inv_untouched : forall f, In f (akeys (pv_files p)) -> ~ In f (pv_modified p) ->
                              aget (pv_files p) f = aget files0 f;
    inv_gone : forall f, In f (akeys files0) -> ~ In f (akeys (pv_files p)) -> In f (pv_deleted p);
    inv_del : forall f, In f (pv_deleted p) -> In f (akeys (pv_files p)) -> In f (pv_modified p);
    inv_disk : forall f, In f (pv_modified p) -> In f disk -> In f (akeys files0);
    inv_del_disk : forall f, In f (pv_deleted p) -> In f disk -> In f (akeys files0);
    inv_pvdisk : pv_disk p = disk;
    inv_nd_mod : NoDup (pv_modified p);
    inv_nd_del : NoDup (pv_deleted p) }.
End ProviderSpec.
Arguments inv_nodup {C files0 disk p}. Arguments inv_mod_in {C files0 disk p}.
Arguments inv_untouched {C files0 disk p}. Arguments inv_gone {C files0 disk p}.
Arguments inv_del {C files0 disk p}. Arguments inv_disk {C files0 disk p}.
Arguments inv_del_disk {C files0 disk p}. Arguments inv_pvdisk {C files0 disk p}.
Arguments inv_nd_mod {C files0 disk p}. Arguments inv_nd_del {C files0 disk p}.
