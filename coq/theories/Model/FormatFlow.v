(* The server-level producers of text edits in /repo/internal/lsp/server.go: which pair
   (before, after) each of them hands to ComputeEdits, as a function of the content the server
   holds for the document (the cache, i.e. what the client sent in didOpen / didChange), of the
   file on disk, and of oracles for everything that makes up the NEW text (formatter, fix,
   template).  Definitions only; proofs in Proofs/FormatFlow.v.

   * [formatting_flow]      = handleTextDocumentFormatting (result of textDocument/formatting)
   * [fix_flow]             = fixEditParams (params of workspace/applyEdit sent by the command
                              worker for regal.fix.opa-fmt, .use-rego-v1, .use-assignment-operator,
                              .no-whitespace-comment, .non-raw-regex-pattern)
   * [template_worker_flow] = StartTemplateWorker (workspace/applyEdit for a new, empty file)

   The client applies the edits to ITS text.  Property C16 at this level therefore needs
   that `before` is the text the client holds: every flow below passes the cache content
   (or, in the template worker, the literal "" under the guard `content == ""`). *)
From Regal Require Export Model.LspApply.
Open Scope Z_scope.

(* what a formatter / fix returned for a given content: a new text, "nothing to do"
   (len(fixResults) == 0 / TotalFixes() == 0), or an error *)
Inductive oracle_out := ONew (s : str) | ONone | OErr.

(* clientInitializationOptions.Formatter: "opa-fmt" / "opa-fmt-rego-v1" (same branch),
   "regal-fix", anything else *)
Inductive formatter_kind := KOpaFmt | KRegalFix | KUnknown.

(* the answer of a flow *)
Inductive flow_out :=
| FEdits (es : list text_edit) (intended : str) (stored : option str)
    (* the edit list sent; the text the server intends the editor to end up with; [Some t] when
       the server also stores t as the document's new content (cache.SetFileContents) *)
| FEmpty    (* []: nothing to do *)
| FNull     (* null: "could not format" *)
| FError    (* an error response *)
| FSilent   (* no workspace/applyEdit is sent *)
| FBroken.  (* ComputeEdits panicked / ran out of model fuel (proved impossible) *)

Definition is_empty (s : str) : bool := match s with [] => true | _ :: _ => false end.

Definition content (cache : option str) : str := match cache with Some c => c | None => [] end.

Definition is_some {T} (o : option T) : bool := match o with Some _ => true | None => false end.

(* ComputeEdits(before, after) *)
Definition edits_for (before after : str) (stored : option str) : flow_out :=
  match compute_edits before after with
  | Ok es => FEdits es after stored
  | _ => FBroken
  end.

(* templateContentsForFile after the workspace-root test, for a document whose content the
   caller has found empty: the document must be in the (non-ignored) file cache, the file on
   disk must be missing or empty; [template] is the package-path computation (None: error) *)
Definition template_guard (in_file_cache : bool) (disk : option str) (template : option str) : option str :=
  if negb in_file_cache then None
  else match disk with
       | Some (_ :: _) => None
       | _ => template
       end.

(* handleTextDocumentFormatting.  [cache] = what the server holds for the URI in the cache it
   consults (ignored-file cache for ignored URIs, file cache otherwise; a missing entry reads as "") *)
Definition formatting_flow (k : formatter_kind) (in_root ignored : bool) (disk template : option str)
    (formatter : str -> oracle_out) (cache : option str) : flow_out :=
  let old := content cache in
  if is_empty old then
    (* "if the file is empty, then the formatters will fail, so we template instead" *)
    if in_root then FEmpty
    else match template_guard (negb ignored && is_some cache) disk template with
         | None => FError
         | Some t => edits_for old t (Some t)      (* SetFileContents(uri, t); ComputeEdits(oldContent, t) *)
         end
  else
    match k with
    | KUnknown => FError
    | KOpaFmt =>
        match formatter old with
        | OErr => FNull
        | ONone => FEmpty
        | ONew n => edits_for old n None
        end
    | KRegalFix =>
        match formatter old with
        | OErr => FError
        | ONone => FEmpty
        | ONew n => edits_for old n None
        end
    end.

(* fixEditParams: [cache] = file cache entry of args.Target *)
Definition fix_flow (fixf : str -> oracle_out) (cache : option str) : flow_out :=
  match cache with
  | None => FError
  | Some c =>
      match fixf c with
      | OErr => FError
      | ONone => FSilent
      | ONew n => edits_for c n None
      end
  end.

(* StartTemplateWorker: ComputeEdits("", newContents) — correct because templateContentsForFile
   refuses any document whose cached content is not "" *)
Definition template_worker_flow (in_root : bool) (disk template : option str) (cache : option str) : flow_out :=
  if in_root then FSilent
  else match cache with
       | None => FSilent
       | Some c =>
           if is_empty c then
             match template_guard true disk template with
             | None => FSilent
             | Some t => edits_for [] t (Some t)
             end
           else FSilent
       end.

(* the property at this level: the edit list turns the text the client holds into the intended
   text, is ordered / non-overlapping, and stays within the client's document *)
Definition reproduces (es : list text_edit) (client intended : str) : Prop :=
  lsp_apply es client = Some intended /\
  edits_ordered es = true /\
  forallb (edit_in_doc client) es = true.

(* the class of change this model must exclude: the edits are computed from some OTHER text
   than the one the client holds *)
Definition edits_from_other (used_before after : str) : flow_out := edits_for used_before after None.
