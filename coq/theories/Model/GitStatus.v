(* What the git gate is TOLD (C14, round 3): which keys regal's GetChangedFiles hands to the gate for a
   repository with submodules, and of WHICH tree the status is asked.

   internal/git/git.go:
     GetChangedFiles(dir)   = getChangedFiles(dir)                       -- go-git's status of dir itself, an oracle
                              ++ for every p in getSubmodulePaths(dir):  p + "/" + k  for k in GetChangedFiles(dir/p)
     getSubmodulePaths(dir) = the PATH of every submodule registered in dir/.gitmodules (worktree.Submodules(),
                              submodule.Config().Path) for which dir/<path>/.git exists (it is checked out)

   A submodule has a NAME (the key of its sections in .gitmodules and .git/config) and a PATH (where it is checked out);
   they are equal only by default (git submodule add --name, git mv of a submodule).  Definitions only. *)
From Regal Require Export Model.GitGuard Model.Commit.

(* a repository as the gate's status sees it: the keys of its own status, the entries of its .gitmodules
   (name, path), and the repositories that are checked out in directories below it (relative path, repository) *)
Inductive repo :=
| Repo (own : list str) (mods : list (str * str)) (dirs : list (str * repo)).

Definition repo_own (r : repo) : list str := match r with Repo own _ _ => own end.

Definition sub_key (p k : str) : str := p ++ [SLASH] ++ k.

(* is the directory [d] one that the listing of submodules names?  The code takes the PATH of every entry;
   [by_name = true] is NOT the code: it takes the key of the section, the submodule's name (class of seeded
   change C14-6: repo.Config().Submodules is a map keyed by name) *)
Definition sub_listed (by_name : bool) (mods : list (str * str)) (d : str) : bool :=
  str_in d (map (fun m => if by_name then fst m else snd m) mods).

(* GetChangedFiles: the code walks the entries and looks whether <path>/.git exists; as a set of keys that is
   the checked-out directories whose path is listed *)
Fixpoint changed_files (by_name : bool) (r : repo) : list str :=
  match r with
  | Repo own mods dirs =>
      own ++ flat_map (fun dr => match dr with
                                 | (d, r') => if sub_listed by_name mods d
                                              then map (sub_key d) (changed_files by_name r')
                                              else []
                                 end) dirs
  end.

(* specification vocabulary: [reaches r ps r'] -- r' is the repository checked out at ps (a chain of submodule paths)
   below r, every step a registered submodule (under whatever name) that is checked out *)
Inductive reaches : repo -> list str -> repo -> Prop :=
| reach_here r : reaches r [] r
| reach_sub own mods dirs n d r' ps r'' :
    In (n, d) mods -> In (d, r') dirs -> reaches r' ps r'' ->
    reaches (Repo own mods dirs) (d :: ps) r''.

(* the key of the outermost repository for the key k of the repository at ps *)
Definition key_at (ps : list str) (k : str) : str := fold_right sub_key k ps.

(* ---------------------------------------------------------------- WHEN the status is asked *)

(* The command reads its input files from one tree ([fs_read]: the loop result [lr] is computed from it), lints and
   fixes in memory for a while, and then decides and writes on the tree as it is THEN ([fs_now]) -- somebody else may
   have written in between.  [status_of] is the status oracle, a function of the tree it is asked about.
   The code asks it right before the gate ([early = false]); [early = true] is NOT the code: the status taken up
   front, before the files are read (class of seeded change C14-5). *)
Definition command_with_writer {C : Type} (early : bool) (fl : flags) (cwd : str) (rr : repo_result)
           (status_of : fsys C -> list str) (roots : list str) (fs_read fs_now : fsys C)
           (lr : loop_result C) (dl ml : list str) : outcome * fsys C :=
  finish_command fl cwd {| gv_repo := rr; gv_status := status_of (if early then fs_read else fs_now) |}
                 roots fs_now lr dl ml.
