(* pkg/report/report.go as data: Report, Violation, Location, Notice, Summary, and the
   abstract JSON values used for the field-level encode/decode of the struct tags.
   Go [int] fields are non-negative in every report the linter builds; they are [N] here.
   Maps with free-form content (Aggregates, Metrics, IgnoreDirectives) and the Profile slice are
   opaque JSON payloads: [None] = nil/empty (dropped by omitempty), [Some j] = rendered as j. *)
From Regal Require Export Base.Str Base.StrLit.
From Coq Require Import String.

Inductive jval :=
| JNull
| JBool (b : bool)
| JNum (n : N)
| JStr (s : str)
| JArr (l : list jval)
| JObj (fields : list (str * jval)).

Record position := { p_row : N; p_col : N }.

Record location := {
  l_end : option position;      (* End    *Position `json:"end,omitempty"`  *)
  l_text : option str;          (* Text   *string   `json:"text,omitempty"` *)
  l_file : str;                 (* File   string    `json:"file"`           *)
  l_col : N;                    (* Column int       `json:"col"`            *)
  l_row : N;                    (* Row    int       `json:"row"`            *)
  l_offset : N }.               (* Offset int       `json:"offset,omitempty"` *)

Record related := { rr_desc : str; rr_ref : str }.

Record violation := {
  v_title : str;
  v_desc : str;
  v_cat : str;
  v_level : str;
  v_related : list related;     (* `json:"related_resources,omitempty"` *)
  v_loc : location;             (* `json:"location,omitempty"` (a struct: always present) *)
  v_isagg : bool }.             (* `json:"-"` *)

Record notice := { n_title : str; n_desc : str; n_cat : str; n_level : str; n_sev : str }.

Record summary := { s_scanned : N; s_failed : N; s_skipped : N; s_numviol : N }.

Record report := {
  r_aggregates : option jval;   (* `json:"aggregates,omitempty"` *)
  r_metrics : option jval;      (* `json:"metrics,omitempty"` *)
  r_aggprofile : option jval;   (* `json:"-"` *)
  r_ignore : option jval;       (* `json:"ignore_directives,omitempty"` *)
  r_violations : list violation;(* `json:"violations"` *)
  r_notices : list notice;      (* `json:"notices,omitempty"` *)
  r_profile : option jval;      (* `json:"profile,omitempty"` *)
  r_summary : summary }.        (* `json:"summary"` *)

Definition COLON : N := 58.

(* report.Location.String *)
Definition loc_string (l : location) : str :=
  if N.eqb (l_row l) 0 && N.eqb (l_col l) 0 then l_file l
  else l_file l ++ [COLON] ++ show_N (l_row l) ++ [COLON] ++ show_N (l_col l).

Definition L_ERROR : str := Eval vm_compute in lit "error".
Definition L_WARNING : str := Eval vm_compute in lit "warning".
Definition S_NONE : str := Eval vm_compute in lit "none".
Definition S_DOCUMENTATION : str := Eval vm_compute in lit "documentation".

(* reporter.getDocumentationURL: first related resource described as "documentation" *)
Fixpoint doc_url_of (rs : list related) : str :=
  match rs with
  | [] => []
  | r :: rs' => if str_eqb (rr_desc r) S_DOCUMENTATION then rr_ref r else doc_url_of rs'
  end.
Definition doc_url (v : violation) : str := doc_url_of (v_related v).

(* what the property calls "its file, position, rule and level" *)
Definition vkey : Type := (str * N * N * str * str)%type.
Definition key_of (v : violation) : vkey :=
  (l_file (v_loc v), l_row (v_loc v), l_col (v_loc v), v_title v, v_level v).
Definition report_keys (r : report) : list vkey := map key_of (r_violations r).
