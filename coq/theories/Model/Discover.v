(* C02 — which files a lint run looks at: config.FilterIgnoredPaths (walkPaths + filepath.WalkDir
   + io.IsSkipWalkDirectory + the suffix test + filterPaths) followed by rules.InputFromPaths,
   on a file tree datatype.  The file system is a tree of named nodes whose directory entries
   are listed in the order os.ReadDir returns them (sorted by name); symbolic links and
   permissions are not modelled.  Glob matching (excludeFile) is an oracle.  Definitions only. *)
From Regal Require Export Base.PathModel Model.Sched.

Inductive node := File | Dir (children : list (str * node)).

(* the constants at the pinned commit; Gen/WalkConsts.v holds those of the tree of the run *)
Definition spec_skips : list str :=
  [[46;103;105;116]; [46;105;100;101;97]; [110;111;100;101;95;109;111;100;117;108;101;115]]%N.
  (* ".git" ".idea" "node_modules" *)
Definition spec_ext : str := [46;114;101;103;111]%N.        (* ".rego" *)

(* the Name() of the FileInfo that os.Lstat(arg) returns: trailing slashes removed, then the last element *)
Fixpoint strip_slashes_rev (r : str) : str :=
  match r with
  | c :: (_ :: _) as r' => if N.eqb c SLASH then strip_slashes_rev r' else r
  | _ => r
  end.
Definition os_basename (p : str) : str :=
  let q := rev (strip_slashes_rev (rev p)) in
  match after_last_slash q with [] => q | b => b end.

Definition ends_with_slash (p : str) : bool :=
  match rev p with c :: _ :: _ => N.eqb c SLASH | _ => false end.

Section Walk.
  Variable skips : list str.
  Variable ext : str.

  Definition is_skip (name : str) : bool := str_in name skips.
  Definition join_path (p name : str) : str := pjoin [p; name].      (* filepath.Join *)

  (* filepath.WalkDir with the callback of FilterIgnoredPaths: [path] is what the callback sees,
     [name] the entry's own name (for the root: the base name of the argument as spelled) *)
  Fixpoint walk (path name : str) (n : node) {struct n} : list str :=
    match n with
    | File => if has_suffix path ext then [path] else []
    | Dir cs =>
        if is_skip name then []
        else (fix go (cs : list (str * node)) : list str :=
                match cs with
                | [] => []
                | (nm, c) :: cs' => walk (join_path path nm) nm c ++ go cs'
                end) cs
    end.

  (* the same as a relation: f is reachable from the node without passing a skipped directory *)
  Inductive reach : node -> str -> str -> str -> Prop :=
  | reach_file path name : has_suffix path ext = true -> reach File path name path
  | reach_dir cs path name nm c f :
      is_skip name = false -> In (nm, c) cs -> reach c (join_path path nm) nm f ->
      reach (Dir cs) path name f.

  (* ---- arguments ------------------------------------------------------------------------- *)
  (* The process runs in a working directory whose content is [root]; its absolute path is
     spelled /R.  An argument is resolved like os.Stat does. *)
  Fixpoint descend (n : node) (comps : list str) {struct comps} : option node :=
    match comps with
    | [] => Some n
    | c :: cs => match n with
                 | File => None
                 | Dir ch => match mget ch c with Some n' => descend n' cs | None => None end
                 end
    end.

  Inductive resolution := RNode (n : node) | RMissing | ROutside.

  Definition R_NAME : str := [82%N].

  Definition resolve (root : node) (arg : str) : resolution :=
    let c := clean arg in
    let comps := if str_eqb c [DOT] then [] else comps_of c in
    let found (cs : list str) :=
      match descend root cs with
      | Some File => if ends_with_slash arg then RMissing else RNode File   (* ENOTDIR *)
      | Some n => RNode n
      | None => RMissing
      end in
    match arg with
    | [] => RMissing                                                        (* stat "" fails *)
    | _ =>
      if is_rooted c
      then match comps with
           | r :: rest => if str_eqb r R_NAME then found rest else ROutside
           | [] => ROutside
           end
      else match comps with
           | d :: _ => if str_eqb d dotdot then ROutside else found comps
           | [] => found []
           end
    end.

  Inductive dres := DOk (files : list str) | DErr | DOut.

  (* walkPaths: every argument is walked even after an error; any error fails the whole call *)
  Fixpoint walk_args (root : node) (args : list str) : dres :=
    match args with
    | [] => DOk []
    | a :: args' =>
        match resolve root a, walk_args root args' with
        | ROutside, _ => DOut
        | _, DOut => DOut
        | RMissing, _ => DErr
        | RNode _, DErr => DErr
        | RNode n, DOk fs => DOk (walk a (os_basename a) n ++ fs)
        end
    end.

  (* filterPaths; [excl pattern file] is the glob oracle (excludeFile with the run's prefix) *)
  Variable excl : str -> str -> bool.

  Definition excluded (ignore : list str) (f : str) : bool :=
    existsb (fun p => negb (is_nil p) && excl p f) ignore.

  Definition filter_paths (ignore : list str) (files : list str) : list str :=
    filter (fun f => negb (excluded ignore f)) files.

  Definition discover (root : node) (args ignore : list str) : dres :=
    match walk_args root args with
    | DOk fs => DOk (filter_paths ignore fs)
    | r => r
    end.

  (* ---- the lint run on a tree ---------------------------------------------------------- *)
  Variable parses : str -> bool.                    (* does the file with this cleaned name parse *)
  Variable res : str -> bool -> result.             (* rule oracle: file, collect flag *)
  Variable aggreport : amap -> dmap -> list viol.

  Definition parse_fn (p : str) : parsed :=
    let n := clean p in if parses n then POk n [] else PErr.

  Definition lint_names (names : list str) : final :=
    lint_seq aggreport None [] (map (fun f => res f (collect_flag false (length names))) names).

  Inductive lres := LOk (names : list str) (f : final) | LErr | LOut.

  Definition lint_tree (root : node) (args ignore : list str) : lres :=
    match discover root args ignore with
    | DOk files =>
        match input_from_paths parse_fn files with
        | Some names => LOk names (lint_names names)
        | None => LErr
        end
    | DErr => LErr
    | DOut => LOut
    end.
End Walk.
