(* C15 / C17 — model of the language server's cache (internal/lsp/cache/cache.go): the state shared by the
   request handler, the file-lint worker and the workspace-lint worker.

   Granularity: ONE ATOMIC ACCESS of one concurrent map (roast/pkg/util/concurrent.Map: every method takes the
   map's lock for its whole body).  A method of the Cache is a small program ([cprog]) over such accesses, written
   from the source; [cache_sites_modelled] lists the accesses it was written from (compared on every run with
   what tools/gen/lspshape.py extracts from the working tree).  Sequential semantics = run the program; concurrent
   semantics = any interleaving of the atomic steps of the programs of several goroutines ([reachable]).

   Values are immutable ([val]): what a Get hands out can never change afterwards.  The cache-level harness
   checks exactly that of the implementation (results kept and compared again after later operations).

   Definitions only. *)
From Coq Require Import List NArith Bool String.
From Regal Require Import Base.StrLit Model.Lsp.
Import ListNotations.
Open Scope N_scope.
Open Scope string_scope.

(* the concurrent maps of type Cache, in the order of the struct *)
Inductive field :=
| FContents | FIgnored | FModules | FAggs | FDirectives | FDiags | FParseErrs | FBuiltins | FKeywords
| FLineCounts | FRefs.

Definition all_fields : list field :=
  [FContents; FIgnored; FModules; FAggs; FDirectives; FDiags; FParseErrs; FBuiltins; FKeywords; FLineCounts; FRefs].

Definition field_name (f : field) : string :=
  match f with
  | FContents => "fileContents" | FIgnored => "ignoredFileContents" | FModules => "modules"
  | FAggs => "aggregateData" | FDirectives => "ignoreDirectives" | FDiags => "diagnosticsFile"
  | FParseErrs => "diagnosticsParseErrors" | FBuiltins => "builtinPositionsFile"
  | FKeywords => "keywordLocationsFile" | FLineCounts => "successfulParseLineCounts" | FRefs => "fileRefs"
  end.

Definition field_idx (f : field) : N :=
  match f with
  | FContents => 0 | FIgnored => 1 | FModules => 2 | FAggs => 3 | FDirectives => 4 | FDiags => 5
  | FParseErrs => 6 | FBuiltins => 7 | FKeywords => 8 | FLineCounts => 9 | FRefs => 10
  end.
Definition field_eqb (a b : field) : bool := N.eqb (field_idx a) (field_idx b).

(* the order in which Rename and Delete go through the maps *)
Definition op_fields : list field :=
  [FContents; FIgnored; FModules; FAggs; FDirectives; FDiags; FParseErrs; FBuiltins; FKeywords; FRefs; FLineCounts].

(* report.Aggregate: SourceFile, IndexKey, identity of the entry *)
Definition aggent := (uri * N * N)%type.
Definition a_src (a : aggent) : uri := fst (fst a).
Definition a_key (a : aggent) : N := snd (fst a).
Definition a_id (a : aggent) : N := snd a.

Inductive val :=
| VAtom (n : N)              (* file contents, *ast.Module, a map handed in as a whole, a line count: identity only; 0 = nil / "" *)
| VDiags (l : list diag)     (* []types.Diagnostic: (Code, identity) *)
| VAggs (l : list aggent).      (* []report.Aggregate *)

Definition amap := list (uri * val).      (* one concurrent.Map; keys distinct *)
Definition cstate := field -> amap.
Definition cempty : cstate := fun _ => [].

Fixpoint a_get (m : amap) (k : uri) {struct m} : option val :=
  match m with
  | [] => None
  | (k', v) :: m' => if N.eqb k k' then Some v else a_get m' k
  end.

Fixpoint a_set (m : amap) (k : uri) (v : val) {struct m} : amap :=
  match m with
  | [] => [(k, v)]
  | (k', v') :: m' => if N.eqb k k' then (k, v) :: m' else (k', v') :: a_set m' k v
  end.

Definition a_del (m : amap) (k : uri) : amap := filter (fun kv => negb (N.eqb (fst kv) k)) m.

Definition fupd (s : cstate) (f : field) (m : amap) : cstate := fun g => if field_eqb g f then m else s g.

(* ------------------------------------------------------------------ atomic steps *)
(* the two transformers handed to concurrent.Map.UpdateValue *)
Inductive xform :=
| XForRules (rs : list rule) (new : list diag)   (* SetFileDiagnosticsForRules *)
| XAppendAgg (a : aggent).                          (* SetAggregates *)

Inductive kind := KGet | KSet | KDelete | KClear | KClone | KUpdate.

Definition kind_name (k : kind) : string :=
  match k with
  | KGet => "Get" | KSet => "Set" | KDelete => "Delete" | KClear => "Clear" | KClone => "Clone" | KUpdate => "UpdateValue"
  end.

Inductive cstep :=
| SGet (f : field) (k : uri)
| SSet (f : field) (k : uri) (v : val)
| SDel (f : field) (k : uri)
| SClear (f : field)
| SClone (f : field)
| SUpd (f : field) (k : uri) (x : xform).

Inductive sres := RNone | RVal (o : option val) | RMap (m : amap).

(* UpdateValue: the zero value (nil slice) is handed to the transformer when the key is absent *)
Definition apply_xform (x : xform) (cur : option val) : val :=
  match x with
  | XForRules rs new => VDiags (merge_rules rs (match cur with Some (VDiags l) => l | _ => [] end) new)
  | XAppendAgg a => VAggs ((match cur with Some (VAggs l) => l | _ => [] end) ++ [a])
  end.

Definition exec_step (st : cstep) (s : cstate) : cstate * sres :=
  match st with
  | SGet f k => (s, RVal (a_get (s f) k))
  | SSet f k v => (fupd s f (a_set (s f) k v), RNone)
  | SDel f k => (fupd s f (a_del (s f) k), RNone)
  | SClear f => (fupd s f [], RNone)
  | SClone f => (s, RMap (s f))
  | SUpd f k x => (fupd s f (a_set (s f) k (apply_xform x (a_get (s f) k))), RNone)
  end.

Definition step_shape (st : cstep) : field * kind :=
  match st with
  | SGet f _ => (f, KGet) | SSet f _ _ => (f, KSet) | SDel f _ => (f, KDelete)
  | SClear f => (f, KClear) | SClone f => (f, KClone) | SUpd f _ _ => (f, KUpdate)
  end.

(* ------------------------------------------------------------------ operations = exported functions *)
Inductive cop :=
| OGetAll (f : field)                  (* GetAllFiles, GetAllIgnoredFiles, GetAllModules, GetIgnoreDirectives,
                                          GetAllBuiltInPositions, GetAllFileRefs *)
| OGet (f : field) (u : uri)           (* Get<X>(uri) -> (value, ok) *)
| OSet (f : field) (u : uri) (v : val) (* Set<X>(uri, value) *)
| OGetFileRefs (u : uri)               (* value only: nil when absent *)
| OClearIgnored (u : uri)
| OGetContentAndModule (u : uri)
| ORename (u v : uri)
| OSetFileAggregates (u : uri) (data : list (N * list aggent))    (* map IndexKey -> aggregates *)
| OSetAggregates (data : list (N * list aggent))
| OGetFileAggregates (us : list uri)
| OSetFileIgnoreDirectives (u : uri) (data : list (uri * N))   (* map file -> directives of that file *)
| OSetIgnoreDirectives (data : list (uri * N))
| OSetDiagsForRules (u : uri) (rs : list rule) (new : list diag)
| OClearDiags
| ODelete (u : uri)
| OUpdateFromDisk (u : uri) (disk : option N).                 (* None: the file cannot be read *)

Inductive result :=
| RUnit
| ROpt (o : option val)
| RAll (m : amap)
| RPair (o : option (val * val))
| RAggMap (m : list (N * list aggent))
| RDisk (changed : bool) (content : N) (failed : bool).

(* the Go name of an operation; None when the Cache has no such function *)
Definition method_name (o : cop) : option string :=
  match o with
  | OGetAll FContents => Some "GetAllFiles" | OGetAll FIgnored => Some "GetAllIgnoredFiles"
  | OGetAll FModules => Some "GetAllModules" | OGetAll FDirectives => Some "GetIgnoreDirectives"
  | OGetAll FBuiltins => Some "GetAllBuiltInPositions" | OGetAll FRefs => Some "GetAllFileRefs"
  | OGetAll _ => None
  | OGet FContents _ => Some "GetFileContents" | OGet FIgnored _ => Some "GetIgnoredFileContents"
  | OGet FModules _ => Some "GetModule" | OGet FDiags _ => Some "GetFileDiagnostics"
  | OGet FParseErrs _ => Some "GetParseErrors" | OGet FBuiltins _ => Some "GetBuiltinPositions"
  | OGet FKeywords _ => Some "GetKeywordLocations" | OGet FLineCounts _ => Some "GetSuccessfulParseLineCount"
  | OGet _ _ => None
  | OSet FContents _ _ => Some "SetFileContents" | OSet FIgnored _ _ => Some "SetIgnoredFileContents"
  | OSet FModules _ _ => Some "SetModule" | OSet FDiags _ _ => Some "SetFileDiagnostics"
  | OSet FParseErrs _ _ => Some "SetParseErrors" | OSet FBuiltins _ _ => Some "SetBuiltinPositions"
  | OSet FKeywords _ _ => Some "SetKeywordLocations" | OSet FRefs _ _ => Some "SetFileRefs"
  | OSet FLineCounts _ _ => Some "SetSuccessfulParseLineCount"
  | OSet _ _ _ => None
  | OGetFileRefs _ => Some "GetFileRefs"
  | OClearIgnored _ => Some "ClearIgnoredFileContents"
  | OGetContentAndModule _ => Some "GetContentAndModule"
  | ORename _ _ => Some "Rename"
  | OSetFileAggregates _ _ => Some "SetFileAggregates"
  | OSetAggregates _ => Some "SetAggregates"
  | OGetFileAggregates _ => Some "GetFileAggregates"
  | OSetFileIgnoreDirectives _ _ => Some "SetFileIgnoreDirectives"
  | OSetIgnoreDirectives _ => Some "SetIgnoreDirectives"
  | OSetDiagsForRules _ _ _ => Some "SetFileDiagnosticsForRules"
  | OClearDiags => Some "ClearFileDiagnostics"
  | ODelete _ => Some "Delete"
  | OUpdateFromDisk _ _ => Some "UpdateCacheForURIFromDisk"
  end.

(* a method as a program over atomic steps *)
Inductive cprog :=
| Ret (r : result)
| Do (st : cstep) (k : sres -> cprog).

Definition oval (r : sres) : option val := match r with RVal o => o | _ => None end.
Definition omap (r : sres) : amap := match r with RMap m => m | _ => [] end.

Fixpoint rename_prog (fs : list field) (u v : uri) {struct fs} : cprog :=
  match fs with
  | [] => Ret RUnit
  | f :: fs' =>
      Do (SGet f u) (fun r =>
        match oval r with
        | Some x => Do (SSet f v x) (fun _ => Do (SDel f u) (fun _ => rename_prog fs' u v))
        | None => rename_prog fs' u v
        end)
  end.

Fixpoint delete_prog (fs : list field) (u : uri) {struct fs} : cprog :=
  match fs with
  | [] => Ret RUnit
  | f :: fs' => Do (SDel f u) (fun _ => delete_prog fs' u)
  end.

Definition flatten_aggs (data : list (N * list aggent)) : list aggent := flat_map snd data.

Fixpoint append_aggs_prog (l : list aggent) {struct l} : cprog :=
  match l with
  | [] => Ret RUnit
  | a :: l' => Do (SUpd FAggs (a_src a) (XAppendAgg a)) (fun _ => append_aggs_prog l')
  end.

Fixpoint set_dirs_prog (l : list (uri * N)) {struct l} : cprog :=
  match l with
  | [] => Ret RUnit
  | (u, d) :: l' => Do (SSet FDirectives u (VAtom d)) (fun _ => set_dirs_prog l')
  end.

Fixpoint lookup_dir (u : uri) (l : list (uri * N)) {struct l} : N :=
  match l with
  | [] => 0                      (* data[fileURI] of a map without that key: the nil map *)
  | (k, d) :: l' => if N.eqb k u then d else lookup_dir u l'
  end.

(* insertion sorts used for canonical results *)
Fixpoint ins_by {A} (key : A -> N) (x : A) (l : list A) {struct l} : list A :=
  match l with
  | [] => [x]
  | y :: l' => if N.leb (key x) (key y) then x :: l else y :: ins_by key x l'
  end.
Definition sort_by {A} (key : A -> N) (l : list A) : list A := fold_right (ins_by key) [] l.

Fixpoint nodup_N (l : list N) {struct l} : list N :=
  match l with
  | [] => []
  | x :: l' => if existsb (N.eqb x) l' then nodup_N l' else x :: nodup_N l'
  end.

(* GetFileAggregates: all entries of the included files regrouped by IndexKey (canonical: keys and entries sorted) *)
Definition group_aggs (us : list uri) (m : amap) : list (N * list aggent) :=
  let incl (u : uri) := match us with [] => true | _ => existsb (N.eqb u) us end in
  let all := flat_map (fun kv => if incl (fst kv) then match snd kv with VAggs l => l | _ => [] end else []) m in
  let keys := sort_by (fun k => k) (nodup_N (map a_key all)) in
  map (fun k => (k, sort_by a_id (filter (fun a => N.eqb (a_key a) k) all))) keys.

Definition prog_of (o : cop) : cprog :=
  match o with
  | OGetAll f => Do (SClone f) (fun r => Ret (RAll (omap r)))
  | OGet f u => Do (SGet f u) (fun r => Ret (ROpt (oval r)))
  | OSet f u v => Do (SSet f u v) (fun _ => Ret RUnit)
  | OGetFileRefs u => Do (SGet FRefs u) (fun r => Ret (ROpt (Some (match oval r with Some v => v | None => VAtom 0 end))))
  | OClearIgnored u => Do (SDel FIgnored u) (fun _ => Ret RUnit)
  | OGetContentAndModule u =>
      Do (SGet FContents u) (fun rc =>
        match oval rc with
        | None => Ret (RPair None)
        | Some c =>
            Do (SGet FModules u) (fun rm =>
              match oval rm with
              | None => Ret (RPair None)
              | Some m => Ret (RPair (Some (c, m)))
              end)
        end)
  | ORename u v => rename_prog op_fields u v
  | OSetFileAggregates u data =>
      Do (SSet FAggs u (VAggs (filter (fun a => N.eqb (a_src a) u) (flatten_aggs data)))) (fun _ => Ret RUnit)
  | OSetAggregates data => Do (SClear FAggs) (fun _ => append_aggs_prog (flatten_aggs data))
  | OGetFileAggregates us => Do (SClone FAggs) (fun r => Ret (RAggMap (group_aggs us (omap r))))
  | OSetFileIgnoreDirectives u data => Do (SSet FDirectives u (VAtom (lookup_dir u data))) (fun _ => Ret RUnit)
  | OSetIgnoreDirectives data => Do (SClear FDirectives) (fun _ => set_dirs_prog data)
  | OSetDiagsForRules u rs new => Do (SUpd FDiags u (XForRules rs new)) (fun _ => Ret RUnit)
  | OClearDiags => Do (SClear FDiags) (fun _ => Ret RUnit)
  | ODelete u => delete_prog op_fields u
  | OUpdateFromDisk u disk =>
      match disk with
      | None => Ret (RDisk false 0 true)
      | Some d =>
          Do (SGet FContents u) (fun r =>
            match oval r with
            | Some (VAtom c) => if N.eqb c d then Ret (RDisk false c false)
                                else Do (SSet FContents u (VAtom d)) (fun _ => Ret (RDisk true d false))
            | _ => Do (SSet FContents u (VAtom d)) (fun _ => Ret (RDisk true d false))
            end)
      end
  end.

(* sequential execution, with the trace of the accesses made *)
Fixpoint run_prog (p : cprog) (s : cstate) {struct p} : cstate * result * list (field * kind) :=
  match p with
  | Ret r => (s, r, [])
  | Do st k =>
      let '(s1, r) := exec_step st s in
      let '(s2, res, tr) := run_prog (k r) s1 in
      (s2, res, step_shape st :: tr)
  end.

Definition run_op (o : cop) (s : cstate) : cstate * result := let '(s', r, _) := run_prog (prog_of o) s in (s', r).

Fixpoint run_ops (os : list cop) (s : cstate) {struct os} : cstate * list result :=
  match os with
  | [] => (s, [])
  | o :: os' => let '(s1, r) := run_op o s in let '(s2, rs) := run_ops os' s1 in (s2, r :: rs)
  end.

Definition state_after (os : list cop) (s : cstate) : cstate := fst (run_ops os s).

(* ------------------------------------------------------------------ canonical forms and equality *)
Definition diag_eqb (a b : diag) : bool := N.eqb (fst a) (fst b) && N.eqb (snd a) (snd b).
Definition agg_eqb (a b : aggent) : bool := N.eqb (a_src a) (a_src b) && N.eqb (a_key a) (a_key b) && N.eqb (a_id a) (a_id b).

Fixpoint list_eqb {A} (eq : A -> A -> bool) (a b : list A) {struct a} : bool :=
  match a, b with
  | [], [] => true
  | x :: a', y :: b' => eq x y && list_eqb eq a' b'
  | _, _ => false
  end.

(* the order of the entries of one file's aggregates depends on Go's map iteration order: compared sorted *)
Definition val_eqb (a b : val) : bool :=
  match a, b with
  | VAtom x, VAtom y => N.eqb x y
  | VDiags x, VDiags y => list_eqb diag_eqb x y
  | VAggs x, VAggs y => list_eqb agg_eqb (sort_by a_id x) (sort_by a_id y)
  | _, _ => false
  end.

Definition amap_eqb (a b : amap) : bool :=
  list_eqb (fun p q => N.eqb (fst p) (fst q) && val_eqb (snd p) (snd q)) (sort_by fst a) (sort_by fst b).

Definition oval_eqb (a b : option val) : bool :=
  match a, b with
  | None, None => true
  | Some x, Some y => val_eqb x y
  | _, _ => false
  end.

Definition result_eqb (a b : result) : bool :=
  match a, b with
  | RUnit, RUnit => true
  | ROpt x, ROpt y => oval_eqb x y
  | RAll x, RAll y => amap_eqb x y
  | RPair None, RPair None => true
  | RPair (Some (c1, m1)), RPair (Some (c2, m2)) => val_eqb c1 c2 && val_eqb m1 m2
  | RAggMap x, RAggMap y =>
      list_eqb (fun p q => N.eqb (fst p) (fst q) && list_eqb agg_eqb (sort_by a_id (snd p)) (sort_by a_id (snd q)))
               (sort_by fst x) (sort_by fst y)
  | RDisk c1 n1 f1, RDisk c2 n2 f2 => Bool.eqb c1 c2 && N.eqb n1 n2 && Bool.eqb f1 f2
  | _, _ => false
  end.

(* the whole state: one map per field, in the order of [all_fields] *)
Definition dump (s : cstate) : list amap := map s all_fields.
Definition dump_eqb (a b : list amap) : bool := list_eqb amap_eqb a b.

(* ------------------------------------------------------------------ interleavings *)
(* A goroutine: the operations it still has to perform, each with the result it was observed to return; the
   head may be partly executed.  Invariant after [settle]: the head program is a [Do]. *)
Definition thread := list (cprog * result).

(* remove completed operations from the head; None when a completed operation returned something else than observed *)
Fixpoint settle (t : thread) {struct t} : option thread :=
  match t with
  | [] => Some []
  | (Ret r, expect) :: t' => if result_eqb r expect then settle t' else None
  | (Do _ _, _) :: _ => Some t
  end.

Definition thread_of (l : list (cop * result)) : thread := map (fun p => (prog_of (fst p), snd p)) l.

(* one atomic cstep of thread [i] *)
Fixpoint step_nth (i : nat) (ts : list thread) (s : cstate) {struct ts} : option (list thread * cstate) :=
  match ts, i with
  | [], _ => None
  | t :: ts', O =>
      match t with
      | (Do st k, expect) :: t' =>
          let '(s1, r) := exec_step st s in
          match settle ((k r, expect) :: t') with
          | Some t1 => Some (t1 :: ts', s1)
          | None => None
          end
      | _ => None
      end
  | t :: ts', S j =>
      match step_nth j ts' s with
      | Some (ts1, s1) => Some (t :: ts1, s1)
      | None => None
      end
  end.

Definition all_done (ts : list thread) : bool := forallb (fun t => match t with [] => true | _ => false end) ts.

(* is there an interleaving of the atomic steps of the threads (program order kept) in which every operation
   returns its observed result and that ends in a state accepted by [final]?  [fuel] bounds the number of steps. *)
Fixpoint reachable (fuel : nat) (final : cstate -> bool) (ts : list thread) (s : cstate) {struct fuel} : bool :=
  if all_done ts then final s
  else
    match fuel with
    | O => false
    | S n =>
        existsb (fun i => match step_nth i ts s with Some (ts1, s1) => reachable n final ts1 s1 | None => false end)
                (seq 0 (length ts))
    end.

Fixpoint settle_all (ts : list thread) {struct ts} : option (list thread) :=
  match ts with
  | [] => Some []
  | t :: ts' => match settle t, settle_all ts' with Some t1, Some ts1 => Some (t1 :: ts1) | _, _ => None end
  end.

(* linearizability of the atomic steps: observed results and final state of concurrent goroutines are explained
   by an interleaving of the steps of the modelled programs, started in the state reached by [setup] *)
Definition explained (fuel : nat) (setup : list cop) (threads : list (list (cop * result))) (final : list amap) : bool :=
  match settle_all (map thread_of threads) with
  | Some ts => reachable fuel (fun s => dump_eqb (dump s) final) ts (state_after setup cempty)
  | None => false
  end.

(* ------------------------------------------------------------------ the SPLIT variant (what the model excludes) *)
(* SetFileDiagnosticsForRules written as Get, compute, Set: every access still atomic, the sequence is not *)
Definition split_for_rules (u : uri) (rs : list rule) (new : list diag) : cprog :=
  Do (SGet FDiags u) (fun r =>
    let cur := match oval r with Some (VDiags l) => l | _ => [] end in
    Do (SSet FDiags u (VDiags (merge_rules rs cur new))) (fun _ => Ret RUnit)).

Definition diags_of (s : cstate) (u : uri) : list diag :=
  match a_get (s FDiags) u with Some (VDiags l) => l | _ => [] end.

(* ------------------------------------------------------------------ tie to the source *)
(* Every function of package cache (tools/gen/lspshape.py: cache_funcs), in source order. *)
Definition cache_funcs_modelled : list string := [
  "NewCache"; "GetAllFiles"; "GetFileContents"; "SetFileContents"; "GetIgnoredFileContents"; "SetIgnoredFileContents";
  "GetAllIgnoredFiles"; "ClearIgnoredFileContents"; "GetAllModules"; "GetModule"; "SetModule"; "GetContentAndModule";
  "Rename"; "SetFileAggregates"; "SetAggregates"; "GetFileAggregates"; "SetFileIgnoreDirectives"; "SetIgnoreDirectives";
  "GetIgnoreDirectives"; "GetFileDiagnostics"; "SetFileDiagnostics"; "SetFileDiagnosticsForRules"; "ClearFileDiagnostics";
  "GetParseErrors"; "SetParseErrors"; "GetBuiltinPositions"; "SetBuiltinPositions"; "GetAllBuiltInPositions";
  "SetKeywordLocations"; "GetKeywordLocations"; "SetFileRefs"; "GetFileRefs"; "GetAllFileRefs";
  "GetSuccessfulParseLineCount"; "SetSuccessfulParseLineCount"; "Delete"; "UpdateCacheForURIFromDisk"].

(* one operation of the model per function (NewCache = [cempty]); the sample arguments make every branch run *)
Definition sample_ops : list cop := [
  OGetAll FContents; OGet FContents 1; OSet FContents 1 (VAtom 7); OGet FIgnored 1; OSet FIgnored 1 (VAtom 7);
  OGetAll FIgnored; OClearIgnored 1; OGetAll FModules; OGet FModules 1; OSet FModules 1 (VAtom 7); OGetContentAndModule 1;
  ORename 1 2; OSetFileAggregates 1 [(5, [(1, 5, 1)])]; OSetAggregates [(5, [(1, 5, 1); (2, 5, 2)])]; OGetFileAggregates [];
  OSetFileIgnoreDirectives 1 [(1, 3)]; OSetIgnoreDirectives [(1, 3); (2, 4)]; OGetAll FDirectives; OGet FDiags 1;
  OSet FDiags 1 (VDiags []); OSetDiagsForRules 1 [1] [(1, 1)]; OClearDiags; OGet FParseErrs 1; OSet FParseErrs 1 (VDiags []);
  OGet FBuiltins 1; OSet FBuiltins 1 (VAtom 7); OGetAll FBuiltins; OSet FKeywords 1 (VAtom 7); OGet FKeywords 1;
  OSet FRefs 1 (VAtom 7); OGetFileRefs 1; OGetAll FRefs; OGet FLineCounts 1; OSet FLineCounts 1 (VAtom 7); ODelete 1;
  OUpdateFromDisk 1 (Some 8)].

(* a state in which URI 1 has an entry in every map *)
Definition sample_state : cstate :=
  fun f => [(1, match f with FDiags | FParseErrs => VDiags [(1, 1)] | FAggs => VAggs [(1, 5, 1)] | _ => VAtom 7 end)].

(* Every access of a concurrent map, per function, in source order, with the text of its key argument
   (tools/gen/lspshape.py: cache_sites). *)
Definition site := (string * (field * kind * string))%type.

Definition rename_sites : list site :=
  flat_map (fun f => [("Rename", (f, KGet, "oldKey")); ("Rename", (f, KSet, "newKey")); ("Rename", (f, KDelete, "oldKey"))]) op_fields.
Definition delete_sites : list site := map (fun f => ("Delete", (f, KDelete, "fileURI"))) op_fields.

Definition cache_sites_modelled : list site :=
  [ ("GetAllFiles", (FContents, KClone, "")); ("GetFileContents", (FContents, KGet, "fileURI"));
    ("SetFileContents", (FContents, KSet, "fileURI")); ("GetIgnoredFileContents", (FIgnored, KGet, "fileURI"));
    ("SetIgnoredFileContents", (FIgnored, KSet, "fileURI")); ("GetAllIgnoredFiles", (FIgnored, KClone, ""));
    ("ClearIgnoredFileContents", (FIgnored, KDelete, "fileURI")); ("GetAllModules", (FModules, KClone, ""));
    ("GetModule", (FModules, KGet, "fileURI")); ("SetModule", (FModules, KSet, "fileURI")) ]
  ++ rename_sites ++
  [ ("SetFileAggregates", (FAggs, KSet, "fileURI"));
    ("SetAggregates", (FAggs, KClear, "")); ("SetAggregates", (FAggs, KUpdate, "aggregate.SourceFile()"));
    ("GetFileAggregates", (FAggs, KClone, ""));
    ("SetFileIgnoreDirectives", (FDirectives, KSet, "fileURI"));
    ("SetIgnoreDirectives", (FDirectives, KClear, "")); ("SetIgnoreDirectives", (FDirectives, KSet, "fileURI"));
    ("GetIgnoreDirectives", (FDirectives, KClone, ""));
    ("GetFileDiagnostics", (FDiags, KGet, "uri")); ("SetFileDiagnostics", (FDiags, KSet, "fileURI"));
    ("SetFileDiagnosticsForRules", (FDiags, KUpdate, "fileURI"));      (* ONE UpdateValue: read-modify-write under one lock *)
    ("ClearFileDiagnostics", (FDiags, KClear, ""));
    ("GetParseErrors", (FParseErrs, KGet, "uri")); ("SetParseErrors", (FParseErrs, KSet, "fileURI"));
    ("GetBuiltinPositions", (FBuiltins, KGet, "fileURI")); ("SetBuiltinPositions", (FBuiltins, KSet, "fileURI"));
    ("GetAllBuiltInPositions", (FBuiltins, KClone, ""));
    ("SetKeywordLocations", (FKeywords, KSet, "fileURI")); ("GetKeywordLocations", (FKeywords, KGet, "fileURI"));
    ("SetFileRefs", (FRefs, KSet, "fileURI")); ("GetFileRefs", (FRefs, KGet, "fileURI")); ("GetAllFileRefs", (FRefs, KClone, ""));
    ("GetSuccessfulParseLineCount", (FLineCounts, KGet, "fileURI")); ("SetSuccessfulParseLineCount", (FLineCounts, KSet, "fileURI")) ]
  ++ delete_sites.

(* functions composed of other functions of the package (each callee atomic per map entry; the composition is not) *)
Definition cache_calls_modelled : list (string * string) := [
  ("GetContentAndModule", "GetFileContents"); ("GetContentAndModule", "GetModule");
  ("UpdateCacheForURIFromDisk", "GetFileContents"); ("UpdateCacheForURIFromDisk", "SetFileContents")].

(* writes through a slice or map: only GetFileAggregates fills the map it has just made *)
Definition cache_inplace_modelled : list (string * (string * string * bool)) := [
  ("GetFileAggregates", ("elemwrite", "allAggregates", true))].

(* read-modify-write sequences over cache items made OUTSIDE the cache, in internal/lsp/*.go:
   - updateAllDiagnostics reads all ignore directives for the aggregate report and replaces all of them only after a
     full lint (overwriteAggregates), i.e. in different runs;
   - the others read the contents of one URI and store contents for ANOTHER URI (config worker: un-ignored files;
     rename: new URI) or the formatted / templated text the handler itself computed (no merge with the value read). *)
Definition lsp_cache_rmw_modelled : list (string * string * string) := [
  ("lint.go", "updateAllDiagnostics", "IgnoreDirectives");
  ("server.go", "StartConfigWorker", "FileContents");
  ("server.go", "processHoverContentUpdate", "FileContents");
  ("server.go", "handleTextDocumentFormatting", "FileContents");
  ("server.go", "handleWorkspaceDidRenameFiles", "FileContents")].

(* ---- decidable shape conditions ---- *)
Definition string_eqb (a b : string) : bool := if string_dec a b then true else false.

(* no function reads an entry with Get and later writes THE SAME entry (same map, same key expression) with Set:
   such a pair is a read-modify-write that is not atomic although each access is *)
Fixpoint no_get_then_set (l : list site) {struct l} : bool :=
  match l with
  | [] => true
  | (fn, (f, k, key)) :: l' =>
      (match k with
       | KGet => negb (existsb (fun s => string_eqb (fst s) fn && field_eqb (fst (fst (snd s))) f
                                          && match snd (fst (snd s)) with KSet => true | _ => false end
                                          && string_eqb (snd (snd s)) key) l')
       | _ => true
       end) && no_get_then_set l'
  end.

(* every write through a slice or map goes to a variable the function has just created *)
Definition inplace_only_fresh (l : list (string * (string * string * bool))) : bool :=
  forallb (fun e => snd (snd e)) l.

Fixpoint collapse (l : list (field * kind)) {struct l} : list (field * kind) :=
  match l with
  | [] => []
  | x :: l' =>
      match l' with
      | y :: _ => if field_eqb (fst x) (fst y) && string_eqb (kind_name (snd x)) (kind_name (snd y)) then collapse l' else x :: collapse l'
      | [] => [x]
      end
  end.

Definition sites_of (fn : string) : list (field * kind) :=
  map (fun s => fst (snd s)) (filter (fun s => string_eqb (fst s) fn) cache_sites_modelled).

(* the accesses a function is expected to make: its own sites, or (a composition) those of its callees *)
Definition expected_trace (fn : string) : list (field * kind) :=
  match sites_of fn with
  | [] => flat_map (fun c => if string_eqb (fst c) fn then sites_of (snd c) else []) cache_calls_modelled
  | l => l
  end.

Definition shape_eqb (a b : list (field * kind)) : bool :=
  list_eqb (fun x y => field_eqb (fst x) (fst y) && string_eqb (kind_name (snd x)) (kind_name (snd y))) a b.

(* the program of every sample operation makes exactly the accesses listed for its function (loops collapsed) *)
Definition sample_ok (fn : string) (o : cop) : bool :=
  match method_name o with
  | Some n => string_eqb n fn && shape_eqb (collapse (snd (run_prog (prog_of o) sample_state))) (expected_trace fn)
  | None => false
  end.

Fixpoint samples_ok (fns : list string) (os : list cop) {struct fns} : bool :=
  match fns, os with
  | [], [] => true
  | fn :: fns', o :: os' => sample_ok fn o && samples_ok fns' os'
  | _, _ => false
  end.

(* rendering for the comparison with Gen/LspShape.v *)
Definition render_site (s : site) : str * (str * str * str) :=
  (lit (fst s), (lit (field_name (fst (fst (snd s)))), lit (kind_name (snd (fst (snd s)))), lit (snd (snd s)))).
