(* internal/cache/cache.go: the base-document cache handed to OPA by the language server
   (Linter.WithBaseCache).  A trie keyed by reference elements; a node may hold a value (a whole
   sub-document), Put overwrites the node and drops what was cached below it, Get stops at the
   first node on the way that holds a value and looks the rest of the reference up inside it.
   Both operations hold the cache's RWMutex for their whole body, so a concurrent history is a
   sequence of them.  Definitions only. *)
From Regal Require Export Base.Str Model.Shape.

Definition key := N.

Inductive val := VLeaf (n : N) | VObj (fields : list (key * val)).

Fixpoint kget {X} (m : list (key * X)) (k : key) : option X :=
  match m with
  | [] => None
  | (k', v) :: m' => if N.eqb k k' then Some v else kget m' k
  end.

Fixpoint kset {X} (m : list (key * X)) (k : key) (v : X) : list (key * X) :=
  match m with
  | [] => [(k, v)]
  | (k', v') :: m' => if N.eqb k k' then (k, v) :: m' else (k', v') :: kset m' k v
  end.

(* ast.Value.Find: the empty path finds the value itself, a scalar has nothing below it *)
Fixpoint vfind (v : val) (path : list key) {struct path} : option val :=
  match path with
  | [] => Some v
  | k :: p => match v with
              | VLeaf _ => None
              | VObj fs => match kget fs k with Some v' => vfind v' p | None => None end
              end
  end.

Inductive trie := TNode (value : option val) (children : list (key * trie)).

Definition empty_trie : trie := TNode None [].
Definition t_value (t : trie) : option val := match t with TNode v _ => v end.
Definition t_children (t : trie) : list (key * trie) := match t with TNode _ c => c end.

(* Put: walk/create the nodes of ref, then node.set(value) (children dropped) *)
Fixpoint put (t : trie) (ref : list key) (v : val) {struct ref} : trie :=
  match ref with
  | [] => TNode (Some v) []
  | k :: r =>
      let c := match kget (t_children t) k with Some c => c | None => empty_trie end in
      TNode (t_value t) (kset (t_children t) k (put c r v))
  end.

(* Get: the root's own value is never looked at; the first node below it holding a value answers *)
Fixpoint get (t : trie) (ref : list key) {struct ref} : option val :=
  match ref with
  | [] => None
  | k :: r =>
      match kget (t_children t) k with
      | None => None
      | Some c => match t_value c with
                  | Some v => vfind v r
                  | None => get c r
                  end
      end
  end.

(* the value stored at the node reached by path p, if any *)
Fixpoint value_at (t : trie) (p : list key) {struct p} : option val :=
  match p with
  | [] => t_value t
  | k :: p' => match kget (t_children t) k with Some c => value_at c p' | None => None end
  end.

Inductive op := OPut (ref : list key) | OGet (ref : list key).

(* a history in which every Put stores the sub-document of doc at its reference (what OPA does:
   it caches what it just read from the store); Puts of references absent from doc do not occur *)
Fixpoint replay (doc : val) (t : trie) (ops : list op) : list (option val) :=
  match ops with
  | [] => []
  | OPut ref :: ops' =>
      match vfind doc ref with
      | Some v => replay doc (put t ref v) ops'
      | None => replay doc t ops'
      end
  | OGet ref :: ops' => get t ref :: replay doc t ops'
  end.

(* ---- the locking shape of Get and Put (Gen/LinterShape.v holds what goshape extracted) ------- *)
Inductive cloc := CRoot | COtherLoc (name : str).
Definition cloc_eqb (a b : cloc) : bool :=
  match a, b with
  | CRoot, CRoot => true
  | COtherLoc x, COtherLoc y => str_eqb x y
  | _, _ => false
  end.
Definition classify_cache (t : str) : cloc :=
  if str_eqb t [99;46;114;111;111;116]%N then CRoot else COtherLoc t.       (* c.root *)
Definition cache_prog_of (mu : str) (g : list gstmt) : list (stmt cloc) :=
  compile_or_empty classify_cache mu g.
(* the trie is reached through c.root only (and written through pointers obtained from it):
   every use of c.root must sit inside the method's single critical section *)
Definition cache_method_locked (p : list (stmt cloc)) : bool := locked_ok cloc_eqb [CRoot] PBefore p.
