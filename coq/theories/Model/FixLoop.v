(* Model of pkg/fixer/fixer.go applyLinterFixes: lint -> apply -> lint again until an iteration makes no
   fix.  The linter, the formatter fixes (opa-fmt, use-rego-v1) and directory-package-mismatch are
   oracles (Section variables); the three text fixes are those of Model/Fixes.v.  Once a file has been
   fixed in an iteration, only violations of the same rule on rows not yet changed are fixed
   (fixedInIteration); a rename ends the iteration.
   handleRename's conflict loop (OnConflictRename) is explicit: the name tried next is the candidate
   function applied to the name TRIED LAST ([rename_loop]); the function itself (renameCandidate,
   C13's Model/Rename.v rename_candidate) is a Section variable, and the Go loop, which has no bound,
   gets fuel with an explicit out-of-fuel result.  Definitions only. *)
From Regal Require Export Model.Fixes.

Inductive rule := RUao | RNwc | RNrr | RFmt | RV1 | RDpm.

Definition rule_eqb (a b : rule) : bool :=
  match a, b with
  | RUao, RUao | RNwc, RNwc | RNrr, RNrr | RFmt, RFmt | RV1, RV1 | RDpm, RDpm => true
  | _, _ => false
  end.

Record violation := { v_rule : rule; v_file : str; v_loc : loc }.

(* the in-memory file provider: path -> content (first binding of a path wins, as in a map) *)
Definition fs := list (str * str).

Fixpoint fs_get (f : fs) (p : str) : option str :=
  match f with
  | [] => None
  | (q, c) :: t => if str_eqb q p then Some c else fs_get t p
  end.

(* Put: replace the binding, or add one *)
Fixpoint fs_put (f : fs) (p : str) (c : str) : fs :=
  match f with
  | [] => [(p, c)]
  | (q, d) :: t => if str_eqb q p then (q, c) :: t else (q, d) :: fs_put t p c
  end.

Fixpoint fs_del (f : fs) (p : str) : fs :=
  match f with
  | [] => []
  | (q, d) :: t => if str_eqb q p then fs_del t p else (q, d) :: fs_del t p
  end.

(* what a fix returns *)
Inductive fix_result := FNone | FContent (c : str) | FRename (to : str) | FError.

(* files already fixed in this iteration: file -> (rule, rows) *)
Definition fixed_map := list (str * (rule * list Z)).

Fixpoint fixed_get (m : fixed_map) (p : str) : option (rule * list Z) :=
  match m with
  | [] => None
  | (q, x) :: t => if str_eqb q p then Some x else fixed_get t p
  end.

Fixpoint fixed_add (m : fixed_map) (p : str) (r : rule) (row : Z) : fixed_map :=
  match m with
  | [] => [(p, (r, [row]))]
  | (q, (r0, rows)) :: t =>
      if str_eqb q p then (q, (r0, rows ++ [row])) :: t else (q, (r0, rows)) :: fixed_add t p r row
  end.

Definition skip_violation (m : fixed_map) (v : violation) : bool :=
  match fixed_get m (v_file v) with
  | Some (r, rows) => negb (rule_eqb r (v_rule v)) || existsb (Z.eqb (l_row (v_loc v))) rows
  | None => false
  end.

(* PFuel: the candidate loop of a rename ran out of fuel (in Go: it would still be running) *)
Inductive pass_out := PErr | PFuel | POk (files : fs) (made : bool) (conflict : bool).
Inductive loop_out := OutOfFuel | LErr | Done (files : fs) (conflict : bool).

(* ---- handleRename, OnConflictRename: the candidate rounds ---- *)
Section RenameLoop.
  (* renameCandidate *)
  Variable candidate : str -> str.

  (* the k-th name tried for a move to [to]:  to, candidate to, candidate (candidate to), ... *)
  Fixpoint cand_iter (k : nat) (to : str) : str :=
    match k with O => to | S k' => cand_iter k' (candidate to) end.

  (* fp.Rename(from, to) reports a conflict while [to] is held by the provider; every conflict replaces
     [to] by the candidate of the name just tried.  Result: (number of conflicts, name settled on);
     None = out of fuel *)
  Fixpoint rename_loop (fuel : nat) (files : fs) (to : str) : option (nat * str) :=
    match fuel with
    | O => None
    | S f =>
      match fs_get files to with
      | None => Some (O, to)
      | Some _ =>
          match rename_loop f files (candidate to) with
          | Some (k, n) => Some (S k, n)
          | None => None
          end
      end
    end.

  (* a variant that derives every candidate from the target the fix asked for instead of the name
     tried last (to = renameCandidate(fixResult.Rename.ToPath)): see c12_rename_from_target_refuted *)
  Fixpoint rename_loop_from_target (fuel : nat) (files : fs) (target to : str) : option (nat * str) :=
    match fuel with
    | O => None
    | S f =>
      match fs_get files to with
      | None => Some (O, to)
      | Some _ =>
          match rename_loop_from_target f files target (candidate target) with
          | Some (k, n) => Some (S k, n)
          | None => None
          end
      end
    end.
End RenameLoop.

Section Loop.
  (* linting the files with the enabled fixable rules; None = error (e.g. a file does not parse) *)
  Variable lint : fs -> option (list violation).
  (* opa-fmt / use-rego-v1 / directory-package-mismatch on (file, content) *)
  Variable oracle_fix : rule -> str -> str -> fix_result.
  (* OnConflictRename; renameCandidate; fuel of one candidate loop *)
  Variable rename_on_conflict : bool.
  Variable candidate : str -> str.
  Variable rfuel : nat.

  Definition of_fix_out (o : fix_out) : fix_result :=
    match o with Changed c => FContent c | Unchanged => FNone end.

  Definition apply_fix (r : rule) (file content : str) (l : loc) : fix_result :=
    match r with
    | RUao => of_fix_out (uao_fix content [l])
    | RNwc => of_fix_out (nwc_fix content [l])
    | RNrr => of_fix_out (nrr_fix content [l])
    | _ => oracle_fix r file content
    end.

  (* handleRename + InMemoryFileProvider.Rename; returns the files and whether a conflict was registered;
     None = the candidate loop ran out of fuel *)
  Definition handle_rename (files : fs) (from to content : str) : option (fs * bool) :=
    match fs_get files to with
    | None => Some (fs_put (fs_del files from) to content, false)
    | Some _ =>
        if rename_on_conflict
        then match rename_loop candidate rfuel files to with
             | Some (_, name) => Some (fs_put (fs_del files from) name content, false)
             | None => None
             end
        else Some (fs_del files from, true)
    end.

  Fixpoint pass (vs : list violation) (files : fs) (fixed : fixed_map) (made conflict : bool)
    : pass_out :=
    match vs with
    | [] => POk files made conflict
    | v :: rest =>
      if skip_violation fixed v then pass rest files fixed made conflict else
      match fs_get files (v_file v) with
      | None => PErr
      | Some content =>
        match apply_fix (v_rule v) (v_file v) content (v_loc v) with
        | FError => PErr
        | FNone => pass rest files fixed made conflict
        | FRename to =>
            match handle_rename files (v_file v) to content with
            | Some (files', c) => POk files' true (conflict || c)
            | None => PFuel
            end
        | FContent c =>
            pass rest (fs_put files (v_file v) c)
                 (fixed_add fixed (v_file v) (v_rule v) (l_row (v_loc v))) true conflict
        end
      end
    end.

  Fixpoint loop (fuel : nat) (files : fs) (conflict : bool) : loop_out :=
    match fuel with
    | O => OutOfFuel
    | S f =>
      match lint files with
      | None => LErr
      | Some [] => Done files conflict
      | Some vs =>
        match pass vs files [] false conflict with
        | PErr => LErr
        | PFuel => OutOfFuel
        | POk files' made c' => if made then loop f files' c' else Done files' c'
        end
      end
    end.
End Loop.
