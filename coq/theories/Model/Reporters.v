(* pkg/reporter/reporter.go: every Publish as a function from the report to an abstract document,
   i.e. the records of the fields that format carries, in the order it prints them.
   Layout (table padding, XML/JSON escaping, indentation) is not modelled: the harness parses the
   real output with independent parsers into these same records.  Byte-exact where the reporter
   computes text itself: Location.String, the 117-byte cut of pretty's Text row, TrimSpace,
   footers / summary lines, GitHub messages, the JUnit name/message/data strings.
   Definitions only. *)
From Regal Require Export Model.ReportData.
From Coq Require Import String.
Local Open Scope N_scope.

(* ------------------------------------------------------------------ small string helpers *)

Definition pluralize (singular : str) (count : N) : str :=
  if count =? 1 then singular else singular ++ [115].

Definition is_ascii_space (c : N) : bool :=
  (c =? 9) || (c =? 10) || (c =? 11) || (c =? 12) || (c =? 13) || (c =? 32).

(* UTF-8 encodings of the non-ASCII runes for which unicode.IsSpace holds:
   U+0085 U+00A0 | U+1680 U+2000..U+200A U+2028 U+2029 U+202F U+205F U+3000 *)
Definition ws2 (a b : N) : bool := (a =? 194) && ((b =? 133) || (b =? 160)).
Definition ws3 (a b c : N) : bool :=
  ((a =? 225) && (b =? 154) && (c =? 128)) ||
  ((a =? 226) && (b =? 128) && (((128 <=? c) && (c <=? 138)) || (c =? 168) || (c =? 169) || (c =? 175))) ||
  ((a =? 226) && (b =? 129) && (c =? 159)) ||
  ((a =? 227) && (b =? 128) && (c =? 128)).

Fixpoint trim_gen (p2 : N -> N -> bool) (p3 : N -> N -> N -> bool) (s : str) {struct s} : str :=
  match s with
  | [] => []
  | a :: s1 =>
    if is_ascii_space a then trim_gen p2 p3 s1 else
    match s1 with
    | b :: s2 =>
      if p2 a b then trim_gen p2 p3 s2 else
      match s2 with
      | c :: s3 => if p3 a b c then trim_gen p2 p3 s3 else s
      | [] => s
      end
    | [] => s
    end
  end.

Definition trim_left (s : str) : str := trim_gen ws2 ws3 s.
Definition trim_right (s : str) : str :=
  rev (trim_gen (fun a b => ws2 b a) (fun a b c => ws3 c b a) (rev s)).
(* strings.TrimSpace *)
Definition trim_space (s : str) : str := trim_right (trim_left s).

(* slices.Sort on strings: bytewise lexicographic order *)
Fixpoint str_leb (a b : str) : bool :=
  match a, b with
  | [], _ => true
  | _ :: _, [] => false
  | x :: a', y :: b' => if x <? y then true else if y <? x then false else str_leb a' b'
  end.

Fixpoint insert_sorted (x : str) (l : list str) : list str :=
  match l with
  | [] => [x]
  | y :: l' => if str_leb x y then x :: l else y :: insert_sorted x l'
  end.
Fixpoint sort_strs (l : list str) : list str :=
  match l with [] => [] | x :: l' => insert_sorted x (sort_strs l') end.

(* keep the first occurrence of every string *)
Fixpoint first_seen (seen : list str) (l : list str) : list str :=
  match l with
  | [] => []
  | x :: l' => if str_in x seen then first_seen seen l' else x :: first_seen (x :: seen) l'
  end.

Definition count_level (lvl : str) (vs : list violation) : N :=
  N.of_nat (List.length (filter (fun v => str_eqb (v_level v) lvl) vs)).

(* ------------------------------------------------------------------ pretty (and festive) *)

Definition is_cont (c : N) : bool := (128 <=? c) && (c <? 192).   (* !utf8.RuneStart *)

Fixpoint drop_partial_rune (rp : str) : str :=
  match rp with
  | [] => []
  | c :: rp' => if is_cont c then drop_partial_rune rp' else rp'
  end.

(* cut := k; for cut > 0 && !utf8.RuneStart(t[cut]) { cut-- }; t[:cut]   (only called with k < len t) *)
Definition cut_at_rune (t : str) (k : nat) : str :=
  match skipn k t with
  | c :: _ => if is_cont c then rev (drop_partial_rune (rev (firstn k t))) else firstn k t
  | [] => firstn k t
  end.

Definition ELLIPSIS : str := [46; 46; 46].
Definition TEXT_CUT : nat := 117.

(* pinned commit: text[:117] + "..." — a byte cut *)
Definition pretty_text_pinned (t : str) : str :=
  if Nat.ltb TEXT_CUT (List.length t) then firstn TEXT_CUT t ++ ELLIPSIS else trim_space t.

(* current code: the cut backs up to the start of the rune it would split *)
Definition pretty_text (t : str) : str :=
  if Nat.ltb TEXT_CUT (List.length t) then cut_at_rune t TEXT_CUT ++ ELLIPSIS else trim_space t.

(* without colour support a "Level:" row is printed; with colours the level is only visible as
   the colour of the description: yellow for "warning", red for anything else *)
Inductive level_repr := LevelRow (lvl : str) | DescColour (yellow : bool).

Record pretty_entry := {
  pe_rule : str; pe_level : level_repr; pe_desc : str; pe_cat : str;
  pe_loc : str; pe_text : option str; pe_docurl : str }.

Definition pretty_entry_gen (cut : str -> str) (nocolor : bool) (v : violation) : pretty_entry :=
  {| pe_rule := v_title v;
     pe_level := if nocolor then LevelRow (v_level v) else DescColour (str_eqb (v_level v) L_WARNING);
     pe_desc := v_desc v; pe_cat := v_cat v;
     pe_loc := loc_string (v_loc v);
     pe_text := option_map cut (l_text (v_loc v));
     pe_docurl := doc_url v |}.

Definition notice_lines (ns : list notice) : str :=
  flat_map (fun n => if str_eqb (n_sev n) S_NONE then []
                     else lit "- " ++ n_title n ++ lit ": " ++ n_desc n ++ [10]) ns.

(* everything the pretty reporter prints after the table, without the final newline *)
Definition pretty_footer (r : report) : str :=
  let s := r_summary r in
  let nw := count_level L_WARNING (r_violations r) in
  let ne := count_level L_ERROR (r_violations r) in
  show_N (s_scanned s) ++ [32] ++ pluralize (lit "file") (s_scanned s) ++ lit " linted." ++
  (if s_numviol s =? 0 then lit " No violations found."
   else [32] ++ show_N (s_numviol s) ++ [32] ++ pluralize (lit "violation") (s_numviol s) ++ [32] ++
        (if 0 <? nw
         then lit "(" ++ show_N ne ++ [32] ++ pluralize (lit "error") ne ++ lit ", " ++
              show_N nw ++ [32] ++ pluralize (lit "warning") nw ++ lit ") found"
         else lit "found") ++
        (if (1 <? s_scanned s) && (0 <? s_failed s)
         then lit " in " ++ show_N (s_failed s) ++ [32] ++ pluralize (lit "file") (s_failed s) ++ lit "."
         else lit ".")) ++
  (if 0 <? s_skipped s
   then [32] ++ show_N (s_skipped s) ++ [32] ++ pluralize (lit "rule") (s_skipped s) ++ lit " skipped:" ++ [10] ++
        notice_lines (r_notices r)
   else []).

Record pretty_doc := { pd_entries : list pretty_entry; pd_footer : str }.

Definition pretty_gen (cut : str -> str) (nocolor : bool) (r : report) : pretty_doc :=
  {| pd_entries := map (pretty_entry_gen cut nocolor) (r_violations r);
     pd_footer := pretty_footer r |}.

Definition pretty := pretty_gen pretty_text.
Definition pretty_pinned := pretty_gen pretty_text_pinned.

(* ------------------------------------------------------------------ compact *)

Inductive compact_doc :=
| CompactEmpty                                                   (* no violations: a bare newline *)
| CompactTable (rows : list (str * str)) (summary : str).        (* Location | Description *)

Definition compact_summary (r : report) : str :=
  let s := r_summary r in
  show_N (s_scanned s) ++ [32] ++ pluralize (lit "file") (s_scanned s) ++ lit " linted , " ++
  show_N (s_numviol s) ++ [32] ++ pluralize (lit "violation") (s_numviol s) ++ lit " found.".

Definition compact (r : report) : compact_doc :=
  match r_violations r with
  | [] => CompactEmpty
  | vs => CompactTable (map (fun v => (loc_string (v_loc v), v_desc v)) vs) (compact_summary r)
  end.

(* ------------------------------------------------------------------ github *)

Record gh_annotation := { ga_level : str; ga_file : str; ga_row : N; ga_col : N; ga_msg : str }.

Definition learn_more (v : violation) : str :=
  v_desc v ++ lit ". To learn more, see: " ++ doc_url v.

Definition gh_annotation_of (v : violation) : gh_annotation :=
  {| ga_level := v_level v; ga_file := l_file (v_loc v);
     ga_row := l_row (v_loc v); ga_col := l_col (v_loc v); ga_msg := learn_more v |}.

(* actions/toolkit command.ts escapeData / escapeProperty (what strings.NewReplacer does in one pass) *)
Definition esc_byte (property : bool) (c : N) : str :=
  if c =? 37 then [37; 50; 53]                       (* %  -> %25 *)
  else if c =? 13 then [37; 48; 68]                  (* \r -> %0D *)
  else if c =? 10 then [37; 48; 65]                  (* \n -> %0A *)
  else if property && (c =? 58) then [37; 51; 65]    (* :  -> %3A *)
  else if property && (c =? 44) then [37; 50; 67]    (* ,  -> %2C *)
  else [c].
Definition gh_escape (property : bool) (s : str) : str := flat_map (esc_byte property) s.

(* the runner's unescape on escaped text (it replaces %0D, %0A, (%3A, %2C,) and finally %25) *)
Fixpoint gh_unescape (property : bool) (s : str) {struct s} : str :=
  match s with
  | [] => []
  | c :: s1 =>
    match s1 with
    | a :: (b :: r) =>
      if c =? 37 then
        if (a =? 48) && (b =? 68) then 13 :: gh_unescape property r
        else if (a =? 48) && (b =? 65) then 10 :: gh_unescape property r
        else if property && (a =? 51) && (b =? 65) then 58 :: gh_unescape property r
        else if property && (a =? 50) && (b =? 67) then 44 :: gh_unescape property r
        else if (a =? 50) && (b =? 53) then 37 :: gh_unescape property r
        else c :: gh_unescape property s1
      else c :: gh_unescape property s1
    | _ => c :: gh_unescape property s1
    end
  end.

Definition GH_FILE_EQ : str := Eval vm_compute in lit "file=".
Definition GH_LINE_EQ : str := Eval vm_compute in lit "line=".
Definition GH_COL_EQ : str := Eval vm_compute in lit "col=".
Definition GH_FILE : str := Eval vm_compute in lit "file".
Definition GH_LINE : str := Eval vm_compute in lit "line".
Definition GH_COL : str := Eval vm_compute in lit "col".

(* "::level file=F,line=R,col=C::message" *)
Definition gh_command_line (a : gh_annotation) : str :=
  [58; 58] ++ ga_level a ++ 32 :: GH_FILE_EQ ++ gh_escape true (ga_file a) ++
  44 :: GH_LINE_EQ ++ show_N (ga_row a) ++ 44 :: GH_COL_EQ ++ show_N (ga_col a) ++
  58 :: 58 :: gh_escape false (ga_msg a).

(* key=value at the first '='; a pair with an empty side is dropped (Split with RemoveEmptyEntries) *)
Fixpoint split_first (c : N) (s : str) : option (str * str) :=
  match s with
  | [] => None
  | x :: s' => if x =? c then Some ([], s')
               else match split_first c s' with Some (k, v) => Some (x :: k, v) | None => None end
  end.

Fixpoint prop_lookup (k : str) (props : list str) (acc : option str) : option str :=
  match props with
  | [] => acc
  | p :: props' =>
    match split_first 61 p with
    | Some (k', v) => if str_eqb k k' && negb (str_eqb v []) && negb (str_eqb k' [])
                      then prop_lookup k props' (Some v) else prop_lookup k props' acc
    | None => prop_lookup k props' acc
    end
  end.

(* the GitHub Actions runner's ActionCommand.TryParseV2, for commands with properties *)
Definition gh_parse_command (line : str) : option gh_annotation :=
  match drop_prefix line [58; 58] with
  | None => None
  | Some rest =>
    match index_of rest [58; 58] with
    | None => None
    | Some i =>
      let info := firstn i rest in
      let data := skipn (i + 2) rest in
      match index_byte 32 info with
      | None => None
      | Some sp =>
        let props := split_on 44 (skipn (S sp) info) in
        match prop_lookup GH_FILE props None, prop_lookup GH_LINE props None, prop_lookup GH_COL props None with
        | Some f, Some l, Some c =>
          match read_N l, read_N c with
          | Some row, Some col =>
            Some {| ga_level := firstn sp info; ga_file := gh_unescape true f; ga_row := row; ga_col := col;
                    ga_msg := gh_unescape false data |}
          | _, _ => None
          end
        | _, _, _ => None
        end
      end
    end
  end.

(* pinned commit: file name and message were written as they are *)
Definition gh_command_line_pinned (a : gh_annotation) : str :=
  [58; 58] ++ ga_level a ++ 32 :: GH_FILE_EQ ++ ga_file a ++
  44 :: GH_LINE_EQ ++ show_N (ga_row a) ++ 44 :: GH_COL_EQ ++ show_N (ga_col a) ++
  58 :: 58 :: ga_msg a.

(* what regal writes as command name and file: a level without space or colon, a non-empty file name *)
Definition gh_wf (a : gh_annotation) : Prop :=
  ~ In 32 (ga_level a) /\ ~ In 58 (ga_level a) /\ ga_file a <> [].

(* the table, the annotations as a conforming consumer reads them, and the command lines as written *)
Record github_doc := { gd_pretty : pretty_doc; gd_annotations : list gh_annotation; gd_lines : list str }.

Definition github_gen (cut : str -> str) (nocolor : bool) (r : report) : github_doc :=
  {| gd_pretty := pretty_gen cut nocolor r;
     gd_annotations := map gh_annotation_of (r_violations r);
     gd_lines := map (fun v => gh_command_line (gh_annotation_of v)) (r_violations r) |}.
Definition github := github_gen pretty_text.

(* ------------------------------------------------------------------ sarif *)

Record sarif_rule := { sru_id : str; sru_desc : str; sru_help : option str; sru_cat : str }.
Record sarif_region := { sg_row : N; sg_col : N; sg_end : option (N * N) }.
Record sarif_result := {
  sr_rule : str; sr_index : option N; sr_kind : option str; sr_level : str; sr_msg : str;
  sr_loc : option (str * option sarif_region) }.   (* artifact uri, region *)
Record sarif_doc := {
  sd_rules : list sarif_rule; sd_artifacts : list str; sd_results : list sarif_result }.

(* run.AddRule(id) returns the existing descriptor with that id or appends a new one;
   the With… calls then overwrite its fields *)
Fixpoint upsert_rule (id : str) (upd : sarif_rule -> sarif_rule) (rules : list sarif_rule) : list sarif_rule :=
  match rules with
  | [] => [upd {| sru_id := id; sru_desc := []; sru_help := None; sru_cat := [] |}]
  | x :: rules' => if str_eqb (sru_id x) id then upd x :: rules' else x :: upsert_rule id upd rules'
  end.

Fixpoint rule_index (id : str) (rules : list sarif_rule) (i : N) : option N :=
  match rules with
  | [] => None
  | x :: rules' => if str_eqb (sru_id x) id then Some i else rule_index id rules' (i + 1)
  end.

Definition add_distinct (uri : str) (arts : list str) : list str :=
  if str_in uri arts then arts else arts ++ [uri].

Definition sarif_region_of (l : location) : option sarif_region :=
  if (0 <? l_row l) && (0 <? l_col l)
  then Some {| sg_row := l_row l; sg_col := l_col l;
               sg_end := option_map (fun e => (p_row e, p_col e)) (l_end l) |}
  else None.

Definition sarif_violation_step (d : sarif_doc) (v : violation) : sarif_doc :=
  let rules := upsert_rule (v_title v)
                 (fun x => {| sru_id := sru_id x; sru_desc := v_desc v;
                              sru_help := Some (doc_url v); sru_cat := v_cat v |}) (sd_rules d) in
  {| sd_rules := rules;
     sd_artifacts := add_distinct (l_file (v_loc v)) (sd_artifacts d);
     sd_results := sd_results d ++
       [{| sr_rule := v_title v; sr_index := rule_index (v_title v) rules 0; sr_kind := None;
           sr_level := v_level v; sr_msg := v_desc v;
           sr_loc := Some (l_file (v_loc v), sarif_region_of (v_loc v)) |}] |}.

Definition S_INFORMATIONAL : str := Eval vm_compute in lit "informational".

Definition sarif_notice_step (d : sarif_doc) (n : notice) : sarif_doc :=
  if str_eqb (n_sev n) S_NONE then d else
  let rules := upsert_rule (n_title n)
                 (fun x => {| sru_id := sru_id x; sru_desc := n_desc n;
                              sru_help := sru_help x; sru_cat := n_cat n |}) (sd_rules d) in
  {| sd_rules := rules;
     sd_artifacts := sd_artifacts d;
     sd_results := sd_results d ++
       [{| sr_rule := n_title n; sr_index := rule_index (n_title n) rules 0;
           sr_kind := Some S_INFORMATIONAL; sr_level := S_NONE; sr_msg := n_desc n; sr_loc := None |}] |}.

Definition sarif (r : report) : sarif_doc :=
  fold_left sarif_notice_step (r_notices r)
    (fold_left sarif_violation_step (r_violations r)
       {| sd_rules := []; sd_artifacts := []; sd_results := [] |}).

(* Cross-references inside ONE sarif document (seed round 3).  A result names its rule twice: by id
   ([sr_rule] = ruleId) and by position in tool.driver.rules ([sr_index] = ruleIndex, which consumers
   use to look up description / help URI / category when it is present); its location names a file
   that the artifacts list must contain.  [sarif_refs_consistent] is what a consumer may rely on; it
   is evaluated on the model's document (theorem) and on every observed document (Check/C10Check.v). *)
Definition sarif_rule_ref_ok (rules : list sarif_rule) (x : sarif_result) : bool :=
  match sr_index x with
  | Some i => match nth_error rules (N.to_nat i) with
              | Some ru => str_eqb (sru_id ru) (sr_rule x)
              | None => false
              end
  | None => existsb (fun ru => str_eqb (sru_id ru) (sr_rule x)) rules
  end.
Definition sarif_artifact_ref_ok (arts : list str) (x : sarif_result) : bool :=
  match sr_loc x with Some (uri, _) => str_in uri arts | None => true end.
Definition sarif_refs_consistent (d : sarif_doc) : bool :=
  forallb (fun x => sarif_rule_ref_ok (sd_rules d) x && sarif_artifact_ref_ok (sd_artifacts d) x)
          (sd_results d).
(* the class of defect "tool.driver.rules re-ordered after the results were created" (here: reversed) *)
Definition sarif_rules_reordered (d : sarif_doc) : sarif_doc :=
  {| sd_rules := rev (sd_rules d); sd_artifacts := sd_artifacts d; sd_results := sd_results d |}.

(* ------------------------------------------------------------------ junit *)

(* encoding/xml writes U+FFFD for every rune outside the XML Char production; the reporter now does
   the same for the CDATA body.  Byte-level on valid UTF-8: C0 controls other than \t \n \r, and
   U+FFFE / U+FFFF. *)
Definition FFFD : str := [239; 191; 189].
Fixpoint xml_safe (s : str) {struct s} : str :=
  match s with
  | [] => []
  | a :: s1 =>
    if (a <? 32) && negb ((a =? 9) || (a =? 10) || (a =? 13)) then FFFD ++ xml_safe s1
    else match s1 with
         | b :: (c :: s3) as s2 =>
           if (a =? 239) && (b =? 191) && ((c =? 190) || (c =? 191)) then FFFD ++ xml_safe s3
           else a :: xml_safe s1
         | _ => a :: xml_safe s1
         end
  end.

Record junit_case := {
  jc_name : str;        (* "category/title: description" *)
  jc_class : str;       (* Location.String() *)
  jc_msg : str;         (* failure message *)
  jc_type : str;        (* failure type = level *)
  jc_data : str;        (* CDATA body *)
  jc_rule : str }.      (* the "Rule: " line of the body (titles contain no newline) *)

Record junit_suite := { js_name : str; js_tests : N; js_failures : N; js_cases : list junit_case }.
Record junit_doc := { jd_tests : N; jd_failures : N; jd_suites : list junit_suite }.

Definition junit_text (v : violation) : str :=
  match l_text (v_loc v) with Some t => trim_space t | None => [] end.

Definition junit_data (v : violation) : str :=
  lit "Rule: " ++ v_title v ++ [10] ++ lit "Description: " ++ v_desc v ++ [10] ++
  lit "Category: " ++ v_cat v ++ [10] ++ lit "Location: " ++ loc_string (v_loc v) ++ [10] ++
  lit "Text: " ++ junit_text v ++ [10] ++ lit "Documentation: " ++ doc_url v.

(* attribute values pass through encoding/xml's own escaping ([xml_safe]); [safe] is what the reporter
   applies to the CDATA body *)
Definition junit_case_gen (safe : str -> str) (v : violation) : junit_case :=
  {| jc_name := xml_safe (v_cat v ++ [47] ++ v_title v ++ lit ": " ++ v_desc v);
     jc_class := xml_safe (loc_string (v_loc v));
     jc_msg := xml_safe (learn_more v);
     jc_type := xml_safe (v_level v);
     jc_data := safe (junit_data v);
     jc_rule := safe (v_title v) |}.

Definition junit_suite_gen (safe : str -> str) (vs : list violation) (file : str) : junit_suite :=
  let mine := filter (fun v => str_eqb (l_file (v_loc v)) file) vs in
  {| js_name := xml_safe file;
     js_tests := N.of_nat (List.length mine); js_failures := N.of_nat (List.length mine);
     js_cases := map (junit_case_gen safe) mine |}.

Definition sum_N (l : list N) : N := fold_left N.add l 0.

Definition junit_gen (safe : str -> str) (files : list str -> list str) (r : report) : junit_doc :=
  let vs := r_violations r in
  let suites := map (junit_suite_gen safe vs) (files (map (fun v => l_file (v_loc v)) vs)) in
  {| jd_tests := sum_N (map js_tests suites); jd_failures := sum_N (map js_failures suites);
     jd_suites := suites |}.

(* the redundant counts of ONE junit document: tests= / failures= of every suite and of the whole
   document against the test cases listed (every test case of this reporter is a failure) *)
Definition junit_counts_consistent (d : junit_doc) : bool :=
  forallb (fun s => (js_tests s =? N.of_nat (List.length (js_cases s))) &&
                    (js_failures s =? N.of_nat (List.length (js_cases s)))) (jd_suites d) &&
  (jd_tests d =? sum_N (map (fun s => N.of_nat (List.length (js_cases s))) (jd_suites d))) &&
  (jd_failures d =? sum_N (map (fun s => N.of_nat (List.length (js_cases s))) (jd_suites d))).

(* pinned commit: the file name is appended once per violation, sorted, never compacted,
   and the CDATA body is written as is *)
Definition junit_pinned := junit_gen (fun s => s) sort_strs.
(* current code: a file is listed when first seen *)
Definition junit_files (fs : list str) : list str := sort_strs (first_seen [] fs).
Definition junit := junit_gen xml_safe junit_files.

(* ------------------------------------------------------------------ json *)

Definition K (s : string) : str := lit s.

Definition opt_field (k : str) (o : option jval) : list (str * jval) :=
  match o with Some j => [(k, j)] | None => [] end.

Definition enc_position (p : position) : jval :=
  JObj [(K "row", JNum (p_row p)); (K "col", JNum (p_col p))].

Definition location_fields (l : location) : list (str * jval) :=
  opt_field (K "end") (option_map enc_position (l_end l)) ++
  opt_field (K "text") (option_map JStr (l_text l)) ++
  [(K "file", JStr (l_file l)); (K "col", JNum (l_col l)); (K "row", JNum (l_row l))] ++
  (if l_offset l =? 0 then [] else [(K "offset", JNum (l_offset l))]).
Definition enc_location (l : location) : jval := JObj (location_fields l).

Definition enc_related (x : related) : jval :=
  JObj [(K "description", JStr (rr_desc x)); (K "ref", JStr (rr_ref x))].

Definition violation_fields (v : violation) : list (str * jval) :=
  [(K "title", JStr (v_title v)); (K "description", JStr (v_desc v));
   (K "category", JStr (v_cat v)); (K "level", JStr (v_level v))] ++
  (match v_related v with [] => [] | rs => [(K "related_resources", JArr (map enc_related rs))] end) ++
  [(K "location", enc_location (v_loc v))].
Definition enc_violation (v : violation) : jval := JObj (violation_fields v).

Definition enc_notice (n : notice) : jval :=
  JObj [(K "title", JStr (n_title n)); (K "description", JStr (n_desc n)); (K "category", JStr (n_cat n));
        (K "level", JStr (n_level n)); (K "severity", JStr (n_sev n))].

Definition enc_summary (s : summary) : jval :=
  JObj [(K "files_scanned", JNum (s_scanned s)); (K "files_failed", JNum (s_failed s));
        (K "rules_skipped", JNum (s_skipped s)); (K "num_violations", JNum (s_numviol s))].

(* JSONReporter.Publish: nil violations become [], fields in struct order, omitempty honoured *)
Definition report_fields (r : report) : list (str * jval) :=
  opt_field (K "aggregates") (r_aggregates r) ++
  opt_field (K "metrics") (r_metrics r) ++
  opt_field (K "ignore_directives") (r_ignore r) ++
  [(K "violations", JArr (map enc_violation (r_violations r)))] ++
  (match r_notices r with [] => [] | ns => [(K "notices", JArr (map enc_notice ns))] end) ++
  opt_field (K "profile") (r_profile r) ++
  [(K "summary", enc_summary (r_summary r))].
Definition enc_report (r : report) : jval := JObj (report_fields r).

(* decoding into the same structs: absent key = zero value, wrong shape = error *)
Fixpoint jlookup (k : str) (fs : list (str * jval)) : option jval :=
  match fs with
  | [] => None
  | (k', j) :: fs' => if str_eqb k k' then Some j else jlookup k fs'
  end.

Definition dec_str (o : option jval) : option str :=
  match o with None => Some [] | Some (JStr s) => Some s | Some _ => None end.
Definition dec_num (o : option jval) : option N :=
  match o with None => Some 0 | Some (JNum n) => Some n | Some _ => None end.

Definition dec_position (j : jval) : option position :=
  match j with
  | JObj fs =>
    match dec_num (jlookup (K "row") fs), dec_num (jlookup (K "col") fs) with
    | Some r, Some c => Some {| p_row := r; p_col := c |}
    | _, _ => None
    end
  | _ => None
  end.

Definition dec_location (j : jval) : option location :=
  match j with
  | JObj fs =>
    let e := match jlookup (K "end") fs with
             | None => Some None
             | Some je => option_map Some (dec_position je) end in
    let t := match jlookup (K "text") fs with
             | None => Some None
             | Some (JStr s) => Some (Some s)
             | Some _ => None end in
    match e, t, dec_str (jlookup (K "file") fs), dec_num (jlookup (K "col") fs),
          dec_num (jlookup (K "row") fs), dec_num (jlookup (K "offset") fs) with
    | Some e, Some t, Some f, Some c, Some r, Some o =>
      Some {| l_end := e; l_text := t; l_file := f; l_col := c; l_row := r; l_offset := o |}
    | _, _, _, _, _, _ => None
    end
  | _ => None
  end.

Fixpoint dec_list {A} (f : jval -> option A) (l : list jval) : option (list A) :=
  match l with
  | [] => Some []
  | j :: l' => match f j, dec_list f l' with
               | Some a, Some r => Some (a :: r)
               | _, _ => None
               end
  end.

Definition dec_array {A} (f : jval -> option A) (o : option jval) : option (list A) :=
  match o with
  | None => Some []
  | Some (JArr l) => dec_list f l
  | Some _ => None
  end.

Definition dec_related (j : jval) : option related :=
  match j with
  | JObj fs =>
    match dec_str (jlookup (K "description") fs), dec_str (jlookup (K "ref") fs) with
    | Some d, Some r => Some {| rr_desc := d; rr_ref := r |}
    | _, _ => None
    end
  | _ => None
  end.

Definition zero_location : location :=
  {| l_end := None; l_text := None; l_file := []; l_col := 0; l_row := 0; l_offset := 0 |}.

Definition dec_violation (j : jval) : option violation :=
  match j with
  | JObj fs =>
    let loc := match jlookup (K "location") fs with
               | None => Some zero_location
               | Some jl => dec_location jl end in
    match dec_str (jlookup (K "title") fs), dec_str (jlookup (K "description") fs),
          dec_str (jlookup (K "category") fs), dec_str (jlookup (K "level") fs),
          dec_array dec_related (jlookup (K "related_resources") fs), loc with
    | Some t, Some d, Some c, Some l, Some rs, Some lo =>
      Some {| v_title := t; v_desc := d; v_cat := c; v_level := l; v_related := rs; v_loc := lo;
              v_isagg := false |}
    | _, _, _, _, _, _ => None
    end
  | _ => None
  end.

Definition dec_notice (j : jval) : option notice :=
  match j with
  | JObj fs =>
    match dec_str (jlookup (K "title") fs), dec_str (jlookup (K "description") fs),
          dec_str (jlookup (K "category") fs), dec_str (jlookup (K "level") fs),
          dec_str (jlookup (K "severity") fs) with
    | Some t, Some d, Some c, Some l, Some s =>
      Some {| n_title := t; n_desc := d; n_cat := c; n_level := l; n_sev := s |}
    | _, _, _, _, _ => None
    end
  | _ => None
  end.

Definition dec_summary (o : option jval) : option summary :=
  match o with
  | None => Some {| s_scanned := 0; s_failed := 0; s_skipped := 0; s_numviol := 0 |}
  | Some (JObj fs) =>
    match dec_num (jlookup (K "files_scanned") fs), dec_num (jlookup (K "files_failed") fs),
          dec_num (jlookup (K "rules_skipped") fs), dec_num (jlookup (K "num_violations") fs) with
    | Some a, Some b, Some c, Some d => Some {| s_scanned := a; s_failed := b; s_skipped := c; s_numviol := d |}
    | _, _, _, _ => None
    end
  | Some _ => None
  end.

Definition dec_report (j : jval) : option report :=
  match j with
  | JObj fs =>
    match dec_array dec_violation (jlookup (K "violations") fs),
          dec_array dec_notice (jlookup (K "notices") fs),
          dec_summary (jlookup (K "summary") fs) with
    | Some vs, Some ns, Some s =>
      Some {| r_aggregates := jlookup (K "aggregates") fs; r_metrics := jlookup (K "metrics") fs;
              r_aggprofile := None; r_ignore := jlookup (K "ignore_directives") fs;
              r_violations := vs; r_notices := ns; r_profile := jlookup (K "profile") fs;
              r_summary := s |}
    | _, _, _ => None
    end
  | _ => None
  end.

(* what survives a round trip: the fields tagged json:"-" are reset *)
Definition erase_violation (v : violation) : violation :=
  {| v_title := v_title v; v_desc := v_desc v; v_cat := v_cat v; v_level := v_level v;
     v_related := v_related v; v_loc := v_loc v; v_isagg := false |}.
Definition erase_report (r : report) : report :=
  {| r_aggregates := r_aggregates r; r_metrics := r_metrics r; r_aggprofile := None;
     r_ignore := r_ignore r; r_violations := map erase_violation (r_violations r);
     r_notices := r_notices r; r_profile := r_profile r; r_summary := r_summary r |}.

(* ------------------------------------------------------------------ reading keys back *)

(* the inverse the harness' line parser uses for "file:row:col": the last two colon-separated
   fields if both are decimal numbers, else the whole string with position 0:0 *)
Definition parse_loc (s : str) : str * N * N :=
  match rev (split_on COLON s) with
  | c :: r :: (_ :: _) as file_parts =>
    match read_N r, read_N c with
    | Some rn, Some cn => (join [COLON] (rev file_parts), rn, cn)
    | _, _ => (s, 0, 0)
    end
  | _ => (s, 0, 0)
  end.

Definition key_of_loc (loc title level : str) : vkey :=
  let '(f, r, c) := parse_loc loc in (f, r, c, title, level).

(* pretty: Location row, Rule row, and the Level row — or, with colours, red/yellow *)
Definition pretty_entry_key (e : pretty_entry) : vkey :=
  key_of_loc (pe_loc e) (pe_rule e)
    (match pe_level e with
     | LevelRow l => l
     | DescColour y => if y then L_WARNING else L_ERROR
     end).
Definition pretty_keys (d : pretty_doc) : list vkey := map pretty_entry_key (pd_entries d).

(* github: the rule is only in the table, everything else in the workflow command of the same index *)
Definition github_keys (d : github_doc) : list vkey :=
  map (fun ea => (ga_file (snd ea), ga_row (snd ea), ga_col (snd ea), pe_rule (fst ea), ga_level (snd ea)))
      (combine (pd_entries (gd_pretty d)) (gd_annotations d)).

(* sarif: results that are not informational; a result without region stands for position 0:0 *)
Definition sarif_result_key (x : sarif_result) : list vkey :=
  match sr_kind x, sr_loc x with
  | None, Some (uri, Some g) => [(uri, sg_row g, sg_col g, sr_rule x, sr_level x)]
  | None, Some (uri, None) => [(uri, 0, 0, sr_rule x, sr_level x)]
  | _, _ => []
  end.
Definition sarif_keys (d : sarif_doc) : list vkey := flat_map sarif_result_key (sd_results d).

Definition junit_case_key (c : junit_case) : vkey := key_of_loc (jc_class c) (jc_rule c) (jc_type c).
Definition junit_keys (d : junit_doc) : list vkey :=
  flat_map (fun s => map junit_case_key (js_cases s)) (jd_suites d).

(* compact has neither a rule nor a level column: positions only *)
Definition pos_only (k : vkey) : vkey := let '(f, r, c, _, _) := k in (f, r, c, [], []).
Definition compact_keys (d : compact_doc) : list vkey :=
  match d with
  | CompactEmpty => []
  | CompactTable rows _ => map (fun x => key_of_loc (fst x) [] []) rows
  end.

(* the informational results of a SARIF document, and the notices they stand for *)
Definition sarif_notice_titles (d : sarif_doc) : list str :=
  flat_map (fun x => match sr_kind x with Some _ => [sr_rule x] | None => [] end) (sd_results d).
Definition reported_notice_titles (r : report) : list str :=
  flat_map (fun n => if str_eqb (n_sev n) S_NONE then [] else [n_title n]) (r_notices r).

(* utf8.Valid *)
Definition cont (c : N) : bool := is_cont c.
Definition is2 (a b : N) : bool := (194 <=? a) && (a <=? 223) && cont b.
Definition is3 (a b c : N) : bool :=
  (((a =? 224) && (160 <=? b) && (b <=? 191)) ||
   ((225 <=? a) && (a <=? 236) && cont b) ||
   ((a =? 237) && (128 <=? b) && (b <=? 159)) ||
   ((238 <=? a) && (a <=? 239) && cont b)) && cont c.
Definition is4 (a b c d : N) : bool :=
  (((a =? 240) && (144 <=? b) && (b <=? 191)) ||
   ((241 <=? a) && (a <=? 243) && cont b) ||
   ((a =? 244) && (128 <=? b) && (b <=? 143))) && cont c && cont d.

Fixpoint utf8_valid (s : str) {struct s} : bool :=
  match s with
  | [] => true
  | a :: s1 =>
    if a <? 128 then utf8_valid s1 else
    match s1 with
    | [] => false
    | b :: s2 =>
      if is2 a b then utf8_valid s2 else
      match s2 with
      | [] => false
      | c :: s3 =>
        if is3 a b c then utf8_valid s3 else
        match s3 with
        | [] => false
        | d :: s4 => if is4 a b c d then utf8_valid s4 else false
        end
      end
    end
  end.

(* ------------------------------------------------------------------ domain predicates of the theorems *)

(* "file:row:col" can only be read back when the file name has no colon of its own *)
Definition files_without_colon (r : report) : Prop :=
  forall v, In v (r_violations r) -> ~ In COLON (l_file (v_loc v)).

(* the two levels the linter reports (a rule at level "ignore" is not run) *)
Definition levels_error_or_warning (r : report) : Prop :=
  forall v, In v (r_violations r) -> v_level v = L_ERROR \/ v_level v = L_WARNING.

(* OPA positions are 1-based; a violation without position (aggregate rules) has 0:0 *)
Definition positions_well_formed (r : report) : Prop :=
  forall v, In v (r_violations r) ->
    (l_row (v_loc v) = 0 /\ l_col (v_loc v) = 0) \/ (0 < l_row (v_loc v) /\ 0 < l_col (v_loc v)).

(* the strings the JUnit keys are read from survive XML: no character outside the XML Char production *)
Definition xml_clean_keys (r : report) : Prop :=
  forall v, In v (r_violations r) ->
    xml_safe (loc_string (v_loc v)) = loc_string (v_loc v) /\
    xml_safe (v_level v) = v_level v /\ xml_safe (v_title v) = v_title v.

(* a compositional sufficient condition for [xml_safe s = s] *)
Definition xml_plain (s : str) : Prop :=
  Forall (fun c => (32 <=? c) || (c =? 9) || (c =? 10) || (c =? 13) = true /\ c <> 239) s.

Definition file_of (v : violation) : str := l_file (v_loc v).

(* small reports for witnesses and examples *)
Definition mk_report (vs : list violation) : report :=
  {| r_aggregates := None; r_metrics := None; r_aggprofile := None; r_ignore := None;
     r_violations := vs; r_notices := []; r_profile := None;
     r_summary := {| s_scanned := 1; s_failed := 1; s_skipped := 0; s_numviol := N.of_nat (List.length vs) |} |}.

Definition mk_violation (title level file : str) (row col : N) : violation :=
  {| v_title := title; v_desc := [100]; v_cat := [99]; v_level := level; v_related := [];
     v_loc := {| l_end := None; l_text := None; l_file := file; l_col := col; l_row := row; l_offset := 0 |};
     v_isagg := false |}.

