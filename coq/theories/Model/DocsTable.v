(* C08 — executable well-formedness checks over the regenerated docs table (Gen/GenDocs.v).
   The table is finite, so each check is decided by evaluation (Proofs/DocsTable.v). Definitions only. *)
From Regal Require Import Base.Str Gen.GenDocs.
From Coq Require Import List NArith Bool.
Import ListNotations.

Definition key := (list N * list N)%type.   (* category, rule *)

Definition key_eqb (a b : key) : bool := str_eqb (fst a) (fst b) && str_eqb (snd a) (snd b).

Fixpoint key_in (k : key) (l : list key) {struct l} : bool :=
  match l with [] => false | x :: l' => key_eqb k x || key_in k l' end.

Definition row_key (r : docs_row) : key := (d_cat r, d_name r).

Definition is_redirect (r : docs_row) : bool :=
  match d_kind r with KRedirect => true | _ => false end.

Definition is_pair (r : docs_row) : bool :=
  match d_kind r with KPair => true | _ => false end.

Definition no_reason (r : docs_row) : bool :=
  match d_reason r with RNone => true | _ => false end.

Definition is_multifile (r : docs_row) : bool :=
  match d_reason r with RMultiFile => true | _ => false end.

(* every rule directory has a real (non-redirect) page *)
Definition rules_have_pages : bool :=
  forallb (fun k => existsb (fun r => key_eqb (row_key r) k && negb (is_redirect r)) docs_rows) rule_dirs.

(* every page documents an existing rule; a redirect stub points to one *)
Definition pages_have_rules : bool :=
  forallb (fun r => if is_redirect r then key_in (d_redirect r) rule_dirs else key_in (row_key r) rule_dirs) docs_rows.

(* a page is a well-formed Avoid/Prefer pair of non-empty rego blocks, or it is on the exception list with a
   reason and has a dedicated fixture (a pair may also be excepted: it then needs context to show its verdict) *)
Definition row_ok (r : docs_row) : bool :=
  if is_redirect r then no_reason r
  else if no_reason r
       then is_pair r && Nat.ltb 0 (d_avoid_lines r) && Nat.ltb 0 (d_prefer_lines r)
            && Nat.eqb (d_navoid r) 1 && Nat.eqb (d_nprefer r) 1
       else d_fixture r.

Definition rows_ok : bool := forallb row_ok docs_rows.

(* the provided configuration lists exactly the rule directories *)
Definition provided_matches_rules : bool :=
  forallb (fun k => key_in k provided_rules) rule_dirs && forallb (fun k => key_in k rule_dirs) provided_rules.

(* a rule with an aggregate_report cannot show its verdict on one file: its page says so (Type line), and it runs
   through a several-files fixture *)
Definition aggregates_documented : bool :=
  forallb (fun k => existsb (fun r => key_eqb (row_key r) k && d_typeline r && is_multifile r && d_fixture r) docs_rows)
          aggregate_rules.

Definition no_stale_exceptions : bool :=
  match stale_exceptions with [] => true | _ => false end.

Fixpoint keys_distinct (l : list key) {struct l} : bool :=
  match l with [] => true | x :: l' => negb (key_in x l') && keys_distinct l' end.

Definition pages_distinct : bool := keys_distinct (map row_key docs_rows).

Definition self_contained_pages : nat := length (filter (fun r => is_pair r && no_reason r) docs_rows).
Definition excepted_pages : nat := length (filter (fun r => negb (no_reason r)) docs_rows).
