(* Model of the git gate of cmd/fix.go (the block guarded by !dryRun && !force) and of
   internal/git/git.go FindGitRepo / findRepoPath.  go-git's status computation is an
   oracle: the gate only sees the key set of the status map (repository-relative,
   slash-separated paths of every file that is not clean: modified, staged, untracked, ...;
   regal's GetChangedFiles adds the keys of the submodules that are checked out, prefixed with
   the submodule's path).  Definitions only. *)
From Regal Require Export Base.PathModel Model.Provider.

Definition s_dotgit : str := [46; 103; 105; 116].     (* ".git" *)

Definition is_nil_str_list (l : list str) : bool := match l with [] => true | _ => false end.

(* filepath.Abs *)
Definition fp_abs (cwd p : str) : str :=
  if is_rooted p then clean p else pjoin [cwd; p].

(* os.Stat as findRepoPath distinguishes its outcomes *)
Inductive stat_result := StDir | StFile | StNotExist | StOtherErr.

Inductive repo_result :=
| RepoErr                 (* FindGitRepo returned an error *)
| RepoNone                (* "" : no repository found *)
| RepoAt (r : str).       (* root of the work tree, as spelled by the walk (may be relative) *)

(* findRepoPath: walk upwards with filepath.Dir until it stops changing.  [stat] resolves a
   (possibly relative) path against the working directory. *)
Fixpoint find_repo_path (fuel : nat) (stat : str -> stat_result) (d : str) : repo_result :=
  match fuel with
  | O => RepoErr
  | S fuel' =>
    match stat (pjoin [d; s_dotgit]) with
    | StDir => RepoAt d
    | StNotExist =>
        let parent := dir d in
        if str_eqb parent d then RepoNone else find_repo_path fuel' stat parent
    | StFile | StOtherErr => RepoErr   (* "failed to check .git directory" *)
    end
  end.

(* FindGitRepo, repaired code: every argument is made absolute first (filepath.Abs against the
   working directory; the walk with filepath.Dir climbs the directory hierarchy only on an
   absolute path), and every argument must give the same answer.  [stat] answers for ABSOLUTE
   paths.  The two earlier forms are kept below: [find_git_repo_lexical] (walk on the spelling)
   and [find_git_repo_pinned] (which in addition compared only non-empty answers). *)
Definition find_repo_path_abs (cwd : str) (fuel : nat) (stat : str -> stat_result) (d : str)
  : repo_result := find_repo_path fuel stat (fp_abs cwd d).

Fixpoint find_git_repo_rest (cwd : str) (fuel : nat) (stat : str -> stat_result)
         (common : repo_result) (dirs : list str) : repo_result :=
  match dirs with
  | [] => common
  | d :: ds =>
    match find_repo_path_abs cwd fuel stat d, common with
    | RepoErr, _ => RepoErr
    | RepoNone, RepoNone => find_git_repo_rest cwd fuel stat common ds
    | RepoAt r, RepoAt c => if str_eqb r c then find_git_repo_rest cwd fuel stat common ds else RepoErr
    | _, _ => RepoErr
    end
  end.

Definition find_git_repo (cwd : str) (fuel : nat) (stat : str -> stat_result) (dirs : list str)
  : repo_result :=
  match dirs with
  | [] => RepoErr
  | d :: ds =>
    match find_repo_path_abs cwd fuel stat d with
    | RepoErr => RepoErr
    | c => find_git_repo_rest cwd fuel stat c ds
    end
  end.

(* earlier form (repaired in /repo): the walk ran on the argument AS SPELLED; [stat] resolves a
   relative spelling against the working directory.  filepath.Dir of a relative path walks
   "../x", "..", "." and stays there: the repository of the working directory is found for
   a directory outside of it, and "." never gets above the working directory *)
Fixpoint find_git_repo_lexical_rest (fuel : nat) (stat : str -> stat_result) (common : repo_result)
         (dirs : list str) : repo_result :=
  match dirs with
  | [] => common
  | d :: ds =>
    match find_repo_path fuel stat d, common with
    | RepoErr, _ => RepoErr
    | RepoNone, RepoNone => find_git_repo_lexical_rest fuel stat common ds
    | RepoAt r, RepoAt c => if str_eqb r c then find_git_repo_lexical_rest fuel stat common ds else RepoErr
    | _, _ => RepoErr
    end
  end.

Definition find_git_repo_lexical (fuel : nat) (stat : str -> stat_result) (dirs : list str) : repo_result :=
  match dirs with
  | [] => RepoErr
  | d :: ds =>
    match find_repo_path fuel stat d with
    | RepoErr => RepoErr
    | c => find_git_repo_lexical_rest fuel stat c ds
    end
  end.

(* pinned: `if commonRepoPath == "" { commonRepoPath = repoPath }` lets an argument outside
   any repository ride along with one inside *)
Fixpoint find_git_repo_pinned_loop (fuel : nat) (stat : str -> stat_result) (common : str)
         (dirs : list str) : repo_result :=
  match dirs with
  | [] => match common with [] => RepoNone | _ => RepoAt common end
  | d :: ds =>
    match find_repo_path fuel stat d with
    | RepoErr => RepoErr
    | RepoNone => find_git_repo_pinned_loop fuel stat common ds
    | RepoAt r =>
        match common with
        | [] => find_git_repo_pinned_loop fuel stat r ds
        | _ => if str_eqb r common then find_git_repo_pinned_loop fuel stat common ds else RepoErr
        end
    end
  end.
Definition find_git_repo_pinned fuel stat dirs :=
  match dirs with [] => RepoErr | _ => find_git_repo_pinned_loop fuel stat [] dirs end.

(* NOT the code: a FindGitRepo that takes a later argument to lie in the repository found so
   far as soon as the repository path is a STRING prefix of the argument's path, and does not
   search for it (the class of seeded change C14-4; "/w/pol-draft" starts with "/w/pol") *)
Definition str_has_prefix (s p : str) : bool :=
  match drop_prefix s p with Some _ => true | None => false end.

Fixpoint find_git_repo_strprefix_rest (cwd : str) (fuel : nat) (stat : str -> stat_result)
         (common : repo_result) (dirs : list str) : repo_result :=
  match dirs with
  | [] => common
  | d :: ds =>
    let skip := match common with RepoAt c => str_has_prefix (fp_abs cwd d) c | _ => false end in
    if skip then find_git_repo_strprefix_rest cwd fuel stat common ds else
    match find_repo_path_abs cwd fuel stat d, common with
    | RepoErr, _ => RepoErr
    | RepoNone, RepoNone => find_git_repo_strprefix_rest cwd fuel stat common ds
    | RepoAt r, RepoAt c => if str_eqb r c then find_git_repo_strprefix_rest cwd fuel stat common ds else RepoErr
    | _, _ => RepoErr
    end
  end.

Definition find_git_repo_strprefix (cwd : str) (fuel : nat) (stat : str -> stat_result) (dirs : list str)
  : repo_result :=
  match dirs with
  | [] => RepoErr
  | d :: ds =>
    match find_repo_path_abs cwd fuel stat d with
    | RepoErr => RepoErr
    | c => find_git_repo_strprefix_rest cwd fuel stat c ds
    end
  end.

(* ---------------------------------------------------------------- what "lies in the repository" means *)

(* the directory with components [ds] lies in the work tree with components [rs]: component-wise
   containment ([rs] itself included), with rs/.git a directory and no directory from there down
   to [ds] holding a .git entry of its own: [rs] is the CLOSEST enclosing work tree *)
Definition in_work_tree (stat : str -> stat_result) (rs ds : list str) : Prop :=
  exists rest, ds = rs ++ rest
    /\ stat (cpath (rs ++ [s_dotgit])) = StDir
    /\ forall m m', rest = m ++ m' -> m <> [] -> stat (cpath ((rs ++ m) ++ [s_dotgit])) = StNotExist.

(* no directory from the root down to [ds] holds a .git entry *)
Definition in_no_work_tree (stat : str -> stat_result) (ds : list str) : Prop :=
  forall m m', ds = m ++ m' -> stat (cpath (m ++ [s_dotgit])) = StNotExist.

(* ---------------------------------------------------------------- the gate *)

(* repaired code: status keys are joined to the absolute work-tree root *)
Definition changed_abs (cwd repo : str) (status : list str) : list str :=
  map (fun k => pjoin [fp_abs cwd repo; k]) status.

(* the files of the provider the gate objects to: modified AND deleted ones *)
Definition guard_conflicts (cwd repo : str) (status modified deleted : list str) : list str :=
  filter (fun f => str_in f (changed_abs cwd repo status)) (modified ++ deleted).

Inductive guard_verdict := GProceed | GRefuse.

Definition git_guard (cwd : str) (rr : repo_result) (status modified deleted : list str)
  : guard_verdict :=
  match rr with
  | RepoAt r => if is_nil_str_list (guard_conflicts cwd r status modified deleted)
                then GProceed else GRefuse
  | RepoNone | RepoErr => GRefuse
  end.

(* pinned code: absolute provider paths looked up among the relative keys; deleted files
   never looked at *)
Definition git_guard_pinned (rr : repo_result) (status modified deleted : list str)
  : guard_verdict :=
  match rr with
  | RepoAt _ => if is_nil_str_list (filter (fun f => str_in f status) modified)
                then GProceed else GRefuse
  | RepoNone | RepoErr => GRefuse
  end.

(* ---------------------------------------------------------------- specification *)

(* [rpath], [cpath], [regular]: Model/Provider.v.  The file [f] (absolute, clean) is the one
   that the status key with components [ks] names in the work tree with components [rs]. *)
Definition denotes (rs ks : list str) (f : str) : Prop := f = cpath (rs ++ ks).

(* go-git's keys are clean relative slash paths *)
Definition clean_key (k : str) (ks : list str) : Prop :=
  k = rpath ks /\ Forall regular ks /\ ks <> [].

(* some file the run touches is reported not clean *)
Definition touches_dirty (rs : list str) (status touched : list str) : Prop :=
  exists f k ks, In f touched /\ In k status /\ clean_key k ks /\ denotes rs ks f.

(* ---------------------------------------------------------------- symbolic links: spelled and resolved paths *)

(* Everything above works on paths AS SPELLED: the arguments as typed, filepath.Abs / Join / Dir of
   them, the work-tree root as the walk spells it.  Neither cmd/fix.go nor internal/git resolves
   symbolic links, and the operating system follows them on every access, so for the command a
   directory reached through a link is simply a directory under its spelled name.  The correspondence
   check therefore hands the model the tree as seen through the spelled workspace root.

   What the property is about, though, are FILES: [resolve] maps an absolute spelled path to the path
   without symbolic links (realpath(3)); an oracle.  The gate compares spellings; that protects the
   files git reports only as far as the spellings it compares are faithful. *)

(* distinct spellings in [paths] name distinct files *)
Definition faithful (resolve : str -> str) (paths : list str) : Prop :=
  forall a b, In a paths -> In b paths -> resolve a = resolve b -> a = b.

(* some file the run touches IS (after resolution) a file reported not clean below the root *)
Definition touches_dirty_resolved (resolve : str -> str) (absroot : str) (status touched : list str) : Prop :=
  exists f k, In f touched /\ In k status /\ resolve f = resolve (pjoin [absroot; k]).

(* the gate as it would be if the work-tree root were resolved and the provider's paths were not
   (e.g. a FindGitRepo that answers with the resolved root): one side of the comparison resolved *)
Definition git_guard_root_resolved (resolve : str -> str) (cwd : str) (rr : repo_result)
           (status modified deleted : list str) : guard_verdict :=
  match rr with
  | RepoAt r =>
      if is_nil_str_list (filter (fun f => str_in f (map (fun k => pjoin [resolve (fp_abs cwd r); k]) status))
                                 (modified ++ deleted))
      then GProceed else GRefuse
  | RepoNone | RepoErr => GRefuse
  end.
