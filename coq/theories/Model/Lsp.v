(* C15 — abstract model of the diagnostics pipeline of the language server.

   Mirrors internal/lsp/server.go (handlers, StartDiagnosticsWorker: file-lint worker, dispatcher
   with rate limiter, workspace-lint worker), internal/lsp/lint.go (updateParse,
   updateFileDiagnostics, updateAllDiagnostics) and internal/lsp/cache/cache.go.

   Definitions only.  URIs, document contents, configurations, rule names and diagnostics are
   numbers (identifiers handed out by the harness).  The linter is NOT modelled: its results are the
   oracle arguments [parses], [perr], [fdiags], [areport], [nonagg], [agg] (Section variables).

   Granularity: JOB-ATOMIC.  One step is one request handler, one complete file-lint job, one
   dispatcher iteration or one complete workspace-lint run.  The file-lint job is additionally
   available split in two halves ([LFileBegin]/[LFileEnd]: parse+lint, then store+publish) so that
   the race between a delete and an in-flight file job can be exhibited.

   [fixes] selects, per known defect, the pinned or the repaired behaviour; [current] is what the
   repository does now.  *)
From Coq Require Import List NArith Bool Permutation.
Import ListNotations.
Open Scope N_scope.

Definition uri := N.
Definition content := N.
Definition cfg := N.
Definition rule := N.
Definition diag := (rule * N)%type.       (* (code = rule name, identifier of the whole diagnostic) *)
Definition code (d : diag) : rule := fst d.

(* cache maps: concurrent.Map[string, X] *)
Definition fmap (A : Type) := uri -> option A.
Definition fempty {A} : fmap A := fun _ => None.
Definition upd {A} (m : fmap A) (u : uri) (x : option A) : fmap A :=
  fun v => if N.eqb v u then x else m v.
(* maps to slices, where "absent" and "empty" are indistinguishable to every reader *)
Definition updl {A} (m : uri -> list A) (u : uri) (x : list A) : uri -> list A :=
  fun v => if N.eqb v u then x else m v.

Definition is_some {A} (o : option A) : bool := match o with Some _ => true | None => false end.

Fixpoint mem (r : rule) (l : list rule) : bool :=
  match l with [] => false | x :: l' => N.eqb r x || mem r l' end.

(* cache.SetFileDiagnosticsForRules: drop the current diagnostics of the evaluated rules, append the new *)
Definition merge_rules (rs : list rule) (cur new : list diag) : list diag :=
  filter (fun d => negb (mem (code d) rs)) cur ++ new.

(* which repairs are in place *)
Record fixes := {
  fx_delete_enqueues : bool;      (* didDeleteFiles queues an aggregate-only workspace lint  (fix 18a3a58) *)
  fx_config_overwrites : bool;    (* the lint after a config change overwrites cached aggregates (fix 5b03de6) *)
  fx_parsefail_drops : bool;      (* hypothetical: a parse failure drops the last good module + aggregates *)
  fx_full_sets_masked : bool;     (* hypothetical: a full workspace lint also resets diagnostics of unparseable files *)
  fx_single_no_agg : bool;        (* hypothetical: aggregate-only lint reports nothing with < 2 modules, like a full lint *)
  fx_publish_no_modules : bool }. (* hypothetical: a workspace run without modules still publishes *)

Definition pinned : fixes := Build_fixes false false false false false false.
Definition current : fixes := Build_fixes true true false false false false.
Definition all_repaired : fixes := Build_fixes true true true true true true.

(* lintWorkspaceJob *)
Record wjob := { w_overwrite : bool; w_aggonly : bool }.
Definition job_agg : wjob := {| w_overwrite := false; w_aggonly := true |}.
Definition job_full (ow : bool) : wjob := {| w_overwrite := ow; w_aggonly := false |}.

Record state := {
  contents : fmap content;            (* cache.fileContents *)
  modules : fmap content;             (* cache.modules: the contents the stored module was parsed from *)
  perrs : fmap content;               (* cache.diagnosticsParseErrors, non-empty entries: the contents that failed *)
  aggs : fmap (cfg * content);        (* cache.aggregateData: collected under which config from which module *)
  diags : uri -> list diag;           (* cache.diagnosticsFile *)
  pub : uri -> list diag;             (* last textDocument/publishDiagnostics per URI (the observable) *)
  conf : cfg;                         (* loadedConfig (+ the two cached enabled-rule lists) *)
  qf : list uri;                      (* lintFileJobs *)
  qw : list wjob;                     (* lintWorkspaceJobs *)
  qr : list wjob;                     (* workspaceLintRuns *)
  inflight : option (uri * option content) }.  (* file job between its two halves: uri, module it linted *)

Inductive event :=
| ESet (u : uri) (c : content)       (* didOpen / didChange / didCreateFiles: new contents for u *)
| EDelete (u : uri)                  (* didDeleteFiles *)
| ERename (u v : uri)                (* didRenameFiles u -> v (contents taken from the cache) *)
| EConfig (k : cfg).                 (* config file changed (StartConfigWorker) *)

Inductive label :=
| LEvent (e : event)
| LFile                              (* one complete file-lint job *)
| LDispatch                          (* one iteration of the dispatcher / rate limiter *)
| LRun                               (* one complete workspace-lint run *)
| LFileBegin | LFileEnd.             (* the two halves of a file-lint job (fine-grained schedules only) *)

Definition atomic (l : label) : bool :=
  match l with LFileBegin | LFileEnd => false | _ => true end.

Section Lsp.
  Variable U : list uri.                                    (* every URI that can occur (for counting modules) *)
  Variable parses : content -> bool.                        (* rparse.ModuleWithOpts succeeds *)
  Variable perr : uri -> content -> list diag.              (* parse-error diagnostics of unparseable contents *)
  Variable fdiags : cfg -> uri -> content -> list diag.     (* violations of non-aggregate rules in one module *)
  Variable areport : cfg -> fmap (cfg * content) -> uri -> list diag.  (* aggregate violations reported for a URI *)
  Variable nonagg agg : cfg -> list rule.                   (* loadedConfigEnabled(Non)AggregateRules *)
  Variable fx : fixes.

  Definition set_contents s x := Build_state x (modules s) (perrs s) (aggs s) (diags s) (pub s) (conf s) (qf s) (qw s) (qr s) (inflight s).
  Definition set_modules s x := Build_state (contents s) x (perrs s) (aggs s) (diags s) (pub s) (conf s) (qf s) (qw s) (qr s) (inflight s).
  Definition set_perrs s x := Build_state (contents s) (modules s) x (aggs s) (diags s) (pub s) (conf s) (qf s) (qw s) (qr s) (inflight s).
  Definition set_aggs s x := Build_state (contents s) (modules s) (perrs s) x (diags s) (pub s) (conf s) (qf s) (qw s) (qr s) (inflight s).
  Definition set_diags s x := Build_state (contents s) (modules s) (perrs s) (aggs s) x (pub s) (conf s) (qf s) (qw s) (qr s) (inflight s).
  Definition set_pub s x := Build_state (contents s) (modules s) (perrs s) (aggs s) (diags s) x (conf s) (qf s) (qw s) (qr s) (inflight s).
  Definition set_conf s x := Build_state (contents s) (modules s) (perrs s) (aggs s) (diags s) (pub s) x (qf s) (qw s) (qr s) (inflight s).
  Definition set_qf s x := Build_state (contents s) (modules s) (perrs s) (aggs s) (diags s) (pub s) (conf s) x (qw s) (qr s) (inflight s).
  Definition set_qw s x := Build_state (contents s) (modules s) (perrs s) (aggs s) (diags s) (pub s) (conf s) (qf s) x (qr s) (inflight s).
  Definition set_qr s x := Build_state (contents s) (modules s) (perrs s) (aggs s) (diags s) (pub s) (conf s) (qf s) (qw s) x (inflight s).
  Definition set_inflight s x := Build_state (contents s) (modules s) (perrs s) (aggs s) (diags s) (pub s) (conf s) (qf s) (qw s) (qr s) x.

  Definition count_modules (s : state) : nat := length (filter (fun u => is_some (modules s u)) U).

  (* a file whose stored parse errors are non-empty keeps showing them: its lint results are not stored *)
  Definition masked (s : state) (u : uri) : bool := is_some (perrs s u).

  (* sendFileDiagnostics: parse errors if any, else the cached lint diagnostics *)
  Definition send (s : state) (u : uri) : list diag :=
    match perrs s u with Some c => perr u c | None => diags s u end.

  (* cache.Delete *)
  Definition del (s : state) (u : uri) : state :=
    set_diags (set_aggs (set_perrs (set_modules (set_contents s (upd (contents s) u None))
      (upd (modules s) u None)) (upd (perrs s) u None)) (upd (aggs s) u None)) (updl (diags s) u []).

  Definition publish (s : state) (u : uri) : state := set_pub s (updl (pub s) u (send s u)).

  (* ------------------------------------------------------------------ request handlers *)
  Definition handle (e : event) (s : state) : option state :=
    match e with
    | ESet u c =>
        Some (set_qf (set_contents s (upd (contents s) u (Some c))) (qf s ++ [u]))
    | EDelete u =>
        let s1 := publish (del s u) u in
        Some (if fx_delete_enqueues fx then set_qw s1 (qw s1 ++ [job_agg]) else s1)
    | ERename u v =>
        match contents s u with
        | None => None                       (* the server would read the new file from disk: outside the model *)
        | Some c =>
            let s1 := publish (del s u) u in
            Some (set_qf (set_contents s1 (upd (contents s1) v (Some c))) (qf s1 ++ [v]))
        end
    | EConfig k =>
        Some (set_qw (set_conf s k) (qw s ++ [job_full (fx_config_overwrites fx)]))
    end.

  (* ------------------------------------------------------------------ file-lint job *)
  (* updateParse *)
  Definition update_parse (s : state) (u : uri) (c : content) : state :=
    if parses c then set_perrs (set_modules s (upd (modules s) u (Some c))) (upd (perrs s) u None)
    else
      let s1 := set_perrs s (upd (perrs s) u (Some c)) in
      if fx_parsefail_drops fx
      then set_aggs (set_modules s1 (upd (modules s1) u None)) (upd (aggs s1) u None)
      else s1.

  (* second half of updateFileDiagnostics (after linter.Lint returned) + sendFileDiagnostics + enqueue.
     [m]: the module that was linted (None: no module, nothing was linted). *)
  Definition file_store (s : state) (u : uri) (m : option content) : state :=
    let s2 :=
      match m with
      | None => s
      | Some mc =>
          let s1 :=
            if is_some (contents s u) && negb (masked s u)
            then set_diags s (updl (diags s) u (merge_rules (nonagg (conf s)) (diags s u) (fdiags (conf s) u mc)))
            else s in
          set_aggs s1 (upd (aggs s1) u (Some (conf s1, mc)))          (* SetFileAggregates: unconditional *)
      end in
    let s3 := publish s2 u in
    set_qw s3 (qw s3 ++ [job_agg]).

  Definition file_job (s : state) : option state :=
    match inflight s, qf s with
    | Some _, _ => None
    | None, [] => None
    | None, u :: q =>
        let s0 := set_qf s q in
        match contents s0 u with
        | None => Some s0                       (* updateParse: "failed to get file contents"; job abandoned *)
        | Some c =>
            let s1 := update_parse s0 u c in
            Some (file_store s1 u (modules s1 u))
        end
    end.

  Definition file_begin (s : state) : option state :=
    match inflight s, qf s with
    | Some _, _ => None
    | None, [] => None
    | None, u :: q =>
        let s0 := set_qf s q in
        match contents s0 u with
        | None => Some s0
        | Some c =>
            let s1 := update_parse s0 u c in
            Some (set_inflight s1 (Some (u, modules s1 u)))
        end
    end.

  Definition file_end (s : state) : option state :=
    match inflight s with
    | None => None
    | Some (u, m) => Some (file_store (set_inflight s None) u m)
    end.

  (* ------------------------------------------------------------------ dispatcher *)
  Definition dispatch (s : state) : option state :=
    match qw s with
    | [] => None
    | j :: q =>
        let s0 := set_qw s q in
        if w_aggonly j && Nat.ltb 5 (length (qr s))       (* len(workspaceLintRuns) > bufferSize/2 *)
        then Some s0                                       (* "rate limiting aggregate reports" *)
        else Some (set_qr s0 (qr s0 ++ [j]))
    end.

  (* ------------------------------------------------------------------ workspace-lint run *)
  (* what a lint of all modules collects *)
  Definition ideal_aggs (s : state) : fmap (cfg * content) :=
    fun u => match modules s u with Some m => Some (conf s, m) | None => None end.

  (* per-file result of a full lint (linter.Lint on rules.NewInput(files, modules)) *)
  Definition full_fd (s : state) (u : uri) : list diag :=
    (match modules s u with Some m => fdiags (conf s) u m | None => [] end)
    ++ (if Nat.ltb 1 (count_modules s) then areport (conf s) (ideal_aggs s) u else []).

  (* per-file result of an aggregate-only lint (linter.Lint with WithAggregates(cache.GetFileAggregates())) *)
  Definition agg_fd (s : state) (u : uri) : list diag :=
    if fx_single_no_agg fx && negb (Nat.ltb 1 (count_modules s)) then [] else areport (conf s) (aggs s) u.

  Definition run_diags (j : wjob) (s : state) : uri -> list diag :=
    fun u =>
      match contents s u with
      | None => diags s u
      | Some _ =>
          if w_aggonly j
          then (if masked s u then diags s u else merge_rules (agg (conf s)) (diags s u) (agg_fd s u))
          else (if masked s u && negb (fx_full_sets_masked fx) then diags s u else full_fd s u)
      end.

  Definition run_aggs (j : wjob) (s : state) : fmap (cfg * content) :=
    if w_overwrite j then (if w_aggonly j then fempty else ideal_aggs s) else aggs s.

  Definition publish_all (s : state) : state :=
    set_pub s (fun u => match contents s u with Some _ => send s u | None => pub s u end).

  Definition ws_run (s : state) : option state :=
    match qr s with
    | [] => None
    | j :: q =>
        let s0 := set_qr s q in
        if Nat.eqb (count_modules s0) 0
        then Some (if fx_publish_no_modules fx then publish_all s0 else s0)
        else Some (publish_all (set_aggs (set_diags s0 (run_diags j s0)) (run_aggs j s0)))
    end.

  (* ------------------------------------------------------------------ the step function *)
  Definition step (l : label) (s : state) : option state :=
    match l with
    | LEvent e => handle e s
    | LFile => file_job s
    | LDispatch => dispatch s
    | LRun => ws_run s
    | LFileBegin => file_begin s
    | LFileEnd => file_end s
    end.

  Fixpoint run (ls : list label) (s : state) {struct ls} : option state :=
    match ls with
    | [] => Some s
    | l :: ls' => match step l s with Some s' => run ls' s' | None => None end
    end.

  Definition quiescent (s : state) : Prop :=
    qf s = [] /\ qw s = [] /\ qr s = [] /\ inflight s = None.

  Definition quiescentb (s : state) : bool :=
    match qf s, qw s, qr s, inflight s with [], [], [], None => true | _, _, _, _ => false end.

  (* ------------------------------------------------------------------ start-up and the reference *)
  (* initialize: loadWorkspaceContents parses every file; "server initialize" (overwriting aggregates)
     and "server initialized" workspace jobs are queued. *)
  Definition init_state (f : fmap content) (k : cfg) : state :=
    {| contents := f;
       modules := fun u => match f u with Some c => if parses c then Some c else None | None => None end;
       perrs := fun u => match f u with Some c => if parses c then None else Some c | None => None end;
       aggs := fempty;
       diags := fun _ => [];
       pub := fun _ => [];
       conf := k;
       qf := [];
       qw := [job_full true; job_full false];
       qr := [];
       inflight := None |}.

  Definition count_parsed (f : fmap content) : nat :=
    length (filter (fun u => match f u with Some c => parses c | None => false end) U).

  Definition fresh_aggs (f : fmap content) (k : cfg) : fmap (cfg * content) :=
    fun v => match f v with Some c => if parses c then Some (k, c) else None | None => None end.

  (* what a fresh lint of the workspace contents [f] under config [k] reports for [u] *)
  Definition fresh (f : fmap content) (k : cfg) (u : uri) : list diag :=
    match f u with
    | None => []
    | Some c =>
        if parses c
        then fdiags k u c ++ (if Nat.ltb 1 (count_parsed f) then areport k (fresh_aggs f k) u else [])
        else perr u c
    end.

  (* ------------------------------------------------------------------ canonical schedules *)
  (* run every queued job to completion, oldest stage first *)
  Fixpoint drain (fuel : nat) (s : state) {struct fuel} : option state :=
    match fuel with
    | O => if quiescentb s then Some s else None          (* out of fuel: reported as None *)
    | S n =>
        match inflight s, qf s, qw s, qr s with
        | Some _, _, _, _ => match file_end s with Some s' => drain n s' | None => None end
        | None, _ :: _, _, _ => match file_job s with Some s' => drain n s' | None => None end
        | None, [], _ :: _, _ => match dispatch s with Some s' => drain n s' | None => None end
        | None, [], [], _ :: _ => match ws_run s with Some s' => drain n s' | None => None end
        | None, [], [], [] => Some s
        end
    end.

  (* events delivered one at a time, waiting for quiescence in between *)
  Fixpoint run_stepwise (fuel : nat) (es : list event) (s : state) {struct es} : option state :=
    match es with
    | [] => drain fuel s
    | e :: es' =>
        match drain fuel s with
        | None => None
        | Some s1 => match handle e s1 with Some s2 => run_stepwise fuel es' s2 | None => None end
        end
    end.

  (* all events handled before any job runs *)
  Fixpoint run_burst (fuel : nat) (es : list event) (s : state) {struct es} : option state :=
    match es with
    | [] => drain fuel s
    | e :: es' => match handle e s with Some s2 => run_burst fuel es' s2 | None => None end
    end.

  (* a fine-grained schedule family: every file-lint job straddles the next request (its first half
     runs before the handler, its second half after); workspace jobs run eagerly *)
  Fixpoint drain_ws (fuel : nat) (s : state) {struct fuel} : option state :=
    match fuel with
    | O => Some s
    | S n =>
        match qw s, qr s with
        | _ :: _, _ => match dispatch s with Some s' => drain_ws n s' | None => None end
        | [], _ :: _ => match ws_run s with Some s' => drain_ws n s' | None => None end
        | [], [] => Some s
        end
    end.

  Definition begin_next (s : state) : option state :=
    match inflight s, qf s with
    | None, _ :: _ => file_begin s
    | _, _ => Some s
    end.

  Definition end_current (s : state) : option state :=
    match inflight s with Some _ => file_end s | None => Some s end.

  Fixpoint run_racy (fuel : nat) (es : list event) (s : state) {struct es} : option state :=
    match es with
    | [] => drain fuel s
    | e :: es' =>
        match handle e s with
        | None => None
        | Some s1 =>
            match end_current s1 with
            | None => None
            | Some s2 =>
                match begin_next s2 with
                | None => None
                | Some s3 => match drain_ws fuel s3 with Some s4 => run_racy fuel es' s4 | None => None end
                end
            end
        end
    end.
End Lsp.

(* ------------------------------------------------------------------ specification-level predicates *)
(* What the theorems assume of the linter oracles.  Each clause is checked by the harness on every
   value it tabulates from the real linter. *)
Record linter_ok (parses : content -> bool) (perr : uri -> content -> list diag)
  (fdiags : cfg -> uri -> content -> list diag) (areport : cfg -> fmap (cfg * content) -> uri -> list diag)
  (nonagg agg : cfg -> list rule) : Prop := {
  (* violations found in one module are of enabled non-aggregate rules *)
  lo_fcodes : forall k u c d, In d (fdiags k u c) -> mem (code d) (nonagg k) = true;
  (* aggregate violations are of enabled aggregate rules *)
  lo_acodes : forall k m u d, In d (areport k m u) -> mem (code d) (agg k) = true;
  (* the two cached rule lists are disjoint (loadEnabledRulesFromConfig) *)
  lo_disj : forall k r, mem r (nonagg k) = true -> mem r (agg k) = false;
  (* the aggregate report is a function of the aggregate data, not of how the cache map was built *)
  lo_aext : forall k m1 m2 u, (forall v, m1 v = m2 v) -> areport k m1 u = areport k m2 u;
  (* aggregate violations are located in files that contributed aggregate data *)
  lo_adom : forall k m u, m u = None -> areport k m u = [];
  (* contents that do not parse have at least one parse-error diagnostic (updateParse) *)
  lo_perr : forall u c, parses c = false -> perr u c <> [] }.

(* histories/schedules of the partial theorem: job-atomic steps, URIs of the universe, and no event
   that introduces an unparseable document *)
Definition parse_ok_label (U : list uri) (parses : content -> bool) (l : label) : Prop :=
  match l with
  | LEvent (ESet u c) => parses c = true /\ In u U
  | LEvent (ERename _ v) => In v U
  | LFileBegin | LFileEnd => False
  | _ => True
  end.

Definition parse_ok_init (U : list uri) (parses : content -> bool) (f : fmap content) : Prop :=
  forall u c, f u = Some c -> parses c = true /\ In u U.

(* histories/schedules of the full statement: any contents, job-atomic or not as stated *)
Definition in_universe_label (U : list uri) (l : label) : Prop :=
  match l with
  | LEvent (ESet u _) => In u U
  | LEvent (ERename _ v) => In v U
  | _ => True
  end.

Definition in_universe_init (U : list uri) (f : fmap content) : Prop :=
  forall u c, f u = Some c -> In u U.

(* job-atomic steps over the universe; histories without a config change *)
Definition job_atomic_label (U : list uri) (l : label) : Prop := atomic l = true /\ in_universe_label U l.
Definition no_config_label (l : label) : Prop :=
  match l with LEvent (EConfig _) => False | _ => True end.

(* the statement of C15 at the job-atomic level, for the behaviour selected by [fx] *)
Definition converges_statement (fx : fixes) (sched_ok : label -> Prop) : Prop :=
  forall (U : list uri) parses perr fdiags areport nonagg agg,
    linter_ok parses perr fdiags areport nonagg agg ->
    forall (f : fmap content) (k : cfg) (ls : list label) (s : state),
      in_universe_init U f ->
      Forall (in_universe_label U) ls -> Forall sched_ok ls ->
      run U parses perr fdiags areport nonagg agg fx ls (init_state parses f k) = Some s ->
      quiescent s ->
      forall u, Permutation (pub s u) (fresh U parses perr fdiags areport (contents s) (conf s) u).

(* ------------------------------------------------------------------ a concrete linter for the witnesses *)
(* URIs 0 (imports the package defined in 1), 1, 2.  Contents: 0 = module importing package b,
   1 = package b, 2 = unparseable, 3 = package b with a violation of rule 1.
   Configs: 0 = default, 1 = rule 1 (non-aggregate) disabled, 2 = rule 2 (aggregate) disabled.
   Aggregate rule 2 = "unresolved import": reported for URI 0 when URI 1 contributes no usable data. *)
Definition wU : list uri := [0; 1; 2].
Definition w_parses (c : content) : bool := negb (N.eqb c 2).
Definition w_perr (u : uri) (c : content) : list diag := [(9, 50 + c)].
Definition w_nonagg (k : cfg) : list rule := if N.eqb k 1 then [] else [1].
Definition w_agg (k : cfg) : list rule := if N.eqb k 2 then [] else [2].
Definition w_fd (k : cfg) (u : uri) (c : content) : list diag :=
  if N.eqb c 3 && negb (N.eqb k 1) then [(1, 30)] else [].
Definition w_has (m : fmap (cfg * content)) (v : uri) : bool :=
  match m v with Some (kc, _) => negb (N.eqb kc 2) | None => false end.
Definition w_ar (k : cfg) (m : fmap (cfg * content)) (u : uri) : list diag :=
  if N.eqb k 2 then [] else if N.eqb u 0 && w_has m 0 && negb (w_has m 1) then [(2, 100)] else [].

Definition w_init (init : list (uri * content)) : fmap content :=
  fun u => match find (fun p => N.eqb (fst p) u) init with Some p => Some (snd p) | None => None end.

Definition w_run (fx : fixes) (init : list (uri * content)) (ls : list label) : option state :=
  run wU w_parses w_perr w_fd w_ar w_nonagg w_agg fx ls (init_state w_parses (w_init init) 0).

Definition w_fresh (s : state) (u : uri) : list diag := fresh wU w_parses w_perr w_fd w_ar (contents s) (conf s) u.

(* a run that ends quiescent with a number of published diagnostics for [u] that differs from the reference *)
Definition diverges (fx : fixes) (init : list (uri * content)) (ls : list label) (u : uri) : bool :=
  match w_run fx init ls with
  | Some s => quiescentb s && negb (Nat.eqb (length (pub s u)) (length (w_fresh s u)))
  | None => false
  end.

Definition startup : list label := [LDispatch; LDispatch; LRun; LRun].
Definition settle : list label := [LFile; LDispatch; LRun].
Definition any_label (_ : label) : Prop := True.
Definition atomic_label (l : label) : Prop := atomic l = true.

(* witnesses: (initial workspace, schedule, URI whose diagnostics are wrong) *)
Definition wit_parse_failure := ([(0, 0); (1, 1); (2, 1)], startup ++ LEvent (ESet 1 2) :: settle, 0).
Definition wit_single_module := ([(0, 0)], startup ++ LEvent (ESet 0 0) :: settle, 0).
Definition wit_disabled_rule :=
  ([(0, 0); (1, 3)],
   startup ++ LEvent (ESet 1 2) :: settle ++ LEvent (EConfig 1) :: [LDispatch; LRun] ++ LEvent (ESet 1 3) :: settle, 1).
Definition wit_no_modules := ([(1, 2)], startup, 1).
Definition wit_delete := ([(0, 0); (1, 1); (2, 1)], startup ++ [LEvent (EDelete 1)], 0).
Definition wit_config :=
  ([(0, 0); (1, 1)],
   startup ++ LEvent (EConfig 2) :: [LDispatch; LRun] ++ LEvent (ESet 1 1) :: settle
   ++ LEvent (EConfig 0) :: [LDispatch; LRun] ++ LEvent (ESet 0 0) :: settle, 0).
Definition wit_race :=
  ([(0, 0); (1, 1); (2, 1)],
   startup ++ [LEvent (ESet 1 1); LFileBegin; LEvent (EDelete 1); LFileEnd; LDispatch; LDispatch; LRun; LRun], 0).

Definition wdiv (fx : fixes) (w : list (uri * content) * list label * uri) : bool :=
  diverges fx (fst (fst w)) (snd (fst w)) (snd w).

(* non-vacuity of the partial theorem: a history with edit, rename, config change and delete that meets
   its hypotheses, ends quiescent with two modules and non-trivial diagnostics *)
Definition ex_history : list label :=
  startup ++ LEvent (ESet 1 3) :: settle ++ LEvent (ERename 1 2) :: settle ++ LEvent (EConfig 2) :: [LDispatch; LRun]
  ++ LEvent (ESet 1 1) :: settle ++ LEvent (EDelete 2) :: [LDispatch; LRun].


Definition ex_history2 : list label :=
  startup ++ LEvent (ESet 1 2) :: settle ++ LEvent (ESet 0 0) :: settle ++ LEvent (ESet 1 3) :: settle.
