(* directory-package-mismatch: the RULE and the FIX compute the directory a package belongs in
   independently, in two languages:
     bundle/regal/rules/idiomatic/directory-package-mismatch/directory_package_mismatch.rego
        _pkg_path_values, _file_path_values, report
     pkg/fixer/fixes/directorypackagemismatch.go
        getPackagePathDirectory, (DirectoryPackageMismatch).Fix
   Both are modelled here on the package path as a list of components (the leading "data" dropped,
   ast.package_path / module.Package.Path[1:]) and on the file name as a list of path components.
   Definitions only. *)
From Regal Require Export Base.Str Base.PathModel.

Definition sfx_test : str := [95; 116; 101; 115; 116].        (* "_test" *)

Definition nil_b {A} (l : list A) : bool := match l with [] => true | _ => false end.

Fixpoint strs_eqb (a b : list str) : bool :=
  match a, b with
  | [], [] => true
  | x :: a', y :: b' => str_eqb x y && strs_eqb a' b'
  | _, _ => false
  end.

(* ------------------------------------------------------------------ the rule (Rego) *)

(* _pkg_path_values.  exclude-test-suffix unset/false: ast.package_path.  Set:
     array.concat(array.slice(path, 0, count(path) - 1),
                  [name | name := trim_suffix(regal.last(path), "_test"); name != ""])
   regal.last of an empty array is undefined, and so is the rule: None *)
Definition rule_pkg_values (exclude : bool) (pkg : list str) : option (list str) :=
  if exclude then
    match rev pkg with
    | [] => None
    | l :: _ =>
        let name := trim_suffix l sfx_test in
        Some (removelast pkg ++ (if nil_b name then [] else [name]))
    end
  else Some pkg.

(* the rule before the repair 4b6422e: the trimmed last component was kept even when nothing was left of it *)
Definition rule_pkg_values_pinned (exclude : bool) (pkg : list str) : option (list str) :=
  if exclude then
    match rev pkg with
    | [] => None
    | l :: _ => Some (removelast pkg ++ [trim_suffix l sfx_test])
    end
  else Some pkg.

(* array.slice(a, count(a) - n, count(a)): a negative start is clamped to 0 *)
Definition last_n {A} (n : nat) (l : list A) : list A := skipn (length l - n) l.

(* _file_path_values: split(input.regal.file.abs, "/") without its last element *)
Definition file_dirs (abs : str) : list str := removelast (split_on SLASH abs).

(* report: the last n directory components of the file differ from the n package path values *)
Definition rule_reports_with (values : bool -> list str -> option (list str))
           (exclude : bool) (pkg : list str) (dirs : list str) : bool :=
  match values exclude pkg with
  | None => false
  | Some vs => negb (strs_eqb (last_n (length vs) dirs) vs)
  end.

Definition rule_reports := rule_reports_with rule_pkg_values.
Definition rule_reports_pinned := rule_reports_with rule_pkg_values_pinned.

(* ------------------------------------------------------------------ the fix (Go) *)

Definition is_alpha_us (c : N) : bool :=
  ((65 <=? c) && (c <=? 90)) || ((97 <=? c) && (c <=? 122)) || (c =? 95).
Definition is_name_char (c : N) : bool := is_alpha_us c || is_digit c || (c =? 45).

(* regularName: ^[a-zA-Z_][a-zA-Z0-9_-]*$ *)
Definition regular_name (s : str) : bool :=
  match s with
  | [] => false
  | c :: t => is_alpha_us c && forallb is_name_char t
  end.

(* The loop of getPackagePathDirectory.  text := strings.Trim(part.Value.String(), double quote): String() of a
   string term is its quoted form; any character that would make the text differ from the value (a
   quote, a backslash, a non-printable or non-ASCII character) survives as, or next to, a character
   the regular expression refuses, so: the text is regular iff the value is, and then it IS the value
   (observed on every generated component, incl. quotes, backslashes, non-ASCII, by the harness).
   [trim i n]: is the suffix taken off component i of n.  None = the fix refuses (error). *)
Fixpoint fix_parts_from (trim : nat -> nat -> bool) (n i : nat) (pkg : list str) : option (list str) :=
  match pkg with
  | [] => Some []
  | c :: rest =>
      if negb (regular_name c) then None else
      match fix_parts_from trim n (S i) rest with
      | None => None
      | Some ps => Some ((if trim i n then trim_suffix c sfx_test else c) :: ps)
      end
  end.

(* i == len(pathWithoutData)-1 && excludeTestSuffix *)
Definition trim_last (exclude : bool) (i n : nat) : bool := Nat.eqb (S i) n && exclude.
(* the variant of seed C12-4: excludeTestSuffix alone *)
Definition trim_every (exclude : bool) (_ _ : nat) : bool := exclude.

(* filepath.Join(parts...): empty elements are ignored; the parts are regular names (no dot, no
   separator), so Clean changes nothing else.  The directory components below the root. *)
Definition fix_dirs_with (trim : bool -> nat -> nat -> bool) (exclude : bool) (pkg : list str)
  : option (list str) :=
  match fix_parts_from (trim exclude) (length pkg) 0 pkg with
  | None => None
  | Some ps => Some (filter (fun p => negb (nil_b p)) ps)
  end.

Definition fix_dirs := fix_dirs_with trim_last.
Definition fix_dirs_every := fix_dirs_with trim_every.

(* what Fix answers for a file whose directory components are [dirs] under a root with components
   [root] (rootPath = filepath.Clean(BaseDir)): newPath = Join(rootPath, pkgPath, Base(file)) *)
Inductive fix_answer := FixRefuses | FixInPlace | FixMoveTo (dirs : list str).

Definition fix_answer_with (trim : bool -> nat -> nat -> bool) (exclude : bool) (pkg root dirs : list str)
  : fix_answer :=
  match fix_dirs_with trim exclude pkg with
  | None => FixRefuses
  | Some d => if strs_eqb (root ++ d) dirs then FixInPlace else FixMoveTo (root ++ d)
  end.

Definition fix_answer_of := fix_answer_with trim_last.
