(* C03 (ii) — the multi-body functions and keyed rules of regal's framework packages as partial functions,
   body by body, so that "OPA never raises eval_conflict_error in the framework layer" becomes a statement.

   In Rego a function (or complete rule) may have several bodies; for one argument every body that is defined
   contributes a value, a body with `some` may contribute several, and OPA aborts the evaluation
   ("functions must not produce multiple outputs for same inputs", "complete rules must not produce multiple
   outputs", "object keys must be unique") when two contributed values differ.  That error is not a builtin
   error: it is not turned into undefined, it aborts linter.Lint (C03).

   Here every body is a function to the LIST of values it contributes; [outputs] collects them and
   [conflict_free] says they all agree.  Else-chains are deterministic by construction (first defined branch
   wins) and boolean functions whose bodies can only yield true cannot conflict; they are listed in
   notes/C03.md and not repeated here.

   Modelled (sources in comments):
     result.rego : _category_title_from_path, fail (selection structure), _related_resources, location+
     util.rego   : to_location_object+, _location_to_text+, _cut_col+, to_set, to_array
     main.rego   : _file_name_relative_to_root, lint.ignore_directives[file]
     config.rego : docs[...] (two constant keys)
     ast/comments.rego : ignore_directives[row], comments[...] (three constant keys)
     ast/imports.rego  : _imported_identifier (two bodies), imported_identifiers, resolved_imports[identifier]
                         (several imports per identifier -> ONE path), and the 1:1 "simplification" of it
     ast/ast.rego      : function_decls (object comprehension: several definitions per name -> ONE arity)
   (names marked + have their bodies in Model/Location.v)
   Definitions only. *)
From Regal Require Export Base.Str Model.Location.
From Coq Require Import ZArith.
Import ListNotations.

(* JSON-ish values, as far as the type tests of these functions look *)
Inductive jv :=
| JNull
| JBool (b : bool)
| JNum (z : Z)
| JStr (s : str)
| JArr (l : list jv)
| JSet (l : list jv)
| JObj (kv : list (str * jv)).

Definition is_array (v : jv) : bool := match v with JArr _ => true | _ => false end.
Definition is_object (v : jv) : bool := match v with JObj _ => true | _ => false end.
Definition is_set (v : jv) : bool := match v with JSet _ => true | _ => false end.
Definition is_string (v : jv) : bool := match v with JStr _ => true | _ => false end.

Fixpoint assoc (k : str) (kv : list (str * jv)) : option jv :=
  match kv with
  | [] => None
  | (k', v) :: kv' => if str_eqb k k' then Some v else assoc k kv'
  end.

(* x.key : defined on objects that have the key *)
Definition field (k : str) (v : jv) : option jv :=
  match v with JObj kv => assoc k kv | _ => None end.

Definition opt_list {A} (o : option A) : list A := match o with Some a => [a] | None => [] end.

(* all values contributed by all bodies *)
Definition outputs {A V} (bodies : list (A -> list V)) (a : A) : list V :=
  flat_map (fun b => b a) bodies.

Definition conflict_free {V} (outs : list V) : Prop := forall v w, In v outs -> In w outs -> v = w.

(* ascii helpers *)
Definition s_regal : str := [114; 101; 103; 97; 108]%N.
Definition s_rules : str := [114; 117; 108; 101; 115]%N.
Definition s_custom : str := [99; 117; 115; 116; 111; 109]%N.
Definition s_package : str := [112; 97; 99; 107; 97; 103; 101]%N.
Definition s_scope : str := [115; 99; 111; 112; 101]%N.
Definition s_path : str := [112; 97; 116; 104]%N.
Definition s_annotations : str := [97; 110; 110; 111; 116; 97; 116; 105; 111; 110; 115]%N.
Definition s_related_resources : str :=
  [114; 101; 108; 97; 116; 101; 100; 95; 114; 101; 115; 111; 117; 114; 99; 101; 115]%N.
Definition s_slash : str := [47]%N.

(* ------------------------------------------------------------------ result.rego *)

(* _category_title_from_path(path) := [category, title] if ["regal", "rules", category, title] = path *)
Definition ctp_b1 (path : jv) : list (jv * jv) :=
  match path with
  | JArr [JStr a; JStr b; c; t] => if str_eqb a s_regal && str_eqb b s_rules then [(c, t)] else []
  | _ => []
  end.
(* … if ["custom", "regal", "rules", category, title] = path *)
Definition ctp_b2 (path : jv) : list (jv * jv) :=
  match path with
  | JArr [JStr z; JStr a; JStr b; c; t] =>
      if str_eqb z s_custom && str_eqb a s_regal && str_eqb b s_rules then [(c, t)] else []
  | _ => []
  end.
Definition category_title_from_path := outputs [ctp_b1; ctp_b2].

(* link.annotations.scope == "package" *)
Definition package_scoped (link : jv) : bool :=
  match field s_annotations link with
  | Some ann => match field s_scope ann with Some (JStr s) => str_eqb s s_package | _ => false end
  | None => false
  end.

(* _related_resources(annotations, _, _) := annotations.related_resources *)
Definition rr_b1 (generated : jv) (annotations : jv) : list jv :=
  opt_list (field s_related_resources annotations).
(* _related_resources(annotations, category, title) := rr if { not annotations.related_resources; rr := [...] } *)
Definition rr_b2 (generated : jv) (annotations : jv) : list jv :=
  match field s_related_resources annotations with
  | None => [generated]
  | Some (JBool false) => [generated]      (* `not false` holds *)
  | Some _ => []
  end.
Definition related_resources (generated : jv) := outputs [rr_b1 generated; rr_b2 generated].

(* result.fail(metadata, details): the selection structure.  What _fail_annotated /
   _fail_annotated_custom build from the chosen link is an oracle ([V] abstract). *)
Section Fail.
  Variable V : Type.
  Variable annotated : jv -> jv -> jv -> jv -> option V.          (* link, category, title, details *)
  Variable annotated_custom : jv -> jv -> jv -> jv -> option V.
  Variable fallback : jv -> jv -> option V.                         (* _fail_annotated(metadata, details) *)
  (* _fail_annotated starts with is_object(metadata) *)

  (* provided rules: some link in metadata; scope == "package"; ["regal","rules",c,t] = link.path *)
  Definition fail_b1 (details : jv) (metadata : jv) : list V :=
    match metadata with
    | JArr links =>
        flat_map (fun link =>
          if package_scoped link then
            match field s_path link with
            | Some p => flat_map (fun ct => opt_list (annotated link (fst ct) (snd ct) details)) (ctp_b1 p)
            | None => []
            end
          else []) links
    | _ => []
    end.
  (* custom rules: ["custom","regal","rules",c,t] = link.path *)
  Definition fail_b2 (details : jv) (metadata : jv) : list V :=
    match metadata with
    | JArr links =>
        flat_map (fun link =>
          if package_scoped link then
            match field s_path link with
            | Some p => flat_map (fun ct => opt_list (annotated_custom link (fst ct) (snd ct) details)) (ctp_b2 p)
            | None => []
            end
          else []) links
    | _ => []
    end.
  (* fallback: fail(metadata, details) := _fail_annotated(metadata, details) *)
  Definition fail_b3 (details : jv) (metadata : jv) : list V :=
    if is_object metadata then opt_list (fallback metadata details) else [].

  Definition fail (details : jv) := outputs [fail_b1 details; fail_b2 details; fail_b3 details].
End Fail.

(* how many links of a rego.metadata.chain() are package scoped: exactly one in a real chain *)
Definition package_links (metadata : jv) : list jv :=
  match metadata with JArr links => filter package_scoped links | _ => [] end.

(* ------------------------------------------------------------------ util.rego *)

(* to_set(x) := x if is_set(x);  to_set(x) := {y | some y in x} if not is_set(x) *)
Section Coll.
  Variable members : jv -> option (list jv).   (* `some y in x`: elements of arrays/sets, values of objects *)
  Definition to_set_b1 (x : jv) : list jv := if is_set x then [x] else [].
  Definition to_set_b2 (x : jv) : list jv :=
    if is_set x then [] else match members x with Some ys => [JSet ys] | None => [JSet []] end.
  Definition to_set := outputs [to_set_b1; to_set_b2].
  Definition to_array_b1 (x : jv) : list jv := if is_array x then [x] else [].
  Definition to_array_b2 (x : jv) : list jv :=
    if is_array x then [] else match members x with Some ys => [JArr ys] | None => [JArr []] end.
  Definition to_array := outputs [to_array_b1; to_array_b2].
End Coll.

(* to_location_object: string body / object body (Model/Location.v merges them by the locval constructor) *)
Definition tlo_b1 (lines : list str) (l : locval) : list locobj :=
  match l with LStr _ => opt_list (to_location_object lines l) | _ => [] end.
Definition tlo_b2 (lines : list str) (l : locval) : list locobj :=
  match l with LObj o => [o] | _ => [] end.

(* ------------------------------------------------------------------ main.rego *)

(* _file_name_relative_to_root(filename, root) := trim_prefix(filename, root) if endswith(root, "/") *)
Definition fnr_b1 (filename root : str) : list str :=
  if has_suffix root s_slash then [trim_prefix filename root] else [].
(* _file_name_relative_to_root(filename, root) := trim_prefix(filename, concat("", [root, "/"]))
     if { not endswith(root, "/") } *)
Definition fnr_b2 (filename root : str) : list str :=
  if has_suffix root s_slash then [] else [trim_prefix filename (root ++ s_slash)].
Definition file_name_relative_to_root (filename : str) := outputs [fnr_b1 filename; fnr_b2 filename].

(* ------------------------------------------------------------------ ast/comments.rego *)

(* ignore_directives[row] := rules if { some comment in comments_decoded; …; row := loc.row + 1 }
   a comment is (row of its location, Some rules when its text contains "regal ignore:") *)
Definition directive_entries (comments : list (Z * option (list str))) : list (Z * list str) :=
  flat_map (fun c => match snd c with Some rules => [((fst c + 1)%Z, rules)] | None => [] end) comments.

(* a keyed (partial-object) rule is conflict free when each key gets one value *)
Definition keyed_conflict_free {K V} (entries : list (K * V)) : Prop :=
  forall k v w, In (k, v) entries -> In (k, w) entries -> v = w.

(* ------------------------------------------------------------------ ast/imports.rego *)

(* Several source constructs -> one value.  The parser accepts modules the compiler refuses: two imports under
   one identifier, several functions of one name with different arities.  Regal lints whatever parses, so a keyed
   rule over identifiers / names meets several candidates per key and must pick one. *)

(* structural equality of values (OPA's ==, sets as written) *)
Fixpoint jv_eqb (a b : jv) {struct a} : bool :=
  let fix list_eq (l1 l2 : list jv) {struct l1} : bool :=
    match l1, l2 with
    | [], [] => true
    | x :: l1', y :: l2' => jv_eqb x y && list_eq l1' l2'
    | _, _ => false
    end in
  let fix kv_eq (l1 l2 : list (str * jv)) {struct l1} : bool :=
    match l1, l2 with
    | [], [] => true
    | (k1, x) :: l1', (k2, y) :: l2' => str_eqb k1 k2 && jv_eqb x y && kv_eq l1' l2'
    | _, _ => false
    end in
  match a, b with
  | JNull, JNull => true
  | JBool x, JBool y => Bool.eqb x y
  | JNum x, JNum y => Z.eqb x y
  | JStr x, JStr y => str_eqb x y
  | JArr x, JArr y => list_eq x y
  | JSet x, JSet y => list_eq x y
  | JObj x, JObj y => kv_eq x y
  | _, _ => false
  end.

(* an import as these rules look at it: the values of its path parts, and its alias (None = no alias) *)
Record import := { imp_path : list str; imp_alias : option jv }.

Fixpoint last_opt {A} (l : list A) : option A :=
  match l with
  | [] => None
  | [x] => Some x
  | _ :: l' => last_opt l'
  end.

Definition s_input : str := [105; 110; 112; 117; 116]%N.
Definition s_data : str := [100; 97; 116; 97]%N.

(* _imported_identifier(imp) := imp.alias *)
Definition ii_b1 (i : import) : list jv := opt_list (imp_alias i).
(* _imported_identifier(imp) := regal.last(imp.path.value).value if not imp.alias
   (`not imp.alias` holds when there is no alias and when the alias is the value false) *)
Definition ii_b2 (i : import) : list jv :=
  match imp_alias i with
  | None | Some (JBool false) => match last_opt (imp_path i) with Some s => [JStr s] | None => [] end
  | Some _ => []
  end.
Definition imported_identifier := outputs [ii_b1; ii_b2].

(* imp.path.value[0].value in {"input", "data"}; count(imp.path.value) > 1 *)
Definition eligible (i : import) : bool :=
  match imp_path i with
  | h :: _ :: _ => str_eqb h s_input || str_eqb h s_data
  | _ => false
  end.

(* imported_identifiers contains _imported_identifier(imp) if { some imp in imports; <eligible> } *)
Definition imported_identifiers (imports : list import) : list jv :=
  flat_map (fun i => if eligible i then imported_identifier i else []) imports.

(* resolved_imports[identifier] := path if {
     some identifier in imported_identifiers
     paths := [path | some imp in imports; _imported_identifier(imp) == identifier; path := [part.value | ...]]
     path := paths[0] }                              -- ALL imports are candidates, the first one wins *)
Definition has_identifier (id : jv) (i : import) : bool := existsb (jv_eqb id) (imported_identifier i).
Definition first_path (id : jv) (imports : list import) : list (list str) :=
  match filter (has_identifier id) imports with
  | i :: _ => [imp_path i]
  | [] => []
  end.
Definition resolved_imports (imports : list import) : list (jv * list str) :=
  flat_map (fun id => map (pair id) (first_path id imports)) (imported_identifiers imports).

(* the "1:1 mapping" the comment in imports.rego wishes for — one entry per import:
     resolved_imports[identifier] := path if { some imp in imports; <eligible>;
                                                identifier := _imported_identifier(imp); path := [...] }
   NOT the code; kept to state why the selection above is needed (Props/C03.v) *)
Definition resolved_imports_one_to_one (imports : list import) : list (jv * list str) :=
  flat_map (fun i => if eligible i then map (fun id => (id, imp_path i)) (imported_identifier i) else []) imports.

(* ------------------------------------------------------------------ ast/ast.rego: function_decls *)

(* a rule as function_decls looks at it: ref_to_string(rule.head.ref), and count(rule.head.args) when the head
   has args at all *)
Record rule_sig := { rs_name : str; rs_args : option nat }.

(* function_decls(rules) := {rule_name: decl |
     some rule in functions                            -- rules having head.args
     rule_name := ref_to_string(rule.head.ref)
     args := [[item | some arg in rule.head.args; ...] | some rule in rules; <same name>][0]
     decl := {"decl": {"args": args, ...}}}           -- the FIRST rule of that name decides (any kind of rule) *)
Definition first_arity (name : str) (rules : list rule_sig) : list nat :=
  match filter (fun r => str_eqb (rs_name r) name) rules with
  | r :: _ => [match rs_args r with Some n => n | None => 0%nat end]
  | [] => []
  end.
Definition function_decls (rules : list rule_sig) : list (str * nat) :=
  flat_map (fun r => match rs_args r with
                     | Some _ => map (pair (rs_name r)) (first_arity (rs_name r) rules)
                     | None => []
                     end) rules.
