(* Model of regal's two ignore-pattern matchers and of their callers (property C05).

   Go   : pkg/config/filter.go   FilterIgnoredPaths / filterPaths / excludeFile
          pkg/linter/linter.go   selection of the ignore list (--ignore-files replaces the config list)
   Rego : bundle/regal/config/exclusion.rego  _internal_slashes, _leading_doublestar_pattern,
          _trailing_slash, _pattern_compiler, _exclude, _global_ignore_patterns, excluded_file
          bundle/regal/main/main.rego  _file_name_relative_to_root and its four call sites
          (_rules_to_run, custom report, custom aggregate, custom aggregate_report)

   The glob engine (gobwas/glob compiled with separator '/', which is also what OPA's
   glob.match(p, ["/"], f) calls) is NOT modelled: it is the pair of Section variables
   [glob_ok] (the pattern compiles) and [glob_match].

   The definitions without suffix mirror the code after the repairs 5296c24, 85ee130, e493c86 in /repo;
   the [_pinned] definitions mirror the code before them and are kept for the regression theorems.
   Definitions only. *)
From Regal Require Export Base.PathModel.

Definition STAR : N := 42.
Definition dstar : str := [STAR; STAR].                (* "**"  *)
Definition dstar_slash : str := [STAR; STAR; SLASH].   (* "**/" *)
Definition slash_dstar : str := [SLASH; STAR; STAR].   (* "/**" *)

(* strings.Contains(s, "/") / contains(s, "/") *)
Definition has_slash (s : str) : bool := existsb (N.eqb SLASH) s.

(* ------------------------------------------------------------------ Go: pattern expansion
   (excludeFile, up to the loop over ps1) *)

(* if !strings.Contains(pattern[:n-1], "/") { pattern = "**/" + pattern }
   (pattern[:n-1] panics for n = 0; filterPaths never passes "", see go_exclude_file) *)
Definition go_internal (p : str) : str :=
  if has_slash (removelast p) then p else dstar_slash ++ p.

(* ps = {pattern, TrimPrefix(pattern, "**/")} if HasPrefix(pattern, "**/") else {pattern} *)
Definition go_leading (q : str) : list str :=
  if has_prefix q dstar_slash then [q; trim_prefix q dstar_slash] else [q].

(* the switch in the loop over ps *)
Definition go_trailing (q : str) : list str :=
  if has_suffix q [SLASH] then [q ++ dstar]
  else if negb (has_suffix q dstar) then [q; q ++ slash_dstar]
  else [q].

Definition go_expand (p : str) : list str :=
  flat_map go_trailing (go_leading (trim_prefix (go_internal p) [SLASH])).

(* ------------------------------------------------------------------ Rego: pattern expansion
   (sets are modelled as lists; only membership is meaningful) *)

(* _internal_slashes: s := substring(pattern, 0, count(pattern) - 1); contains(s, "/").
   substring counts runes; [rego_init_w w] drops the last [w] bytes (the width of the last rune),
   the byte model is w = 1; Proofs.Exclude.internal_slashes_rune_width shows w is irrelevant
   for every width a UTF-8 rune can have. For "" the length argument is -1 = "rest of the string". *)
Definition rego_init_w (w : nat) (p : str) : str := firstn (length p - w) p.

Definition rego_internal_slashes (p : str) : str :=
  if has_slash (rego_init_w 1 p) then p else dstar_slash ++ p.

(* _leading_doublestar_pattern: {pattern, substring(pattern, 3, -1)} if startswith(pattern, "**/") *)
Definition rego_leading_doublestar (q : str) : list str :=
  if has_prefix q dstar_slash then [q; skipn 3 q] else [q].

(* _trailing_slash *)
Definition rego_trailing_slash (q : str) : list str :=
  if negb (has_suffix q [SLASH]) && negb (has_suffix q dstar) then [q; q ++ slash_dstar]
  else if has_suffix q [SLASH] then [q ++ dstar]
  else [q].

(* _pattern_compiler *)
Definition rego_expand (p : str) : list str :=
  flat_map rego_trailing_slash
           (rego_leading_doublestar (trim_prefix (rego_internal_slashes p) [SLASH])).

(* ------------------------------------------------------------------ file name relative to the root *)

(* FilterIgnoredPaths: "pathPrefix is normalized to end with a separator" *)
Definition go_norm_prefix (pre : str) : str :=
  if has_suffix pre [SLASH] then pre else pre ++ [SLASH].

Definition go_norm_prefix_pinned (pre : str) : str :=
  if negb (str_eqb pre []) && negb (has_suffix pre [SLASH]) then pre ++ [SLASH] else pre.

(* excludeFile: if pathPrefix != "" { filename = strings.TrimPrefix(filename, pathPrefix) } *)
Definition go_trim (f npre : str) : str :=
  if str_eqb npre [] then f else trim_prefix f npre.

Definition go_rel (f pre : str) : str := go_trim f (go_norm_prefix pre).
Definition go_rel_pinned (f pre : str) : str := go_trim f (go_norm_prefix_pinned pre).

(* main.rego _file_name_relative_to_root(filename, root) *)
Definition rego_rel (f root : str) : str :=
  if has_suffix root [SLASH] then trim_prefix f root else trim_prefix f (root ++ [SLASH]).

Definition rego_rel_pinned (f root : str) : str :=
  if str_eqb root [SLASH] then trim_prefix f [SLASH] else trim_prefix f (root ++ [SLASH]).

(* the call sites: which name each kind of rule hands to excluded_file *)
Inductive rule_kind := KBuiltin | KCustom | KCustomAgg.

Definition rego_rel_kind (k : rule_kind) (f root : str) : str := rego_rel f root.

Definition rego_rel_kind_pinned (k : rule_kind) (f root : str) : str :=
  match k with
  | KBuiltin => rego_rel_pinned f root
  | KCustom => trim_prefix f (root ++ [SLASH])
  | KCustomAgg => f
  end.

(* lintWithRegoAggregateRules evaluates with this file name *)
Definition aggregate_report_name : str :=
  [95;95;97;103;103;114;101;103;97;116;101;95;114;101;112;111;114;116;95;95].

(* ------------------------------------------------------------------ ignore list selection *)

(* linter.Lint: ignore := conf.Ignore.Files; if len(l.ignoreFiles) > 0 { ignore = l.ignoreFiles }
   (conf.Ignore.Files is nil when the config has no ignore key) *)
Definition go_select (cli : list str) (cfg : option (list str)) : list str :=
  match cli with
  | [] => match cfg with Some l => l | None => [] end
  | _ => cli
  end.

(* _global_ignore_patterns: undefined when neither is there *)
Definition rego_global (cli : list str) (cfg : option (list str)) : option (list str) :=
  match cli with
  | [] => cfg
  | _ => Some cli
  end.

(* order-preserving sublist *)
Inductive sublist : list str -> list str -> Prop :=
| sub_nil : sublist [] []
| sub_skip x l1 l2 : sublist l1 l2 -> sublist l1 (x :: l2)
| sub_keep x l1 l2 : sublist l1 l2 -> sublist (x :: l1) (x :: l2).

(* ------------------------------------------------------------------ matching *)

Inductive gres := GOk (b : bool) | GErr | GPanic.

(* the loop "for _, p := range ps1": compile, on error return it, on match return true.
   Generic in the representation of patterns and files so that the correspondence check can run
   the same function on table rows. *)
Fixpoint go_match_loop {E F : Type} (ok : E -> bool) (m : E -> F -> bool) (es : list E) (f : F) : gres :=
  match es with
  | [] => GOk false
  | e :: es' => if ok e then (if m e f then GOk true else go_match_loop ok m es' f) else GErr
  end.

(* _exclude: some p in compiled; glob.match(p, ["/"], file) — a builtin error makes the
   expression undefined, i.e. no match for that p *)
Definition rego_match_any {E F : Type} (ok : E -> bool) (m : E -> F -> bool) (es : list E) (f : F) : bool :=
  existsb (fun e => ok e && m e f) es.

Section Oracle.
  Variable glob_ok : str -> bool.
  Variable glob_match : str -> str -> bool.

  (* ---- Go *)

  (* excludeFile(pattern, filename, pathPrefix); [npre] is the already normalized prefix *)
  Definition go_exclude_file (p f npre : str) : gres :=
    match p with
    | [] => GPanic                      (* pattern[:n-1] with n = 0 *)
    | _ => go_match_loop glob_ok glob_match (go_expand p) (go_trim f npre)
    end.

  (* inner loop of filterPaths for one file: GOk true = "continue outer" *)
  Fixpoint go_excluded_by (ignore : list str) (f npre : str) : gres :=
    match ignore with
    | [] => GOk false
    | p :: ps =>
        if str_eqb p [] then go_excluded_by ps f npre
        else match go_exclude_file p f npre with
             | GOk false => go_excluded_by ps f npre
             | r => r
             end
    end.

  (* filterPaths; None = the error return *)
  Fixpoint go_filter_paths (paths ignore : list str) (npre : str) : option (list str) :=
    match paths with
    | [] => Some []
    | f :: fs =>
        match go_excluded_by ignore f npre with
        | GOk true => go_filter_paths fs ignore npre
        | GOk false => option_map (cons f) (go_filter_paths fs ignore npre)
        | _ => None
        end
    end.

  (* len(paths) == 1 && paths[0] == "-" *)
  Definition is_stdin (paths : list str) : bool :=
    match paths with [p] => str_eqb p [45] | _ => false end.

  (* FilterIgnoredPaths with checkFileExists = false; with checkFileExists = true the same
     [go_filter_paths] is applied to the walked .rego files (see lint_scanned) *)
  Definition go_filter_ignored_paths (paths ignore : list str) (pre : str) : option (list str) :=
    if is_stdin paths then Some paths
    else match ignore with
         | [] => Some paths
         | _ => go_filter_paths paths ignore (go_norm_prefix pre)
         end.

  Definition go_filter_ignored_paths_pinned (paths ignore : list str) (pre : str) : option (list str) :=
    if is_stdin paths then Some paths
    else match ignore with
         | [] => Some paths
         | _ => go_filter_paths paths ignore (go_norm_prefix_pinned pre)
         end.

  (* ---- Rego *)

  Definition rego_exclude (p f : str) : bool :=
    negb (str_eqb p []) && rego_match_any glob_ok glob_match (rego_expand p) f.

  Definition rego_exclude_pinned (p f : str) : bool :=
    rego_match_any glob_ok glob_match (rego_expand p) f.

  (* excluded_file(category, title, file): global patterns, else the rule's ignore.files *)
  Definition rego_excluded_file_gen (excl : str -> str -> bool)
             (cli : list str) (cfg : option (list str)) (rule : list str) (f : str) : bool :=
    (match rego_global cli cfg with
     | Some g => existsb (fun p => excl p f) g
     | None => false
     end) || existsb (fun p => excl p f) rule.

  Definition rego_excluded_file := rego_excluded_file_gen rego_exclude.
  Definition rego_excluded_file_pinned := rego_excluded_file_gen rego_exclude_pinned.

  (* ---- specification: what "the file matches the pattern" means (by Regal's matcher:
     some expansion of the non-empty pattern compiles and matches the root-relative name) *)
  Definition matches (p r : str) : bool :=
    negb (str_eqb p []) && existsb (fun e => glob_ok e && glob_match e r) (go_expand p).

  Definition matches_any (ps : list str) (r : str) : bool := existsb (fun p => matches p r) ps.

  (* the domain of the agreement corollaries: every expansion compiles *)
  Definition compiles (p : str) : bool := forallb glob_ok (go_expand p).

  (* ---- one lint run, at the granularity C05 speaks about.
     [files]: the .rego files found under the input paths (or the module names handed in),
     rule bodies are an oracle: [fires k f] = rule k's body yields a violation located in f. *)
  Record lint_in := {
    li_files : list str;
    li_prefix : str;
    li_cli : list str;
    li_cfg : option (list str);
    li_rule_ignore : rule_kind -> list str }.

  Definition lint_scanned (li : lint_in) : option (list str) :=
    go_filter_paths (li_files li) (go_select (li_cli li) (li_cfg li)) (go_norm_prefix (li_prefix li)).

  (* _rules_to_run / the custom branches of report and aggregate: is rule k evaluated on f *)
  Definition rule_runs_on (li : lint_in) (k : rule_kind) (f : str) : bool :=
    negb (rego_excluded_file (li_cli li) (li_cfg li) (li_rule_ignore li k)
                             (rego_rel_kind k f (li_prefix li))).

  (* custom aggregate_report is guarded by excluded_file on the placeholder name, and aggregate
     rules only run when more than one file is linted *)
  Definition aggregate_report_runs (li : lint_in) (scanned : list str) : bool :=
    Nat.ltb 1 (length scanned) &&
    negb (rego_excluded_file (li_cli li) (li_cfg li) (li_rule_ignore li KCustomAgg) aggregate_report_name).

  Definition lint_hits (fires : rule_kind -> str -> bool) (li : lint_in) (k : rule_kind)
    : option (list str) :=
    match lint_scanned li with
    | None => None
    | Some scanned =>
        Some (filter (fun f => fires k f && rule_runs_on li k f &&
                               match k with KCustomAgg => aggregate_report_runs li scanned | _ => true end)
                     scanned)
    end.

  (* ---- language server call sites (internal/lsp/server.go).  The server knows files by URI, percent-encoded
     by the client (or by uri.FromPath); ignore patterns are written against plain paths.  [uri_to_path] is
     uri.ToPath: TrimPrefix "file://", url.QueryUnescape when the URI had that prefix (a malformed escape leaves
     the text as it is), and for the VS Code client the drive letter form ("/c%3A/x" or "/c:/x" -> "c:/x"). *)
  Definition file_scheme : str := [102; 105; 108; 101; 58; 47; 47].   (* "file://" *)
  Definition dot_rego : str := [46; 114; 101; 103; 111].              (* ".rego" *)
End Oracle.

Definition PERCENT : N := 37.
Definition PLUS : N := 43.
Definition SPACE : N := 32.
Definition COLON : N := 58.

(* value of a hexadecimal digit (ishex/unhex of net/url) *)
Definition hexval (c : N) : option N :=
  if (48 <=? c) && (c <=? 57) then Some (c - 48)
  else if (65 <=? c) && (c <=? 70) then Some (c - 55)
  else if (97 <=? c) && (c <=? 102) then Some (c - 87)
  else None.

(* url.QueryUnescape: "%XY" -> the byte, "+" -> " "; None = EscapeError (a "%" not followed by two hex digits) *)
Fixpoint query_unescape (s : str) {struct s} : option str :=
  match s with
  | [] => Some []
  | c :: s' =>
      if c =? PERCENT then
        match s' with
        | h1 :: h2 :: s'' =>
            match hexval h1, hexval h2 with
            | Some a, Some b => option_map (cons (16 * a + b)) (query_unescape s'')
            | _, _ => None
            end
        | _ => None
        end
      else option_map (cons (if c =? PLUS then SPACE else c)) (query_unescape s')
  end.

Inductive lsp_client := ClientGeneric | ClientVSCode.

Definition is_ascii_letter (c : N) : bool := ((65 <=? c) && (c <=? 90)) || ((97 <=? c) && (c <=? 122)).

(* drivePatternMaybeEncoded = ^([A-Za-z])(%3[aA]|:) on the text behind the leading "/":
   Some (letter, rest behind the match) *)
Definition drive_split (p : str) : option (N * str) :=
  match p with
  | l :: c :: rest =>
      if is_ascii_letter l then
        if c =? COLON then Some (l, rest)
        else match c, rest with
             | 37, 51 :: a :: rest' => if (a =? 97) || (a =? 65) then Some (l, rest') else None
             | _, _ => None
             end
      else None
  | _ => None
  end.

Definition uri_to_path (cl : lsp_client) (u : str) : str :=
  let raw := trim_prefix u file_scheme in
  let path := if has_prefix u file_scheme
              then match query_unescape raw with Some d => d | None => raw end
              else raw in
  match cl with
  | ClientGeneric => path
  | ClientVSCode =>
      let p := trim_prefix path [SLASH] in
      match drive_split p with
      | Some (l, rest) => l :: COLON :: rest
      | None => SLASH :: p
      end
  end.

(* uri.FromPath, the path part: every segment url.QueryEscape'd with "+" rewritten to "%20", i.e. the unreserved
   characters A-Z a-z 0-9 - _ . ~ stay, every other byte becomes %XY (upper case); separators stay *)
Definition hexdigit (d : N) : N := if d <? 10 then 48 + d else 55 + d.

Definition unreserved (c : N) : bool :=
  ((48 <=? c) && (c <=? 57)) || ((65 <=? c) && (c <=? 90)) || ((97 <=? c) && (c <=? 122)) ||
  (c =? 45) || (c =? 95) || (c =? 46) || (c =? 126).

Fixpoint uri_escape (p : str) : str :=
  match p with
  | [] => []
  | c :: p' =>
      if unreserved c || (c =? SLASH) then c :: uri_escape p'
      else PERCENT :: hexdigit (c / 16) :: hexdigit (c mod 16) :: uri_escape p'
  end.

Section OracleLsp.
  Variable glob_ok : str -> bool.
  Variable glob_match : str -> str -> bool.

  (* ignoreURI: paths, err := FilterIgnoredPaths([ToPath(uri)], cfg.Ignore.Files, false, workspacePath());
     return err != nil || len(paths) == 0 *)
  Definition lsp_ignore_uri (cl : lsp_client) (root_uri : str) (ignore : list str) (u : str) : bool :=
    negb (has_suffix u dot_rego) ||
    match go_filter_ignored_paths glob_ok glob_match [uri_to_path cl u] ignore (uri_to_path cl root_uri) with
    | Some [] => true
    | Some _ => false
    | None => true
    end.

  (* getFilteredModules (after the repair of round 3): every cached module URI on its own,
     FilterIgnoredPaths([ToPath(uri)], ignore, false, workspacePath()); an error aborts (None); the result is a
     map, modelled as the kept URIs in the order of [uris] *)
  Fixpoint lsp_filtered_modules (cl : lsp_client) (root_uri : str) (ignore : list str) (uris : list str)
    : option (list str) :=
    match uris with
    | [] => Some []
    | u :: us =>
        match go_filter_ignored_paths glob_ok glob_match [uri_to_path cl u] ignore (uri_to_path cl root_uri) with
        | None => None
        | Some [] => lsp_filtered_modules cl root_uri ignore us
        | Some _ => option_map (cons u) (lsp_filtered_modules cl root_uri ignore us)
        end
    end.

  (* the code before that repair: FilterIgnoredPaths(keys of the module cache (URIs), ignore, false, workspaceRootURI),
     i.e. the patterns were matched against the percent-encoded text *)
  Definition lsp_filtered_modules_pinned (root_uri : str) (ignore : list str) (uris : list str) : option (list str) :=
    go_filter_ignored_paths glob_ok glob_match uris ignore root_uri.
End OracleLsp.
