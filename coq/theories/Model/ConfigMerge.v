(* Model of pkg/config: the Config value as nested association lists, mergo's
   Merge(dst, src, WithOverride) restricted to the shapes Config has (bundle.go
   LoadConfigWithDefaultsFromBundle), the level pass extractUserRuleLevels, and the
   map-level content of (Un)MarshalYAML / extractDefaults / extractRules / mapToConfig.
   Go maps are association lists with distinct keys; a nil map and an empty map, a nil
   slice and an empty slice are identified (the code never distinguishes them).
   Definitions only. *)
From Regal Require Export Base.Str.
Local Open Scope N_scope.

(* ---------- YAML / JSON values (rule options are arbitrary) ---------- *)

Inductive jval :=
  | JNull | JBool (b : bool) | JNum (z : Z) | JStr (s : str)
  | JArr (l : list jval) | JObj (m : list (str * jval)).

(* ---------- association lists ---------- *)

Fixpoint aget {A} (m : list (str * A)) (k : str) : option A :=
  match m with
  | [] => None
  | (k', v) :: m' => if str_eqb k' k then Some v else aget m' k
  end.

(* m[k] = v : replace in place, else append *)
Fixpoint aset {A} (m : list (str * A)) (k : str) (v : A) : list (str * A) :=
  match m with
  | [] => [(k, v)]
  | (k', v') :: m' => if str_eqb k' k then (k, v) :: m' else (k', v') :: aset m' k v
  end.

(* delete(m, k) *)
Fixpoint adel {A} (m : list (str * A)) (k : str) : list (str * A) :=
  match m with
  | [] => []
  | (k', v') :: m' => if str_eqb k' k then adel m' k else (k', v') :: adel m' k
  end.

(* maps.Copy(dst, src) *)
Definition acopy {A} (dst src : list (str * A)) : list (str * A) :=
  fold_left (fun m kv => aset m (fst kv) (snd kv)) src dst.

Fixpoint distinct (ks : list str) : bool :=
  match ks with [] => true | k :: ks' => negb (str_in k ks') && distinct ks' end.

Definition keys {A} (m : list (str * A)) : list str := map fst m.

(* ---------- the Config value ---------- *)

Record rule := {
  r_level : str;                       (* Rule.Level, "" = unset *)
  r_ignore : option (list str);        (* Rule.Ignore, a pointer: nil / files *)
  r_extra : list (str * jval) }.       (* Rule.Extra: every other key of the rule *)

Definition category := list (str * rule).

Record defaults := {
  d_global : str;                      (* Defaults.Global.Level *)
  d_cats : list (str * str) }.         (* Defaults.Categories[c].Level *)

Record root := { rt_path : str; rt_ver : option Z }.
Record project := { p_roots : option (list root); p_ver : option Z }.

(* builtin name -> rendered declaration *)
Definition caps := list (str * str).

Record config := {
  c_defaults : defaults;
  c_rules : list (str * category);
  c_caps : option caps;                      (* pointer to Capabilities *)
  c_features : option (option bool);         (* Features -> Remote -> CheckVersion, two pointers *)
  c_project : option project;
  c_caps_url : str;
  c_ignore : list str }.                     (* Ignore.Files *)

Definition LEVEL : str := [108; 101; 118; 101; 108].
Definition IGNORE : str := [105; 103; 110; 111; 114; 101].
Definition DEFAULT : str := [100; 101; 102; 97; 117; 108; 116].
Definition ERROR : str := [101; 114; 114; 111; 114].

Definition get_rule (c : config) (cat name : str) : option rule :=
  match aget (c_rules c) cat with Some rs => aget rs name | None => None end.

Definition get_option (c : config) (cat name opt : str) : option jval :=
  match get_rule c cat name with Some r => aget (r_extra r) opt | None => None end.

Definition get_level (c : config) (cat name : str) : option str :=
  match get_rule c cat name with Some r => Some (r_level r) | None => None end.

Definition get_rule_ignore (c : config) (cat name : str) : option (list str) :=
  match get_rule c cat name with Some r => r_ignore r | None => None end.

(* ---------- mergo.Merge(&dst, src, WithOverride) on Config ---------- *)

(* pointer fields: nil src leaves dst; nil dst takes src; otherwise the pointees are merged *)
Definition merge_ptr {A} (inner : A -> A -> A) (dst src : option A) : option A :=
  match src with
  | None => dst
  | Some s => match dst with None => Some s | Some d => Some (inner d s) end
  end.

(* scalars, strings and slices: a non-empty src overrides *)
Definition over_str (dst src : str) : str := match src with [] => dst | _ => src end.
Definition over_list {A} (dst src : list A) : list A := match src with [] => dst | _ => src end.
Definition over_bool (dst src : bool) : bool := if src then true else dst.
Definition over_Z (dst src : Z) : Z := if Z.eqb src 0 then dst else src.

Definition merge_project (d s : project) : project :=
  {| p_roots := merge_ptr over_list (p_roots d) (p_roots s);
     p_ver := merge_ptr over_Z (p_ver d) (p_ver s) |}.

(* a map whose values are structs: the src element REPLACES the dst element as a whole *)
Definition merge_struct_map {A} (dst src : list (str * A)) : list (str * A) := acopy dst src.

(* map[string]Category: categories present on both sides are merged rule by rule,
   and a rule (struct) present on both sides is replaced by the src rule *)
Definition merge_rules (dst src : list (str * category)) : list (str * category) :=
  fold_left (fun m kv =>
    match aget m (fst kv) with
    | None => aset m (fst kv) (snd kv)
    | Some dcat => aset m (fst kv) (merge_struct_map dcat (snd kv))
    end) src dst.

Definition merge_defaults (d s : defaults) : defaults :=
  {| d_global := over_str (d_global d) (d_global s);
     d_cats := merge_struct_map (d_cats d) (d_cats s) |}.

(* Capabilities of both sides are only ever merged when the provided configuration carries
   capabilities; it never does (checked by the harness), so the pointer case is all there is *)
Definition merge_config (dst src : config) : config :=
  {| c_defaults := merge_defaults (c_defaults dst) (c_defaults src);
     c_rules := merge_rules (c_rules dst) (c_rules src);
     c_caps := merge_ptr (fun d s => acopy d s) (c_caps dst) (c_caps src);
     c_features := merge_ptr (merge_ptr over_bool) (c_features dst) (c_features src);
     c_project := merge_ptr merge_project (c_project dst) (c_project src);
     c_caps_url := over_str (c_caps_url dst) (c_caps_url src);
     c_ignore := over_list (c_ignore dst) (c_ignore src) |}.

(* ---------- restoreProvidedRuleOptions (commit 946e045) ---------- *)

(* the merged rule [r] (= the user's) completed by the provided rule [p] *)
Definition complete_rule (p r : rule) : rule :=
  {| r_level := r_level r;
     r_ignore := match r_ignore r with Some i => Some i | None => r_ignore p end;
     r_extra := acopy (r_extra p) (r_extra r) |}.

Definition map_rules (f : str -> str -> rule -> rule) (rs : list (str * category))
  : list (str * category) :=
  map (fun cr => (fst cr, map (fun nr => (fst nr, f (fst cr) (fst nr) (snd nr))) (snd cr))) rs.

Definition in_user (user : config) (cat name : str) : bool :=
  match get_rule user cat name with Some _ => true | None => false end.

Definition restore_options (provided user merged : config) : config :=
  {| c_defaults := c_defaults merged;
     c_rules := map_rules (fun cat name r =>
                  match get_rule provided cat name with
                  | Some p => if in_user user cat name then complete_rule p r else r
                  | None => r
                  end) (c_rules merged);
     c_caps := c_caps merged; c_features := c_features merged; c_project := c_project merged;
     c_caps_url := c_caps_url merged; c_ignore := c_ignore merged |}.

(* ---------- providedConfLevels / extractUserRuleLevels ---------- *)

(* rule name -> provided level; the Go map is keyed by the rule name only *)
Definition provided_levels (provided : config) : list (str * str) :=
  flat_map (fun cr => map (fun nr => (fst nr, r_level (snd nr))) (snd cr)) (c_rules provided).

Definition nonempty (s : str) : bool := match s with [] => false | _ => true end.
Definition nonempty_list {A} (l : list A) : bool := match l with [] => false | _ => true end.

(* the level given to rule [name] of category [cat] whose provided level is [plevel]:
   the user's rule level, else the category default, else the global default, else [plevel]
   ("" counts as unset everywhere) *)
Definition select_level (user merged : config) (cat name : str) (plevel : str) : str :=
  let ulevel := match get_rule user cat name with Some r => r_level r | None => [] end in
  let clevel := match aget (d_cats (c_defaults merged)) cat with Some cl => cl | None => [] end in
  let glevel := d_global (c_defaults merged) in
  if nonempty ulevel then ulevel
  else if nonempty clevel then clevel
  else if nonempty glevel then glevel
  else plevel.

(* every rule of the merged configuration gets its level; a rule name without a provided level
   (custom rules, rules of user-made categories) falls back to "error" *)
Definition extract_levels (user merged : config) (plevels : list (str * str)) : config :=
  {| c_defaults := c_defaults merged;
     c_rules := map_rules (fun cat name r =>
                  let pl := match aget plevels name with Some l => l | None => ERROR end in
                  {| r_level := select_level user merged cat name pl;
                     r_ignore := r_ignore r; r_extra := r_extra r |}) (c_rules merged);
     c_caps := c_caps merged; c_features := c_features merged; c_project := c_project merged;
     c_caps_url := c_caps_url merged; c_ignore := c_ignore merged |}.

Definition with_default_caps (dcaps : caps) (c : config) : config :=
  {| c_defaults := c_defaults c; c_rules := c_rules c;
     c_caps := match c_caps c with Some x => Some x | None => Some dcaps end;
     c_features := c_features c; c_project := c_project c;
     c_caps_url := c_caps_url c; c_ignore := c_ignore c |}.

(* LoadConfigWithDefaultsFromBundle; [dcaps] = CapabilitiesForThisVersion() *)
Definition load (provided : config) (user : option config) (dcaps : caps) : config :=
  match user with
  | None => with_default_caps dcaps
              {| c_defaults := c_defaults provided; c_rules := c_rules provided; c_caps := None;
                 c_features := c_features provided; c_project := c_project provided;
                 c_caps_url := c_caps_url provided; c_ignore := c_ignore provided |}
  | Some u =>
      let merged := restore_options provided u (merge_config provided u) in
      extract_levels u (with_default_caps dcaps merged) (provided_levels provided)
  end.

(* the same without the restore step: the code as it was at the pinned commit *)
Definition load_pinned (provided : config) (user : option config) (dcaps : caps) : config :=
  match user with
  | None => load provided None dcaps
  | Some u => extract_levels u (with_default_caps dcaps (merge_config provided u))
                             (provided_levels provided)
  end.

(* ---------- well-formedness ---------- *)

Definition rule_wf (r : rule) : bool :=
  distinct (keys (r_extra r)) &&
  negb (str_in LEVEL (keys (r_extra r))) && negb (str_in IGNORE (keys (r_extra r))).

Definition rules_wf (rs : list (str * category)) : bool :=
  distinct (keys rs) &&
  forallb (fun cr => distinct (keys (snd cr)) && forallb (fun nr => rule_wf (snd nr)) (snd cr)) rs.

(* what is true of every value decoded from Go maps *)
Definition config_wf (c : config) : bool :=
  rules_wf (c_rules c) && distinct (keys (d_cats (c_defaults c))).

(* providedConfLevels "assumes all rules have unique names" *)
Definition provided_wf (c : config) : bool :=
  config_wf c && distinct (keys (provided_levels c)).

(* ---------- the YAML document of a configuration, at map level ---------- *)

Definition RULES : str := [114; 117; 108; 101; 115].
Definition FILES : str := [102; 105; 108; 101; 115].
Definition CAPABILITIES : str := [99; 97; 112; 97; 98; 105; 108; 105; 116; 105; 101; 115].
Definition FEATURES : str := [102; 101; 97; 116; 117; 114; 101; 115].
Definition PROJECT : str := [112; 114; 111; 106; 101; 99; 116].
Definition CAPS_URL : str := CAPABILITIES ++ [95; 117; 114; 108].          (* capabilities_url *)
Definition FROM : str := [102; 114; 111; 109].
Definition PLUS : str := [112; 108; 117; 115].
Definition MINUS : str := [109; 105; 110; 117; 115].
Definition BUILTINS : str := [98; 117; 105; 108; 116; 105; 110; 115].
Definition NAME : str := [110; 97; 109; 101].
Definition DECL : str := [100; 101; 99; 108].
Definition ENGINE : str := [101; 110; 103; 105; 110; 101].
Definition VERSION : str := [118; 101; 114; 115; 105; 111; 110].
Definition FILE : str := [102; 105; 108; 101].
Definition URL : str := [117; 114; 108].
Definition REMOTE : str := [114; 101; 109; 111; 116; 101].
Definition CHECK_VERSION_US : str := [99; 104; 101; 99; 107; 95; 118; 101; 114; 115; 105; 111; 110]. (* check_version *)
Definition CHECK_VERSION_DASH : str := [99; 104; 101; 99; 107; 45; 118; 101; 114; 115; 105; 111; 110]. (* check-version *)
Definition ROOTS : str := [114; 111; 111; 116; 115].
Definition PATH_LC : str := [112; 97; 116; 104].
Definition PATH_UC : str := [80; 97; 116; 104].
Definition REGO_VERSION : str := [114; 101; 103; 111; 45; 118; 101; 114; 115; 105; 111; 110].
Definition OPA : str := [111; 112; 97].
Definition DEFAULT_CAPS_URL : str :=   (* regal:///capabilities/default *)
  [114;101;103;97;108;58;47;47;47;99;97;112;97;98;105;108;105;116;105;101;115;47;100;101;102;97;117;108;116].
Definition CAPS_URL_PREFIX : str :=    (* regal:///capabilities/ *)
  [114;101;103;97;108;58;47;47;47;99;97;112;97;98;105;108;105;116;105;101;115;47].
Definition FILE_URL_PREFIX : str := [102; 105; 108; 101; 58; 47; 47].   (* file:// *)

Inductive uerr :=
  | EDecode            (* yaml.v3 cannot decode the document into the intermediary struct *)
  | ENotAMap           (* "rules for category %s were not a map" / "result was not a map" *)
  | EIgnoreShape       (* "unmarshalling rule ignore failed" *)
  | ECapsExclusive     (* from.url / from.file / from.engine mixed *)
  | ECapsVersion       (* engine without version, non-string version, opa version without "v" *)
  | ECapsLookup.       (* capabilities.Lookup failed *)

Inductive result (A : Type) := Ok (a : A) | Err (e : uerr).
Arguments Ok {A} a. Arguments Err {A} e.

Definition bind {A B} (r : result A) (f : A -> result B) : result B :=
  match r with Ok a => f a | Err e => Err e end.

Definition obj_get (j : jval) (k : str) : option jval :=
  match j with JObj m => aget m k | _ => None end.

(* a field of a Go struct decoded by yaml.v3: missing and null leave the zero value *)
Definition field (j : option jval) (k : str) : option jval :=
  match j with
  | Some (JObj m) => match aget m k with Some JNull => None | r => r end
  | _ => None
  end.

Fixpoint strs_of (l : list jval) : option (list str) :=
  match l with
  | [] => Some []
  | JStr s :: l' => match strs_of l' with Some r => Some (s :: r) | None => None end
  | _ :: _ => None
  end.

(* Default.mapToConfig *)
Definition default_level (j : jval) : result str :=
  match j with
  | JObj m => Ok (match aget m LEVEL with Some (JStr s) => s | _ => [] end)
  | _ => Err ENotAMap
  end.

(* Rule.mapToConfig *)
Definition rule_of (j : jval) : result rule :=
  match j with
  | JObj m =>
    let level := match aget m LEVEL with Some (JStr s) => s | _ => [] end in
    let ign : result (option (list str)) :=
      match aget m IGNORE with
      | None => Ok None
      | Some JNull => Ok (Some [])
      | Some (JObj im) =>
          match aget im FILES with
          | None | Some JNull => Ok (Some [])
          | Some (JArr l) => match strs_of l with Some fs => Ok (Some fs) | None => Err EIgnoreShape end
          | Some _ => Err EIgnoreShape
          end
      | Some _ => Err EIgnoreShape
      end in
    bind ign (fun i => Ok {| r_level := level; r_ignore := i; r_extra := adel (adel m LEVEL) IGNORE |})
  | _ => Err ENotAMap
  end.

Fixpoint map_result {A B} (f : A -> result B) (l : list A) : result (list B) :=
  match l with
  | [] => Ok []
  | x :: l' => bind (f x) (fun y => bind (map_result f l') (fun ys => Ok (y :: ys)))
  end.

(* extractRules: "default" entries are skipped at both levels *)
Definition rules_of (rules : list (str * jval)) : result (list (str * category)) :=
  map_result (fun kv =>
    match snd kv with
    | JObj rm =>
        bind (map_result (fun nr => bind (rule_of (snd nr)) (fun r => Ok (fst nr, r)))
                         (filter (fun nr => negb (str_eqb (fst nr) DEFAULT)) rm))
             (fun rs => Ok (fst kv, rs))
    | _ => Err ENotAMap
    end) (filter (fun kv => negb (str_eqb (fst kv) DEFAULT)) rules).

(* extractDefaults: the global default, and for EVERY key of rules (the key "default"
   included) the entry "default" of its value *)
Definition defaults_of (rules : list (str * jval)) : result defaults :=
  bind (match aget rules DEFAULT with Some j => default_level j | None => Ok [] end) (fun g =>
  bind (map_result (fun kv =>
          match snd kv with
          | JObj rm => match aget rm DEFAULT with
                       | Some dj => bind (default_level dj) (fun l => Ok [(fst kv, l)])
                       | None => Ok []
                       end
          | _ => Err ENotAMap
          end) rules) (fun cs =>
  Ok {| d_global := g; d_cats := concat cs |})).

(* Project.UnmarshalYAML: a root is a string or an object with path / rego-version *)
Definition root_of (j : jval) : option root :=
  match j with
  | JStr s => Some {| rt_path := s; rt_ver := None |}
  | JObj m =>
      let p := match aget m PATH_LC, aget m PATH_UC with
               | Some (JStr s), _ => Some s
               | _, Some (JStr s) => Some s
               | None, None => Some []
               | _, _ => None
               end in
      let v := match aget m REGO_VERSION with
               | Some (JNum z) => Some (Some z) | None | Some JNull => Some None | _ => None end in
      match p, v with Some p, Some v => Some {| rt_path := p; rt_ver := v |} | _, _ => None end
  | _ => None
  end.

Fixpoint roots_of (l : list jval) : option (list root) :=
  match l with
  | [] => Some []
  | j :: l' => match root_of j, roots_of l' with Some r, Some rs => Some (r :: rs) | _, _ => None end
  end.

Definition project_of (j : option jval) : result (option project) :=
  match j with
  | None | Some JNull => Ok None
  | Some (JObj m) =>
      let roots := match aget m ROOTS with
                   | None | Some JNull => Some None
                   | Some (JArr l) => match roots_of l with Some rs => Some (Some rs) | None => None end
                   | Some _ => None
                   end in
      let ver := match aget m REGO_VERSION with
                 | None | Some JNull => Some None
                 | Some (JNum z) => Some (Some z)
                 | Some _ => None
                 end in
      match roots, ver with
      | Some r, Some v => Ok (Some {| p_roots := r; p_ver := v |})
      | _, _ => Err EDecode
      end
  | Some _ => Err EDecode
  end.

Definition str_field (j : option jval) (k : str) : str :=
  match field j k with Some (JStr s) => s | _ => [] end.

(* the capabilities URL computed by Config.UnmarshalYAML from capabilities.from;
   [abs] stands for filepath.Abs *)
Definition caps_url_of (abs : str -> str) (from : option jval) : result str :=
  let file := str_field from FILE in
  let engine := str_field from ENGINE in
  let url := str_field from URL in
  let version := field from VERSION in
  let version_empty := match version with None => true | Some (JStr []) => true | _ => false end in
  if nonempty url && nonempty file then Err ECapsExclusive
  else if nonempty url && nonempty engine then Err ECapsExclusive
  else if nonempty url && negb version_empty then Err ECapsExclusive
  else if nonempty file && nonempty engine then Err ECapsExclusive
  else if nonempty engine && version_empty then Err ECapsVersion
  else if nonempty engine then
    match version with
    | Some (JStr v) =>
        if str_eqb engine OPA && negb (has_prefix v [118]) then Err ECapsVersion
        else Ok (CAPS_URL_PREFIX ++ engine ++ [47] ++ v)
    | _ => Err ECapsVersion
    end
  else if nonempty file then
    let a := abs file in
    Ok (FILE_URL_PREFIX ++ (if has_prefix a [47] then a else 47 :: a))
  else if nonempty url then Ok url
  else Ok DEFAULT_CAPS_URL.

(* plus.builtins: the harness renders the declaration with OPA's own printer; here a plus
   entry is an object {name, decl: "<rendered>"}; minus.builtins: objects {name} *)
Fixpoint names_of (l : list jval) : list str :=
  match l with
  | [] => []
  | j :: l' => match obj_get j NAME with Some (JStr s) => s :: names_of l' | _ => names_of l' end
  end.

Fixpoint plus_of (l : list jval) : list (str * str) :=
  match l with
  | [] => []
  | j :: l' => match obj_get j NAME, obj_get j DECL with
               | Some (JStr n), Some (JStr d) => (n, d) :: plus_of l'
               | _, _ => plus_of l'
               end
  end.

Definition arr_field (j : option jval) (k : str) : list jval :=
  match field j k with Some (JArr l) => l | _ => [] end.

Section Unmarshal.
  (* capabilities.Lookup, filepath.Abs; [dash] = true: features.remote is read from the key
     "check-version" (false: from "check_version", as the pinned code did) *)
  Variable lookup : str -> option caps.
  Variable abs : str -> str.
  Variable dash : bool.

  (* value.Decode(&intermediary) first (rules / project / ignore must have their shapes), then
     extractDefaults, extractRules, the capabilities URL, the lookup, plus / minus, features *)
  Definition unmarshal (doc : jval) : result config :=
    match doc with
    | JObj top =>
      let rules := match aget top RULES with
                   | None | Some JNull => Ok []
                   | Some (JObj m) => Ok m
                   | Some _ => Err EDecode
                   end in
      let ign := match field (field (Some doc) IGNORE) FILES with
                 | Some (JArr l) => match strs_of l with Some fs => Ok fs | None => Err EDecode end
                 | None => Ok []
                 | Some _ => Err EDecode
                 end in
      bind rules (fun rules =>
      bind (project_of (aget top PROJECT)) (fun proj =>
      bind ign (fun ign =>
      bind (defaults_of rules) (fun ds =>
      bind (rules_of rules) (fun rs =>
      let capsj := field (Some doc) CAPABILITIES in
      bind (caps_url_of abs (field capsj FROM)) (fun url =>
      match lookup url with
      | None => Err ECapsLookup
      | Some base =>
        let minus := names_of (arr_field (field capsj MINUS) BUILTINS) in
        let plus := plus_of (arr_field (field capsj PLUS) BUILTINS) in
        let cps := acopy (fold_left (fun m n => adel m n) minus base) plus in
        let cv := match field (field (field (Some doc) FEATURES) REMOTE)
                              (if dash then CHECK_VERSION_DASH else CHECK_VERSION_US) with
                  | Some (JBool true) => true | _ => false end in
        Ok {| c_defaults := ds; c_rules := rs; c_caps := Some cps;
              c_features := if cv then Some (Some true) else None;
              c_project := proj; c_caps_url := url; c_ignore := ign |}
      end))))))
    | _ => Err EDecode
    end.
End Unmarshal.

(* Rule.MarshalYAML *)
Definition rule_doc (r : rule) : jval :=
  JObj ((LEVEL, JStr (r_level r))
        :: match r_ignore r with
           | Some (f :: fs) => [(IGNORE, JObj [(FILES, JArr (map JStr (f :: fs)))])]
           | _ => []
           end
        ++ filter (fun kv => negb (str_eqb (fst kv) IGNORE) && negb (str_eqb (fst kv) LEVEL)) (r_extra r)).

Definition level_doc (l : str) : jval := JObj [(LEVEL, JStr l)].

Definition opt_entry (k : str) (v : option jval) : list (str * jval) :=
  match v with Some j => [(k, j)] | None => [] end.

Definition root_doc (r : root) : jval :=
  JObj ((PATH_UC, JStr (rt_path r)) :: opt_entry REGO_VERSION (option_map JNum (rt_ver r))).

Definition project_doc (p : project) : jval :=
  JObj (opt_entry ROOTS (option_map (fun rs => JArr (map root_doc rs)) (p_roots p))
        ++ opt_entry REGO_VERSION (option_map JNum (p_ver p))).

Definition features_doc (f : option bool) : jval :=
  JObj (opt_entry REMOTE
          (option_map (fun b : bool => JObj (if b then [(CHECK_VERSION_DASH, JBool true)] else [])) f)).

(* the resolved capabilities are written as {builtins: {...}, ...}: none of from/plus/minus *)
Definition caps_doc (c : caps) : jval :=
  JObj [(BUILTINS, JObj (map (fun nd => (fst nd, JObj [(DECL, JStr (snd nd))])) c))].

(* Config.MarshalYAML; None = one of its errors ("category %s was not a map") *)
Definition marshal (c : config) : option jval :=
  let cats := map (fun cr => (fst cr, map (fun nr => (fst nr, rule_doc (snd nr))) (snd cr))) (c_rules c) in
  (* category defaults go under their category, which must exist *)
  let placed := fold_left (fun acc cl =>
                  match acc with
                  | None => None
                  | Some m => match aget m (fst cl) with
                              | Some rm => Some (aset m (fst cl) (aset rm DEFAULT (level_doc (snd cl))))
                              | None => None
                              end
                  end) (d_cats (c_defaults c)) (Some cats) in
  match placed with
  | None => None
  | Some cats' =>
    let rules := map (fun cr => (fst cr, JObj (snd cr))) cats' in
    let rules' := if nonempty (d_global (c_defaults c))
                  then aset rules DEFAULT (level_doc (d_global (c_defaults c))) else rules in
    Some (JObj ((RULES, JObj rules')
                :: opt_entry CAPABILITIES (option_map caps_doc (c_caps c))
                ++ opt_entry FEATURES (option_map features_doc (c_features c))
                ++ opt_entry PROJECT (option_map project_doc (c_project c))
                ++ (if nonempty (c_caps_url c) then [(CAPS_URL, JStr (c_caps_url c))] else [])
                ++ match c_ignore c with [] => [] | fs => [(IGNORE, JObj [(FILES, JArr (map JStr fs))])] end))
  end.

(* ---------- what "the same configuration" means after a round trip ---------- *)

(* an empty per-rule ignore list is not written: &Ignore{} comes back as nil *)
Definition norm_rule (r : rule) : rule :=
  {| r_level := r_level r;
     r_ignore := match r_ignore r with Some [] => None | i => i end;
     r_extra := r_extra r |}.

Definition norm_rules (rs : list (str * category)) : list (str * category) :=
  map_rules (fun _ _ r => norm_rule r) rs.

(* conditions under which MarshalYAML succeeds and the rules come back: no rule or category is
   called "default", every category default belongs to a category of the configuration *)
Definition roundtrip_wf (c : config) : bool :=
  config_wf c &&
  negb (str_in DEFAULT (keys (c_rules c))) &&
  forallb (fun cr => negb (str_in DEFAULT (keys (snd cr)))) (c_rules c) &&
  forallb (fun cl => str_in (fst cl) (keys (c_rules c))) (d_cats (c_defaults c)).

(* ---------- vocabulary of the theorems ---------- *)

(* the provided configuration comes out of FromMap: no defaults, no capabilities *)
Definition provided_plain (p : config) : Prop :=
  c_defaults p = {| d_global := []; d_cats := [] |} /\ c_caps p = None.

(* first non-empty of a list of candidate levels *)
Fixpoint first_set (l : list str) (fallback : str) : str :=
  match l with
  | [] => fallback
  | x :: l' => if nonempty x then x else first_set l' fallback
  end.

(* what the user wrote about levels *)
Definition user_rule_level (u : config) (cat name : str) : str :=
  match get_rule u cat name with Some r => r_level r | None => [] end.
Definition user_cat_default (u : config) (cat : str) : str :=
  match aget (d_cats (c_defaults u)) cat with Some l => l | None => [] end.
Definition user_global_default (u : config) : str := d_global (c_defaults u).

(* the only Features value that UnmarshalYAML ever produces is "remote.check-version: true" *)
Definition features_back (f : option (option bool)) : option (option bool) :=
  match f with Some (Some true) => Some (Some true) | _ => None end.

(* a YAML document never repeats a key within one mapping (yaml.v3 rejects that); the last clause
   excludes the one silly document whose global default object has an entry "default" of its own *)
Definition rule_doc_wf (j : jval) : bool :=
  match j with JObj m => distinct (keys m) | _ => true end.

Definition cat_doc_wf (j : jval) : bool :=
  match j with
  | JObj rm => distinct (keys rm) && forallb (fun nr => rule_doc_wf (snd nr)) rm
  | _ => true
  end.

Definition rules_doc_wf (rules : list (str * jval)) : bool :=
  distinct (keys rules) && forallb (fun kv => cat_doc_wf (snd kv)) rules &&
  match aget rules DEFAULT with Some (JObj m) => negb (str_in DEFAULT (keys m)) | _ => true end.

Definition doc_wf (doc : jval) : bool :=
  match doc with
  | JObj top => match aget top RULES with Some (JObj m) => rules_doc_wf m | _ => true end
  | _ => true
  end.
