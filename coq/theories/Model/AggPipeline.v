(* Model of the aggregate collect / report split (C09).  Definitions only.

   pkg/linter/linter.go    lintWithRegoRules (operationCollect, the merge of result.Aggregates under the mutex incl.
                           the empty marker), Lint (overriddenAggregates / len(FileNames) > 1 selection, the condition
                           under which the aggregate report runs, exportAggregates, WithIgnoreDirectives),
                           lintWithRegoAggregateRules
   bundle/regal/main/main.rego   aggregate (built-in and custom branch, _mark_if_empty), aggregate_report (both
                           branches: key routing through aggregates_internal, _null_to_empty, the ignore filter)
   The rule bodies (rules[c][t].aggregate / .aggregate_report), enablement and file exclusion are oracles.

   A Go map[string][]Aggregate that is only ever appended to is represented by the log of its appends:
   the list of (key, entries) records.  The map it denotes has the keys of the records and, for each key, the
   concatenation of the records' entries in order ([am_get]); a record with no entries only creates its key (that
   is what the empty marker {} of a custom rule does on the Go side). *)
From Regal Require Export Base.Str Model.Directive.

Section Pipeline.
  Variable File : Type.
  Variable Agg : Type.
  Variable fname : File -> str.
  Variable fcomments : File -> list comment.

  (* keys "category/title" of the bundled rules and of the custom rules (data.custom.regal.rules) *)
  Variable brules : list str.
  Variable ckeys : list str.
  (* rules[c][t].aggregate for one file, [] when the rule is not run for the file (disabled, excluded) or does
     not aggregate; the set the Rego rule produces, listed in some order *)
  Variable B_aggregate : str -> File -> list Agg.
  (* custom rule: None = not run for the file or no `aggregate` at all, Some [] = ran and aggregated nothing *)
  Variable C_aggregate : str -> File -> option (list Agg).
  (* rules[c][t].aggregate_report with input.aggregate = the given entries; [] when the rule is not selected
     for the aggregate run (config.ignored_rule / excluded_file of "__aggregate_report__") *)
  Variable B_report : str -> list Agg -> list violation.
  Variable C_report : str -> list Agg -> list violation.

  Definition aggmap := list (str * list Agg).

  Definition am_get (k : str) (m : aggmap) : list Agg :=
    flat_map (fun kv => if str_eqb (fst kv) k then snd kv else []) m.
  Definition am_mem (k : str) (m : aggmap) : bool := existsb (fun kv => str_eqb (fst kv) k) m.
  Definition am_empty (m : aggmap) : bool := match m with [] => true | _ => false end.

  (* lint.aggregates of one file: `aggregate[category_title] contains entry`; a bundled rule's key exists only
     with at least one entry, a custom rule's key also when _mark_if_empty put the marker *)
  Definition file_aggs (f : File) : aggmap :=
    flat_map (fun r => match B_aggregate r f with [] => [] | es => [(r, es)] end) brules ++
    flat_map (fun k => match C_aggregate k f with Some es => [(k, es)] | None => [] end) ckeys.

  (* regoReport.Aggregates after all files of the run finished, in completion order; the collect query is
     only part of the evaluation for more than one file or WithCollectQuery *)
  Definition collect (use_collect : bool) (part : list File) : aggmap :=
    if (1 <? length part)%nat || use_collect then flat_map file_aggs part else [].

  (* the caller's merge of several Report.Aggregates: merged[k] = append(merged[k], aggs...) *)
  Definition merge_aggs (ms : list aggmap) : aggmap := concat ms.

  (* data.regal.main.aggregate_report before the ignore filter: the bundled branch visits every selected rule and
     hands it aggregates_internal[key] (default []); the custom branch visits the keys of aggregates_internal *)
  Definition agg_report_raw (m : aggmap) : list violation :=
    flat_map (fun r => B_report r (am_get r m)) brules ++
    flat_map (fun k => if am_mem k m then C_report k (am_get k m) else []) ckeys.

  Definition agg_report (m : aggmap) (dirs : gomap) : list violation :=
    agg_report_filter (agg_report_raw m) dirs.

  (* the tail of Lint: which aggregates are used and whether the aggregate report runs
     (after /repo ba0fc92 + 42020a4: also over no aggregates at all) *)
  Definition lint_aggregate_violations
             (own : aggmap) (nfiles : nat) (overridden : option aggmap) (dirs : gomap) : list violation :=
    let own_used := if (1 <? nfiles)%nat then own else [] in
    let all := match overridden with
               | Some o => if am_empty o then own_used else o
               | None => own_used
               end in
    let provided := match overridden with Some _ => true | None => false end in
    if negb (am_empty all) || provided || (1 <? nfiles)%nat then agg_report all dirs else [].

  Definition results_of (fs : list File) : list (str * dirmap) :=
    map (fun f => (fname f, directive_entries (fcomments f))) fs.

  (* one Lint call over all files (completion order = the order of the list) *)
  Definition one_shot (files : list File) : list violation :=
    lint_aggregate_violations (collect false files) (length files) None (carry (results_of files)).

  (* Report.IgnoreDirectives of a collect run (WithExportAggregates) *)
  Definition exported_dirs (part : list File) : gomap := carry (results_of part).

  (* ---- handing directives from run to run (Report.IgnoreDirectives -> WithIgnoreDirectives) ----
     Lint:  ignoreDirectives := {}
            maps.Copy(ignoreDirectives, l.ignoreDirectives)            (what WithIgnoreDirectives provided)
            maps.Copy(ignoreDirectives, regoReport.IgnoreDirectives)   (the files linted in this run)
     [dirs_update old new] is that second copy as an explicit map update: every entry of [new] REPLACES the entry
     [old] has for the same file.  regoReport.IgnoreDirectives has an entry for every file the run linted -- also
     for a file without any directive, whose entry is the empty object ([carry] sets one per finished file) -- so a
     file linted in the current run replaces its provided entry even when its new directive map is empty.
     The same update is what a client does with an exported map (`for f, d := range rep.IgnoreDirectives
     { dirs[f] = d }`) and what cache.SetIgnoreDirectives does after Clear. *)
  Definition dirs_update (old new : gomap) : gomap :=
    fold_left (fun g fo => gm_set g (fst fo) (snd fo)) new old.

  (* the directive map the aggregate report of one Lint call sees: provided [given], the run lints [own] *)
  Definition lint_dirs (given : gomap) (own : list File) : gomap :=
    dirs_update given (exported_dirs own).

  (* collect every part with WithCollectQuery + WithExportAggregates, merge in the order of the list, then
     Lint with WithAggregates(merged).WithIgnoreDirectives(merged directives) and no input *)
  Definition two_phase (parts : list (list File)) : list violation :=
    lint_aggregate_violations [] 0 (Some (merge_aggs (map (collect true) parts)))
      (carry_overridden [] (merge_exported (map exported_dirs parts))).

  (* the same without handing the directives on (all the API offered before /repo 4817eed) *)
  Definition two_phase_no_directives (parts : list (list File)) : list violation :=
    lint_aggregate_violations [] 0 (Some (merge_aggs (map (collect true) parts))) [].

  (* before /repo 42020a4 (and ba0fc92): no aggregates at all => validate() refuses the aggregate-only run,
     and a run over files does not report; None = "nothing provided to lint" *)
  Definition two_phase_pinned (parts : list (list File)) : option (list violation) :=
    let merged := merge_aggs (map (collect true) parts) in
    if am_empty merged then None else Some (agg_report merged []).
  Definition one_shot_pinned (files : list File) : list violation :=
    let own := if (1 <? length files)%nat then collect false files else [] in
    if am_empty own then [] else agg_report own (carry (results_of files)).
End Pipeline.

Arguments am_get {Agg} k m.
Arguments am_mem {Agg} k m.
Arguments am_empty {Agg} m.
