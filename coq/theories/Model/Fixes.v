(* Model of the three location-based text fixes of pkg/fixer/fixes (use-assignment-operator,
   no-whitespace-comment, non-raw-regex-pattern) byte for byte, of the helper byteIndexOfColumn
   (columns are counted in characters, strings are indexed by byte), of the rule-side source of the
   use-assignment-operator column (bundle/regal/rules/style/use-assignment-operator:
   _operator_location), of the pinned column source (_eq_col, first "=" of the line, kept for the
   regression theorems), and a small Rego lexer used only to STATE "this byte is code, not inside a
   string or a comment".  Definitions only. *)
From Regal Require Export Base.Str.
From Coq Require Export ZArith.

Definition NL : N := 10.
Definition CR : N := 13.
Definition TAB : N := 9.
Definition SP : N := 32.
Definition BANG : N := 33.
Definition DQ : N := 34.      (* double quote *)
Definition HASH : N := 35.
Definition COLON : N := 58.
Definition LT : N := 60.
Definition EQ : N := 61.
Definition GT : N := 62.
Definition BSL : N := 92.     (* '\' *)
Definition BT : N := 96.      (* '`' *)

(* report.Location as the fixes use it: Row and Column are Go ints (may be <= 0);
   the End position is no longer read by any of the three fixes *)
Record loc := { l_row : Z; l_col : Z }.

(* ------------------------------------------------------------------ UTF-8, as Go decodes it *)

Definition is_cont (b : N) : bool := (128 <=? b) && (b <=? 191).

(* number of bytes of the character starting at the head of [s], as utf8.DecodeRuneInString
   (and so [for i := range s] and []rune(s)) sees it: an invalid encoding is one character of
   width 1.  0 only for the empty string. *)
Definition rune_width (s : str) : nat :=
  match s with
  | [] => 0
  | b0 :: t =>
    if b0 <? 194 then 1
    else if b0 <? 224 then
      match t with b1 :: _ => if is_cont b1 then 2 else 1 | _ => 1 end
    else if b0 <? 240 then
      let lo := if b0 =? 224 then 160 else 128 in
      let hi := if b0 =? 237 then 159 else 191 in
      match t with
      | b1 :: b2 :: _ => if (lo <=? b1) && (b1 <=? hi) && is_cont b2 then 3 else 1
      | _ => 1
      end
    else if b0 <? 245 then
      let lo := if b0 =? 240 then 144 else 128 in
      let hi := if b0 =? 244 then 143 else 191 in
      match t with
      | b1 :: b2 :: b3 :: _ =>
          if (lo <=? b1) && (b1 <=? hi) && is_cont b2 && is_cont b3 then 4 else 1
      | _ => 1
      end
    else 1
  end.

(* the characters of a string, each with its bytes: what [for i := range s], []rune(s) and OPA's
   character-based builtins (substring, indexof, count) iterate over.  The fuel [length s] always
   suffices, every character having at least one byte (Proofs.Fixes.concat_runes). *)
Fixpoint runes_fuel (fuel : nat) (s : str) : list str :=
  match fuel with
  | O => []
  | S f => match s with
           | [] => []
           | _ => let w := rune_width s in firstn w s :: runes_fuel f (skipn w s)
           end
  end.
Definition runes (s : str) : list str := runes_fuel (length s) s.

(* byteIndexOfColumn (pkg/fixer/fixes/fixes.go): index of the first byte of the character at the
   1-based column [col]:  n := 0; for i := range line { n++; if n == col { return i, true } } *)
Definition byte_index_of_column (line : str) (col : Z) : option nat :=
  let rs := runes line in
  if ((col <? 1) || (Z.of_nat (length rs) <? col))%Z then None
  else Some (length (concat (firstn (Z.to_nat (col - 1)) rs))).

(* ------------------------------------------------------------------ line table *)

Definition lines_of (content : str) : list str := split_on NL content.
Definition unlines (ls : list str) : str := join [NL] ls.

(* lines[row-1] with the bounds check [row < 1 || row > len(lines)] *)
Definition get_line (ls : list str) (row : Z) : option str :=
  if (row <? 1)%Z then None else nth_error ls (Z.to_nat (row - 1)).

Fixpoint set_nth {A} (l : list A) (n : nat) (x : A) : list A :=
  match l, n with
  | [], _ => []
  | _ :: t, O => x :: t
  | h :: t, S k => h :: set_nth t k x
  end.

Definition set_line (ls : list str) (row : Z) (x : str) : list str :=
  set_nth ls (Z.to_nat (row - 1)) x.

(* outcome of a fix: Go returns (nil | empty slice) when nothing was changed *)
Inductive fix_out := Unchanged | Changed (c : str).

(* the common shape of the three fixes: split, one step per location on the line table, join *)
Definition run_fix (step : list str -> loc -> option (list str)) (content : str) (locs : list loc)
  : fix_out :=
  let '(ls, fixed) :=
    fold_left (fun (acc : list str * bool) l =>
                 match step (fst acc) l with
                 | Some ls' => (ls', true)
                 | None => acc
                 end) locs (lines_of content, false) in
  if fixed then Changed (unlines ls) else Unchanged.

(* ------------------------------------------------------------------ use-assignment-operator *)

Definition byte_in (b : N) (s : str) : bool := existsb (N.eqb b) s.

Definition bad_prev (c : N) : bool := byte_in c [COLON; EQ; BANG; LT; GT].

(* only a lone '=' is an assignment: not one that is part of := == != <= >= *)
Definition lone_eq (line : str) (idx : nat) : bool :=
  match nth_error line idx with
  | Some c =>
      (c =? EQ)
      && negb (match idx with
               | O => false
               | S p => match nth_error line p with
                        | Some q => bad_prev q
                        | None => false
                        end
               end)
      && negb (match nth_error line (S idx) with Some q => q =? EQ | None => false end)
  | None => false
  end.

Definition uao_line (line : str) (col : Z) : option str :=
  match byte_index_of_column line col with
  | Some idx => if lone_eq line idx
                then Some (firstn idx line ++ COLON :: skipn idx line) else None
  | None => None
  end.

Definition uao_step (ls : list str) (l : loc) : option (list str) :=
  match get_line ls (l_row l) with
  | Some line => match uao_line line (l_col l) with
                 | Some line' => Some (set_line ls (l_row l) line')
                 | None => None
                 end
  | None => None
  end.

Definition uao_fix := run_fix uao_step.

(* the pinned fix (regression theorems only): byte index = column - 1, guard = any '=' *)
Definition uao_line_pinned (line : str) (col : Z) : option str :=
  if ((col - 1 <? 0) || (Z.of_nat (length line) <=? col - 1))%Z then None
  else let idx := Z.to_nat (col - 1) in
       match nth_error line idx with
       | Some c => if c =? EQ then Some (firstn idx line ++ COLON :: skipn idx line) else None
       | None => None
       end.

(* ------------------------------------------------------------------ no-whitespace-comment *)

Definition nwc_line (line : str) (col : Z) : option str :=
  match byte_index_of_column line col with
  | Some idx => match nth_error line idx with
                | Some c => if c =? HASH
                            then Some (firstn (S idx) line ++ SP :: skipn (S idx) line)
                            else None
                | None => None
                end
  | None => None
  end.

Definition nwc_step (ls : list str) (l : loc) : option (list str) :=
  match get_line ls (l_row l) with
  | Some line => match nwc_line line (l_col l) with
                 | Some line' => Some (set_line ls (l_row l) line')
                 | None => None
                 end
  | None => None
  end.

Definition nwc_fix := run_fix nwc_step.

(* ------------------------------------------------------------------ non-raw-regex-pattern *)

(* rawConvertibleStringEnd, on the bytes following the opening quote: number of bytes of the
   literal's body, when the closing quote is found before a backtick or an escape sequence
   other than the escaped backslash *)
Fixpoint scan_body (s : str) : option nat :=
  match s with
  | [] => None
  | c :: t =>
    if c =? DQ then Some O
    else if c =? BT then None
    else if c =? BSL then
      match t with
      | c2 :: t2 => if c2 =? BSL then option_map (fun n => S (S n)) (scan_body t2) else None
      | [] => None
      end
    else option_map S (scan_body t)
  end.

Definition nrr_line (line : str) (col : Z) : option str :=
  match byte_index_of_column line col with
  | Some start =>
      match skipn start line with
      | c :: rest =>
          if c =? DQ then
            match scan_body rest with
            | Some n =>
                Some (firstn start line ++ BT :: replace_all (firstn n rest) [BSL; BSL] [BSL]
                                    ++ BT :: skipn (S n) rest)
            | None => None
            end
          else None
      | [] => None
      end
  | None => None
  end.

Definition nrr_step (ls : list str) (l : loc) : option (list str) :=
  match get_line ls (l_row l) with
  | Some line => match nrr_line line (l_col l) with
                 | Some line' => Some (set_line ls (l_row l) line')
                 | None => None
                 end
  | None => None
  end.

(* len(opts.Locations) == 0 returns before anything else; same outcome *)
Definition nrr_fix := run_fix nrr_step.

(* the body of a literal the fix converts, decoded structurally: characters and escaped
   backslashes only *)
Fixpoint unesc_pairs (s : str) : option str :=
  match s with
  | [] => Some []
  | c :: t =>
    if c =? DQ then None
    else if c =? BT then None
    else if c =? BSL then
      match t with
      | c2 :: t2 => if c2 =? BSL then option_map (cons BSL) (unesc_pairs t2) else None
      | [] => None
      end
    else option_map (cons c) (unesc_pairs t)
  end.

(* value denoted by the body of an interpreted (double-quoted) Rego string: JSON escapes.
   \uXXXX is decoded only for the ASCII range here; other code points make the result None
   (not needed: the fix declines such literals) *)
Definition hexdig (c : N) : option N :=
  if (48 <=? c) && (c <=? 57) then Some (c - 48)
  else if (97 <=? c) && (c <=? 102) then Some (c - 87)
  else if (65 <=? c) && (c <=? 70) then Some (c - 55)
  else None.

Fixpoint interp_value (s : str) : option str :=
  match s with
  | [] => Some []
  | c :: t =>
    if c =? DQ then None
    else if c =? BSL then
      match t with
      | e :: t2 =>
          let k x := option_map (cons x) (interp_value t2) in
          if e =? BSL then k BSL
          else if e =? DQ then k DQ
          else if e =? 47 then k 47
          else if e =? 98 then k 8
          else if e =? 102 then k 12
          else if e =? 110 then k NL
          else if e =? 114 then k CR
          else if e =? 116 then k TAB
          else None   (* \u.... and invalid escapes: not decoded by this model *)
      | [] => None
      end
    else option_map (cons c) (interp_value t)
  end.

(* ------------------------------------------------------------------ opa-fmt / use-rego-v1 *)

(* pkg/fixer/fixes/fmt.go.  Unlike the three text fixes the Fmt fix CARRIES STATE: Fix has a pointer
   receiver and writes into f.OPAFmtOpts (format.Opts), and the fixer registers ONE instance per rule
   name for a whole run (fixes.NewDefaultFixes()), so the options left behind by one file are the
   options the next file starts with.  The state is modelled explicitly: Fix is a function of
   (options, candidate) returning the new options.  The parser and OPA's formatter are oracles. *)

(* ast.RegoVersion (in the order of the Go constants: Undefined < V0 < V0CompatV1 < V1) *)
Inductive rver := RvUndef | RvV0 | RvV0CompatV1 | RvV1.

Definition rver_eqb (a b : rver) : bool :=
  match a, b with
  | RvUndef, RvUndef | RvV0, RvV0 | RvV0CompatV1, RvV0CompatV1 | RvV1, RvV1 => true
  | _, _ => false
  end.

Definition rver_rank (v : rver) : nat :=
  match v with RvUndef => 0 | RvV0 => 1 | RvV0CompatV1 => 2 | RvV1 => 3 end.

(* fixes.FixCandidate: RegoVersion is the version configured for the file (project roots), RvUndef
   when nothing is configured and the version has to be detected by parsing *)
Record fmt_cand := { fc_name : str; fc_contents : str; fc_version : rver }.

(* format.Opts of the instance: RegoVersion, and the fields Fix never writes (IgnoreLocations,
   DropV0Imports, ParserOptions) as one opaque number *)
Record fmt_state := { fs_version : rver; fs_other : N }.

(* error (parse failure, formatter failure, no file name) / nothing to do / new contents *)
Inductive fmt_out := FmtErr | FmtNone | FmtChanged (c : str).

(* the version to format for: a v0 module is written in the syntax valid in v0 and v1
   (import rego.v1); every other version is the version of the module itself *)
Definition fmt_target (module_version : rver) : rver :=
  match module_version with RvV0 => RvV0CompatV1 | v => v end.

Section FmtFix.
  (* parse.ModuleWithOpts(filename, contents, popts) where popts.RegoVersion is the configured
     version (RvUndef: the v1 parser is tried, then the v0 parser): None when parsing fails, else
     module.RegoVersion() *)
  Variable parse_module : rver -> str -> str -> option rver.
  (* format.AstWithOpts(module, opts): opts.RegoVersion, the other options, and the module, which is
     determined by (configured version, filename, contents); None when it fails *)
  Variable format_ast : rver -> N -> rver -> str -> str -> option str.

  Definition fmt_fix (st : fmt_state) (c : fmt_cand) : fmt_state * fmt_out :=
    match fc_name c with
    | [] => (st, FmtErr)
    | _ :: _ =>
      match parse_module (fc_version c) (fc_name c) (fc_contents c) with
      | None => (st, FmtErr)
      | Some mv =>
          let st' := {| fs_version := fmt_target mv; fs_other := fs_other st |} in
          (st', match format_ast (fs_version st') (fs_other st') (fc_version c) (fc_name c) (fc_contents c) with
                | None => FmtErr
                | Some out => if str_eqb out (fc_contents c) then FmtNone else FmtChanged out
                end)
      end
    end.

  (* one instance used for a list of files, in that order: the result for every file *)
  Fixpoint fmt_run (st : fmt_state) (cs : list fmt_cand) : list fmt_out :=
    match cs with
    | [] => []
    | c :: t => snd (fmt_fix st c) :: fmt_run (fst (fmt_fix st c)) t
    end.

  (* regression variant (NOT the code): the version found in the options is kept unless the module
     has a newer one - "the options give the oldest version to format for".  With a shared instance
     this makes the version a high-water mark of the run. *)
  Definition fmt_fix_keep_newest (st : fmt_state) (c : fmt_cand) : fmt_state * fmt_out :=
    match fc_name c with
    | [] => (st, FmtErr)
    | _ :: _ =>
      match parse_module (fc_version c) (fc_name c) (fc_contents c) with
      | None => (st, FmtErr)
      | Some mv =>
          let v := if Nat.ltb (rver_rank (fs_version st)) (rver_rank mv) then mv else fs_version st in
          let st' := {| fs_version := fmt_target v; fs_other := fs_other st |} in
          (st', match format_ast (fs_version st') (fs_other st') (fc_version c) (fc_name c) (fc_contents c) with
                | None => FmtErr
                | Some out => if str_eqb out (fc_contents c) then FmtNone else FmtChanged out
                end)
      end
    end.

  Fixpoint fmt_run_keep_newest (st : fmt_state) (cs : list fmt_cand) : list fmt_out :=
    match cs with
    | [] => []
    | c :: t => snd (fmt_fix_keep_newest st c) :: fmt_run_keep_newest (fst (fmt_fix_keep_newest st c)) t
    end.
End FmtFix.

(* ------------------------------------------------------------------ rule-side column sources *)

Definition is_blank (c : N) : bool := (c =? SP) || (c =? TAB).

(* trim_right(s, " \t") on a character list *)
Definition rune_is (c : N) (r : str) : bool := match r with [x] => x =? c | _ => false end.
Definition rune_blank (r : str) : bool := match r with [x] => is_blank x | _ => false end.

Fixpoint drop_while {A} (p : A -> bool) (l : list A) : list A :=
  match l with [] => [] | x :: t => if p x then drop_while p t else l end.

Definition trim_right_blank (rs : list str) : list str := rev (drop_while rune_blank (rev rs)).

(* _operator_location: [vcol] is the column of the head's value on the line [line].
     before := trim_right(substring(line, 0, vcol - 1), " \t")
     endswith(before, "=") ; not endswith(before, ":=") ; col := count(before) *)
Definition operator_col (line : str) (vcol : Z) : option Z :=
  if (vcol <? 1)%Z then None else
  let before := trim_right_blank (firstn (Z.to_nat (vcol - 1)) (runes line)) in
  match rev before with
  | e :: r =>
      if rune_is EQ e && negb (match r with c :: _ => rune_is COLON c | [] => false end)
      then Some (Z.of_nat (length before)) else None
  | [] => None
  end.

(* pinned: _eq_col(text) := max([0, indexof(text, "=")]) + 1 (character index of the first "=") *)
Fixpoint index_rune (c : N) (rs : list str) : option nat :=
  match rs with
  | [] => None
  | r :: t => if rune_is c r then Some O else option_map S (index_rune c t)
  end.
Definition eq_col_pinned (line : str) : Z :=
  match index_rune EQ (runes line) with Some i => Z.of_nat i + 1 | None => 1 end.

(* ------------------------------------------------------------------ a small Rego lexer *)

Inductive lex := LCode | LStr | LStrEsc | LRaw | LCmt.

Definition lex_eqb (a b : lex) : bool :=
  match a, b with
  | LCode, LCode | LStr, LStr | LStrEsc, LStrEsc | LRaw, LRaw | LCmt, LCmt => true
  | _, _ => false
  end.

Definition lex_step (st : lex) (c : N) : lex :=
  match st with
  | LCode => if c =? DQ then LStr else if c =? BT then LRaw else if c =? HASH then LCmt else LCode
  | LStr => if c =? BSL then LStrEsc else if c =? DQ then LCode
            else if c =? NL then LCode (* unterminated: the scanner gives up at the newline *)
            else LStr
  | LStrEsc => if c =? NL then LCode else LStr
  | LRaw => if c =? BT then LCode else LRaw
  | LCmt => if c =? NL then LCode else LCmt
  end.

(* state in which the byte FOLLOWING the prefix [s] is read *)
Definition lex_from (st : lex) (s : str) : lex := fold_left lex_step s st.
Definition lex_state (s : str) : lex := lex_from LCode s.

(* ------------------------------------------------------------------ measures for C12 *)

(* number of lone '=' of a text; [prev] is the byte before the text (NL at the start) *)
Fixpoint lone_cnt (prev : N) (s : str) : nat :=
  match s with
  | [] => O
  | c :: t =>
      (if (c =? EQ) && negb (bad_prev prev)
          && negb (match t with d :: _ => d =? EQ | [] => false end) then 1 else 0)
      + lone_cnt c t
  end.

Definition count_byte (c : N) (s : str) : nat := length (filter (N.eqb c) s).

(* '#' directly followed by a character that is not a blank (what the no-whitespace-comment
   rule reports is such a '#') *)
Fixpoint tight_hash_count (s : str) : nat :=
  match s with
  | [] => O
  | c :: t =>
      (if (c =? HASH) && match t with d :: _ => negb (is_blank d) | [] => false end then 1 else 0)
      + tight_hash_count t
  end.
