(* C03 (i) — error propagation of pkg/linter Linter.Lint / lintWithRegoRules / lintWithRegoAggregateRules.

   Everything that can fail is an ORACLE (Section variable): the set-up steps, and per file
   transform.ToAST, the OPA evaluation of the prepared query (which runs main.rego and every enabled rule
   body) and the conversion of the result set; for the aggregate phase one more evaluation.  The model
   keeps exactly the control structure of the Go code:

     Lint:  validate -> GetConfig -> FilterIgnoredPaths -> AllRegoVersions/InputFromPaths ->
            prepareRegoArgs -> PrepareForEval                       (first failing step is returned)
            lintWithRegoRules                                         (error => return it)
            if len(allAggregates) > 0: lintWithRegoAggregateRules     (error => return it)
            summary

     lintWithRegoRules: one goroutine per file; a failing one sends to the buffered errCh and returns;
            a successful one merges its piece under the mutex; a waiter sends on doneCh after wg.Wait();
            main: select { ctx.Done | err := <-errCh -> return error | <-doneCh -> return report }.

   The select is a scheduling choice when some file failed: normally main is already blocked in the
   select when the first error arrives ([MainWaiting]); if every goroutine has finished before main gets
   there, errCh and doneCh are both ready and Go picks one at random ([AllDoneFirst pick_done]).
   Definitions only. *)
From Coq Require Import List.
Import ListNotations.

Inductive res (E A : Type) := Ok (a : A) | Err (e : E).
Arguments Ok {E A} a. Arguments Err {E A} e.

Definition bind {E A B} (r : res E A) (f : A -> res E B) : res E B :=
  match r with Ok a => f a | Err e => Err e end.

Inductive sel := MainWaiting | AllDoneFirst (pick_done : bool).

Section Lint.
  Variables file input resultset piece aggreport E : Type.

  (* oracles *)
  Variable setup : res E unit.                       (* validate … PrepareForEval *)
  Variable transform : file -> res E input.          (* roast transform.ToAST *)
  Variable eval : input -> res E resultset.          (* pq.Eval: main.rego + all enabled rule bodies *)
  Variable convert : resultset -> res E piece.       (* resultSetToReport (JSON round trip) *)
  Variable need_aggregate : list piece -> bool.      (* len(allAggregates) > 0 *)
  Variable eval_aggregate : list piece -> res E aggreport.   (* transform + pq.Eval + resultSetToReport *)

  Definition per_file (f : file) : res E piece :=
    bind (transform f) (fun i => bind (eval i) convert).

  Fixpoint first_err (rs : list (res E piece)) : option E :=
    match rs with
    | [] => None
    | Err e :: _ => Some e
    | Ok _ :: rs' => first_err rs'
    end.

  Fixpoint oks (rs : list (res E piece)) : list piece :=
    match rs with
    | [] => []
    | Ok p :: rs' => p :: oks rs'
    | Err _ :: rs' => oks rs'
    end.

  (* [order]: the files in the order their goroutines complete (a permutation of the input) *)
  Definition lint_rego (order : list file) (s : sel) : res E (list piece) :=
    let rs := map per_file order in
    match first_err rs with
    | None => Ok (oks rs)
    | Some e =>
        match s with
        | MainWaiting => Err e
        | AllDoneFirst false => Err e
        | AllDoneFirst true => Ok (oks rs)      (* doneCh won: the error is dropped *)
        end
    end.

  Definition lint (order : list file) (s : sel) : res E (list piece * option aggreport) :=
    bind setup (fun _ =>
    bind (lint_rego order s) (fun ps =>
    if need_aggregate ps
    then bind (eval_aggregate ps) (fun a => Ok (ps, Some a))
    else Ok (ps, None))).

  Definition is_ok {A} (r : res E A) : Prop := exists a, r = Ok a.
  Definition is_err {A} (r : res E A) : Prop := exists e, r = Err e.
End Lint.
