(* Model of pkg/rules/rules.go RegoVersionFromVersionsMap and of the callers'
   relativisation (InputFromPaths / InputFromMap / LSP regoVersionForURI),
   and of config.AllRegoVersions' precedence (manifest < project < roots).
   Definitions only. *)
From Regal Require Export Base.PathModel.

Inductive version := V0 | V1 | VUndef.

Definition version_eqb (a b : version) : bool :=
  match a, b with V0, V0 | V1, V1 | VUndef, VUndef => true | _, _ => false end.

(* the Go map, in the order the [range] happens to visit it *)
Definition vmap := list (str * version).

(* matchingVersionedDir as the pinned commit computed it: path.Join drops the
   trailing separator (kept for the regression theorem [lookup_pinned_refuted]) *)
Definition matching_dir_pinned (k : str) : str := pjoin [[SLASH]; k; [SLASH]].

(* current code: "/"-rooted clean dir WITH a trailing separator, except for "/" *)
Definition matching_dir (k : str) : str :=
  let m := pjoin [[SLASH]; k] in
  if str_eqb m [SLASH] then m else m ++ [SLASH].

Definition lookup_step (md : str -> str) (d : str) (acc : nat * version) (kv : str * version)
  : nat * version :=
  let '(longest, sel) := acc in
  let '(k, v) := kv in
  if has_prefix (d ++ [SLASH]) (md k)
  then if Nat.leb longest (length k) then (length k, v) else acc
  else acc.

Definition version_from_map_gen (md : str -> str)
           (m : vmap) (filename : str) (default : version) : version :=
  match m with
  | [] => default
  | _ => snd (fold_left (lookup_step md (dir filename)) m (O, default))
  end.

Definition version_from_map_pinned := version_from_map_gen matching_dir_pinned.
Definition version_from_map := version_from_map_gen matching_dir.

(* ---------- specification ---------- *)

(* a key "contains" a file when its components are a component-wise prefix of
   the components of the file's directory *)
Definition key_contains (k : str) (filename : str) : bool :=
  comps_prefix (comps_of (clean (SLASH :: k))) (comps_of (dir (SLASH :: filename))).

(* deepest containing key; ties are impossible between distinct clean keys *)
Definition spec_step (filename : str) (acc : option (nat * version)) (kv : str * version) :=
  let '(k, v) := kv in
  if key_contains k filename then
    let depth := length (comps_of (clean (SLASH :: k))) in
    match acc with
    | Some (d0, _) => if Nat.ltb d0 depth then Some (depth, v) else acc
    | None => Some (depth, v)
    end
  else acc.

Definition spec_version (m : vmap) (filename : str) (default : version) : version :=
  match fold_left (spec_step filename) m None with
  | Some (_, v) => v
  | None => default
  end.

(* keys as AllRegoVersions produces them for a well-formed project: clean,
   relative, no "." or "..", no empty components; "" is the project root *)
Definition clean_key (k : str) : bool :=
  str_eqb (join [SLASH] (comps_of k)) k &&
  forallb (fun c => negb (str_eqb c [DOT]) && negb (str_eqb c dotdot)) (comps_of k).

Fixpoint keys_distinct (m : vmap) : bool :=
  match m with
  | [] => true
  | (k, _) :: m' => negb (existsb (fun kv => str_eqb (fst kv) k) m') && keys_distinct m'
  end.

(* ---------- callers ---------- *)

(* InputFromPaths: strings.TrimPrefix(path, prefix), pinned *)
Definition input_from_paths_name_pinned (prefix path : str) : str := trim_prefix path prefix.

(* after the fix: a relative argument is made absolute w.r.t. cwd before trimming *)
Definition abs_path (cwd path : str) : str :=
  if is_rooted path then clean path else pjoin [cwd; path].

Definition input_from_paths_name (cwd prefix path : str) : str :=
  if str_eqb prefix [] then path else trim_prefix (abs_path cwd path) prefix.

(* AllRegoVersions: later inserts win; order = manifests, project (""), roots *)
Fixpoint assoc_set (m : vmap) (k : str) (v : version) : vmap :=
  match m with
  | [] => [(k, v)]
  | (k', v') :: m' => if str_eqb k' k then (k, v) :: m' else (k', v') :: assoc_set m' k v
  end.

Fixpoint assoc_get (m : vmap) (k : str) : option version :=
  match m with
  | [] => None
  | (k', v') :: m' => if str_eqb k' k then Some v' else assoc_get m' k
  end.

Definition all_rego_versions (manifests : vmap) (project : option version) (roots : vmap) : vmap :=
  let m0 := fold_left (fun m kv => assoc_set m (fst kv) (snd kv)) manifests [] in
  let m1 := match project with Some v => assoc_set m0 [] v | None => m0 end in
  fold_left (fun m kv => assoc_set m (fst kv) (snd kv)) roots m1.

(* entries without a version (a root given only by its path, a .manifest without rego_version)
   are not entered into the map at all *)
Definition present (l : list (str * option version)) : vmap :=
  flat_map (fun kv => match snd kv with Some v => [(fst kv, v)] | None => [] end) l.

Definition all_rego_versions_opt (manifests : list (str * option version)) (project : option version)
           (roots : list (str * option version)) : vmap :=
  all_rego_versions (present manifests) project (present roots).
