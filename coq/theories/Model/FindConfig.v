(* Model of pkg/config/config.go FindConfig / findUpwards / FindRegalDirectory /
   FindRegalConfigFile (GOOS=linux, volume name "") and of the user-level
   fallback of cmd/utils.go readUserConfig + the switch of cmd/lint.go that
   consumes it.  The operating system is a function from clean absolute paths to
   what os.Open+Stat finds there; [fs_of_chain] builds that function from a chain
   of directories root -> ... -> start.  Definitions only. *)
From Regal Require Export Base.PathModel.

(* ".regal", ".regal.yaml", "config.yaml" *)
Definition REGAL : str := [46; 114; 101; 103; 97; 108].
Definition REGAL_YAML : str := REGAL ++ [46; 121; 97; 109; 108].
Definition CONFIG_YAML : str := [99; 111; 110; 102; 105; 103; 46; 121; 97; 109; 108].

(* what os.Open(p) followed by Stat() sees *)
Inductive node := NAbsent | NFile | NDir.
Definition fsys := str -> node.

Definition node_is (expect_dir : bool) (n : node) : bool :=
  match n, expect_dir with NDir, true | NFile, false => true | _, _ => false end.

(* ---------- findUpwards ---------- *)

(* "Move up one level": parts := strings.Split(dir, "/"); len(parts) < 2 -> stop;
   parts = parts[:len-1]; if parts[0] == volume (= "") { parts[0] = "/" }; filepath.Join(parts...) *)
Definition parent_dir (d : str) : option str :=
  let parts := split_on SLASH d in
  if Nat.ltb (length parts) 2 then None
  else match removelast parts with
       | p0 :: rest => Some (pjoin ((if str_eqb p0 [] then [SLASH] else p0) :: rest))
       | [] => None      (* unreachable: length parts >= 2 *)
       end.

Inductive up_result := UFound (p : str) | UNone | UFuel.

(* the [for] loop of findUpwards; [d] is the directory currently probed *)
Fixpoint find_upwards_loop (fuel : nat) (fs : fsys) (d name : str) (expect_dir : bool) : up_result :=
  match fuel with
  | O => UFuel
  | S fuel' =>
    let search_path := pjoin [[SLASH]; d; name] in
    if node_is expect_dir (fs search_path) then UFound search_path
    else if str_eqb search_path (SLASH :: name) then UNone        (* "can't traverse past root" *)
    else match parent_dir d with
         | None => UNone                                          (* "stopping as dir is root" *)
         | Some d' => find_upwards_loop fuel' fs d' name expect_dir
         end
  end.

Inductive find_err :=
  | ENotFound        (* "could not find Regal config" (also when os.Stat of the start path fails) *)
  | EConflict        (* "conflicting config files: both .regal directory and .regal.yaml found" *)
  | ENoConfigInDir   (* "config file was not found in .regal directory" *)
  | EOutOfFuel.      (* model artefact; excluded for every chain, see find_nearest *)

(* filepath.Abs on unix: an absolute path is cleaned, a relative one joined onto the working directory *)
Definition abs_path (cwd p : str) : str :=
  if is_rooted p then clean p else pjoin [cwd; p].

(* findUpwards.  The path is made absolute first (commit f78e575; [use_abs] = false gives the
   code as it was at the pinned commit, which cut elements off the path as it was spelled);
   os.Stat(path) must succeed (the OS resolves a relative path against [cwd]); the search starts
   in the path itself when it is a directory and in filepath.Dir(path) otherwise.
   Fuel: one iteration per path element. *)
Definition find_upwards_gen (use_abs : bool) (fs : fsys) (cwd path name : str) (expect_dir : bool)
  : up_result :=
  let target := abs_path cwd path in
  let start := if use_abs then target else path in
  match fs target with
  | NAbsent => UNone
  | NDir => find_upwards_loop (S (length start)) fs start name expect_dir
  | NFile => find_upwards_loop (S (length start)) fs (dir start) name expect_dir
  end.

Definition find_upwards := find_upwards_gen true.

Definition find_regal_directory fs cwd path := find_upwards fs cwd path REGAL true.
Definition find_regal_config_file fs cwd path := find_upwards fs cwd path REGAL_YAML false.

Inductive find_result := FFound (p : str) | FErr (e : find_err).

(* the tail of FindConfig once the .regal directory is the chosen candidate *)
Definition config_in_regal_dir (fs : fsys) (regal_dir : str) : find_result :=
  let expected := pjoin [regal_dir; [SLASH]; CONFIG_YAML] in
  match fs expected with
  | NAbsent => FErr ENoConfigInDir
  | _ => FFound expected
  end.

Definition found (r : up_result) : bool := match r with UFound _ => true | _ => false end.

(* FindConfig, statement by statement.  As in the Go code the two parent strings are only
   computed when BOTH searches succeed and are "" otherwise. *)
Definition find_config_gen (use_abs : bool) (fs : fsys) (cwd path : str) : find_result :=
  let rd := find_upwards_gen use_abs fs cwd path REGAL true in
  let rf := find_upwards_gen use_abs fs cwd path REGAL_YAML false in
  match rd, rf with
  | UFuel, _ | _, UFuel => FErr EOutOfFuel
  | _, _ =>
    let '(dir_parent, file_parent) :=
      match rd, rf with
      | UFound d, UFound f => (dir d, dir f)
      | _, _ => ([], [])
      end in
    if found rd && found rf && str_eqb dir_parent file_parent then FErr EConflict
    else if negb (found rd) && negb (found rf) then FErr ENotFound
    else if Nat.ltb (length dir_parent) (length file_parent) then
      match rf with UFound f => FFound f | _ => FErr ENotFound (* a nil file; unreachable *) end
    else match rd with
         | UFound d => config_in_regal_dir fs d
         | _ => match rf with UFound f => FFound f | _ => FErr ENotFound (* unreachable *) end
         end
  end.

(* [cwd]: the working directory of the process, [path]: the path as the caller spelled it *)
Definition find_config := find_config_gen true.
Definition find_config_pinned := find_config_gen false.

(* ---------- user-level fallback: cmd/utils.go readUserConfig ---------- *)

Inductive user_config :=
  | UCFile (p : str)      (* an opened project / explicit config file *)
  | UCGlobal              (* ~/.config/regal/config.yaml *)
  | UCConflict            (* config.ErrConflictingConfigFiles is passed on *)
  | UCErr.                (* any other err != nil is returned *)

(* [explicit] = Some (p, ok) : --config-file p was given and os.Open succeeded (ok) or failed;
   [global_dir] : ~/.config/regal exists; [global_cfg] : config.yaml inside can be opened.
   [report_conflict] = false gives the code as it was at the pinned commit, where the conflict
   error of FindConfig was treated like "nothing found". *)
Definition read_user_config_gen (report_conflict : bool) (explicit : option (str * bool))
           (found : find_result) (global_dir global_cfg : bool) : user_config :=
  let first := match explicit with
               | Some (p, true) => UCFile p
               | Some (_, false) => UCErr
               | None => match found with
                         | FFound p => UCFile p
                         | FErr EConflict => if report_conflict then UCConflict else UCErr
                         | FErr _ => UCErr
                         end
               end in
  match first with
  | UCErr => if global_dir then (if global_cfg then UCGlobal else UCErr) else UCErr
  | r => r
  end.

(* what `regal lint` / `regal fix` then do (cmd/lint.go, cmd/fix.go: switch on err) *)
Inductive cli_choice :=
  | UseFile (p : str) | UseGlobal | UseDefaults
  | Fatal.                (* the command fails: "user-provided config file not found" /
                             "failed to find user config: conflicting config files ..." *)

Definition cli_config_gen (report_conflict : bool) (explicit : option (str * bool))
           (found : find_result) (global_dir global_cfg : bool) : cli_choice :=
  match read_user_config_gen report_conflict explicit found global_dir global_cfg with
  | UCFile p => UseFile p
  | UCGlobal => UseGlobal
  | UCConflict => Fatal
  | UCErr => match explicit with Some _ => Fatal | None => UseDefaults end
  end.

Definition read_user_config := read_user_config_gen true.
Definition cli_config := cli_config_gen true.
Definition cli_config_pinned := cli_config_gen false.

(* ---------- directory chains ---------- *)

(* what a directory holds under the two reserved names *)
Inductive regal_entry :=
  | RAbsent
  | RIsFile                       (* a regular file called ".regal": ignored by the search *)
  | RDir (has_config : bool).     (* ".regal/" with or without config.yaml inside *)
Inductive yaml_entry :=
  | YAbsent
  | YIsFile                       (* ".regal.yaml" *)
  | YIsDir.                       (* a directory called ".regal.yaml": ignored by the search *)

Record contents := { c_regal : regal_entry; c_yaml : yaml_entry }.

(* the chain: contents of "/" and then, top-down, (name, contents) of each directory on the
   way to the start directory *)
Definition levels := list (str * contents).

Definition path_of_names (ns : list str) : str := SLASH :: join [SLASH] ns.

Definition regal_node (r : regal_entry) : node :=
  match r with RAbsent => NAbsent | RIsFile => NFile | RDir _ => NDir end.
Definition yaml_node (y : yaml_entry) : node :=
  match y with YAbsent => NAbsent | YIsFile => NFile | YIsDir => NDir end.

(* resolve the components of a path against the chain; [file] is an optional regular file
   in the deepest directory (the path `regal lint` was given may be a file) *)
Fixpoint walk (c0 : contents) (lv : levels) (file : option str) (comps : list str) : node :=
  match comps with
  | [] => NDir
  | x :: rest =>
    if str_eqb x REGAL then
      match c_regal c0, rest with
      | RIsFile, [] => NFile
      | RDir _, [] => NDir
      | RDir true, [y] => if str_eqb y CONFIG_YAML then NFile else NAbsent
      | _, _ => NAbsent
      end
    else if str_eqb x REGAL_YAML then
      match rest with [] => yaml_node (c_yaml c0) | _ => NAbsent end
    else match lv with
         | (n, c) :: lv' => if str_eqb x n then walk c lv' file rest else NAbsent
         | [] => match file, rest with
                 | Some f, [] => if str_eqb x f then NFile else NAbsent
                 | _, _ => NAbsent
                 end
         end
  end.

(* (the OS resolves "." and ".." elements; there are no symbolic links in a chain) *)
Definition fs_of_chain (c0 : contents) (lv : levels) (file : option str) : fsys :=
  fun p => if is_rooted p then walk c0 lv file (comps_of (clean p)) else NAbsent.

(* ---------- specification vocabulary ---------- *)

Definition holds_dir (c : contents) : bool :=
  match c_regal c with RDir _ => true | _ => false end.
Definition holds_yaml (c : contents) : bool :=
  match c_yaml c with YIsFile => true | _ => false end.
(* the directory holds a configuration of either kind *)
Definition holds (c : contents) : bool := holds_dir c || holds_yaml c.
(* ... and a configuration FILE of either kind (an empty .regal/ does not count) *)
Definition holds_file (c : contents) : bool :=
  match c_regal c with RDir true => true | _ => holds_yaml c end.

(* what the directory [here] (given by its names from the root) with contents [c] yields *)
Definition outcome_at (here : list str) (c : contents) : find_result :=
  if holds_dir c && holds_yaml c then FErr EConflict
  else if holds_yaml c then FFound (path_of_names (here ++ [REGAL_YAML]))
  else match c_regal c with
       | RDir true => FFound (path_of_names (here ++ [REGAL; CONFIG_YAML]))
       | _ => FErr ENoConfigInDir
       end.

(* names of the deepest directory of the chain satisfying P, [pre] = names of the chain's top *)
Fixpoint nearest (P : contents -> bool) (pre : list str) (c0 : contents) (lv : levels)
  : option (list str * contents) :=
  match lv with
  | [] => if P c0 then Some (pre, c0) else None
  | (n, c) :: lv' =>
    match nearest P (pre ++ [n]) c lv' with
    | Some r => Some r
    | None => if P c0 then Some (pre, c0) else None
    end
  end.

(* names allowed for the directories of a chain: path components other than the reserved names *)
Definition plain_name (n : str) : Prop :=
  n <> [] /\ ~ In SLASH n /\ n <> [DOT] /\ n <> dotdot /\ n <> REGAL /\ n <> REGAL_YAML.

Definition names (lv : levels) : list str := map fst lv.

(* the path handed to FindConfig: the deepest directory of the chain, or a file in it *)
Definition start_path (lv : levels) (file : option str) : str :=
  path_of_names (names lv ++ match file with Some f => [f] | None => [] end).

Definition file_ok (file : option str) : Prop :=
  match file with Some f => plain_name f | None => True end.

Definition none_hold (lv : levels) : Prop := Forall (fun l => holds (snd l) = false) lv.

Definition no_empty_regal_dir (c : contents) : Prop := c_regal c <> RDir false.

Definition both_kinds := {| c_regal := RDir true; c_yaml := YIsFile |}.
