(* Model of /repo/internal/lsp/diff.go (Myers diff port: splitLines, shortestEditSequence,
   backtrack, operations) and /repo/internal/lsp/format.go (ComputeEdits).
   Definitions only; the proofs are in Proofs/Diff*.v.

   Conventions.
   * A Go run-time panic (slice index out of range, nil trace) is the result [Panic];
     artificial recursion fuel running out is [Fuel] (proved unreachable); theorems are
     about [Ok].
   * Go's [V []int] (zero-initialised, length 2(N+M)+1, indexed by k+offset) is a
     [PositiveMap.t Z] read through [vget]/[vset], which check the index against the
     slice length and give 0 for a slot never written.
   * Go's [trace [][]int] (length N+M+1, entries above the last round nil) is the list of
     the non-nil entries in REVERSE order (head = trace[D], last = trace[0]); backtrack's
     [len(V)==0 -> continue] branch only skips the nil entries, so it starts at the head.
   * Go's [snakes] (same length, nil holes that [operations] skips) is the list of the
     non-nil entries in increasing d.
   * The diff itself is generic in the line type (Section variables [A], [eqb]); inside the
     Section the two line slices are the lengths [Mz], [Nz] and bounds-checked accessors
     [geta], [getb]; [operations] instantiates them with PositiveMap-backed accessors built once
     per call (so that a 300-line pair evaluates in under a second with vm_compute), and
     ComputeEdits instantiates the line type with byte strings.
   * splitLines is the repaired one (commit 778ab02: '\n', '\r\n' and a lone '\r' end a line);
     the pinned behaviour is kept as [split_lines_pinned] / [compute_edits_pinned]. *)
From Regal Require Export Base.Str.
From Coq Require Export FMapPositive.
Open Scope Z_scope.

Inductive res (T : Type) : Type := Ok (t : T) | Panic | Fuel.
Arguments Ok {T} t.
Arguments Panic {T}.
Arguments Fuel {T}.

Definition bind {T U} (r : res T) (f : T -> res U) : res U :=
  match r with Ok t => f t | Panic => Panic | Fuel => Fuel end.
Notation "'do' x <- e ; f" := (bind e (fun x => f))
  (at level 200, x name, e at level 100, f at level 200, right associativity).

Definition vmap := PositiveMap.t Z.
Definition vempty : vmap := PositiveMap.empty Z.

(* an operation of diff.go: Delete a[i1:i2]  |  Insert b[j1:j2] at a[i1:i1] (I2 = I1) *)
Inductive op := Del (i1 i2 : Z) | Ins (i1 i2 j1 j2 : Z).

Inductive round_res := RFound (V : vmap) | RNext (V : vmap).

Section Diff.
  Variable A : Type.
  Variable eqb : A -> A -> bool.
  (* M, N := len(a), len(b); geta i = a[i], getb j = b[j] (Panic when out of range);
     sfuel = recursion fuel of [slide] (any value > M is enough).  They are Section
     variables so that they are computed once per run (see [operations] below). *)
  Variables Mz Nz : Z.
  Variables geta getb : Z -> res A.
  Variable sfuel : nat.

  Definition off : Z := Nz + Mz.                   (* offset := N + M *)
  Definition vsize : Z := 2 * (Nz + Mz) + 1.       (* len(V) *)

  Definition in_range (i : Z) : bool := (0 <=? i) && (i <? vsize).

  Definition vraw (V : vmap) (i : Z) : Z :=
    match PositiveMap.find (Z.to_pos (i + 1)) V with Some x => x | None => 0 end.

  Definition vget (V : vmap) (i : Z) : res Z :=
    if in_range i then Ok (vraw V i) else Panic.

  Definition vset (V : vmap) (i x : Z) : res vmap :=
    if in_range i then Ok (PositiveMap.add (Z.to_pos (i + 1)) x V) else Panic.

  (* for x < M && y < N && a[x] == b[y] { x++; y++ } *)
  Fixpoint slide (fuel : nat) (x y : Z) {struct fuel} : res Z :=
    if (x <? Mz) && (y <? Nz) then
      do u <- geta x;
      do v <- getb y;
      if eqb u v then
        match fuel with
        | O => Fuel
        | S f => slide f (x + 1) (y + 1)
        end
      else Ok x
    else Ok x.

  (* k == -d || (k != d && V[k-1+offset] < V[k+1+offset])   (short-circuit evaluation) *)
  Definition choose_down (V : vmap) (k d : Z) : res bool :=
    if k =? - d then Ok true
    else if k =? d then Ok false
    else do l <- vget V (k - 1 + off);
         do r <- vget V (k + 1 + off);
         Ok (l <? r).

  (* one iteration of the inner loop for diagonal k, then the rest of the round:
     n = number of diagonals still to process (k, k+2, ...) *)
  Fixpoint round_loop (n : nat) (k d : Z) (V : vmap) {struct n} : res round_res :=
    match n with
    | O => Ok (RNext V)
    | S n' =>
        do down <- choose_down V k d;
        do x0 <- (if down then vget V (k + 1 + off)
                  else do l <- vget V (k - 1 + off); Ok (l + 1));
        do x <- slide sfuel x0 (x0 - k);
        do V' <- vset V (k + off) x;
        if (x =? Mz) && (x - k =? Nz) then Ok (RFound V')
        else round_loop n' (k + 2) d V'
    end.

  Definition round (d : Z) (V : vmap) : res round_res :=
    round_loop (S (Z.to_nat d)) (- d) d V.

  (* for d := 0; d <= N+M; d++ { ... }; return nil, 0
     rounds = number of rounds still allowed; tr = trace so far, reversed *)
  Fixpoint ses_loop (rounds : nat) (d : Z) (V : vmap) (tr : list vmap) {struct rounds}
    : res (list vmap) :=
    match rounds with
    | O => Panic      (* nil trace: backtrack then indexes snakes[-1] *)
    | S r =>
        do rr <- round d V;
        match rr with
        | RFound V' => Ok (V' :: tr)
        | RNext V' => ses_loop r (d + 1) V' (V' :: tr)
        end
    end.

  Definition shortest_edit_sequence : res (list vmap) :=
    ses_loop (S (Z.to_nat (Nz + Mz))) 0 vempty [].

  (* backtrack: tr = trace[d], trace[d-1], ..., trace[0]; acc = snakes above d *)
  Fixpoint bt (tr : list vmap) (d x y : Z) (acc : list (Z * Z)) {struct tr}
    : res (list (Z * Z)) :=
    if (0 <? x) && (0 <? y) && (0 <? d) then
      match tr with
      | [] => Panic
      | V :: tr' =>
          let k := x - y in
          do down <- choose_down V k d;
          let kp := if down then k + 1 else k - 1 in
          do x' <- vget V (kp + off);
          bt tr' (d - 1) x' (x' - kp) ((x, y) :: acc)
      end
    else if (x <? 0) || (y <? 0) then Ok acc
    else Ok ((x, y) :: acc).

  Definition backtrack (tr : list vmap) : res (list (Z * Z)) :=
    bt tr (Z.of_nat (length tr) - 1) Mz Nz [].

  (* for snake[0]-snake[1] > x-y { ...; x++; if x == M { break } }   (t iterations at most) *)
  Fixpoint del_loop (t : nat) (x : Z) {struct t} : Z :=
    match t with
    | O => x
    | S t' => let x1 := x + 1 in if x1 =? Mz then x1 else del_loop t' x1
    end.

  (* the loop over snakes in [operations]; cnt = i, the number of solution slots used *)
  Fixpoint ops_loop (snakes : list (Z * Z)) (x y cnt : Z) {struct snakes} : res (list op) :=
    match snakes with
    | [] => Ok []
    | (s0, s1) :: rest =>
        let t := (s0 - s1) - (x - y) in
        let x1 := if 0 <? t then del_loop (Z.to_nat t) x else x in
        let dels := if 0 <? t then [Del x x1] else [] in
        let t2 := (x1 - y) - (s0 - s1) in
        let y1 := if 0 <? t2 then y + t2 else y in
        let inss := if 0 <? t2 then [Ins x1 x1 y y1] else [] in
        let cnt' := cnt + Z.of_nat (length dels) + Z.of_nat (length inss) in
        if (0 <? t2) && (Nz <? y1) then Panic                (* b[J1:j2] *)
        else if Mz + Nz <? cnt' then Panic                     (* solution[i] *)
        else
          let x2 := if x1 <? s0 then s0 else x1 in
          let y2 := if x1 <? s0 then y1 + (s0 - x1) else y1 in
          if (Mz <=? x2) && (Nz <=? y2) then Ok (dels ++ inss)
          else do r <- ops_loop rest x2 y2 cnt'; Ok (dels ++ inss ++ r)
    end.

  Definition operations_gen : res (list op) :=
    if (Mz =? 0) && (Nz =? 0) then Ok []
    else
      do tr <- shortest_edit_sequence;
      do snakes <- backtrack tr;
      ops_loop snakes 0 0 0.
End Diff.

(* a Go slice of lines: O(log n) access, Panic outside [0, len) *)
Fixpoint lines_map_from {A} (l : list A) (p : positive) (m : PositiveMap.t A) : PositiveMap.t A :=
  match l with
  | [] => m
  | u :: l' => lines_map_from l' (Pos.succ p) (PositiveMap.add p u m)
  end.

Definition lines_map {A} (l : list A) : PositiveMap.t A :=
  lines_map_from l 1%positive (PositiveMap.empty A).

Definition lines_get {A} (m : PositiveMap.t A) (i : Z) : res A :=
  if i <? 0 then Panic
  else match PositiveMap.find (Z.to_pos (i + 1)) m with Some u => Ok u | None => Panic end.

(* operations(a, b) *)
Definition operations (A : Type) (eqb : A -> A -> bool) (a b : list A) : res (list op) :=
  let am := lines_map a in
  let bm := lines_map b in
  let m := Z.of_nat (length a) in
  let n := Z.of_nat (length b) in
  let fuel := S (length a) in
  operations_gen A eqb m n (lines_get am) (lines_get bm) fuel.

(* ---------------------------------------------------------------- text level *)

Definition NL : N := 10%N.
Definition CR : N := 13%N.

(* does the byte c, followed by the text s', end a line?  '\n', or a '\r' that is not the
   first half of "\r\n"  (the three line terminators of the LSP specification) *)
Definition eol_here (c : N) (s' : str) : bool :=
  N.eqb c NL ||
  (N.eqb c CR && negb (match s' with d :: _ => N.eqb d NL | [] => false end)).

(* splitLines of the pinned commit (strings.SplitAfter(text, "\n") without a final empty
   element); kept for the regression theorem compute_edits_sound_pinned_refuted *)
Fixpoint split_lines_pinned (s : str) : list str :=
  match s with
  | [] => []
  | c :: s' =>
      if N.eqb c NL then [c] :: split_lines_pinned s'
      else match split_lines_pinned s' with
           | [] => [[c]]
           | l :: ls => (c :: l) :: ls
           end
  end.

(* splitLines: cut after every line terminator; a non-empty unterminated rest is the last line *)
Fixpoint split_lines (s : str) : list str :=
  match s with
  | [] => []
  | c :: s' =>
      if eol_here c s' then [c] :: split_lines s'
      else match split_lines s' with
           | [] => [[c]]
           | l :: ls => (c :: l) :: ls
           end
  end.

(* types.TextEdit: Range{Start{Line,Character}, End{Line,Character}}, NewText *)
Record text_edit := { e_sl : Z; e_sc : Z; e_el : Z; e_ec : Z; e_text : str }.

Definition slice {T} (l : list T) (j1 j2 : Z) : list T :=
  firstn (Z.to_nat (j2 - j1)) (skipn (Z.to_nat j1) l).

Definition edit_of_op (after_lines : list str) (o : op) : list text_edit :=
  match o with
  | Del i1 i2 => [{| e_sl := i1; e_sc := 0; e_el := i2; e_ec := 0; e_text := [] |}]
  | Ins i1 i2 j1 j2 =>
      match concat (slice after_lines j1 j2) with
      | [] => []
      | content => [{| e_sl := i1; e_sc := 0; e_el := i2; e_ec := 0; e_text := content |}]
      end
  end.

Definition compute_edits_with (split : str -> list str) (before after : str) : res (list text_edit) :=
  let la := split before in
  let lb := split after in
  do ops <- operations str str_eqb la lb;
  Ok (flat_map (edit_of_op lb) ops).

Definition compute_edits : str -> str -> res (list text_edit) := compute_edits_with split_lines.
Definition compute_edits_pinned : str -> str -> res (list text_edit) := compute_edits_with split_lines_pinned.

(* A server process answers a SEQUENCE of requests.  The model of a sequence of calls is the model of one
   call, mapped over the sequence: nothing is carried from one call to the next (seed round 3: the
   implementation has to be a function of the pair too, whatever it keeps between calls). *)
Definition compute_edits_seq (calls : list (str * str)) : list (res (list text_edit)) :=
  map (fun p => compute_edits (fst p) (snd p)) calls.
