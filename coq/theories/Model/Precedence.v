(* C04 — which rules run and at which level.

   Executable model of the two places where regal decides this:

   * Rego, bundle/regal/config/config.rego: _force_disabled, _force_enabled, ignored_rule,
     level_for_rule; bundle/regal/main/main.rego: _rules_to_run (bundled rules) and the separate
     "Check custom rules" bodies of report / aggregate; pkg/linter/linter.go: the query of
     DetermineEnabledRules.
   * Go, pkg/config/bundle.go: providedConfLevels, the mergo merge of the Rules maps,
     extractUserRuleLevels; pkg/linter/linter.go: userConfigWithCustomRules (GetConfig).

   Definitions only.  The specification the README gives (first match wins) is at the end.
   Levels are the strings the code uses; "" is Go's "level not set". *)
From Regal Require Export Base.Str.

Definition s_ignore  : str := [105;103;110;111;114;101].        (* "ignore"  *)
Definition s_error   : str := [101;114;114;111;114].            (* "error"   *)
Definition s_warning : str := [119;97;114;110;105;110;103].     (* "warning" *)

Definition nonempty (s : str) : bool := match s with [] => false | _ => true end.

(* Go maps / JSON objects with string keys: association lists, the first binding of a key counts *)
Fixpoint assoc {A} (k : str) (l : list (str * A)) : option A :=
  match l with
  | [] => None
  | (k', v) :: l' => if str_eqb k k' then Some v else assoc k l'
  end.

(* m[k] = v : replace the binding when the key is present, otherwise add one *)
Fixpoint set_assoc {A} (k : str) (v : A) (l : list (str * A)) : list (str * A) :=
  match l with
  | [] => [(k, v)]
  | (k', v') :: l' => if str_eqb k k' then (k, v) :: l' else (k', v') :: set_assoc k v l'
  end.

(* ------------------------------------------------------------------------------------------ *)
(* data.eval.params, as written by Linter.createDataBundle                                      *)
Record params := mkParams {
  p_disable_all : bool;  p_disable_category : list str;  p_disable : list str;
  p_enable_all : bool;   p_enable_category : list str;   p_enable : list str }.

Definition no_params : params := mkParams false [] [] false [] [].

(* config.rego: the three bodies of _force_disabled(params, category, title) *)
Definition force_disabled (p : params) (cat title : str) : bool :=
  str_in title (p_disable p)
  || (p_disable_all p && negb (str_in cat (p_enable_category p)) && negb (str_in title (p_enable p)))
  || (str_in cat (p_disable_category p) && negb (str_in title (p_enable p))).

(* config.rego: the three bodies of _force_enabled(params, category, title) *)
Definition force_enabled (p : params) (cat title : str) : bool :=
  str_in title (p_enable p)
  || (p_enable_all p && negb (str_in cat (p_disable_category p)) && negb (str_in title (p_disable p)))
  || (str_in cat (p_enable_category p) && negb (str_in title (p_disable p))).

(* What Rego sees at merged_config.rules[category][title]:
   None = no such entry; Some None = an entry without a "level" key; Some (Some l) = level l. *)
Definition cfg_entry := option (option str).

Definition entry_level (e : cfg_entry) : option str :=
  match e with Some (Some l) => Some l | _ => None end.

(* ignored_rule(category, title) if { _force_disabled } else if { level == "ignore"; not _force_enabled } *)
Definition ignored_rule (p : params) (e : cfg_entry) (cat title : str) : bool :=
  if force_disabled p cat title then true
  else match entry_level e with
       | Some l => str_eqb l s_ignore && negb (force_enabled p cat title)
       | None => false
       end.

(* level_for_rule: "ignore" if forced off, else "error" if forced on, else the configured level, else "error" *)
Definition level_for_rule (p : params) (e : cfg_entry) (cat title : str) : str :=
  if force_disabled p cat title then s_ignore
  else if force_enabled p cat title then s_error
  else match entry_level e with Some l => l | None => s_error end.

(* ------------------------------------------------------------------------------------------ *)
(* Go: config.Config restricted to what decides levels                                         *)
Definition category := list (str * str).                 (* rule name -> Rule.Level ("" = unset) *)
Definition rules_map := list (str * category).           (* Config.Rules                         *)

Record config := mkConfig {
  c_rules : rules_map;
  c_cat_defaults : list (str * str);                     (* Defaults.Categories[c].Level          *)
  c_global : str }.                                      (* Defaults.Global.Level                 *)

Definition rule_level_of (m : rules_map) (cat title : str) : option str :=
  match assoc cat m with Some rs => assoc title rs | None => None end.

(* providedConfLevels: rule name -> level, over all categories (keyed by the name alone) *)
Definition provided_conf_levels (provided : rules_map) : list (str * str) :=
  flat_map (fun cr => snd cr) provided.

(* mergo.Merge(&defaultConfig, userConfig, WithOverride) on Config.Rules: maps are merged key by
   key, a Rule held in a map is a struct value and is replaced as a whole by the user's Rule *)
Definition merge_category (dst src : category) : category :=
  fold_left (fun d kv => set_assoc (fst kv) (snd kv) d) src dst.

Definition merge_rules (dst src : rules_map) : rules_map :=
  fold_left (fun d cs =>
               match assoc (fst cs) d with
               | Some dc => set_assoc (fst cs) (merge_category dc (snd cs)) d
               | None => set_assoc (fst cs) (snd cs) d
               end) src dst.

(* the if / else-if chain in the body of extractUserRuleLevels (repaired code):
   user rule level, else category default, else global default, else the provided level *)
Definition select_level (provided_level : str) (user_rule : option str)
           (cat_default : option str) (global : str) : str :=
  match user_rule with
  | Some l => if nonempty l then l else
      match cat_default with
      | Some c => if nonempty c then c else if nonempty global then global else provided_level
      | None => if nonempty global then global else provided_level
      end
  | None =>
      match cat_default with
      | Some c => if nonempty c then c else if nonempty global then global else provided_level
      | None => if nonempty global then global else provided_level
      end
  end.

(* the chain as pinned before the repair: a category default that is present but empty stopped
   the chain before the global default *)
Definition select_level_pinned (provided_level : str) (user_rule : option str)
           (cat_default : option str) (global : str) : str :=
  let rest := match cat_default with
              | Some c => if nonempty c then c else provided_level
              | None => if nonempty global then global else provided_level
              end in
  match user_rule with
  | Some l => if nonempty l then l else rest
  | None => rest
  end.

(* extractUserRuleLevels: every rule of the merged config gets its level from the chain;
   a rule without provided level (a custom rule) falls back to "error" *)
Definition provided_or_error (plevels : list (str * str)) (title : str) : str :=
  match assoc title plevels with Some l => l | None => s_error end.

Definition extract_user_rule_levels (user : config) (plevels : list (str * str))
           (merged : rules_map) : rules_map :=
  map (fun cr =>
         let cat := fst cr in
         (cat, map (fun tr =>
                      let title := fst tr in
                      (title, select_level (provided_or_error plevels title)
                                           (rule_level_of (c_rules user) cat title)
                                           (assoc cat (c_cat_defaults user))
                                           (c_global user)))
                   (snd cr)))
      merged.

(* pinned: rules without a provided level were skipped (kept whatever level the user wrote) *)
Definition extract_user_rule_levels_pinned (user : config) (plevels : list (str * str))
           (merged : rules_map) : rules_map :=
  map (fun cr =>
         let cat := fst cr in
         (cat, map (fun tr =>
                      let title := fst tr in
                      match assoc title plevels with
                      | None => tr
                      | Some pl =>
                          (title, select_level_pinned pl (rule_level_of (c_rules user) cat title)
                                                      (assoc cat (c_cat_defaults user)) (c_global user))
                      end)
                   (snd cr)))
      merged.

(* LoadConfigWithDefaultsFromBundle(bundle, userConfig): the Rules of the resulting Config.
   [provided] is data.regal.config.provided.rules; the provided config has no Defaults, so the
   merged Defaults are the user's.  Without user config the provided config is returned as is. *)
Definition load_config (provided : rules_map) (user : option config) : rules_map :=
  match user with
  | None => provided
  | Some u => extract_user_rule_levels u (provided_conf_levels provided)
                                       (merge_rules provided (c_rules u))
  end.

Definition load_config_pinned (provided : rules_map) (user : option config) : rules_map :=
  match user with
  | None => provided
  | Some u => extract_user_rule_levels_pinned u (provided_conf_levels provided)
                                              (merge_rules provided (c_rules u))
  end.

(* Linter.userConfigWithCustomRules (GetConfig): each loaded custom rule gets an (empty) entry
   in the user config unless it has one, so that the chain above applies to it *)
Definition add_rule_entry (m : rules_map) (ct : str * str) : rules_map :=
  let '(cat, title) := ct in
  match assoc cat m with
  | Some rs => match assoc title rs with
               | Some _ => m
               | None => set_assoc cat (set_assoc title [] rs) m
               end
  | None => set_assoc cat [(title, [])] m
  end.

Definition user_config_with_custom_rules (user : option config) (custom : list (str * str))
  : option config :=
  match user with
  | None => None
  | Some u => Some (mkConfig (fold_left add_rule_entry custom (c_rules u))
                             (c_cat_defaults u) (c_global u))
  end.

(* Linter.GetConfig *)
Definition linter_config (provided : rules_map) (user : option config) (custom : list (str * str))
  : rules_map :=
  load_config provided (user_config_with_custom_rules user custom).

(* config.ToMap + data.internal.combined_config: Rule.MarshalJSON always writes "level" *)
Definition entry_of (merged : rules_map) (cat title : str) : cfg_entry :=
  match rule_level_of merged cat title with Some l => Some (Some l) | None => None end.

(* ------------------------------------------------------------------------------------------ *)
(* main.rego: which rules may report for a file.  [excluded] stands for
   config.excluded_file(category, title, file) (C05), [noticed] for "the rule has a notice" (C19) *)

(* _rules_to_run[category] contains title *)
Definition rules_to_run_has (p : params) (merged : rules_map) (cat title : str) (excluded : bool) : bool :=
  match entry_of merged cat title with
  | Some _ => negb (ignored_rule p (entry_of merged cat title) cat title) && negb excluded
  | None => false
  end.

(* "Check bundled rules": in _rules_to_run and no notices *)
Definition builtin_can_report (p : params) (merged : rules_map) (cat title : str)
           (excluded noticed : bool) : bool :=
  rules_to_run_has p merged cat title excluded && negb noticed.

(* "Check custom rules": not ignored_rule, not excluded_file *)
Definition custom_can_report (p : params) (merged : rules_map) (cat title : str) (excluded : bool) : bool :=
  negb (ignored_rule p (entry_of merged cat title) cat title) && negb excluded.

(* main.rego routes a rule through three entry points: `report` (operation "lint"), `aggregate`
   (operation "collect") and `aggregate_report` (operation "aggregate"); each exists once for the
   bundled rules and once for custom rules.  The gates, body by body:

     bundled  report            _rules_to_run[category][title]; no notices
     bundled  aggregate         _rules_to_run[category][title]
     bundled  aggregate_report  _rules_to_run[category][title]
                                (input.aggregate = what was supplied under the rule's key, [] if nothing)
     custom   report            not ignored_rule; not excluded_file
     custom   aggregate         not ignored_rule; not excluded_file
     custom   aggregate_report  some key in object.keys(input.aggregates_internal);
                                not ignored_rule; not excluded_file

   The aggregates an aggregate_report run sees need not stem from the same run (Linter.WithAggregates:
   they may have been collected under any other configuration / command line), so whether the rule's
   key is among the supplied aggregates is an input of its own ([supplied]), not a consequence of the
   `aggregate` gate.  [excluded] is config.excluded_file for the file at hand ("__aggregate_report__"
   in the aggregate_report run), [noticed] "the rule has a notice". *)
Inductive branch := BReport | BAggregate | BAggregateReport.

Definition builtin_can_aggregate (p : params) (merged : rules_map) (cat title : str) (excluded : bool) : bool :=
  rules_to_run_has p merged cat title excluded.

Definition builtin_can_aggregate_report (p : params) (merged : rules_map) (cat title : str)
           (excluded : bool) : bool :=
  rules_to_run_has p merged cat title excluded.

Definition custom_can_aggregate (p : params) (merged : rules_map) (cat title : str) (excluded : bool) : bool :=
  negb (ignored_rule p (entry_of merged cat title) cat title) && negb excluded.

Definition custom_can_aggregate_report (p : params) (merged : rules_map) (cat title : str)
           (excluded supplied : bool) : bool :=
  supplied && negb (ignored_rule p (entry_of merged cat title) cat title) && negb excluded.

(* may the body of rule cat/title (bundled or custom) be evaluated in entry point [b] *)
Definition branch_gate (custom : bool) (b : branch) (p : params) (merged : rules_map) (cat title : str)
           (excluded noticed supplied : bool) : bool :=
  match custom, b with
  | false, BReport => builtin_can_report p merged cat title excluded noticed
  | false, BAggregate => builtin_can_aggregate p merged cat title excluded
  | false, BAggregateReport => builtin_can_aggregate_report p merged cat title excluded
  | true, BReport => custom_can_report p merged cat title excluded
  | true, BAggregate => custom_can_aggregate p merged cat title excluded
  | true, BAggregateReport => custom_can_aggregate_report p merged cat title excluded supplied
  end.

(* the level result.fail puts on a violation *)
Definition violation_level (p : params) (merged : rules_map) (cat title : str) : str :=
  level_for_rule p (entry_of merged cat title) cat title.

(* DetermineEnabledRules (repaired):
     array.concat([rule | data.regal.rules[cat][rule]; notices == set(); not ignored_rule(cat, rule)],
                  [rule | data.custom.regal.rules[cat][rule]; not ignored_rule(cat, rule)])
   sorted by the caller.  [bundled] lists data.regal.rules[cat][rule], [custom] the loaded custom
   rules, [noticed] the notices that do not depend on the input. *)
Definition determine_enabled_rules (p : params) (merged : rules_map) (bundled : list (str * str))
           (noticed : str -> str -> bool) (custom : list (str * str)) : list str :=
  map snd (filter (fun ct => negb (noticed (fst ct) (snd ct)) &&
                             negb (ignored_rule p (entry_of merged (fst ct) (snd ct)) (fst ct) (snd ct)))
                  bundled)
  ++ map snd (filter (fun ct => negb (ignored_rule p (entry_of merged (fst ct) (snd ct)) (fst ct) (snd ct)))
                     custom).

(* as pinned before the repair: custom rules were left out *)
Definition determine_enabled_rules_pinned (p : params) (merged : rules_map) (bundled : list (str * str))
           (noticed : str -> str -> bool) : list str :=
  determine_enabled_rules p merged bundled noticed [].

(* DetermineEnabledAggregateRules: the same without the notices condition, over the rules that
   define `aggregate` *)
Definition determine_enabled_aggregate_rules (p : params) (merged : rules_map)
           (bundled_agg custom_agg : list (str * str)) : list str :=
  determine_enabled_rules p merged bundled_agg (fun _ _ => false) custom_agg.

(* ------------------------------------------------------------------------------------------ *)
(* Specification: README "Ignoring Rules" — methods ranked, the first that says anything wins;
   within a tier, disabling wins over enabling; a rule enabled from the command line reports at
   "error" (upstream's config_test.rego pins that). *)
Inductive decision := Off | On (level : str).

Definition decision_eqb (a b : decision) : bool :=
  match a, b with
  | Off, Off => true
  | On x, On y => str_eqb x y
  | _, _ => false
  end.

Definition spec_cli (p : params) (cat title : str) : option decision :=
  if str_in title (p_disable p) then Some Off                    (* --disable            *)
  else if str_in title (p_enable p) then Some (On s_error)       (* --enable             *)
  else if str_in cat (p_disable_category p) then Some Off        (* --disable-category   *)
  else if str_in cat (p_enable_category p) then Some (On s_error)(* --enable-category    *)
  else if p_disable_all p then Some Off                          (* --disable-all        *)
  else if p_enable_all p then Some (On s_error)                  (* --enable-all         *)
  else None.

(* the config file: the rule's own level, else the category default, else the global default,
   else Regal's built-in default ("" = that tier says nothing) *)
Definition spec_config_level (rule_level cat_default global builtin_default : str) : str :=
  if nonempty rule_level then rule_level
  else if nonempty cat_default then cat_default
  else if nonempty global then global
  else builtin_default.

Definition decision_of_level (l : str) : decision :=
  if str_eqb l s_ignore then Off else On l.

Definition spec_decision (p : params) (cat title : str) (config_level : str) : decision :=
  match spec_cli p cat title with
  | Some d => d
  | None => decision_of_level config_level
  end.

Definition opt_str (o : option str) : str := match o with Some s => s | None => [] end.

(* the level the user's config file and Regal's default give rule cat/title *)
Definition spec_user_level (user : option config) (cat title : str) (builtin_default : str) : str :=
  match user with
  | None => builtin_default
  | Some u => spec_config_level (opt_str (rule_level_of (c_rules u) cat title))
                                (opt_str (assoc cat (c_cat_defaults u)))
                                (c_global u) builtin_default
  end.

(* what the implementation decides, read off the two observable facts *)
Definition impl_decision (can_report : bool) (level : str) : decision :=
  if can_report then On level else Off.

(* well-formedness used by the theorems about whole configurations *)
Fixpoint keys_nodup {A} (l : list (str * A)) : bool :=
  match l with
  | [] => true
  | (k, _) :: l' => negb (match assoc k l' with Some _ => true | None => false end) && keys_nodup l'
  end.

Definition rules_map_wf (m : rules_map) : bool :=
  keys_nodup m && forallb (fun cr => keys_nodup (snd cr)) m.

(* the level Rego reads for a rule: the configured one, "error" when there is none *)
Definition entry_level_or_error (e : cfg_entry) : str :=
  match entry_level e with Some l => l | None => s_error end.

Fixpoint pair_in (cat title : str) (l : list (str * str)) : bool :=
  match l with
  | [] => false
  | (c, t) :: l' => (str_eqb cat c && str_eqb title t) || pair_in cat title l'
  end.

(* does the configuration GetConfig returns have an entry for cat/title: provided, written by the
   user, or a loaded custom rule (the latter only when there is a user configuration) *)
Definition has_entry (provided : rules_map) (user : option config) (custom : list (str * str))
           (cat title : str) : bool :=
  match rule_level_of provided cat title with
  | Some _ => true
  | None => match user with
            | Some u => match rule_level_of (c_rules u) cat title with
                        | Some _ => true
                        | None => pair_in cat title custom
                        end
            | None => false
            end
  end.

Definition user_wf (user : option config) : bool :=
  match user with Some u => rules_map_wf (c_rules u) | None => true end.

(* the repaired code without the repairs: what the pinned tree computed (regression witnesses) *)
Definition linter_config_pinned (provided : rules_map) (user : option config) : rules_map :=
  load_config_pinned provided user.

(* consistency of the two tables the decision rests on (regenerated into Gen/RulesTable.v):
   every bundled rule has a provided level in {ignore, warning, error}, every provided rule is a
   bundled rule, rule names are unique over all categories, no key is repeated, and the provided
   configuration has no "default" entries of its own *)
Definition level_ok (l : str) : bool := str_eqb l s_ignore || str_eqb l s_warning || str_eqb l s_error.

Definition s_default : str := [100;101;102;97;117;108;116].   (* "default" *)

Definition tables_ok (bundled : list (str * str)) (provided : rules_map) : bool :=
  rules_map_wf provided
  && keys_nodup (provided_conf_levels provided)
  && forallb (fun ct => match rule_level_of provided (fst ct) (snd ct) with
                        | Some l => level_ok l
                        | None => false
                        end) bundled
  && forallb (fun cr => forallb (fun tr => pair_in (fst cr) (fst tr) bundled) (snd cr)) provided
  && forallb (fun cr => negb (str_eqb (fst cr) s_default)
                        && forallb (fun tr => negb (str_eqb (fst tr) s_default)) (snd cr)) provided.
