(* C17 — risky accesses of internal/lsp/*.go PAIRED with the guards that dominate them.

   The guard skeletons of Model/LspGuards.v say which test protects which access; [guard_sites_match] ties the SET of
   risky sites of server.go to the source.  This file ties the GUARDS: for every index with a constant (kind 1) or a
   computed index (kind 6), every slice expression with a bound other than 0 (kind 7) and every explicit pointer
   dereference (kind 3) of the package, the conditions that dominate the access and are about it (condition of an
   enclosing `if`, negated condition of a preceding `if` that always leaves, enclosing `for` / `range` / `case`), as
   the text go/printer gives them, and whether one of them is a length test of the indexed / sliced expression
   (`len(base)` occurs in it, or the index is the key of an enclosing `range base`) resp. a nil test of the pointer.
   The table below is what the source had when the skeletons were (re)read; Gen/LspShape.v is regenerated on every
   run (harness/cmd/lspshape, go/ast) and compared: a guard that disappears, is weakened (`>` to `>=`, a dropped
   disjunct: ANY change of the text of a dominating condition) or a new / removed site breaks the obligation until
   the model is revisited.  What go/ast cannot see: whether an unchanged condition text still means the same (a
   variable assigned differently before the test), aliasing, guards established in a caller. *)
From Coq Require Import List NArith Bool String.
From Regal Require Import Base.Str Base.StrLit.
Import ListNotations.
Open Scope N_scope.

Definition gsite := (str * str * N * str * list str * bool)%type.
Definition gs_file (s : gsite) : str := match s with (f, _, _, _, _, _) => f end.
Definition gs_func (s : gsite) : str := match s with (_, f, _, _, _, _) => f end.
Definition gs_kind (s : gsite) : N := match s with (_, _, k, _, _, _) => k end.
Definition gs_expr (s : gsite) : str := match s with (_, _, _, e, _, _) => e end.
Definition gs_guards (s : gsite) : list str := match s with (_, _, _, _, g, _) => g end.
Definition gs_protected (s : gsite) : bool := match s with (_, _, _, _, _, p) => p end.

Definition modelled_guarded_sites : list gsite := [
  (lit "command.go", lit "toAnySlice", 6, lit "b[i]", [lit "range a as i"], false);
  (lit "command.go", lit "toAnySlice", 6, lit "a[i]", [lit "range a as i"], true);
  (lit "diff.go", lit "operations", 7, lit "b[op.J1:j2]", [lit "!(len(a) == 0 && len(b) == 0)"; lit "!(op == nil)"; lit "op.Kind == Insert"], true);
  (lit "diff.go", lit "operations", 6, lit "solution[i]", [], false);
  (lit "diff.go", lit "operations", 1, lit "snake[0]", [lit "range snakes as _, snake"; lit "!(len(snake) < 2)"], true);
  (lit "diff.go", lit "operations", 1, lit "snake[1]", [lit "range snakes as _, snake"; lit "!(len(snake) < 2)"], true);
  (lit "diff.go", lit "operations", 1, lit "snake[0]", [lit "range snakes as _, snake"; lit "!(len(snake) < 2)"], true);
  (lit "diff.go", lit "operations", 1, lit "snake[1]", [lit "range snakes as _, snake"; lit "!(len(snake) < 2)"], true);
  (lit "diff.go", lit "operations", 1, lit "snake[0]", [lit "range snakes as _, snake"; lit "!(len(snake) < 2)"], true);
  (lit "diff.go", lit "operations", 7, lit "solution[:i]", [], false);
  (lit "diff.go", lit "backtrack", 6, lit "trace[d]", [lit "for x > 0 && y > 0 && d > 0"], false);
  (lit "diff.go", lit "backtrack", 6, lit "snakes[d]", [lit "for x > 0 && y > 0 && d > 0"], false);
  (lit "diff.go", lit "backtrack", 6, lit "V[k-1+offset]", [lit "!(len(V) == 0)"; lit "!(k == -d)"; lit "k != d"], true);
  (lit "diff.go", lit "backtrack", 6, lit "V[k+1+offset]", [lit "!(len(V) == 0)"; lit "!(k == -d)"; lit "k != d"], true);
  (lit "diff.go", lit "backtrack", 6, lit "V[kPrev+offset]", [lit "!(len(V) == 0)"], true);
  (lit "diff.go", lit "backtrack", 6, lit "snakes[d]", [], false);
  (lit "diff.go", lit "shortestEditSequence", 6, lit "V[k-1+offset]", [lit "for k <= d"; lit "!(k == -d)"; lit "k != d"], false);
  (lit "diff.go", lit "shortestEditSequence", 6, lit "V[k+1+offset]", [lit "for k <= d"; lit "!(k == -d)"; lit "k != d"], false);
  (lit "diff.go", lit "shortestEditSequence", 6, lit "V[k+1+offset]", [lit "for k <= d"; lit "k == -d || (k != d && V[k-1+offset] < V[k+1+offset])"], false);
  (lit "diff.go", lit "shortestEditSequence", 6, lit "V[k-1+offset]", [lit "for k <= d"; lit "!(k == -d || (k != d && V[k-1+offset] < V[k+1+offset]))"], false);
  (lit "diff.go", lit "shortestEditSequence", 6, lit "a[x]", [lit "x < M && y < N"], false);
  (lit "diff.go", lit "shortestEditSequence", 6, lit "b[y]", [lit "x < M && y < N"], false);
  (lit "diff.go", lit "shortestEditSequence", 6, lit "V[k+offset]", [lit "for k <= d"], false);
  (lit "diff.go", lit "shortestEditSequence", 6, lit "trace[d]", [lit "for d <= N+M"; lit "for k <= d"], false);
  (lit "diff.go", lit "shortestEditSequence", 6, lit "trace[d]", [lit "for d <= N+M"], false);
  (lit "diff.go", lit "splitLines", 6, lit "text[i]", [lit "range len(text) as i"], true);
  (lit "diff.go", lit "splitLines", 6, lit "text[i]", [lit "range len(text) as i"; lit "!(text[i] == '\n')"], true);
  (lit "diff.go", lit "splitLines", 6, lit "text[i+1]", [lit "range len(text) as i"; lit "!(text[i] == '\n')"; lit "text[i] == '\r'"; lit "!(i+1 == len(text))"], true);
  (lit "diff.go", lit "splitLines", 7, lit "text[start : i+1]", [lit "range len(text) as i"; lit "text[i] == '\n' || (text[i] == '\r' && (i+1 == len(text) || text[i+1] != '\n'))"], true);
  (lit "diff.go", lit "splitLines", 7, lit "text[start:]", [lit "start < len(text)"], true);
  (lit "documentsymbol.go", lit "documentSymbols", 6, lit "lines[len(lines)-1]", [], false);
  (lit "documentsymbol.go", lit "documentSymbols", 1, lit "rules[0]", [lit "range ruleGroups as _, rules"; lit "len(rules) == 1"], true);
  (lit "documentsymbol.go", lit "documentSymbols", 1, lit "rules[0]", [lit "range ruleGroups as _, rules"; lit "!(len(rules) == 1)"], true);
  (lit "documentsymbol.go", lit "documentSymbols", 6, lit "rules[len(rules)-1]", [lit "range ruleGroups as _, rules"; lit "!(len(rules) == 1)"], true);
  (lit "documentsymbol.go", lit "documentSymbols", 1, lit "rules[0]", [lit "range ruleGroups as _, rules"; lit "!(len(rules) == 1)"], true);
  (lit "documentsymbol.go", lit "documentSymbols", 1, lit "rules[0]", [lit "range ruleGroups as _, rules"; lit "!(len(rules) == 1)"], true);
  (lit "documentsymbol.go", lit "documentSymbols", 1, lit "rules[0]", [lit "range ruleGroups as _, rules"; lit "!(len(rules) == 1)"], true);
  (lit "documentsymbol.go", lit "locationToRange", 6, lit "lines[len(lines)-1]", [], false);
  (lit "documentsymbol.go", lit "toWorkspaceSymbols", 3, lit "*symbols", [], false);
  (lit "documentsymbol.go", lit "toWorkspaceSymbols", 3, lit "*symbols", [], false);
  (lit "documentsymbol.go", lit "toWorkspaceSymbols", 3, lit "*sym.Children", [lit "sym.Children != nil"], true);
  (lit "eval.go", lit "EvalWorkspacePath", 1, lit "result[0]", [lit "!(len(result) == 0)"], true);
  (lit "eval.go", lit "prepareRegoArgs", 3, lit "*cfg", [lit "cfg != nil"], true);
  (lit "eval.go", lit "Print", 6, lit "h.Output[ctx.Location.File]", [lit "_, ok := h.Output[ctx.Location.File]; !ok"], false);
  (lit "eval.go", lit "Print", 6, lit "h.Output[ctx.Location.File][ctx.Location.Row]", [], false);
  (lit "eval.go", lit "Print", 6, lit "h.Output[ctx.Location.File]", [], false);
  (lit "eval.go", lit "Print", 6, lit "h.Output[ctx.Location.File][ctx.Location.Row]", [], false);
  (lit "eval.go", lit "Print", 6, lit "h.Output[ctx.Location.File]", [], false);
  (lit "foldingrange.go", lit "Pop", 7, lit "s[:l-1]", [], false);
  (lit "foldingrange.go", lit "Pop", 6, lit "s[l-1]", [], false);
  (lit "foldingrange.go", lit "findFoldingRanges", 6, lit "module.Comments[i+1]", [lit "range module.Comments as i, comment"; lit "i+1 < numComments"], false);
  (lit "foldingrange.go", lit "findFoldingRanges", 6, lit "module.Comments[i-1]", [lit "range module.Comments as i, comment"; lit "i+1 < numComments && module.Comments[i+1].Location.Row == comment.Location.Row+1"; lit "!(i == 0)"], false);
  (lit "foldingrange.go", lit "findFoldingRanges", 6, lit "module.Imports[len(module.Imports)-1]", [lit "len(module.Imports) > 2"], true);
  (lit "foldingrange.go", lit "findFoldingRanges", 1, lit "module.Imports[0]", [lit "len(module.Imports) > 2"], true);
  (lit "inlayhint.go", lit "getInlayHints", 6, lit "call.Args[i]", [lit "range call.Builtin.Decl.NamedFuncArgs().Args as i, arg"; lit "!(len(call.Args) <= i)"], true);
  (lit "lint.go", lit "updateParse", 6, lit "lines[line]", [lit "line < len(lines)"], true);
  (lit "lint.go", lit "updateParse", 1, lit "hints[0]", [lit "len(hints) > 0"], true);
  (lit "lint.go", lit "updateParse", 1, lit "hints[0]", [lit "len(hints) > 0"], true);
  (lit "lint.go", lit "updateFileDiagnostics", 3, lit "*regalConfig", [lit "regalConfig != nil"], true);
  (lit "lint.go", lit "updateAllDiagnostics", 3, lit "*regalConfig", [lit "regalConfig != nil"], true);
  (lit "lint.go", lit "getRangeForViolation", 3, lit "*item.Location.Text", [lit "item.Location.Text != nil"], true);
  (lit "server.go", lit "StartCommandWorker", 1, lit "params.Arguments[0]", [lit "!(len(params.Arguments) != 1)"], true);
  (lit "server.go", lit "StartCommandWorker", 1, lit "params.Arguments[0]", [lit "!(len(params.Arguments) != 1)"], true);
  (lit "server.go", lit "StartCommandWorker", 6, lit "allRuleHeadLocations[path]", [lit "!(path == '')"], false);
  (lit "server.go", lit "StartCommandWorker", 1, lit "currentModule.Comments[0]", [lit "len(currentModule.Comments) > 0"], true);
  (lit "server.go", lit "StartCommandWorker", 3, lit "*l.clientInitializationOptions.EvalCodelensDisplayInline", [lit "l.clientInitializationOptions.EvalCodelensDisplayInline != nil"], true);
  (lit "server.go", lit "templateContentsForFile", 1, lit "roots[0]", [lit "len(roots) == 1"], true);
  (lit "server.go", lit "fixEditParams", 1, lit "fixResults[0]", [lit "!(len(fixResults) == 0)"], true);
  (lit "server.go", lit "handleTextDocumentHover", 1, lit "docSnippets[0]", [lit "!(len(docSnippets) > 1)"; lit "len(docSnippets) == 1"], true);
  (lit "server.go", lit "handleTextDocumentHover", 6, lit "builtinsOnLine[params.Position.Line+1]", [lit "!(l.ignoreURI(params.TextDocument.URI))"], false);
  (lit "server.go", lit "handleTextDocumentHover", 6, lit "keywordsOnLine[params.Position.Line+1]", [lit "!(l.ignoreURI(params.TextDocument.URI))"], false);
  (lit "server.go", lit "handleTextDocumentCodeLens", 3, lit "*l.clientInitializationOptions.EnableDebugCodelens", [lit "l.clientInitializationOptions.EnableDebugCodelens != nil"], true);
  (lit "server.go", lit "partialInlayHints", 7, lit "strings.Split(contents, '\n')[:firstErrorLine]", [lit "!(firstErrorLine == 0 || firstErrorLine > uint(len(strings.Split(contents, '\n'))))"], true);
  (lit "server.go", lit "handleWorkspaceSymbol", 6, lit "contents[moduleURL]", [lit "range l.cache.GetAllModules() as moduleURL, module"], false);
  (lit "server.go", lit "handleTextDocumentDidChange", 1, lit "params.ContentChanges[0]", [lit "!(len(params.ContentChanges) == 0)"], true);
  (lit "server.go", lit "handleTextDocumentDidChange", 1, lit "params.ContentChanges[0]", [lit "!(len(params.ContentChanges) == 0)"], true);
  (lit "server.go", lit "handleTextDocumentDidSave", 3, lit "*params.Text", [lit "cfg := l.getLoadedConfig(); params.Text != nil && cfg != nil"], true);
  (lit "server.go", lit "handleTextDocumentDidSave", 3, lit "*cfg", [lit "cfg := l.getLoadedConfig(); params.Text != nil && cfg != nil"], true);
  (lit "server.go", lit "handleTextDocumentFormatting", 3, lit "*l.clientInitializationOptions.Formatter", [lit "l.clientInitializationOptions.Formatter != nil"], true);
  (lit "server.go", lit "handleTextDocumentFormatting", 1, lit "fixResults[0]", [lit "!(len(fixResults) == 0)"], true);
  (lit "server.go", lit "handleTextDocumentFormatting", 3, lit "*cfg", [lit "cfg := l.getLoadedConfig(); cfg != nil"], true);
  (lit "server.go", lit "handleInitialize", 1, lit "configRoots[0]", [lit "case : len(configRoots) > 1"], true);
  (lit "server.go", lit "handleInitialize", 1, lit "configRoots[0]", [lit "case : len(configRoots) > 1"], true);
  (lit "server.go", lit "handleInitialize", 1, lit "configRoots[0]", [lit "case : len(configRoots) == 1"], true);
  (lit "server.go", lit "handleInitialize", 1, lit "configRoots[0]", [lit "case : len(configRoots) == 1"], true);
  (lit "server.go", lit "handleInitialize", 3, lit "*params.InitializationOptions", [lit "params.InitializationOptions != nil"], true);
  (lit "server.go", lit "handleWorkspaceDidChangeWatchedFiles", 1, lit "params.Changes[0]", [lit "len(params.Changes) > 0"], true);
  (lit "server.go", lit "handleWorkspaceDidChangeWatchedFiles", 1, lit "params.Changes[0]", [lit "len(params.Changes) > 0"; lit "!(strings.HasSuffix(params.Changes[0].URI, '.regal/config.yaml'))"], true)
].

(* Slice expressions and pointer dereferences that no length / nil test dominates, each with the reason it cannot
   fail.  Everything else of kind 1 (constant index), 7 (slice expression) and 3 (dereference) must be protected.
   diff.go operations `solution[:i]`: i counts the elements stored into solution, made with that capacity;
   documentsymbol.go toWorkspaceSymbols `*symbols`: the only callers pass the address of a local slice;
   foldingrange.go Pop `s[:l-1]`: the only caller tests the stack for emptiness first. *)
Definition unprotected_justified : list (str * str * str) := [
  (lit "diff.go", lit "operations", lit "solution[:i]");
  (lit "documentsymbol.go", lit "toWorkspaceSymbols", lit "*symbols");
  (lit "documentsymbol.go", lit "toWorkspaceSymbols", lit "*symbols");
  (lit "foldingrange.go", lit "Pop", lit "s[:l-1]")
].

Definition triple_eqb (a b : str * str * str) : bool :=
  match a, b with (a1, a2, a3), (b1, b2, b3) => str_eqb a1 b1 && str_eqb a2 b2 && str_eqb a3 b3 end.

Definition site_guard_ok (s : gsite) : bool :=
  gs_protected s
  || N.eqb (gs_kind s) 6      (* computed indexes include map lookups, which go/ast cannot tell apart: compared only *)
  || existsb (triple_eqb (gs_file s, gs_func s, gs_expr s)) unprotected_justified.

(* how many sites carry a protecting test (evidence; also keeps the table from being emptied unnoticed) *)
Definition protected_count (l : list gsite) : nat := length (filter gs_protected l).
