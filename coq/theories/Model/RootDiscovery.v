(* C13, root discovery: pkg/config/config.go FindBundleRootDirectories / rootsFromRegalConfigDirOrFile /
   GetPotentialRoots and internal/io FindManifestLocations (WalkFiles + IsSkipWalkDirectory), on a
   file tree datatype.

   The file system is a tree of named nodes.  A regular file carries the one thing the discovery
   reads out of a file: the [project.roots] its YAML content declares (the YAML parser is an oracle;
   [] for every file that is no config file or declares none).  Symbolic links are non-directory
   entries, i.e. files.  Paths are clean absolute strings: the tree root is spelled by the caller
   (the harness uses /R), a child is  parent ++ "/" ++ name.

   What is NOT modelled: an argument that is itself called ".regal"; configuration files that are not
   valid YAML (the real functions return an error); anything above the tree root (the upward search of
   findUpwards ends at the tree root here: the harness materialises its trees where no directory above
   holds a regal config and checks that no observed root lies outside the tree).  Go's sort + Compact of
   the result is not modelled: the results are compared as sets.  Definitions only. *)
From Regal Require Export Base.PathModel.

Inductive rnode := RFile (cfg : list str) | RDir (children : list (str * rnode)).

Definition entries := list (str * rnode).

Definition MANIFEST : str := [46;109;97;110;105;102;101;115;116]%N.              (* ".manifest" *)
Definition REGAL : str := [46;114;101;103;97;108]%N.                             (* ".regal" *)
Definition REGAL_YAML : str := [46;114;101;103;97;108;46;121;97;109;108]%N.      (* ".regal.yaml" *)
Definition CONFIG_YAML : str := [99;111;110;102;105;103;46;121;97;109;108]%N.    (* "config.yaml" *)
Definition RULES : str := [114;117;108;101;115]%N.                               (* "rules" *)
(* io.IsSkipWalkDirectory: ".git" ".idea" "node_modules" *)
Definition rd_skips : list str :=
  [[46;103;105;116]; [46;105;100;101;97]; [110;111;100;101;95;109;111;100;117;108;101;115]]%N.

(* os.ReadDir never lists a name twice: the first entry of that name is THE entry *)
Fixpoint child (cs : entries) (nm : str) : option rnode :=
  match cs with
  | [] => None
  | (k, c) :: cs' => if str_eqb k nm then Some c else child cs' nm
  end.

(* the three markers: a FILE .manifest, a DIRECTORY .regal, a FILE .regal.yaml *)
Definition holds_manifest (cs : entries) : bool :=
  match child cs MANIFEST with Some (RFile _) => true | _ => false end.
Definition regal_dir (cs : entries) : option entries :=
  match child cs REGAL with Some (RDir rcs) => Some rcs | _ => None end.
Definition yaml_cfg (cs : entries) : option (list str) :=
  match child cs REGAL_YAML with Some (RFile r) => Some r | _ => None end.

(* filepath.Join of a clean path and one name *)
Definition pj (p nm : str) : str := p ++ SLASH :: nm.

(* io.FindManifestLocations(parent), every result joined with parent again: WalkFiles prunes the
   directories IsSkipWalkDirectory names (the start directory included, by its own name) and hands
   every other non-directory entry to the callback, which keeps the directory of each ".manifest" *)
Fixpoint manifests_below (path name : str) (n : rnode) {struct n} : list str :=
  match n with
  | RFile _ => []
  | RDir cs =>
      if str_in name rd_skips then []
      else (if holds_manifest cs then [path] else [])
           ++ flat_map (fun '(nm, c) => manifests_below (pj path nm) nm c) cs
  end.

(* conf.Project.Roots: filepath.Join(parent, root.Path) *)
Definition declared (parent : str) (roots : list str) : list str :=
  map (fun r => pjoin [parent; r]) roots.

(* os.ReadFile(<.regal>/config.yaml): a directory of that name, or no such entry, reads as nothing *)
Definition cfg_of_regal (rcs : entries) : list str :=
  match child rcs CONFIG_YAML with Some (RFile r) => r | _ => [] end.
(* "Include the rules directory when loading from a .regal dir" *)
Definition rules_of (parent : str) (rcs : entries) : list str :=
  match child rcs RULES with Some (RDir _) => [pj (pj parent REGAL) RULES] | _ => [] end.

(* rootsFromRegalConfigDirOrFile for <parent>/.regal and for <parent>/.regal.yaml; [name] and [cs]
   are the name and the entries of parent *)
Definition roots_from_regal_dir (parent name : str) (cs rcs : entries) : list str :=
  parent :: declared parent (cfg_of_regal rcs) ++ rules_of parent rcs
         ++ manifests_below parent name (RDir cs).
Definition roots_from_yaml (parent name : str) (cs : entries) (roots : list str) : list str :=
  parent :: declared parent roots ++ manifests_below parent name (RDir cs).

(* the DOWNWARD filepath.WalkDir of FindBundleRootDirectories: no directory is pruned, nothing ends
   the walk early; every directory entry called .regal contributes rootsFromRegalConfigDirOrFile,
   every non-directory entry called .manifest its directory.  (.regal.yaml files below the argument
   are not looked at.) *)
Fixpoint walk_down (path name : str) (n : rnode) {struct n} : list str :=
  match n with
  | RFile _ => []
  | RDir cs =>
      (if holds_manifest cs then [path] else [])
      ++ match regal_dir cs with Some rcs => roots_from_regal_dir path name cs rcs | None => [] end
      ++ flat_map (fun '(nm, c) => walk_down (pj path nm) nm c) cs
  end.

(* a directory on the way from the tree root to the argument: (path, own name, entries) *)
Definition dstep := (str * str * entries)%type.

(* os.Stat(argument): [comps] are the names from the tree root down; the directories passed on the way
   are collected innermost first.  None: no such directory. *)
Fixpoint descend (path name : str) (n : rnode) (comps : list str) (above : list dstep) {struct comps}
  : option (dstep * list dstep) :=
  match n with
  | RFile _ => None
  | RDir cs =>
      match comps with
      | [] => Some ((path, name, cs), above)
      | c :: comps' =>
          match child cs c with
          | Some n' => descend (pj path c) c n' comps' ((path, name, cs) :: above)
          | None => None
          end
      end
  end.

(* findUpwards: the first directory, from the argument upwards, in which the name denotes an entry of
   the expected kind *)
Fixpoint first_up {B} (f : dstep -> option B) (l : list dstep) : option B :=
  match l with
  | [] => None
  | x :: l' => match f x with Some y => Some y | None => first_up f l' end
  end.

Definition regal_roots_at (s : dstep) : option (list str) :=
  let '(p, nm, cs) := s in
  match regal_dir cs with Some rcs => Some (roots_from_regal_dir p nm cs rcs) | None => None end.
Definition yaml_roots_at (s : dstep) : option (list str) :=
  let '(p, nm, cs) := s in
  match yaml_cfg cs with Some r => Some (roots_from_yaml p nm cs r) | None => None end.

Definition opt_list {A} (o : option (list A)) : list A := match o with Some l => l | None => [] end.

(* FindBundleRootDirectories(argument): the closest .regal directory upwards, the closest .regal.yaml
   upwards (both, independently), then the downward walk *)
Definition find_bundle_roots (rpath rname : str) (t : rnode) (comps : list str) : option (list str) :=
  match descend rpath rname t comps [] with
  | None => None
  | Some ((p, nm, cs), above) =>
      let ups := (p, nm, cs) :: above in
      Some (opt_list (first_up regal_roots_at ups) ++ opt_list (first_up yaml_roots_at ups)
            ++ walk_down p nm (RDir cs))
  end.

Definition arg_path (rpath rname : str) (t : rnode) (comps : list str) : option str :=
  match descend rpath rname t comps [] with
  | Some ((p, _, _), _) => Some p
  | None => None
  end.

Fixpoint all_some {A} (l : list (option A)) : option (list A) :=
  match l with
  | [] => Some []
  | None :: _ => None
  | Some x :: l' => match all_some l' with Some r => Some (x :: r) | None => None end
  end.

(* GetPotentialRoots(arguments) for arguments that are directories: the union; the argument
   directories themselves when nothing at all was found *)
Definition get_potential_roots (rpath rname : str) (t : rnode) (args : list (list str))
  : option (list str) :=
  match all_some (map (find_bundle_roots rpath rname t) args),
        all_some (map (arg_path rpath rname t) args) with
  | Some found, Some paths =>
      match concat found with [] => Some paths | all => Some all end
  | _, _ => None
  end.

(* ---- specification vocabulary ------------------------------------------------------------- *)
(* [dir_at p nm t d dn ds]: in the tree t (spelled p, own name nm) there is, at any depth, a directory
   spelled d with own name dn and entries ds.  Nothing is asked of its ancestors or siblings. *)
Inductive dir_at : str -> str -> rnode -> str -> str -> entries -> Prop :=
| da_here p nm cs : dir_at p nm (RDir cs) p nm cs
| da_below p nm cs c n d dn ds :
    In (c, n) cs -> dir_at (pj p c) c n d dn ds -> dir_at p nm (RDir cs) d dn ds.

(* the directory holds a marker the downward walk looks for *)
Definition marker (ds : entries) : bool :=
  holds_manifest ds || match regal_dir ds with Some _ => true | None => false end.

(* the variant with an "optimisation" (seeded change C13-5): nothing else of a directory is looked at
   once its .manifest was seen; ".manifest" sorts before every other name a directory usually holds.
   Kept as a regression witness: it loses nested roots. *)
Fixpoint walk_down_skipping (path name : str) (n : rnode) {struct n} : list str :=
  match n with
  | RFile _ => []
  | RDir cs =>
      if holds_manifest cs then [path]
      else match regal_dir cs with Some rcs => roots_from_regal_dir path name cs rcs | None => [] end
           ++ flat_map (fun '(nm, c) => walk_down_skipping (pj path nm) nm c) cs
  end.
