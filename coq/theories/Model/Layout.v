(* C08 — layout-preserving re-embeddings of a policy text, on the line table.

   A document is the list of its lines (without terminators) plus the line-end style used to write it out.
   [regal_lines] is how regal builds input.regal.file.lines (internal/parse/parse.go, PrepareAST):
       strings.Split(strings.ReplaceAll(content, CRLF, LF), LF)
   The transformation grammar (harness/cmd/c08 applies the same operations to the text):
     OBlankPkg k   k blank lines after the line holding the package clause (at the top when there is none)
     OBlankTop k   k blank lines at the top
     OCrlf         write the document with CRLF line ends
     OAppend e     append the lines e (blank line + an unrelated rule + final line end)
   Which shift amounts the enumeration uses is part of the model too ([boundary_shifts]): rules that order or compare
   locations as text go wrong exactly where the number of digits of a row changes (9|10, 99|100, 999|1000), so
   every row of a document is put on the last row before such a boundary by some selected shift.
   Definitions only; proofs in Proofs/Layout.v. *)
From Regal Require Import Base.Str.
From Coq Require Import List NArith Bool Arith.
Import ListNotations.
Local Open Scope N_scope.

Definition LF : N := 10.
Definition CR : N := 13.

Definition doc := list str.

Inductive eol_style := EolLF | EolCRLF.

Definition eol (st : eol_style) : str :=
  match st with EolLF => [LF] | EolCRLF => [CR; LF] end.

(* the text of a document: lines joined by the line end (a final line end shows as a last empty line) *)
Definition render (st : eol_style) (d : doc) : str := join (eol st) d.

(* strings.ReplaceAll(content, CRLF, LF): leftmost, non-overlapping occurrences *)
Fixpoint normalize_crlf (s : str) {struct s} : str :=
  match s with
  | [] => []
  | x :: s' =>
      match s' with
      | [] => [x]
      | y :: s'' =>
          if (N.eqb x CR && N.eqb y LF)%bool then LF :: normalize_crlf s''
          else x :: normalize_crlf s'
      end
  end.

(* input.regal.file.lines *)
Definition regal_lines (content : str) : list str := split_on LF (normalize_crlf content).

(* the lines as an editor that only knows LF would see them *)
Definition raw_lines (content : str) : list str := split_on LF content.

Definition clean_byte (c : N) : bool := negb (N.eqb c LF) && negb (N.eqb c CR).
Definition clean_line (l : str) : bool := forallb clean_byte l.
Definition clean_doc (d : doc) : bool := forallb clean_line d.

(* ---- the grammar ---- *)

Inductive op :=
| OBlankPkg (k : nat)
| OBlankTop (k : nat)
| OCrlf
| OAppend (extra : list str).

Record ldoc := mk_ldoc { l_lines : doc; l_style : eol_style }.

Definition text_of (x : ldoc) : str := render (l_style x) (l_lines x).

(* the bytes of: package, followed by one space *)
Definition package_kw : str := [112; 97; 99; 107; 97; 103; 101; 32].
Definition is_package_line (l : str) : bool := has_prefix l package_kw.

Fixpoint find_index {A : Type} (p : A -> bool) (l : list A) {struct l} : option nat :=
  match l with
  | [] => None
  | x :: l' => if p x then Some O
               else match find_index p l' with Some i => Some (S i) | None => None end
  end.

(* where OBlankPkg inserts: right after the first package line, else at the top *)
Definition pkg_at (d : doc) : nat :=
  match find_index is_package_line d with Some i => S i | None => O end.

Definition insert_blank (at_ k : nat) (d : doc) : doc :=
  firstn at_ d ++ repeat [] k ++ skipn at_ d.

Definition apply_op (o : op) (x : ldoc) : ldoc :=
  match o with
  | OBlankPkg k => mk_ldoc (insert_blank (pkg_at (l_lines x)) k (l_lines x)) (l_style x)
  | OBlankTop k => mk_ldoc (insert_blank O k (l_lines x)) (l_style x)
  | OCrlf => mk_ldoc (l_lines x) EolCRLF
  | OAppend e => mk_ldoc (l_lines x ++ e) (l_style x)
  end.

Definition apply_ops (ops : list op) (x : ldoc) : ldoc :=
  fold_left (fun y o => apply_op o y) ops x.

(* where the i-th line (0-based) of the document goes *)
Definition op_index (o : op) (d : doc) (i : nat) : nat :=
  match o with
  | OBlankPkg k => if Nat.ltb i (pkg_at d) then i else (i + k)%nat
  | OBlankTop k => (i + k)%nat
  | OCrlf => i
  | OAppend _ => i
  end.

Fixpoint ops_index (ops : list op) (x : ldoc) (i : nat) {struct ops} : nat :=
  match ops with
  | [] => i
  | o :: r => ops_index r (apply_op o x) (op_index o (l_lines x) i)
  end.

(* the lines an operation brings in *)
Definition op_extra (o : op) : list str :=
  match o with OAppend e => e | _ => [] end.

Definition op_clean (o : op) : bool := clean_doc (op_extra o).

(* an appended block never contains a package clause (it is an unrelated rule) *)
Definition op_no_package (o : op) : bool := forallb (fun l => negb (is_package_line l)) (op_extra o).

(* two operations may be swapped unless both append (appending is order sensitive) *)
Definition commutable (o1 o2 : op) : bool :=
  match o1, o2 with
  | OAppend _, OAppend _ => false
  | _, _ => op_no_package o1 && op_no_package o2
  end.

(* raw line table of a CRLF text: every line but the last carries the CR *)
Fixpoint add_cr_but_last (d : doc) {struct d} : doc :=
  match d with
  | [] => []
  | [l] => [l]
  | l :: d' => (l ++ [CR]) :: add_cr_but_last d'
  end.

(* drop one trailing CR *)
Definition strip_cr (l : str) : str :=
  match rev l with
  | c :: r => if N.eqb c CR then rev r else l
  | [] => l
  end.

(* ---- which shifts are enumerated: the boundary shifts of a document ----
   A location string "9:3:9:4" sorts after "10:1:10:2" as text, a set of locations is iterated in term order, etc.:
   code that treats rows as text misbehaves only when two rows it relates have a different number of digits.  For a
   target row t (9, 99, 999: the last row with that many digits) the boundary shifts of a document are the amounts k
   of blank lines at the top ([OBlankTop k]) that put one of its rows on row t, hence the next row on t + 1 and every
   pair of rows (a, b), a < b, on the two sides of the boundary for k = t - a.
   [only_nonblank]: rows holding nothing but spaces / tabs carry no location and may be left out (used where
   every embedding costs a lint call of its own). *)
Definition blank_byte (c : N) : bool := N.eqb c 32 || N.eqb c 9.
Definition blank_line (l : str) : bool := forallb blank_byte l.

(* the rows (0-based, counted from i) that are selected *)
Fixpoint rows_from (only_nonblank : bool) (i : nat) (d : doc) {struct d} : list nat :=
  match d with
  | [] => []
  | l :: d' => if only_nonblank && blank_line l then rows_from only_nonblank (S i) d'
               else i :: rows_from only_nonblank (S i) d'
  end.

(* k = t - r for every selected row r (1-based: r = S i) with r <= t *)
Definition boundary_shifts (only_nonblank : bool) (t : nat) (d : doc) : list nat :=
  map (fun i => (t - S i)%nat) (filter (fun i => Nat.leb (S i) t) (rows_from only_nonblank O d)).
