(* C19 — rules needing a capability the target engine lacks are skipped, never misfire.

   Executable model of
   * bundle/regal/capabilities/capabilities.rego: has_object_keys, has_strings_count, has_if,
     has_contains, has_rego_v1_feature, is_opa_v1;
   * the `notices` rules of the bundled lint rules, as conditions over those predicates (the table of
     conditions itself is regenerated from the .rego sources into Gen/GatedRules.v);
   * bundle/regal/main/main.rego: _grouped_notices, lint.notices, and the "no notices" gate in the
     bundled-rules body of `report`;
   * pkg/linter/linter.go: notices of all files appended under the lock (lintWithRegoRules), then
     de-duplicated with slices.Contains while counting those with severity != "none" (Lint);
   * pkg/config/config.go (Config.UnmarshalYAML): capabilities.minus / capabilities.plus editing of
     the builtins map.
   Definitions only. *)
From Regal Require Export Base.Str.

(* ---------------------------------------------------------------------------------------------- *)
(* capabilities as Rego sees them (config.capabilities): names only                                *)
Record caps := mkCaps {
  cap_builtins : list str;          (* object.keys(config.capabilities.builtins) *)
  cap_future_keywords : list str;   (* config.capabilities.future_keywords        *)
  cap_features : list str }.        (* config.capabilities.features               *)

(* what a notice condition may read from the file being linted *)
Record file_info := mkFile {
  f_v0 : bool;                      (* input.regal.file.rego_version == "v0" *)
  f_stdin : bool }.                 (* input.regal.file.name == "stdin" -> config.capabilities.special has "no_filename" *)

Definition s_object_keys : str := [111;98;106;101;99;116;46;107;101;121;115].          (* object.keys   *)
Definition s_strings_count : str := [115;116;114;105;110;103;115;46;99;111;117;110;116]. (* strings.count *)
Definition s_if : str := [105;102].
Definition s_contains : str := [99;111;110;116;97;105;110;115].
Definition s_rego_v1_import : str := [114;101;103;111;95;118;49;95;105;109;112;111;114;116]. (* rego_v1_import *)
Definition s_rego_v1 : str := [114;101;103;111;95;118;49].                                   (* rego_v1 *)
Definition s_no_filename : str := [110;111;95;102;105;108;101;110;97;109;101].             (* no_filename *)
Definition s_none : str := [110;111;110;101].                                                (* none *)
Definition s_notice : str := [110;111;116;105;99;101].                                       (* notice *)

(* capabilities.rego *)
Definition has_rego_v1_feature (c : caps) : bool := str_in s_rego_v1_import (cap_features c).
Definition is_opa_v1 (c : caps) : bool := str_in s_rego_v1 (cap_features c).
Definition has_object_keys (c : caps) : bool := str_in s_object_keys (cap_builtins c).
Definition has_strings_count (c : caps) : bool := str_in s_strings_count (cap_builtins c).
Definition has_if (c : caps) : bool :=
  str_in s_if (cap_future_keywords c) || has_rego_v1_feature c || is_opa_v1 c.
Definition has_contains (c : caps) : bool :=
  str_in s_contains (cap_future_keywords c) || has_rego_v1_feature c || is_opa_v1 c.

(* ---------------------------------------------------------------------------------------------- *)
(* the condition language the `notices` rules are written in                                       *)
Inductive cap_pred := PHasObjectKeys | PHasStringsCount | PHasIf | PHasContains | PHasRegoV1Feature | PIsOpaV1.

Inductive atom :=
| ACap (p : cap_pred)         (* capabilities.<p>                                         *)
| ABuiltin (name : str)       (* "<name>" in object.keys(config.capabilities.builtins)     *)
| AFeature (name : str)       (* "<name>" in config.capabilities.features                  *)
| ASpecial (name : str)       (* "<name>" in config.capabilities.special                   *)
| AFileNotV0                  (* input.regal.file.rego_version != "v0"                     *)
| AUnknown (text : str).      (* an expression the generator does not understand           *)

(* (negated?, atom): `not a` when the flag is true *)
Definition literal := (bool * atom)%type.

Definition eval_pred (p : cap_pred) (c : caps) : bool :=
  match p with
  | PHasObjectKeys => has_object_keys c
  | PHasStringsCount => has_strings_count c
  | PHasIf => has_if c
  | PHasContains => has_contains c
  | PHasRegoV1Feature => has_rego_v1_feature c
  | PIsOpaV1 => is_opa_v1 c
  end.

(* capabilities.rego as written: one `<predicate> if <condition>` rule per row (regenerated from the source into
   Gen/GatedRules.v [cap_pred_rules]; the obligation is that it is [pred_rules_spec], whose meaning is [eval_pred]) *)
Inductive pred_clause :=
| CKeyword (name : str)       (* "<name>" in config.capabilities.future_keywords           *)
| CFeature (name : str)       (* "<name>" in config.capabilities.features                  *)
| CBuiltin (name : str)       (* "<name>" in object.keys(config.capabilities.builtins)     *)
| CPred (p : cap_pred)        (* another predicate of the package                           *)
| CUnknown (text : str).      (* a condition the generator does not understand              *)

Definition eval_clause (c : caps) (cl : pred_clause) : bool :=
  match cl with
  | CKeyword n => str_in n (cap_future_keywords c)
  | CFeature n => str_in n (cap_features c)
  | CBuiltin n => str_in n (cap_builtins c)
  | CPred p => eval_pred p c
  | CUnknown _ => false
  end.

Definition cap_pred_eqb (p q : cap_pred) : bool :=
  match p, q with
  | PHasObjectKeys, PHasObjectKeys | PHasStringsCount, PHasStringsCount | PHasIf, PHasIf
  | PHasContains, PHasContains | PHasRegoV1Feature, PHasRegoV1Feature | PIsOpaV1, PIsOpaV1 => true
  | _, _ => false
  end.

(* a predicate holds when one of its rules does *)
Definition pred_by_rules (rules : list (cap_pred * pred_clause)) (p : cap_pred) (c : caps) : bool :=
  existsb (fun pc => cap_pred_eqb (fst pc) p && eval_clause c (snd pc)) rules.

Definition pred_rules_spec : list (cap_pred * pred_clause) :=
  [ (PHasObjectKeys, CBuiltin s_object_keys);
    (PHasStringsCount, CBuiltin s_strings_count);
    (PHasIf, CKeyword s_if); (PHasIf, CPred PHasRegoV1Feature); (PHasIf, CPred PIsOpaV1);
    (PHasContains, CKeyword s_contains); (PHasContains, CPred PHasRegoV1Feature); (PHasContains, CPred PIsOpaV1);
    (PHasRegoV1Feature, CFeature s_rego_v1_import);
    (PIsOpaV1, CFeature s_rego_v1) ].

Definition clause_eqb (a b : pred_clause) : bool :=
  match a, b with
  | CKeyword x, CKeyword y | CFeature x, CFeature y | CBuiltin x, CBuiltin y => str_eqb x y
  | CPred p, CPred q => cap_pred_eqb p q
  | _, _ => false
  end.

Fixpoint pred_rules_eqb (a b : list (cap_pred * pred_clause)) : bool :=
  match a, b with
  | [], [] => true
  | (p, x) :: a', (q, y) :: b' => cap_pred_eqb p q && clause_eqb x y && pred_rules_eqb a' b'
  | _, _ => false
  end.

Definition eval_atom (c : caps) (f : file_info) (a : atom) : bool :=
  match a with
  | ACap p => eval_pred p c
  | ABuiltin n => str_in n (cap_builtins c)
  | AFeature n => str_in n (cap_features c)
  | ASpecial n => str_eqb n s_no_filename && f_stdin f
  | AFileNotV0 => negb (f_v0 f)
  | AUnknown _ => false
  end.

Definition eval_literal (c : caps) (f : file_info) (l : literal) : bool :=
  if fst l then negb (eval_atom c f (snd l)) else eval_atom c f (snd l).

Definition eval_body (c : caps) (f : file_info) (body : list literal) : bool :=
  forallb (eval_literal c f) body.

(* one `notices contains result.notice(rego.metadata.chain()) if <body>` rule *)
Record gate_row := mkRow {
  g_cat : str;  g_title : str;
  g_description : str;       (* METADATA description of the notices rule *)
  g_severity : str;          (* METADATA custom.severity                 *)
  g_body : list literal }.

(* report.Notice (all five fields take part in Go's == used by slices.Contains) *)
Record notice := mkNotice {
  n_title : str;  n_description : str;  n_category : str;  n_level : str;  n_severity : str }.

Definition notice_eqb (a b : notice) : bool :=
  str_eqb (n_title a) (n_title b) && str_eqb (n_description a) (n_description b)
  && str_eqb (n_category a) (n_category b) && str_eqb (n_level a) (n_level b)
  && str_eqb (n_severity a) (n_severity b).

(* result.notice(metadata) *)
Definition notice_of_row (r : gate_row) : notice :=
  mkNotice (g_title r) (g_description r) (g_cat r) s_notice (g_severity r).

Definition rule_id := (str * str)%type.          (* (category, title) *)

Definition rule_eqb (a b : rule_id) : bool := str_eqb (fst a) (fst b) && str_eqb (snd a) (snd b).

(* data.regal.rules[c][t].notices for a file: the notices of the rows of that rule whose body holds *)
Definition table_notices (table : list gate_row) (c : caps) (r : rule_id) (f : file_info) : list notice :=
  map notice_of_row
      (filter (fun row => rule_eqb (g_cat row, g_title row) r && eval_body c f (g_body row)) table).

(* ---------------------------------------------------------------------------------------------- *)
(* main.rego for one file and linter.go for all files.  Rule bodies are oracles:
   [notices_of r f] = data.regal.rules[c][t].notices, [report_of r f] = data.regal.rules[c][t].report
   (violations, an abstract type), [custom_report_of r f] = data.custom.regal.rules[c][t].report. *)
Section Pipeline.
  Variables F V : Type.
  Variable notices_of : rule_id -> F -> list notice.
  Variable report_of : rule_id -> F -> list V.
  Variable custom_report_of : rule_id -> F -> list V.

  Fixpoint notice_in (n : notice) (l : list notice) : bool :=
    match l with [] => false | x :: l' => notice_eqb n x || notice_in n l' end.

  (* a Rego set: no duplicates *)
  Fixpoint dedup (l : list notice) : list notice :=
    match l with
    | [] => []
    | x :: l' => if notice_in x l' then dedup l' else x :: dedup l'
    end.

  (* lint.notices := _notices = union of _grouped_notices[category][title] over _rules_to_run *)
  Definition file_notices (to_run : list rule_id) (f : F) : list notice :=
    dedup (flat_map (fun r => notices_of r f) to_run).

  (* report: bundled rules in _rules_to_run with count(_grouped_notices[c][t]) == 0, then custom rules
     (which have no notices and no gate) *)
  Definition file_violations (to_run custom_to_run : list rule_id) (f : F) : list (rule_id * V) :=
    flat_map (fun r => match notices_of r f with
                       | [] => map (pair r) (report_of r f)
                       | _ :: _ => []
                       end) to_run
    ++ flat_map (fun r => map (pair r) (custom_report_of r f)) custom_to_run.

  (* lintWithRegoRules: results appended in the order the per-file goroutines take the lock *)
  Definition rego_notices (to_run : list rule_id) (completion_order : list F) : list notice :=
    flat_map (file_notices to_run) completion_order.

  Definition rego_violations (to_run custom_to_run : list rule_id) (completion_order : list F)
    : list (F * (rule_id * V)) :=
    flat_map (fun f => map (pair f) (file_violations to_run custom_to_run f)) completion_order.

  (* Lint: for _, notice := range regoReport.Notices { if !slices.Contains(final, notice) { append; if
     notice.Severity != "none" { counter++ } } } *)
  Fixpoint final_notices_from (final : list notice) (counter : nat) (l : list notice) : list notice * nat :=
    match l with
    | [] => (final, counter)
    | n :: l' =>
        if notice_in n final then final_notices_from final counter l'
        else final_notices_from (final ++ [n])
                                (if str_eqb (n_severity n) s_none then counter else S counter) l'
    end.

  Definition lint_notices (to_run : list rule_id) (order : list F) : list notice :=
    fst (final_notices_from [] O (rego_notices to_run order)).

  Definition rules_skipped (to_run : list rule_id) (order : list F) : nat :=
    snd (final_notices_from [] O (rego_notices to_run order)).

  Definition counted (n : notice) : bool := negb (str_eqb (n_severity n) s_none).
End Pipeline.

(* ---------------------------------------------------------------------------------------------- *)
(* Config.UnmarshalYAML: capabilities.minus.builtins are deleted from the builtins map, then
   capabilities.plus.builtins are set.  A map is an association list here (first binding counts). *)
Section PlusMinus.
  Variable D : Type.                                   (* a builtin's declaration *)

  Fixpoint b_lookup (k : str) (m : list (str * D)) : option D :=
    match m with
    | [] => None
    | (k', d) :: m' => if str_eqb k k' then Some d else b_lookup k m'
    end.

  (* delete(m, k): every binding of k goes *)
  Definition b_delete (k : str) (m : list (str * D)) : list (str * D) :=
    filter (fun kd => negb (str_eqb k (fst kd))) m.

  (* m[k] = d *)
  Definition b_set (k : str) (d : D) (m : list (str * D)) : list (str * D) := (k, d) :: b_delete k m.

  Definition apply_minus (minus : list str) (m : list (str * D)) : list (str * D) :=
    fold_left (fun acc k => b_delete k acc) minus m.

  Definition apply_plus (plus : list (str * D)) (m : list (str * D)) : list (str * D) :=
    fold_left (fun acc kd => b_set (fst kd) (snd kd) acc) plus m.

  Definition edit_builtins (base : list (str * D)) (minus : list str) (plus : list (str * D)) :=
    apply_plus plus (apply_minus minus base).

  (* the last declaration given for k in the plus list *)
  Fixpoint last_plus (k : str) (plus : list (str * D)) : option D :=
    match plus with
    | [] => None
    | (k', d) :: plus' =>
        match last_plus k plus' with
        | Some d' => Some d'
        | None => if str_eqb k k' then Some d else None
        end
    end.
End PlusMinus.

(* ---------------------------------------------------------------------------------------------- *)
(* Specification: what each gated rule needs from the target, written from the rule documentation
   (the pages under docs/rules) independently of the .rego conditions.  A rule is skipped, with a notice of the
   given severity, exactly when its need is not met. *)
Inductive need :=
| NeedBuiltin (name : str)         (* the advice is to call this built-in function / the rule inspects calls of it *)
| NeedKeywordIf                    (* the advice / the construct uses `if`                                          *)
| NeedKeywordContains
| NeedRegoV1Import                 (* the advice is `import rego.v1`                                                *)
| ObsoleteWithFeature (name : str) (* the rule is pointless once the target has this feature                        *)
| OnlyV0WhenTargetIsV1             (* OPA 1.0 target: only meaningful in files still written in Rego v0             *)
| NeedFileName.                    (* needs the path of the file (not available when linting stdin)                 *)

(* does the notice fire, i.e. is the need NOT met *)
Definition need_unmet (n : need) (c : caps) (f : file_info) : bool :=
  match n with
  | NeedBuiltin b => negb (str_in b (cap_builtins c))
  | NeedKeywordIf => negb (str_in s_if (cap_future_keywords c) || str_in s_rego_v1_import (cap_features c)
                           || str_in s_rego_v1 (cap_features c))
  | NeedKeywordContains => negb (str_in s_contains (cap_future_keywords c) || str_in s_rego_v1_import (cap_features c)
                                 || str_in s_rego_v1 (cap_features c))
  | NeedRegoV1Import => negb (str_in s_rego_v1_import (cap_features c)) && negb (str_in s_rego_v1 (cap_features c))
  | ObsoleteWithFeature ft => str_in ft (cap_features c)
  | OnlyV0WhenTargetIsV1 => str_in s_rego_v1 (cap_features c) && negb (f_v0 f)
  | NeedFileName => f_stdin f
  end.

Record need_row := mkNeed { nd_cat : str; nd_title : str; nd_severity : str; nd_need : need }.

(* the condition a need translates to, in the vocabulary of the .rego sources *)
Definition body_of_need (n : need) : list literal :=
  match n with
  | NeedBuiltin b =>
      if str_eqb b s_object_keys then [(true, ACap PHasObjectKeys)]
      else if str_eqb b s_strings_count then [(true, ACap PHasStringsCount)]
      else [(true, ABuiltin b)]
  | NeedKeywordIf => [(true, ACap PHasIf)]
  | NeedKeywordContains => [(true, ACap PHasContains)]
  | NeedRegoV1Import => [(true, ACap PHasRegoV1Feature); (true, ACap PIsOpaV1)]
  | ObsoleteWithFeature ft => [(false, AFeature ft)]
  | OnlyV0WhenTargetIsV1 => [(false, ACap PIsOpaV1); (false, AFileNotV0)]
  | NeedFileName => [(false, ASpecial s_no_filename)]
  end.

Definition s_sprintf : str := [115;112;114;105;110;116;102].
Definition s_warning_sev : str := [119;97;114;110;105;110;103].   (* warning *)
Definition s_warn_sev : str := [119;97;114;110].                  (* warn    *)

Definition rid (cat title : list N) : rule_id := (cat, title).

(* category / title / severity / need, one row per notices rule of the bundle *)
Definition needs_table : list need_row :=
  let bugs := [98;117;103;115] in let custom := [99;117;115;116;111;109] in
  let idiomatic := [105;100;105;111;109;97;116;105;99] in let imports := [105;109;112;111;114;116;115] in
  let testing := [116;101;115;116;105;110;103] in
  [ mkNeed bugs [100;101;112;114;101;99;97;116;101;100;45;98;117;105;108;116;105;110] s_none OnlyV0WhenTargetIsV1;            (* deprecated-builtin *)
    mkNeed bugs [105;102;45;101;109;112;116;121;45;111;98;106;101;99;116] s_warning_sev NeedKeywordIf;                          (* if-empty-object *)
    mkNeed bugs [105;102;45;111;98;106;101;99;116;45;108;105;116;101;114;97;108] s_warning_sev NeedKeywordIf;                  (* if-object-literal *)
    mkNeed bugs [114;117;108;101;45;110;97;109;101;100;45;105;102] s_none OnlyV0WhenTargetIsV1;                                 (* rule-named-if *)
    mkNeed bugs [115;112;114;105;110;116;102;45;97;114;103;117;109;101;110;116;115;45;109;105;115;109;97;116;99;104] s_none (NeedBuiltin s_sprintf); (* sprintf-arguments-mismatch *)
    mkNeed custom [111;110;101;45;108;105;110;101;114;45;114;117;108;101] s_warning_sev NeedKeywordIf;                          (* one-liner-rule *)
    mkNeed idiomatic [99;117;115;116;111;109;45;104;97;115;45;107;101;121;45;99;111;110;115;116;114;117;99;116] s_warning_sev (NeedBuiltin s_object_keys); (* custom-has-key-construct *)
    mkNeed idiomatic [100;105;114;101;99;116;111;114;121;45;112;97;99;107;97;103;101;45;109;105;115;109;97;116;99;104] s_warn_sev NeedFileName; (* directory-package-mismatch *)
    mkNeed idiomatic [117;115;101;45;99;111;110;116;97;105;110;115] s_warning_sev NeedKeywordContains;                        (* use-contains *)
    mkNeed idiomatic [117;115;101;45;99;111;110;116;97;105;110;115] s_none OnlyV0WhenTargetIsV1;
    mkNeed idiomatic [117;115;101;45;105;102] s_warning_sev NeedKeywordIf;                                                      (* use-if *)
    mkNeed idiomatic [117;115;101;45;105;102] s_none OnlyV0WhenTargetIsV1;
    mkNeed idiomatic [117;115;101;45;115;116;114;105;110;103;115;45;99;111;117;110;116] s_warning_sev (NeedBuiltin s_strings_count); (* use-strings-count *)
    mkNeed imports [105;109;112;108;105;99;105;116;45;102;117;116;117;114;101;45;107;101;121;119;111;114;100;115] s_none (ObsoleteWithFeature s_rego_v1_import); (* implicit-future-keywords *)
    mkNeed imports [105;109;112;111;114;116;45;115;104;97;100;111;119;115;45;105;109;112;111;114;116] s_none OnlyV0WhenTargetIsV1; (* import-shadows-import *)
    mkNeed imports [117;115;101;45;114;101;103;111;45;118;49] s_warning_sev NeedRegoV1Import;                                   (* use-rego-v1 *)
    mkNeed imports [117;115;101;45;114;101;103;111;45;118;49] s_none OnlyV0WhenTargetIsV1;
    mkNeed testing [102;105;108;101;45;109;105;115;115;105;110;103;45;116;101;115;116;45;115;117;102;102;105;120] s_warn_sev NeedFileName ]. (* file-missing-test-suffix *)

(* syntactic agreement of the regenerated table with the needs: same rules, severities and conditions,
   row by row *)
Definition atom_eqb (a b : atom) : bool :=
  match a, b with
  | ACap p, ACap q => match p, q with
                      | PHasObjectKeys, PHasObjectKeys | PHasStringsCount, PHasStringsCount | PHasIf, PHasIf
                      | PHasContains, PHasContains | PHasRegoV1Feature, PHasRegoV1Feature | PIsOpaV1, PIsOpaV1 => true
                      | _, _ => false
                      end
  | ABuiltin x, ABuiltin y | AFeature x, AFeature y | ASpecial x, ASpecial y => str_eqb x y
  | AFileNotV0, AFileNotV0 => true
  | _, _ => false
  end.

Fixpoint body_eqb (a b : list literal) : bool :=
  match a, b with
  | [], [] => true
  | (n, x) :: a', (m, y) :: b' => Bool.eqb n m && atom_eqb x y && body_eqb a' b'
  | _, _ => false
  end.

Definition row_matches (g : gate_row) (n : need_row) : bool :=
  str_eqb (g_cat g) (nd_cat n) && str_eqb (g_title g) (nd_title n) && str_eqb (g_severity g) (nd_severity n)
  && body_eqb (g_body g) (body_of_need (nd_need n)).

Fixpoint table_matches (gs : list gate_row) (ns : list need_row) : bool :=
  match gs, ns with
  | [], [] => true
  | g :: gs', n :: ns' => row_matches g n && table_matches gs' ns'
  | _, _ => false
  end.

(* ---------------------------------------------------------------------------------------------- *)
(* Capability dimensions: what a need reads from the target.  The generated capabilities files of the
   check (tools/props/c19.py) vary every dimension some need reads, independently, over all subsets;
   [need_unmet] depends on nothing else of the target (Proofs/Notices.v need_unmet_reads_only). *)
Inductive dim :=
| DBuiltin (name : str)       (* a built-in function is declared      *)
| DKeyword (name : str)       (* an entry of future_keywords           *)
| DFeature (name : str).      (* an entry of features                  *)

Definition dim_on (d : dim) (c : caps) : bool :=
  match d with
  | DBuiltin n => str_in n (cap_builtins c)
  | DKeyword n => str_in n (cap_future_keywords c)
  | DFeature n => str_in n (cap_features c)
  end.

Definition need_reads (n : need) : list dim :=
  match n with
  | NeedBuiltin b => [DBuiltin b]
  | NeedKeywordIf => [DKeyword s_if; DFeature s_rego_v1_import; DFeature s_rego_v1]
  | NeedKeywordContains => [DKeyword s_contains; DFeature s_rego_v1_import; DFeature s_rego_v1]
  | NeedRegoV1Import => [DFeature s_rego_v1_import; DFeature s_rego_v1]
  | ObsoleteWithFeature ft => [DFeature ft]
  | OnlyV0WhenTargetIsV1 => [DFeature s_rego_v1]
  | NeedFileName => []
  end.

Definition dim_eqb (a b : dim) : bool :=
  match a, b with
  | DBuiltin x, DBuiltin y | DKeyword x, DKeyword y | DFeature x, DFeature y => str_eqb x y
  | _, _ => false
  end.

Fixpoint dim_in (d : dim) (l : list dim) : bool :=
  match l with [] => false | x :: l' => dim_eqb d x || dim_in d l' end.

Fixpoint dims_dedup (l : list dim) : list dim :=
  match l with
  | [] => []
  | x :: l' => if dim_in x l' then dims_dedup l' else x :: dims_dedup l'
  end.

(* the dimensions any need of a table reads *)
Definition table_dims (t : list need_row) : list dim :=
  dims_dedup (flat_map (fun r => need_reads (nd_need r)) t).

(* all assignments of on / off to a list of dimensions *)
Fixpoint assignments (ds : list dim) : list (list (dim * bool)) :=
  match ds with
  | [] => [[]]
  | d :: ds' => flat_map (fun a => [(d, true) :: a; (d, false) :: a]) (assignments ds')
  end.

Definition realises (c : caps) (a : list (dim * bool)) : bool :=
  forallb (fun db => Bool.eqb (dim_on (fst db) c) (snd db)) a.

(* every assignment of the dimensions the needs read is realised by one of the targets *)
Definition dims_covered (t : list need_row) (targets : list caps) : bool :=
  forallb (fun a => existsb (fun c => realises c a) targets) (assignments (table_dims t)).

(* ---------------------------------------------------------------------------------------------- *)
(* The configuration pipeline: how the capabilities of the user's configuration reach evaluation   *)
(*   pkg/linter/linter.go   GetConfig, userConfigWithCustomRules, createDataBundle                 *)
(*   pkg/config/bundle.go   LoadConfigWithDefaultsFromBundle                                       *)
(*   bundle/regal/config/config.rego   merged_config := data.internal.combined_config,            *)
(*                                     capabilities := object.union(merged_config.capabilities, _) *)
(* Everything but the capabilities is abstract: R = the rules section, O = every other section     *)
(* (defaults, ignore, project, features, capabilities URL), X = the linter options that do not go  *)
(* through the configuration at all (disable/enable lists and flags -> data.eval.params, path      *)
(* prefix -> data.internal.path_prefix, where the input comes from, debug mode, ...).              *)
Section ConfigPipeline.
  Variable R O X : Type.
  (* regal's own capabilities (config.CapabilitiesForThisVersion) and the provided configuration *)
  Variable this_version : caps.
  Variable provided_rules : R.
  Variable provided_other : O.
  (* mergo.Merge + restoreProvidedRuleOptions + extractUserRuleLevels on the sections this property does not read *)
  Variable merge_rules : R -> R -> R.
  Variable merge_other : O -> O -> O.
  (* userConfigWithCustomRules: an entry for every custom rule that has none *)
  Variable add_custom_rules : R -> list rule_id -> R.

  (* config.Config as the user provides it; Capabilities is a pointer: None = nil (a file loaded with
     Config.UnmarshalYAML always has one, a Config built in Go may not) *)
  Record uconfig := mkUC { uc_rules : R; uc_other : O; uc_caps : option caps }.

  Record lopts := mkOpts {
    lo_user : option uconfig;       (* WithUserConfig; None = never called                           *)
    lo_custom : list rule_id;       (* the custom rule modules loaded (WithCustomRules[FromFS])      *)
    lo_rest : X }.

  (* conf := *l.userConfig; conf.Rules = copy + custom rules.  Unchanged without user config or custom rules *)
  Definition user_config_with_custom_rules (o : lopts) : option uconfig :=
    match lo_user o with
    | None => None
    | Some u =>
        match lo_custom o with
        | [] => Some u
        | cs => Some (mkUC (add_custom_rules (uc_rules u) cs) (uc_other u) (uc_caps u))
        end
    end.

  (* the variant of seed C19-4: a struct literal naming Rules, Defaults, Ignore, Project, Features *)
  Definition user_config_with_custom_rules_by_field (o : lopts) : option uconfig :=
    match lo_user o with
    | None => None
    | Some u =>
        match lo_custom o with
        | [] => Some u
        | cs => Some (mkUC (add_custom_rules (uc_rules u) cs) (uc_other u) None)
        end
    end.

  Record mconfig := mkMC { mc_rules : R; mc_other : O; mc_caps : caps }.

  (* LoadConfigWithDefaultsFromBundle: the provided configuration has no capabilities of its own *)
  Definition load_with_defaults (u : option uconfig) : mconfig :=
    match u with
    | None => mkMC provided_rules provided_other this_version
    | Some u =>
        mkMC (merge_rules provided_rules (uc_rules u)) (merge_other provided_other (uc_other u))
             (match uc_caps u with Some c => c | None => this_version end)
    end.

  Definition get_config_with (wcr : lopts -> option uconfig) (o : lopts) : mconfig := load_with_defaults (wcr o).
  Definition get_config := get_config_with user_config_with_custom_rules.

  (* createDataBundle: what evaluation is handed *)
  Record eval_data := mkED { ed_combined_config : mconfig; ed_elsewhere : X }.
  Definition data_bundle_with (wcr : lopts -> option uconfig) (o : lopts) : eval_data :=
    mkED (get_config_with wcr o) (lo_rest o).
  Definition data_bundle := data_bundle_with user_config_with_custom_rules.

  (* config.capabilities on the Rego side, without the "special" key computed from the input *)
  Definition rego_capabilities (d : eval_data) : caps := mc_caps (ed_combined_config d).

  (* the target the user configured *)
  Definition configured_target (u : option uconfig) : caps :=
    match u with
    | Some u' => match uc_caps u' with Some c => c | None => this_version end
    | None => this_version
    end.
End ConfigPipeline.
