(* C15 — two shapes of internal/lsp that the job-atomic model relies on and that a real interleaving would be needed
   to observe otherwise; both are regenerated from the source (harness/cmd/lspshape, go/ast -> Gen/LspShape.v) and
   compared on every run.

   1. Cache writes after the linter call (internal/lsp/lint.go).  linter.Lint is the slow step of a lint job; a
      didDeleteFiles / didRenameFiles handled meanwhile removes the URI from the cache.  A write for that URI after
      the lint must therefore be dominated by a test that the URI is STILL a file of the cache: in the code this is
      the loop `for uri := range cache.GetAllFiles()` read after the lint ("range-post").  Writes that are not:
      listed in [lint_writes_unprotected], each tied to what it can do.
   2. The rate limiter of the workspace-lint dispatcher (internal/lsp/server.go, StartDiagnosticsWorker): the
      condition of the branch that drops a job instead of forwarding it to workspaceLintRuns, as a function of the
      kind of job and the length of the queue.  The model (Model.Lsp.dispatch) drops exactly aggregate-report-only
      jobs when more than 5 runs are queued. *)
From Coq Require Import List NArith Bool String.
From Regal Require Import Base.Str Base.StrLit Model.Lsp.
Import ListNotations.

(* (function, cache method, key argument, how the key is known to be present) *)
Definition lint_cache_writes_modelled : list (str * str * str * str) := [
  (lit "updateFileDiagnostics", lit "SetFileDiagnosticsForRules", lit "uri", lit "range-post");
  (lit "updateFileDiagnostics", lit "SetFileAggregates", lit "fileURI", lit "none");
  (lit "updateFileDiagnostics", lit "SetFileIgnoreDirectives", lit "fileURI", lit "none");
  (lit "updateAllDiagnostics", lit "SetFileDiagnosticsForRules", lit "uri", lit "range-pre");
  (lit "updateAllDiagnostics", lit "SetFileDiagnostics", lit "uri", lit "range-pre");
  (lit "updateAllDiagnostics", lit "SetAggregates", lit "", lit "whole");
  (lit "updateAllDiagnostics", lit "SetIgnoreDirectives", lit "", lit "whole")
].

(* Writes for a URI that may be gone by then.
   updateFileDiagnostics / SetFileAggregates, SetFileIgnoreDirectives: the OPEN finding "delete racing a lint job
   resurrects the aggregates of the deleted URI" (known_findings.d/C15.json, Model.Lsp.run_racy, converges_fine_refuted).
   updateAllDiagnostics / SetFileDiagnostics(ForRules): the snapshot of GetAllFiles is taken before the lint, so the
   diagnostics of a URI deleted during a workspace run are stored again; they are never published (the worker
   publishes for cache.GetAllFiles() read afterwards) and the delete has queued another run. *)
Definition lint_writes_unprotected : list (str * str) := [
  (lit "updateFileDiagnostics", lit "SetFileAggregates");
  (lit "updateFileDiagnostics", lit "SetFileIgnoreDirectives");
  (lit "updateAllDiagnostics", lit "SetFileDiagnosticsForRules");
  (lit "updateAllDiagnostics", lit "SetFileDiagnostics")
].

Definition lint_write_ok (w : str * str * str * str) : bool :=
  match w with
  | (fn, meth, _, g) =>
      str_eqb g (lit "range-post") || str_eqb g (lit "whole")
      || existsb (fun x => str_eqb (fst x) fn && str_eqb (snd x) meth) lint_writes_unprotected
  end.

(* the diagnostics of ONE file, stored by the file-lint job, are protected (this is what keeps "no diagnostic of a
   deleted or renamed-away file survives" true under the delete race, in contrast to its aggregates) *)
Definition file_diagnostics_write_protected (l : list (str * str * str * str)) : bool :=
  existsb (fun w => match w with (fn, meth, _, g) =>
     str_eqb fn (lit "updateFileDiagnostics") && str_eqb meth (lit "SetFileDiagnosticsForRules") && str_eqb g (lit "range-post") end) l
  && forallb (fun w => match w with (fn, meth, _, g) =>
     negb (str_eqb fn (lit "updateFileDiagnostics") && has_prefix meth (lit "SetFileDiagnostics")) || str_eqb g (lit "range-post") end) l.

(* ---- rate limiter ---- *)
(* the model's condition (Model.Lsp.dispatch): drop iff aggregate-report-only and more than 5 runs queued *)
Definition limiter_model (aggonly overwrite : bool) (qlen : nat) : bool := aggonly && Nat.ltb 5 qlen.

(* the dispatcher with an arbitrary limiter *)
Definition dispatch_with (lim : bool -> bool -> nat -> bool) (s : state) : option state :=
  match qw s with
  | [] => None
  | j :: q =>
      let s0 := set_qw s q in
      if lim (w_aggonly j) (w_overwrite j) (length (qr s)) then Some s0 else Some (set_qr s0 (qr s0 ++ [j]))
  end.

(* all (kind of job, queue length) combinations that can occur with a queue of the given capacity *)
Definition limiter_domain (cap : nat) : list (bool * bool * nat) :=
  flat_map (fun n => [(true, true, n); (true, false, n); (false, true, n); (false, false, n)]) (seq 0 (S cap)).
