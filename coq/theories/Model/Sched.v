(* C01 — the concurrent aggregation layer of pkg/linter (lintWithRegoRules, Lint) and of
   pkg/rules (InputFromPaths, NewInput) as a worker transition system.

   One worker per file.  A worker runs the abstract program obtained from the goroutine body
   (Model/Shape.v; regenerated from /repo into Gen/LinterShape.v).  A shared write is NOT atomic:
   it loads the shared state, and stores the updated location in a later step, so that an
   unguarded write can lose an update exactly as the Go code would.  There is one global lock.
   A schedule is the list of worker ids in the order in which they take steps.

   Rule bodies, the OPA evaluator and the aggregate phase are oracles (function arguments);
   everything lintWithRegoRules/Lint do with their results is explicit.  Definitions only. *)
From Coq Require Import Permutation.
From Regal Require Export Base.Str Model.Shape.

(* ============================================================================================ *)
(* 1. generic worker transition system                                                            *)
Section LTS.
  Variable L St R : Type.
  Variable upd : L -> R -> St -> St.      (* the worker's update of location l, computed from state *)
  Variable put : L -> St -> St -> St.      (* put l src dst: dst with location l taken from src *)

  Record wstate := { w_prog : list (stmt L); w_tmp : option St }.

  Record state := {
    sh : St;                             (* the shared state *)
    lk : option nat;                    (* the mutex: who holds it *)
    acq : list nat;                     (* ghost: order of lock acquisitions so far *)
    ws : nat -> wstate }.

  Definition set_w (f : nat -> wstate) (i : nat) (w : wstate) : nat -> wstate :=
    fun j => if Nat.eqb j i then w else f j.

  Definition init (prog : list (stmt L)) (s0 : St) : state :=
    {| sh := s0; lk := None; acq := []; ws := fun _ => {| w_prog := prog; w_tmp := None |} |}.

  (* one step of worker i (< n); None when the worker is finished or blocked *)
  Definition step (n : nat) (res : nat -> R) (s : state) (i : nat) : option state :=
    if negb (Nat.ltb i n) then None else
    let w := ws s i in
    match w_prog w with
    | [] => None
    | SLocal :: p | SRead _ :: p =>
        Some {| sh := sh s; lk := lk s; acq := acq s;
                ws := set_w (ws s) i {| w_prog := p; w_tmp := w_tmp w |} |}
    | SLock :: p =>
        match lk s with
        | None => Some {| sh := sh s; lk := Some i; acq := acq s ++ [i];
                          ws := set_w (ws s) i {| w_prog := p; w_tmp := w_tmp w |} |}
        | Some _ => None
        end
    | SUnlock :: p =>
        match lk s with
        | Some j => if Nat.eqb j i
                    then Some {| sh := sh s; lk := None; acq := acq s;
                                 ws := set_w (ws s) i {| w_prog := p; w_tmp := w_tmp w |} |}
                    else None
        | None => None
        end
    | SWrite l :: p =>
        match w_tmp w with
        | None =>                        (* load *)
            Some {| sh := sh s; lk := lk s; acq := acq s;
                    ws := set_w (ws s) i {| w_prog := SWrite l :: p; w_tmp := Some (sh s) |} |}
        | Some t =>                      (* store what was computed from the loaded value *)
            Some {| sh := put l (upd l (res i) t) (sh s); lk := lk s; acq := acq s;
                    ws := set_w (ws s) i {| w_prog := p; w_tmp := None |} |}
        end
    end.

  Fixpoint run (n : nat) (res : nat -> R) (s : state) (sched : list nat) : option state :=
    match sched with
    | [] => Some s
    | i :: sched' => match step n res s i with
                     | Some s' => run n res s' sched'
                     | None => None
                     end
    end.

  Definition finished (n : nat) (s : state) : Prop := forall i, (i < n)%nat -> w_prog (ws s i) = [].

  Fixpoint finishedb (n : nat) (s : state) : bool :=
    match n with
    | O => true
    | S m => match w_prog (ws s m) with [] => finishedb m s | _ => false end
    end.

  (* a complete execution of n workers under schedule sched *)
  Definition complete (prog : list (stmt L)) (n : nat) (res : nat -> R) (s0 : St)
             (sched : list nat) (s' : state) : Prop :=
    run n res (init prog s0) sched = Some s' /\ finished n s'.

  (* what one worker does to the shared state when nobody interferes: the updates of its
     critical section in program order *)
  Fixpoint rest_merge (p : list (stmt L)) (r : R) (s : St) : St :=
    match p with
    | [] => s
    | SUnlock :: _ => s
    | SWrite l :: p' => rest_merge p' r (upd l r s)
    | _ :: p' => rest_merge p' r s
    end.

  Definition merge_of (prog : list (stmt L)) (s : St) (r : R) : St := rest_merge (after_lock prog) r s.
End LTS.
Arguments w_prog {L St}. Arguments w_tmp {L St}.
Arguments sh {L St}. Arguments lk {L St}. Arguments acq {L St}. Arguments ws {L St}.
Arguments init {L St}. Arguments step {L St R}. Arguments run {L St R}.
Arguments finished {L St}. Arguments finishedb {L St}. Arguments complete {L St R}.
Arguments rest_merge {L St R}. Arguments merge_of {L St R}.

(* ============================================================================================ *)
(* 2. the shared report of lintWithRegoRules                                                      *)

Record viol := { v_file : str; v_key : str }.          (* Location.File + everything else *)
Record notice := { n_key : str; n_sev : str }.         (* Severity is what the counter looks at *)
Definition agg := str.                                 (* canonical entry; [] is the empty map {} *)
Definition amap := list (str * list agg).              (* rule key -> entries, as a Go map *)
Definition dmap := list (str * str).                   (* file -> its ignore directives *)

Definition viol_eqb (a b : viol) := str_eqb (v_file a) (v_file b) && str_eqb (v_key a) (v_key b).
Definition notice_eqb (a b : notice) := str_eqb (n_key a) (n_key b) && str_eqb (n_sev a) (n_sev b).

(* Go maps with string keys: lookup, and assignment m[k] = v *)
Fixpoint mget {A} (m : list (str * A)) (k : str) : option A :=
  match m with
  | [] => None
  | (k', v) :: m' => if str_eqb k k' then Some v else mget m' k
  end.

Fixpoint mset {A} (m : list (str * A)) (k : str) (v : A) : list (str * A) :=
  match m with
  | [] => [(k, v)]
  | (k', v') :: m' => if str_eqb k k' then (k, v) :: m' else (k', v') :: mset m' k v
  end.

(* what the lint query yields for one file (report.Report after the JSON round trip) *)
Record result := {
  r_viol : list viol;
  r_notices : list notice;
  r_aggs : amap;             (* in the order the Go range over the map visits the keys *)
  r_dirs : dmap }.

Record report := { V : list viol; Nn : list notice; A : amap; D : dmap }.

Definition empty_report : report := {| V := []; Nn := []; A := []; D := [] |}.

Inductive lloc := LViol | LNotice | LAggs | LDirs | LOther (name : str).

Definition lloc_eqb (a b : lloc) : bool :=
  match a, b with
  | LViol, LViol | LNotice, LNotice | LAggs, LAggs | LDirs, LDirs => true
  | LOther x, LOther y => str_eqb x y
  | _, _ => false
  end.

Definition is_marker (a : agg) : bool := match a with [] => true | _ => false end.

(* linter.go 867-875: the empty map registers the key, anything else is appended *)
Definition add_agg (k : str) (m : amap) (a : agg) : amap :=
  if is_marker a
  then match mget m k with Some _ => m | None => mset m k [] end
  else mset m k (match mget m k with Some l => l | None => [] end ++ [a]).

Definition merge_aggs (m : amap) (ra : amap) : amap :=
  fold_left (fun m kl => fold_left (add_agg (fst kl)) (snd kl) m) ra m.

Definition merge_dirs (d : dmap) (rd : dmap) : dmap :=
  fold_left (fun d kv => mset d (fst kv) (snd kv)) rd d.

Definition lupd (l : lloc) (r : result) (s : report) : report :=
  match l with
  | LViol => {| V := V s ++ r_viol r; Nn := Nn s; A := A s; D := D s |}
  | LNotice => {| V := V s; Nn := Nn s ++ r_notices r; A := A s; D := D s |}
  | LAggs => {| V := V s; Nn := Nn s; A := merge_aggs (A s) (r_aggs r); D := D s |}
  | LDirs => {| V := V s; Nn := Nn s; A := A s; D := merge_dirs (D s) (r_dirs r) |}
  | LOther _ => s                 (* profile entries etc.: not part of the modelled report *)
  end.

Definition lput (l : lloc) (src dst : report) : report :=
  match l with
  | LViol => {| V := V src; Nn := Nn dst; A := A dst; D := D dst |}
  | LNotice => {| V := V dst; Nn := Nn src; A := A dst; D := D dst |}
  | LAggs => {| V := V dst; Nn := Nn dst; A := A src; D := D dst |}
  | LDirs => {| V := V dst; Nn := Nn dst; A := A dst; D := D src |}
  | LOther _ => dst
  end.

(* linter.go 855-884 as one function: what a worker does under the mutex *)
Definition merge (s : report) (r : result) : report :=
  lupd LDirs r (lupd LAggs r (lupd LNotice r (lupd LViol r s))).

Definition classify_lint (t : str) : lloc :=
  (* "regoReport.Violations" etc.; spelled as bytes *)
  let pre := [114;101;103;111;82;101;112;111;114;116;46] in           (* regoReport. *)
  match drop_prefix t pre with
  | Some f =>
      if str_eqb f [86;105;111;108;97;116;105;111;110;115] then LViol                 (* Violations *)
      else if str_eqb f [78;111;116;105;99;101;115] then LNotice                      (* Notices *)
      else if str_eqb f [65;103;103;114;101;103;97;116;101;115] then LAggs            (* Aggregates *)
      else if str_eqb f [73;103;110;111;114;101;68;105;114;101;99;116;105;118;101;115] then LDirs
      else LOther t
  | None => LOther t
  end.

Definition is_modelled (l : lloc) : bool := match l with LOther _ => false | _ => true end.
Definition modelled_writes (p : list (stmt lloc)) : list lloc := filter is_modelled (cs_writes p).

Definition lint_prog_of (mu : str) (g : list gstmt) : list (stmt lloc) :=
  dedup_cs_writes lloc_eqb (compile_or_empty classify_lint mu g).

(* the hand-written shape of the goroutine body at the pinned commit (Gen/LinterShape.v holds
   the one extracted from the tree of the current run) *)
Definition reference_lint_prog : list (stmt lloc) :=
  [SLocal; SLocal; SLock; SWrite LViol; SWrite LNotice; SRead LAggs; SWrite LAggs; SWrite LDirs;
   SWrite (LOther []); SUnlock; SLocal].

(* ---- Lint after lintWithRegoRules: the part after regoReport is returned ------------------------------------------- *)
Record final := {
  f_viol : list viol;            (* violations of the per-file phase *)
  f_aggviol : list viol;         (* violations of the aggregate phase (IsAggregate) *)
  f_notices : list notice;
  f_scanned : nat; f_failed : nat; f_skipped : nat; f_num : nat;
  f_aggs : amap;                 (* exported aggregates *)
  f_dirs : dmap }.               (* exported ignore directives *)

Definition NONE : str := [110;111;110;101].   (* "none" *)

Definition notice_mem (x : notice) (l : list notice) : bool := existsb (notice_eqb x) l.

(* slices.Contains de-duplication + the rules_skipped counter *)
Definition dedup_step (acc : list notice * nat) (x : notice) : list notice * nat :=
  if notice_mem x (fst acc) then acc
  else (fst acc ++ [x], if str_eqb (n_sev x) NONE then snd acc else S (snd acc)).
Definition dedup_notices (ns : list notice) : list notice * nat := fold_left dedup_step ns ([], O).

Definition str_dec : forall a b : str, {a = b} + {a <> b} := list_eq_dec N.eq_dec.

(* report.ViolationsFileCount: the distinct Location.File values *)
Definition failed_files (vs : list viol) : list str := nodup str_dec (map v_file vs).

Definition is_nil {X} (l : list X) : bool := match l with [] => true | _ => false end.

Definition is_some {X} (o : option X) : bool := match o with Some _ => true | None => false end.

(* maps.Copy(dst, prior); maps.Copy(dst, current): the current run's directives win *)
Definition dirs_union (prior current : dmap) : dmap := current ++ prior.

(* [overridden]: WithAggregates (None = not provided); [prior]: WithIgnoreDirectives *)
Definition finalize (aggreport : amap -> dmap -> list viol) (overridden : option amap) (prior : dmap)
           (nfiles : nat) (s : report) : final :=
  let dn := dedup_notices (Nn s) in
  let own := if Nat.ltb 1 nfiles then A s else [] in
  let all := match overridden with
             | Some o => if is_nil o then own else o
             | None => own
             end in
  (* the aggregate phase also runs when nothing was aggregated, as soon as more than one file was
     linted or previously collected aggregates were provided *)
  let av := if negb (is_nil all) || is_some overridden || Nat.ltb 1 nfiles
            then aggreport all (dirs_union prior (D s)) else [] in
  {| f_viol := V s; f_aggviol := av; f_notices := fst dn;
     f_scanned := nfiles; f_failed := length (failed_files (V s ++ av)); f_skipped := snd dn;
     f_num := length (V s ++ av); f_aggs := A s; f_dirs := D s |}.

(* the sequential reading: files merged in list order *)
Definition lint_seq (aggreport : amap -> dmap -> list viol) (overridden : option amap) (prior : dmap)
           (results : list result) : final :=
  finalize aggreport overridden prior (length results) (fold_left merge results empty_report).

(* operationCollect: more than one file, or the collect query forced *)
Definition collect_flag (force : bool) (nfiles : nat) : bool := Nat.ltb 1 nfiles || force.

(* ---- equivalences between reports ---------------------------------------------------------- *)
Definition aggs_equiv (a b : amap) : Prop :=
  forall k, match mget a k, mget b k with
            | Some l1, Some l2 => Permutation l1 l2
            | None, None => True
            | _, _ => False
            end.

Definition dirs_equiv (a b : dmap) : Prop := forall k, mget a k = mget b k.

Definition report_equiv (x y : final) : Prop :=
  Permutation (f_viol x) (f_viol y) /\ Permutation (f_aggviol x) (f_aggviol y) /\
  Permutation (f_notices x) (f_notices y) /\
  f_scanned x = f_scanned y /\ f_failed x = f_failed y /\ f_skipped x = f_skipped y /\
  f_num x = f_num y /\ aggs_equiv (f_aggs x) (f_aggs y) /\ dirs_equiv (f_dirs x) (f_dirs y).

(* all directive keys of a run, in result order *)
Definition dir_keys (rs : list result) : list str := flat_map (fun r => map fst (r_dirs r)) rs.

(* ============================================================================================ *)
(* 3. InputFromPaths / NewInput                                                                   *)

(* lexicographic byte order = Go's string order *)
Fixpoint str_ltb (a b : str) : bool :=
  match a, b with
  | _, [] => false
  | [], _ :: _ => true
  | x :: a', y :: b' => N.ltb x y || (N.eqb x y && str_ltb a' b')
  end.
Definition str_leb (a b : str) : bool := negb (str_ltb b a).

Fixpoint insert_sorted (x : str) (l : list str) : list str :=
  match l with
  | [] => [x]
  | y :: l' => if str_leb x y then x :: l else y :: insert_sorted x l'
  end.
Definition sort_strs (l : list str) : list str := fold_right insert_sorted [] l.

(* what one parser goroutine produced: the cleaned name and its content, or an error *)
Inductive parsed := POk (name : str) (content : str) | PErr.

Record inputs := { i_errors : nat; i_files : list (str * str) }.   (* errors, name -> content *)
Definition empty_inputs : inputs := {| i_errors := O; i_files := [] |}.

Inductive iloc := IErrors | IFiles | IOtherLoc (name : str).
Definition iloc_eqb (a b : iloc) : bool :=
  match a, b with
  | IErrors, IErrors | IFiles, IFiles => true
  | IOtherLoc x, IOtherLoc y => str_eqb x y
  | _, _ => false
  end.

(* rules.go: under the mutex either the error is appended or both maps get the entry
   (fileContent and modules always have the same keys: one location) *)
Definition iupd (l : iloc) (r : parsed) (s : inputs) : inputs :=
  match l, r with
  | IErrors, PErr => {| i_errors := S (i_errors s); i_files := i_files s |}
  | IFiles, POk n c => {| i_errors := i_errors s; i_files := mset (i_files s) n c |}
  | _, _ => s
  end.
Definition iput (l : iloc) (src dst : inputs) : inputs :=
  match l with
  | IErrors => {| i_errors := i_errors src; i_files := i_files dst |}
  | IFiles => {| i_errors := i_errors dst; i_files := i_files src |}
  | IOtherLoc _ => dst
  end.
Definition imerge (s : inputs) (r : parsed) : inputs := iupd IFiles r (iupd IErrors r s).

Definition classify_input (t : str) : iloc :=
  if str_eqb t [101;114;114;111;114;115] then IErrors                                   (* errors *)
  else if str_eqb t [102;105;108;101;67;111;110;116;101;110;116] then IFiles            (* fileContent *)
  else if str_eqb t [109;111;100;117;108;101;115] then IFiles                           (* modules *)
  else IOtherLoc t.

Definition input_prog_of (mu : str) (g : list gstmt) : list (stmt iloc) :=
  dedup_cs_writes iloc_eqb (compile_or_empty classify_input mu g).

(* NewInput: FileNames = sorted keys; an error if any path failed *)
Definition new_input (s : inputs) : option (list str) :=
  match i_errors s with
  | O => Some (sort_strs (map fst (i_files s)))
  | S _ => None
  end.

(* sequential reading of InputFromPaths for a parser oracle *)
Definition input_from_paths (parse : str -> parsed) (paths : list str) : option (list str) :=
  new_input (fold_left imerge (map parse paths) empty_inputs).
