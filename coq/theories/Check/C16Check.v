(* Executable comparison functions for the C16 correspondence.  The harness writes, per case,
   the two documents and the edit list the real ComputeEdits returned; these functions
   compare it with the model (edit list for edit list) and evaluate the specification
   ([lsp_apply], order, in-document) on the REAL edits.  No theorems here. *)
From Regal Require Export Model.LspApply.
Open Scope Z_scope.

(* (start line, start char, end line, end char, new text) *)
Definition go_edit := (Z * Z * Z * Z * str)%type.

Inductive c16_case := Case16 (before after : str) (got : list go_edit).

Definition edit_of_go (g : go_edit) : text_edit :=
  let '(sl, sc, el, ec, t) := g in
  {| e_sl := sl; e_sc := sc; e_el := el; e_ec := ec; e_text := t |}.

Definition edit_eqb (e : text_edit) (g : go_edit) : bool :=
  let '(sl, sc, el, ec, t) := g in
  (e_sl e =? sl) && (e_sc e =? sc) && (e_el e =? el) && (e_ec e =? ec) && str_eqb (e_text e) t.

Fixpoint edits_eqb (es : list text_edit) (gs : list go_edit) : bool :=
  match es, gs with
  | [], [] => true
  | e :: es', g :: gs' => edit_eqb e g && edits_eqb es' gs'
  | _, _ => false
  end.

(* model = implementation, edit list for edit list *)
Definition case_agrees (c : c16_case) : bool :=
  let '(Case16 before after got) := c in
  match compute_edits before after with
  | Ok es => edits_eqb es got
  | _ => false
  end.

(* the property itself, evaluated by the specification on the implementation's edits *)
Definition case_meets_spec (c : c16_case) : bool :=
  let '(Case16 before after got) := c in
  let es := map edit_of_go got in
  match lsp_apply es before with
  | Some r => str_eqb r after
  | None => false
  end && edits_ordered es && forallb (edit_in_doc before) es.

(* the same on the model's own edits (a run-time instance of compute_edits_sound) *)
Definition model_meets_spec (c : c16_case) : bool :=
  let '(Case16 before after _) := c in
  match compute_edits before after with
  | Ok es =>
      match lsp_apply es before with
      | Some r => str_eqb r after
      | None => false
      end && edits_ordered es && forallb (edit_in_doc before) es
  | _ => false
  end.

Fixpoint failing16 {T} (p : T -> bool) (i : nat) (l : list T) : list nat :=
  match l with
  | [] => []
  | x :: l' => if p x then failing16 p (S i) l' else i :: failing16 p (S i) l'
  end.

(* number of rounds D the forward pass needed (for the input-distribution histogram) *)
Definition case_rounds (c : c16_case) : Z :=
  let '(Case16 before after _) := c in
  let la := split_lines before in
  let lb := split_lines after in
  match shortest_edit_sequence str str_eqb (Z.of_nat (length la)) (Z.of_nat (length lb))
          (lines_get (lines_map la)) (lines_get (lines_map lb)) (S (length la)) with
  | Ok tr => Z.of_nat (length tr) - 1
  | _ => -1
  end.
