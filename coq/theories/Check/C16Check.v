(* Executable comparison functions for the C16 correspondence.  The harness writes, per case,
   the two documents and the edit list the real ComputeEdits returned; these functions
   compare it with the model (edit list for edit list) and evaluate the specification
   ([lsp_apply], order, in-document) on the REAL edits.  No theorems here. *)
From Regal Require Export Model.LspApply Model.FormatFlow.
Open Scope Z_scope.

(* (start line, start char, end line, end char, new text) *)
Definition go_edit := (Z * Z * Z * Z * str)%type.

Inductive c16_case := Case16 (before after : str) (got : list go_edit).

Definition edit_of_go (g : go_edit) : text_edit :=
  let '(sl, sc, el, ec, t) := g in
  {| e_sl := sl; e_sc := sc; e_el := el; e_ec := ec; e_text := t |}.

Definition edit_eqb (e : text_edit) (g : go_edit) : bool :=
  let '(sl, sc, el, ec, t) := g in
  (e_sl e =? sl) && (e_sc e =? sc) && (e_el e =? el) && (e_ec e =? ec) && str_eqb (e_text e) t.

Fixpoint edits_eqb (es : list text_edit) (gs : list go_edit) : bool :=
  match es, gs with
  | [], [] => true
  | e :: es', g :: gs' => edit_eqb e g && edits_eqb es' gs'
  | _, _ => false
  end.

(* model = implementation, edit list for edit list *)
Definition case_agrees (c : c16_case) : bool :=
  let '(Case16 before after got) := c in
  match compute_edits before after with
  | Ok es => edits_eqb es got
  | _ => false
  end.

(* the property itself, evaluated by the specification on the implementation's edits *)
(* a sequence of calls observed in one process (each with the edit list that call returned): the
   positions whose result is not the model's ([compute_edits_seq] = the model of every single call) *)
Fixpoint seq_disagreements (i : nat) (calls : list c16_case) : list nat :=
  match calls with
  | [] => []
  | c :: calls' => if case_agrees c then seq_disagreements (S i) calls' else i :: seq_disagreements (S i) calls'
  end.
Definition seq_agrees (calls : list c16_case) : bool :=
  match seq_disagreements 0 calls with [] => true | _ => false end.

Definition case_meets_spec (c : c16_case) : bool :=
  let '(Case16 before after got) := c in
  let es := map edit_of_go got in
  match lsp_apply es before with
  | Some r => str_eqb r after
  | None => false
  end && edits_ordered es && forallb (edit_in_doc before) es.

(* the same on the model's own edits (a run-time instance of compute_edits_sound) *)
Definition model_meets_spec (c : c16_case) : bool :=
  let '(Case16 before after _) := c in
  match compute_edits before after with
  | Ok es =>
      match lsp_apply es before with
      | Some r => str_eqb r after
      | None => false
      end && edits_ordered es && forallb (edit_in_doc before) es
  | _ => false
  end.

Fixpoint failing16 {T} (p : T -> bool) (i : nat) (l : list T) : list nat :=
  match l with
  | [] => []
  | x :: l' => if p x then failing16 p (S i) l' else i :: failing16 p (S i) l'
  end.

(* number of rounds D the forward pass needed (for the input-distribution histogram) *)
Definition case_rounds (c : c16_case) : Z :=
  let '(Case16 before after _) := c in
  let la := split_lines before in
  let lb := split_lines after in
  match shortest_edit_sequence str str_eqb (Z.of_nat (length la)) (Z.of_nat (length lb))
          (lines_get (lines_map la)) (lines_get (lines_map lb)) (S (length la)) with
  | Ok tr => Z.of_nat (length tr) - 1
  | _ => -1
  end.

(* ---- server-level flows (Model/FormatFlow.v): the harness drives the real server over JSON-RPC
   (didOpen / didChange, textDocument/formatting, workspace/executeCommand -> workspace/applyEdit,
   workspace/didCreateFiles -> workspace/applyEdit) and records, per case, the text the CLIENT holds,
   the oracles (formatter / fix / template output for that text, disk state, workspace position),
   the answer, and the server's copy of the document afterwards ---- *)

Inductive flow_obs :=
| OEdits (got : list go_edit)   (* an edit list (possibly empty) *)
| ONullR                        (* null *)
| OErrorR                       (* error response / window/showMessage *)
| OSilent.                      (* no workspace/applyEdit *)

Inductive flow_query :=
| QFormat (k : formatter_kind) (in_root ignored : bool) (disk template : option str) (fmt : oracle_out)
| QFix (fixo : oracle_out)
| QTemplate (in_root : bool) (disk template : option str).

(* [cache]: the client's text as the server should hold it (None: never sent);
   [after]: the server's copy after the operation *)
Inductive flow_case := FlowCase (q : flow_query) (cache : option str) (obs : flow_obs) (after : option str).

Definition model_flow (q : flow_query) (cache : option str) : flow_out :=
  match q with
  | QFormat k in_root ignored disk template fmt =>
      formatting_flow k in_root ignored disk template (fun _ => fmt) cache
  | QFix fixo => fix_flow (fun _ => fixo) cache
  | QTemplate in_root disk template => template_worker_flow in_root disk template cache
  end.

Definition opt_str_eqb (a b : option str) : bool :=
  match a, b with
  | Some x, Some y => str_eqb x y
  | None, None => true
  | _, _ => false
  end.

(* model = implementation: same kind of answer, same edit list, same stored text *)
Definition flow_agrees (c : flow_case) : bool :=
  let '(FlowCase q cache obs after) := c in
  match model_flow q cache, obs with
  | FEdits es _ stored, OEdits got =>
      edits_eqb es got &&
      match stored with
      | Some t => opt_str_eqb after (Some t)
      | None => opt_str_eqb after cache
      end
  | FEmpty, OEdits [] => opt_str_eqb after cache
  | FNull, ONullR => opt_str_eqb after cache
  | FError, OErrorR => opt_str_eqb after cache
  | FSilent, OSilent => opt_str_eqb after cache
  | _, _ => false
  end.

(* the text the server is to intend, from the oracles alone *)
Definition intended_text (q : flow_query) (cache : option str) : str :=
  let old := content cache in
  match q with
  | QFormat k in_root ignored disk template fmt =>
      if is_empty old then
        if in_root then old
        else match template_guard (negb ignored && is_some cache) disk template with
             | Some t => t
             | None => old
             end
      else match k, fmt with
           | KUnknown, _ => old
           | _, ONew n => n
           | _, _ => old
           end
  | QFix fixo => match cache, fixo with Some _, ONew n => n | _, _ => old end
  | QTemplate in_root disk template =>
      if in_root then old
      else match cache with
           | Some [] => match template_guard true disk template with Some t => t | None => old end
           | _ => old
           end
  end.

(* the property itself on the REAL edits: applied to the client's text they give the intended text,
   which is also what the server holds afterwards if it changed its copy *)
Definition flow_meets_spec (c : flow_case) : bool :=
  let '(FlowCase q cache obs after) := c in
  match obs with
  | OEdits got =>
      let es := map edit_of_go got in
      match lsp_apply es (content cache) with
      | Some r =>
          str_eqb r (intended_text q cache) &&
          (opt_str_eqb after cache || opt_str_eqb after (Some r))
      | None => false
      end && edits_ordered es && forallb (edit_in_doc (content cache)) es
  | _ => opt_str_eqb after cache
  end.

(* run-time instance of the flow theorems *)
Definition flow_model_meets_spec (c : flow_case) : bool :=
  let '(FlowCase q cache _ _) := c in
  match model_flow q cache with
  | FEdits es intended stored =>
      match lsp_apply es (content cache) with
      | Some r => str_eqb r intended && str_eqb intended (intended_text q cache)
      | None => false
      end && edits_ordered es && forallb (edit_in_doc (content cache)) es
  | FBroken => false
  | _ => true
  end.

(* ---- named constants for the generated case files (number literals are slow to parse) ---- *)
Definition b0 : N := 0%N.
Definition b1 : N := 1%N.
Definition b2 : N := 2%N.
Definition b3 : N := 3%N.
Definition b4 : N := 4%N.
Definition b5 : N := 5%N.
Definition b6 : N := 6%N.
Definition b7 : N := 7%N.
Definition b8 : N := 8%N.
Definition b9 : N := 9%N.
Definition b10 : N := 10%N.
Definition b11 : N := 11%N.
Definition b12 : N := 12%N.
Definition b13 : N := 13%N.
Definition b14 : N := 14%N.
Definition b15 : N := 15%N.
Definition b16 : N := 16%N.
Definition b17 : N := 17%N.
Definition b18 : N := 18%N.
Definition b19 : N := 19%N.
Definition b20 : N := 20%N.
Definition b21 : N := 21%N.
Definition b22 : N := 22%N.
Definition b23 : N := 23%N.
Definition b24 : N := 24%N.
Definition b25 : N := 25%N.
Definition b26 : N := 26%N.
Definition b27 : N := 27%N.
Definition b28 : N := 28%N.
Definition b29 : N := 29%N.
Definition b30 : N := 30%N.
Definition b31 : N := 31%N.
Definition b32 : N := 32%N.
Definition b33 : N := 33%N.
Definition b34 : N := 34%N.
Definition b35 : N := 35%N.
Definition b36 : N := 36%N.
Definition b37 : N := 37%N.
Definition b38 : N := 38%N.
Definition b39 : N := 39%N.
Definition b40 : N := 40%N.
Definition b41 : N := 41%N.
Definition b42 : N := 42%N.
Definition b43 : N := 43%N.
Definition b44 : N := 44%N.
Definition b45 : N := 45%N.
Definition b46 : N := 46%N.
Definition b47 : N := 47%N.
Definition b48 : N := 48%N.
Definition b49 : N := 49%N.
Definition b50 : N := 50%N.
Definition b51 : N := 51%N.
Definition b52 : N := 52%N.
Definition b53 : N := 53%N.
Definition b54 : N := 54%N.
Definition b55 : N := 55%N.
Definition b56 : N := 56%N.
Definition b57 : N := 57%N.
Definition b58 : N := 58%N.
Definition b59 : N := 59%N.
Definition b60 : N := 60%N.
Definition b61 : N := 61%N.
Definition b62 : N := 62%N.
Definition b63 : N := 63%N.
Definition b64 : N := 64%N.
Definition b65 : N := 65%N.
Definition b66 : N := 66%N.
Definition b67 : N := 67%N.
Definition b68 : N := 68%N.
Definition b69 : N := 69%N.
Definition b70 : N := 70%N.
Definition b71 : N := 71%N.
Definition b72 : N := 72%N.
Definition b73 : N := 73%N.
Definition b74 : N := 74%N.
Definition b75 : N := 75%N.
Definition b76 : N := 76%N.
Definition b77 : N := 77%N.
Definition b78 : N := 78%N.
Definition b79 : N := 79%N.
Definition b80 : N := 80%N.
Definition b81 : N := 81%N.
Definition b82 : N := 82%N.
Definition b83 : N := 83%N.
Definition b84 : N := 84%N.
Definition b85 : N := 85%N.
Definition b86 : N := 86%N.
Definition b87 : N := 87%N.
Definition b88 : N := 88%N.
Definition b89 : N := 89%N.
Definition b90 : N := 90%N.
Definition b91 : N := 91%N.
Definition b92 : N := 92%N.
Definition b93 : N := 93%N.
Definition b94 : N := 94%N.
Definition b95 : N := 95%N.
Definition b96 : N := 96%N.
Definition b97 : N := 97%N.
Definition b98 : N := 98%N.
Definition b99 : N := 99%N.
Definition b100 : N := 100%N.
Definition b101 : N := 101%N.
Definition b102 : N := 102%N.
Definition b103 : N := 103%N.
Definition b104 : N := 104%N.
Definition b105 : N := 105%N.
Definition b106 : N := 106%N.
Definition b107 : N := 107%N.
Definition b108 : N := 108%N.
Definition b109 : N := 109%N.
Definition b110 : N := 110%N.
Definition b111 : N := 111%N.
Definition b112 : N := 112%N.
Definition b113 : N := 113%N.
Definition b114 : N := 114%N.
Definition b115 : N := 115%N.
Definition b116 : N := 116%N.
Definition b117 : N := 117%N.
Definition b118 : N := 118%N.
Definition b119 : N := 119%N.
Definition b120 : N := 120%N.
Definition b121 : N := 121%N.
Definition b122 : N := 122%N.
Definition b123 : N := 123%N.
Definition b124 : N := 124%N.
Definition b125 : N := 125%N.
Definition b126 : N := 126%N.
Definition b127 : N := 127%N.
Definition b128 : N := 128%N.
Definition b129 : N := 129%N.
Definition b130 : N := 130%N.
Definition b131 : N := 131%N.
Definition b132 : N := 132%N.
Definition b133 : N := 133%N.
Definition b134 : N := 134%N.
Definition b135 : N := 135%N.
Definition b136 : N := 136%N.
Definition b137 : N := 137%N.
Definition b138 : N := 138%N.
Definition b139 : N := 139%N.
Definition b140 : N := 140%N.
Definition b141 : N := 141%N.
Definition b142 : N := 142%N.
Definition b143 : N := 143%N.
Definition b144 : N := 144%N.
Definition b145 : N := 145%N.
Definition b146 : N := 146%N.
Definition b147 : N := 147%N.
Definition b148 : N := 148%N.
Definition b149 : N := 149%N.
Definition b150 : N := 150%N.
Definition b151 : N := 151%N.
Definition b152 : N := 152%N.
Definition b153 : N := 153%N.
Definition b154 : N := 154%N.
Definition b155 : N := 155%N.
Definition b156 : N := 156%N.
Definition b157 : N := 157%N.
Definition b158 : N := 158%N.
Definition b159 : N := 159%N.
Definition b160 : N := 160%N.
Definition b161 : N := 161%N.
Definition b162 : N := 162%N.
Definition b163 : N := 163%N.
Definition b164 : N := 164%N.
Definition b165 : N := 165%N.
Definition b166 : N := 166%N.
Definition b167 : N := 167%N.
Definition b168 : N := 168%N.
Definition b169 : N := 169%N.
Definition b170 : N := 170%N.
Definition b171 : N := 171%N.
Definition b172 : N := 172%N.
Definition b173 : N := 173%N.
Definition b174 : N := 174%N.
Definition b175 : N := 175%N.
Definition b176 : N := 176%N.
Definition b177 : N := 177%N.
Definition b178 : N := 178%N.
Definition b179 : N := 179%N.
Definition b180 : N := 180%N.
Definition b181 : N := 181%N.
Definition b182 : N := 182%N.
Definition b183 : N := 183%N.
Definition b184 : N := 184%N.
Definition b185 : N := 185%N.
Definition b186 : N := 186%N.
Definition b187 : N := 187%N.
Definition b188 : N := 188%N.
Definition b189 : N := 189%N.
Definition b190 : N := 190%N.
Definition b191 : N := 191%N.
Definition b192 : N := 192%N.
Definition b193 : N := 193%N.
Definition b194 : N := 194%N.
Definition b195 : N := 195%N.
Definition b196 : N := 196%N.
Definition b197 : N := 197%N.
Definition b198 : N := 198%N.
Definition b199 : N := 199%N.
Definition b200 : N := 200%N.
Definition b201 : N := 201%N.
Definition b202 : N := 202%N.
Definition b203 : N := 203%N.
Definition b204 : N := 204%N.
Definition b205 : N := 205%N.
Definition b206 : N := 206%N.
Definition b207 : N := 207%N.
Definition b208 : N := 208%N.
Definition b209 : N := 209%N.
Definition b210 : N := 210%N.
Definition b211 : N := 211%N.
Definition b212 : N := 212%N.
Definition b213 : N := 213%N.
Definition b214 : N := 214%N.
Definition b215 : N := 215%N.
Definition b216 : N := 216%N.
Definition b217 : N := 217%N.
Definition b218 : N := 218%N.
Definition b219 : N := 219%N.
Definition b220 : N := 220%N.
Definition b221 : N := 221%N.
Definition b222 : N := 222%N.
Definition b223 : N := 223%N.
Definition b224 : N := 224%N.
Definition b225 : N := 225%N.
Definition b226 : N := 226%N.
Definition b227 : N := 227%N.
Definition b228 : N := 228%N.
Definition b229 : N := 229%N.
Definition b230 : N := 230%N.
Definition b231 : N := 231%N.
Definition b232 : N := 232%N.
Definition b233 : N := 233%N.
Definition b234 : N := 234%N.
Definition b235 : N := 235%N.
Definition b236 : N := 236%N.
Definition b237 : N := 237%N.
Definition b238 : N := 238%N.
Definition b239 : N := 239%N.
Definition b240 : N := 240%N.
Definition b241 : N := 241%N.
Definition b242 : N := 242%N.
Definition b243 : N := 243%N.
Definition b244 : N := 244%N.
Definition b245 : N := 245%N.
Definition b246 : N := 246%N.
Definition b247 : N := 247%N.
Definition b248 : N := 248%N.
Definition b249 : N := 249%N.
Definition b250 : N := 250%N.
Definition b251 : N := 251%N.
Definition b252 : N := 252%N.
Definition b253 : N := 253%N.
Definition b254 : N := 254%N.
Definition b255 : N := 255%N.
Definition z0 : Z := 0.
Definition z1 : Z := 1.
Definition z2 : Z := 2.
Definition z3 : Z := 3.
Definition z4 : Z := 4.
Definition z5 : Z := 5.
Definition z6 : Z := 6.
Definition z7 : Z := 7.
Definition z8 : Z := 8.
Definition z9 : Z := 9.
Definition z10 : Z := 10.
Definition z11 : Z := 11.
Definition z12 : Z := 12.
Definition z13 : Z := 13.
Definition z14 : Z := 14.
Definition z15 : Z := 15.
Definition z16 : Z := 16.
Definition z17 : Z := 17.
Definition z18 : Z := 18.
Definition z19 : Z := 19.
Definition z20 : Z := 20.
Definition z21 : Z := 21.
Definition z22 : Z := 22.
Definition z23 : Z := 23.
Definition z24 : Z := 24.
Definition z25 : Z := 25.
Definition z26 : Z := 26.
Definition z27 : Z := 27.
Definition z28 : Z := 28.
Definition z29 : Z := 29.
Definition z30 : Z := 30.
Definition z31 : Z := 31.
Definition z32 : Z := 32.
Definition z33 : Z := 33.
Definition z34 : Z := 34.
Definition z35 : Z := 35.
Definition z36 : Z := 36.
Definition z37 : Z := 37.
Definition z38 : Z := 38.
Definition z39 : Z := 39.
Definition z40 : Z := 40.
Definition z41 : Z := 41.
Definition z42 : Z := 42.
Definition z43 : Z := 43.
Definition z44 : Z := 44.
Definition z45 : Z := 45.
Definition z46 : Z := 46.
Definition z47 : Z := 47.
Definition z48 : Z := 48.
Definition z49 : Z := 49.
Definition z50 : Z := 50.
Definition z51 : Z := 51.
Definition z52 : Z := 52.
Definition z53 : Z := 53.
Definition z54 : Z := 54.
Definition z55 : Z := 55.
Definition z56 : Z := 56.
Definition z57 : Z := 57.
Definition z58 : Z := 58.
Definition z59 : Z := 59.
Definition z60 : Z := 60.
Definition z61 : Z := 61.
Definition z62 : Z := 62.
Definition z63 : Z := 63.
Definition z64 : Z := 64.
Definition z65 : Z := 65.
Definition z66 : Z := 66.
Definition z67 : Z := 67.
Definition z68 : Z := 68.
Definition z69 : Z := 69.
Definition z70 : Z := 70.
Definition z71 : Z := 71.
Definition z72 : Z := 72.
Definition z73 : Z := 73.
Definition z74 : Z := 74.
Definition z75 : Z := 75.
Definition z76 : Z := 76.
Definition z77 : Z := 77.
Definition z78 : Z := 78.
Definition z79 : Z := 79.
Definition z80 : Z := 80.
Definition z81 : Z := 81.
Definition z82 : Z := 82.
Definition z83 : Z := 83.
Definition z84 : Z := 84.
Definition z85 : Z := 85.
Definition z86 : Z := 86.
Definition z87 : Z := 87.
Definition z88 : Z := 88.
Definition z89 : Z := 89.
Definition z90 : Z := 90.
Definition z91 : Z := 91.
Definition z92 : Z := 92.
Definition z93 : Z := 93.
Definition z94 : Z := 94.
Definition z95 : Z := 95.
Definition z96 : Z := 96.
Definition z97 : Z := 97.
Definition z98 : Z := 98.
Definition z99 : Z := 99.
Definition z100 : Z := 100.
Definition z101 : Z := 101.
Definition z102 : Z := 102.
Definition z103 : Z := 103.
Definition z104 : Z := 104.
Definition z105 : Z := 105.
Definition z106 : Z := 106.
Definition z107 : Z := 107.
Definition z108 : Z := 108.
Definition z109 : Z := 109.
Definition z110 : Z := 110.
Definition z111 : Z := 111.
Definition z112 : Z := 112.
Definition z113 : Z := 113.
Definition z114 : Z := 114.
Definition z115 : Z := 115.
Definition z116 : Z := 116.
Definition z117 : Z := 117.
Definition z118 : Z := 118.
Definition z119 : Z := 119.
Definition z120 : Z := 120.
Definition z121 : Z := 121.
Definition z122 : Z := 122.
Definition z123 : Z := 123.
Definition z124 : Z := 124.
Definition z125 : Z := 125.
Definition z126 : Z := 126.
Definition z127 : Z := 127.
Definition cat (l : list str) : str := concat l.
