(* Executable comparison functions for the C04 correspondence.  The harness writes what /repo did
   (Go merge, Rego decision functions, main.rego report/aggregate, Linter.Lint,
   Linter.DetermineEnabledRules) as data; these functions compare it with Model/Precedence.v and
   with the README specification.  No theorems here. *)
From Coq Require Import String Ascii.
From Regal Require Export Model.Precedence.
From Regal Require Import Gen.RulesTable.

(* compact literals for the generated case files (number literals are slow to parse) *)
Fixpoint b (s : string) : str :=
  match s with EmptyString => [] | String a s' => N_of_ascii a :: b s' end.

(* two characters per index, base 64 from "0" *)
Fixpoint ixs (s : string) : list nat :=
  match s with
  | String a (String a' s') => N.to_nat ((N_of_ascii a - 48) * 64 + (N_of_ascii a' - 48)) :: ixs s'
  | _ => []
  end.

Fixpoint failing {A} (p : A -> bool) (i : nat) (l : list A) : list nat :=
  match l with
  | [] => []
  | x :: l' => if p x then failing p (S i) l' else i :: failing p (S i) l'
  end.

(* the same with binary indices (tens of thousands of packed cases) *)
Fixpoint failingN {A} (p : A -> bool) (i : N) (l : list A) : list N :=
  match l with
  | [] => []
  | x :: l' => if p x then failingN p (N.succ i) l' else i :: failingN p (N.succ i) l'
  end.

Fixpoint countN {A} (p : A -> bool) (l : list A) : N :=
  match l with
  | [] => 0
  | x :: l' => (if p x then 1 else 0) + countN p l'
  end.

Definition opt_str_eqb (a b : option str) : bool :=
  match a, b with
  | None, None => true
  | Some x, Some y => str_eqb x y
  | _, _ => false
  end.

Definition subset (a b : list str) : bool := forallb (fun x => str_in x b) a.
Definition same_set (a b : list str) : bool :=
  subset a b && subset b a && Nat.eqb (length a) (length b).

Fixpoint pairs_eqb (a b : list (str * str)) : bool :=
  match a, b with
  | [], [] => true
  | (c, t) :: a', (c', t') :: b' => str_eqb c c' && str_eqb t t' && pairs_eqb a' b'
  | _, _ => false
  end.

(* ---------------------------------------------------------------------------------------------- *)
(* what was observed for one rule under one configuration                                         *)
Record obs := mkObs {
  ob_go_entry : option str;        (* Level of Rules[cat][title] in Linter.GetConfig(), None = no entry   *)
  ob_ignored : bool;               (* data.regal.config.ignored_rule(cat, title)                          *)
  ob_fd : bool;  ob_fe : bool;     (* _force_disabled / _force_enabled                                    *)
  ob_level : str;                  (* data.regal.config.level_for_rule(cat, title)                        *)
  ob_to_run : bool;                (* title in data.regal.main._rules_to_run[cat]                         *)
  ob_reported : option str;        (* level of the rule's violation in data.regal.main.report, if any     *)
  ob_aggregated : bool;            (* "cat/title" is a key of data.regal.main.aggregate                   *)
  ob_agg_reported : option str }.  (* level of the rule's violation in data.regal.main.aggregate_report   *)

Record ecase := mkCase {
  ec_provided : rules_map;
  ec_user : option config;
  ec_custom : list (str * str);    (* custom rules loaded into the linter                                 *)
  ec_params : params;
  ec_cat : str;  ec_title : str;
  ec_is_custom : bool;             (* the rule under observation is the custom rule                       *)
  ec_triggered : bool;             (* the linted policy makes the rule's body report                      *)
  ec_obs : obs }.

Definition merged_of (c : ecase) : rules_map := linter_config (ec_provided c) (ec_user c) (ec_custom c).

(* the model's account of every observed field, as one record (the merged configuration is computed once) *)
Definition model_obs (c : ecase) : obs :=
  let p := ec_params c in let m := merged_of c in
  let cat := ec_cat c in let title := ec_title c in
  let e := entry_of m cat title in
  let can := if ec_is_custom c then custom_can_report p m cat title false
             else builtin_can_report p m cat title false false in
  let rep := if can then Some (violation_level p m cat title) else None in
  mkObs (rule_level_of m cat title)
        (ignored_rule p e cat title) (force_disabled p cat title) (force_enabled p cat title)
        (level_for_rule p e cat title) (rules_to_run_has p m cat title false)
        rep (ec_is_custom c && can) (if ec_is_custom c then rep else None).

Definition model_reported (c : ecase) : option str := ob_reported (model_obs c).

Definition go_agrees_with (mo : obs) (c : ecase) : bool :=
  opt_str_eqb (ob_go_entry (ec_obs c)) (ob_go_entry mo).

Definition rego_agrees_with (mo : obs) (c : ecase) : bool :=
  let o := ec_obs c in
  Bool.eqb (ob_ignored o) (ob_ignored mo) && Bool.eqb (ob_fd o) (ob_fd mo) && Bool.eqb (ob_fe o) (ob_fe mo)
  && str_eqb (ob_level o) (ob_level mo) && Bool.eqb (ob_to_run o) (ob_to_run mo).

Definition main_agrees_with (mo : obs) (c : ecase) : bool :=
  let o := ec_obs c in
  negb (ec_triggered c) ||
  (opt_str_eqb (ob_reported o) (ob_reported mo)
   && (if ec_is_custom c
       then Bool.eqb (ob_aggregated o) (ob_aggregated mo) && opt_str_eqb (ob_agg_reported o) (ob_agg_reported mo)
       else true)).

Definition go_agrees (c : ecase) : bool := go_agrees_with (model_obs c) c.
Definition rego_agrees (c : ecase) : bool := rego_agrees_with (model_obs c) c.
Definition main_agrees (c : ecase) : bool := main_agrees_with (model_obs c) c.

Definition case_agrees (c : ecase) : bool :=
  let mo := model_obs c in go_agrees_with mo c && rego_agrees_with mo c && main_agrees_with mo c.

(* the README specification evaluated on what was observed (not on the model).  Domain: the rule
   is a bundled rule with a provided level, or a loaded custom rule without one *)
Definition spec_default (c : ecase) : option str :=
  if ec_is_custom c then
    match assoc (ec_title c) (provided_conf_levels (ec_provided c)) with
    | None => if pair_in (ec_cat c) (ec_title c) (ec_custom c) then Some s_error else None
    | Some _ => None
    end
  else rule_level_of (ec_provided c) (ec_cat c) (ec_title c).

Definition observed_decision (c : ecase) : decision :=
  match ob_reported (ec_obs c) with Some l => On l | None => Off end.

Definition case_meets_spec (c : ecase) : bool :=
  negb (ec_triggered c) ||
  match spec_default c with
  | None => true
  | Some d =>
      decision_eqb (observed_decision c)
                   (spec_decision (ec_params c) (ec_cat c) (ec_title c)
                                  (spec_user_level (ec_user c) (ec_cat c) (ec_title c) d))
  end.

Definition case_in_spec_domain (c : ecase) : bool :=
  ec_triggered c && match spec_default c with Some _ => true | None => false end.

(* ---------------------------------------------------------------------------------------------- *)
(* packed exhaustive cases: one number per case, mixed radix, least significant digit first       *)
Fixpoint digits (radices : list N) (n : N) : list N :=
  match radices with
  | [] => []
  | r :: rs => (n mod r) :: digits rs (n / r)
  end.

Definition fn_radices : list N :=
  [2; 5; 5; 5; 4; 2; 64; 2;            (* k p u c g nu flags decoy *)
   6; 2; 2; 2; 6; 2; 6; 2; 6].         (* go ign fd fe level to_run reported aggregated agg_reported *)

Definition B_CAT : str := [98;117;103;115].                                                   (* bugs *)
Definition B_TITLE : str := [99;111;110;115;116;97;110;116;45;99;111;110;100;105;116;105;111;110]. (* constant-condition *)
Definition C_CAT : str := [110;97;109;105;110;103].                                           (* naming *)
Definition C_TITLE : str := [109;121;45;114;117;108;101].                                     (* my-rule *)
Definition DECOY_RULE : str := [116;111;100;111;45;99;111;109;109;101;110;116].               (* todo-comment *)
Definition DECOY_CAT : str := [116;101;115;116;105;110;103].                                  (* testing *)
Definition s_other : str := [63].                                                             (* any other string *)

(* 0 -> none; 1 -> ""; 2 ignore; 3 warning; 4 error; 5 other *)
Definition level_of_code (n : N) : option str :=
  match n with
  | 0 => None | 1 => Some [] | 2 => Some s_ignore | 3 => Some s_warning | 4 => Some s_error
  | _ => Some s_other
  end.

Definition opt_level (n : N) : str := match level_of_code n with Some l => l | None => [] end.

Definition bit (f : N) (i : N) : bool := N.testbit f i.

Definition params_of_flags (cat title : str) (f : N) (decoy : bool) : params :=
  let d := if decoy then [DECOY_RULE] else [] in
  let dc := if decoy then [DECOY_CAT] else [] in
  mkParams (bit f 4)
           (dc ++ if bit f 2 then [cat] else [])
           (d ++ if bit f 0 then [title] else [])
           (bit f 5)
           (dc ++ if bit f 3 then [cat] else [])
           (d ++ if bit f 1 then [title] else []).

(* the user document of the harness: rules: {default: G, CAT: {default: C, TITLE: U}} *)
Definition user_of_codes (cat title : str) (u c g : N) : config :=
  let rules := match u, c with
               | 0, 0 => []
               | 0, _ => [(cat, [])]
               | _, _ => [(cat, [(title, opt_level u)])]
               end in
  mkConfig rules
           (match c with 0 => [] | _ => [(cat, opt_level c)] end)
           (match g with 0 => [] | _ => opt_level (g + 1) end).

Definition provided_of_code (p : N) : rules_map :=
  match p with
  | 0 => []
  | _ => [(B_CAT, [(B_TITLE, opt_level p)])]
  end.

Definition nz (n : N) : bool := negb (N.eqb n 0).

Definition decode_fn (n : N) : option ecase :=
  match digits fn_radices n with
  | [k; p; u; c; g; nu; f; d; go; ign; fd; fe; lvl; torun; rep; agg; aggrep] =>
      let custom := nz k in
      let cat := if custom then C_CAT else B_CAT in
      let title := if custom then C_TITLE else B_TITLE in
      Some (mkCase (provided_of_code (if custom then 4 else p))
                   (if nz nu then None else Some (user_of_codes cat title u c g))
                   [(C_CAT, C_TITLE)]
                   (params_of_flags cat title f (nz d))
                   cat title custom true
                   (mkObs (level_of_code go) (nz ign) (nz fd) (nz fe) (opt_level lvl) (nz torun)
                          (level_of_code rep) (nz agg) (level_of_code aggrep)))
  | _ => None
  end.

Definition fn_ok (check : ecase -> bool) (n : N) : bool :=
  match decode_fn n with Some c => check c | None => false end.

(* ---------------------------------------------------------------------------------------------- *)
(* full Lint / DetermineEnabledRules                                                              *)
Record lcase := mkLCase {
  lc_case : ecase;
  lc_full : bool;                        (* regal's real provided configuration (Gen.RulesTable)      *)
  lc_files : nat;
  lc_validation_error : bool;            (* Lint refused the configuration (unknown rule / category)  *)
  lc_violations : list (str * bool);     (* violations of the rule under observation: (level, is aggregate) *)
  lc_enabled : list str;                 (* DetermineEnabledRules                                     *)
  lc_check_agg : bool;                   (* DetermineEnabledAggregateRules was called                 *)
  lc_enabled_agg : list str;             (* DetermineEnabledAggregateRules                            *)
  lc_noticed : list (str * str);         (* bundled rules with an input-independent notice (oracle)   *)
  lc_aggregate_rules : list (str * str); (* bundled rules defining `aggregate` (oracle)               *)
  lc_custom_aggregate : list (str * str);(* loaded custom rules defining `aggregate`                  *)
  lc_to_run : list (str * str);          (* main.rego's _rules_to_run for the linted file             *)
  lc_custom_reporting : list str }.      (* loaded custom rules that reported a violation in Lint     *)

Definition lcase_full_ok (l : lcase) : ecase :=
  let c := lc_case l in
  if lc_full l
  then mkCase provided_rules (ec_user c) (ec_custom c) (ec_params c) (ec_cat c) (ec_title c)
              (ec_is_custom c) (ec_triggered c) (ec_obs c)
  else c.

Fixpoint count_viol (lvl : str) (agg : bool) (l : list (str * bool)) : nat :=
  match l with
  | [] => O
  | (l0, a) :: l' => (if str_eqb l0 lvl && Bool.eqb a agg then 1 else 0)%nat + count_viol lvl agg l'
  end.

(* n files, each triggering the rule: n violations; the custom rule's aggregate_report adds one
   when more than one file is linted (the aggregate phase only runs then) *)
Definition lint_agrees (l : lcase) : bool :=
  let c := lcase_full_ok l in
  lc_validation_error l || negb (ec_triggered c) ||
  match model_reported c with
  | None => match lc_violations l with [] => true | _ => false end
  | Some lvl =>
      let nagg := if ec_is_custom c && Nat.ltb 1 (lc_files l) then 1%nat else 0%nat in
      Nat.eqb (count_viol lvl false (lc_violations l)) (lc_files l)
      && Nat.eqb (count_viol lvl true (lc_violations l)) nagg
      && Nat.eqb (length (lc_violations l)) (lc_files l + nagg)
  end.

Definition lint_meets_spec (l : lcase) : bool :=
  let c := lcase_full_ok l in
  lc_validation_error l || negb (ec_triggered c) ||
  match spec_default c with
  | None => true
  | Some d =>
      let dec := spec_decision (ec_params c) (ec_cat c) (ec_title c)
                               (spec_user_level (ec_user c) (ec_cat c) (ec_title c) d) in
      match dec with
      | Off => match lc_violations l with [] => true | _ => false end
      | On lvl => negb (match lc_violations l with [] => true | _ => false end)
                  && forallb (fun va => str_eqb (fst va) lvl) (lc_violations l)
      end
  end.

Definition enabled_agrees (l : lcase) : bool :=
  let c := lcase_full_ok l in
  same_set (lc_enabled l)
           (determine_enabled_rules (ec_params c) (merged_of c) bundled_rules
                                    (fun cat t => pair_in cat t (lc_noticed l)) (ec_custom c)).

Definition enabled_agg_agrees (l : lcase) : bool :=
  let c := lcase_full_ok l in
  negb (lc_check_agg l) ||
  same_set (lc_enabled_agg l)
           (determine_enabled_aggregate_rules (ec_params c) (merged_of c) (lc_aggregate_rules l)
                                              (lc_custom_aggregate l)).

(* the property on the implementation's own outputs: the list computed up front is exactly the
   bundled rules main.rego would run (_rules_to_run also lists configured names that are not bundled
   rules; they run nothing) and that have no notice, plus the custom rules that report *)
Definition enabled_is_runnable (l : lcase) : bool :=
  negb (lc_full l) ||
  same_set (lc_enabled l)
           (map snd (filter (fun ct => pair_in (fst ct) (snd ct) bundled_rules
                                       && negb (pair_in (fst ct) (snd ct) (lc_noticed l))) (lc_to_run l))
            ++ lc_custom_reporting l).

Definition lcase_agrees (l : lcase) : bool :=
  case_agrees (lcase_full_ok l) && lint_agrees l && enabled_agrees l && enabled_agg_agrees l.

(* indices into a table of names (keeps the generated case files small) *)
Definition names_at (tbl : list (str * str)) (ix : list nat) : list (str * str) :=
  flat_map (fun i => match nth_error tbl i with Some ct => [ct] | None => [] end) ix.

(* ---------------------------------------------------------------------------------------------- *)
(* the exhaustive function-level table, computed once at build time (Check/C04Table.v) instead of
   per run: for every input of the finite abstraction, the model's observable outputs and the
   README decision, 4 characters per case.  tools/props/c04.py builds the same characters from what
   /repo did and compares.  Enumeration order: k, p, then (u, c, g, f | no user config: f). *)
Definition code_of_level (o : option str) : N :=
  match o with
  | None => 0
  | Some l => if str_eqb l [] then 1 else if str_eqb l s_ignore then 2
              else if str_eqb l s_warning then 3 else if str_eqb l s_error then 4 else 5
  end.

Definition bN (x : bool) : N := if x then 1 else 0.

Definition chr (n : N) : ascii := ascii_of_N (48 + n).

Definition fn_input_case (k p u c g nu f : N) : ecase :=
  let custom := nz k in
  let cat := if custom then C_CAT else B_CAT in
  let title := if custom then C_TITLE else B_TITLE in
  let decoy := N.odd (p + u + c + g + f) in
  mkCase (provided_of_code (if custom then 4 else p))
         (if nz nu then None else Some (user_of_codes cat title u c g))
         [(C_CAT, C_TITLE)]
         (params_of_flags cat title f decoy)
         cat title custom true
         (mkObs None false false false [] false None false None).

Definition spec_code (c : ecase) : N :=
  match spec_default c with
  | None => 0
  | Some d =>
      match spec_decision (ec_params c) (ec_cat c) (ec_title c)
                          (spec_user_level (ec_user c) (ec_cat c) (ec_title c) d) with
      | Off => 1
      | On l => 1 + code_of_level (Some l)
      end
  end.

Definition fn_entry (c : ecase) : string :=
  let o := model_obs c in
  String (chr (code_of_level (ob_go_entry o) + 6 * bN (ob_ignored o) + 12 * bN (ob_fd o) + 24 * bN (ob_fe o)))
  (String (chr (code_of_level (Some (ob_level o)) + 6 * bN (ob_to_run o) + 12 * bN (ob_aggregated o)))
  (String (chr (code_of_level (ob_reported o) + 6 * code_of_level (ob_agg_reported o)))
  (String (chr (spec_code c)) EmptyString))).

Definition range (n : nat) : list N := map N.of_nat (seq 0 n).

(* one chunk per (k, p, u) and one per (k, p) without user configuration, so that no single string
   constant gets too deep for the checker's stack *)
Definition fn_inputs_chunk (k p u : N) : list ecase :=
  flat_map (fun c => flat_map (fun g => map (fun f => fn_input_case k p u c g 0 f) (range 64)) (range 4))
           (range 5).

Definition fn_inputs_nouser (k p : N) : list ecase := map (fun f => fn_input_case k p 0 0 0 1 f) (range 64).

Fixpoint concat_strings (l : list string) : string :=
  match l with [] => EmptyString | s :: l' => append s (concat_strings l') end.

Definition fn_table_chunk (k p u : N) : string := concat_strings (map fn_entry (fn_inputs_chunk k p u)).
Definition fn_table_nouser (k p : N) : string := concat_strings (map fn_entry (fn_inputs_nouser k p)).
