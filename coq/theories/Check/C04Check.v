(* Executable comparison functions for the C04 correspondence.  The harness writes what /repo did
   (Go merge, Rego decision functions, main.rego report/aggregate, Linter.Lint,
   Linter.DetermineEnabledRules) as data; these functions compare it with Model/Precedence.v and
   with the README specification.  No theorems here. *)
From Coq Require Import String Ascii.
From Regal Require Export Model.Precedence.
From Regal Require Import Gen.RulesTable.

(* compact literals for the generated case files (number literals are slow to parse) *)
Fixpoint b (s : string) : str :=
  match s with EmptyString => [] | String a s' => N_of_ascii a :: b s' end.

(* two characters per index, base 64 from "0" *)
Fixpoint ixs (s : string) : list nat :=
  match s with
  | String a (String a' s') => N.to_nat ((N_of_ascii a - 48) * 64 + (N_of_ascii a' - 48)) :: ixs s'
  | _ => []
  end.

Fixpoint failing {A} (p : A -> bool) (i : nat) (l : list A) : list nat :=
  match l with
  | [] => []
  | x :: l' => if p x then failing p (S i) l' else i :: failing p (S i) l'
  end.

(* the same with binary indices (tens of thousands of packed cases) *)
Fixpoint failingN {A} (p : A -> bool) (i : N) (l : list A) : list N :=
  match l with
  | [] => []
  | x :: l' => if p x then failingN p (N.succ i) l' else i :: failingN p (N.succ i) l'
  end.

Fixpoint countN {A} (p : A -> bool) (l : list A) : N :=
  match l with
  | [] => 0
  | x :: l' => (if p x then 1 else 0) + countN p l'
  end.

Definition opt_str_eqb (a b : option str) : bool :=
  match a, b with
  | None, None => true
  | Some x, Some y => str_eqb x y
  | _, _ => false
  end.

Definition subset (a b : list str) : bool := forallb (fun x => str_in x b) a.
Definition same_set (a b : list str) : bool :=
  subset a b && subset b a && Nat.eqb (length a) (length b).

Fixpoint pairs_eqb (a b : list (str * str)) : bool :=
  match a, b with
  | [], [] => true
  | (c, t) :: a', (c', t') :: b' => str_eqb c c' && str_eqb t t' && pairs_eqb a' b'
  | _, _ => false
  end.

(* ---------------------------------------------------------------------------------------------- *)
(* what was observed for one rule under one configuration                                         *)
Record obs := mkObs {
  ob_go_entry : option str;        (* Level of Rules[cat][title] in Linter.GetConfig(), None = no entry   *)
  ob_ignored : bool;               (* data.regal.config.ignored_rule(cat, title)                          *)
  ob_fd : bool;  ob_fe : bool;     (* _force_disabled / _force_enabled                                    *)
  ob_level : str;                  (* data.regal.config.level_for_rule(cat, title)                        *)
  ob_to_run : bool;                (* title in data.regal.main._rules_to_run[cat]                         *)
  ob_reported : option str;        (* level of the rule's violation in data.regal.main.report, if any     *)
  ob_aggregated : bool;            (* "cat/title" is a key of data.regal.main.aggregate                   *)
  ob_agg_reported : option str;    (* level of the rule's violation in data.regal.main.aggregate_report,
                                      fed with the aggregates data.regal.main.aggregate gave in the same
                                      configuration (one run)                                             *)
  ob_agg_reported_foreign : option str }.
                                   (* the same, fed with aggregates collected in ANOTHER run, in which the
                                      rule was enabled (Linter.WithAggregates)                            *)

Record ecase := mkCase {
  ec_provided : rules_map;
  ec_user : option config;
  ec_custom : list (str * str);    (* custom rules loaded into the linter                                 *)
  ec_params : params;
  ec_cat : str;  ec_title : str;
  ec_is_custom : bool;             (* the rule under observation is the custom rule                       *)
  ec_triggered : bool;             (* the linted policy makes the rule's bodies report / aggregate        *)
  ec_has_report : bool;            (* the rule defines `report`                                           *)
  ec_has_agg : bool;               (* the rule defines `aggregate` and `aggregate_report`; the latter
                                      reports iff aggregates of the rule are supplied                     *)
  ec_obs : obs }.

Definition merged_of (c : ecase) : rules_map := linter_config (ec_provided c) (ec_user c) (ec_custom c).

(* the model's account of every observed field, as one record (the merged configuration is computed once) *)
Definition model_obs (c : ecase) : obs :=
  let p := ec_params c in let m := merged_of c in
  let cat := ec_cat c in let title := ec_title c in
  let e := entry_of m cat title in
  let lvl := violation_level p m cat title in
  (* no file is excluded and no rule has a notice in these runs *)
  let gate b supplied := branch_gate (ec_is_custom c) b p m cat title false false supplied in
  let rep := if ec_has_report c && gate BReport true then Some lvl else None in
  let aggregated := ec_has_agg c && gate BAggregate true in
  let agg_rep supplied :=
      if ec_has_agg c && supplied && gate BAggregateReport supplied then Some lvl else None in
  mkObs (rule_level_of m cat title)
        (ignored_rule p e cat title) (force_disabled p cat title) (force_enabled p cat title)
        (level_for_rule p e cat title) (rules_to_run_has p m cat title false)
        rep aggregated (agg_rep aggregated) (agg_rep true).

Definition model_reported (c : ecase) : option str := ob_reported (model_obs c).

(* is the rule on at all, according to the model (any entry point, aggregates supplied) *)
Definition model_level_if_on (c : ecase) : option str :=
  let mo := model_obs c in
  match ob_reported mo with Some l => Some l | None => ob_agg_reported_foreign mo end.

Definition go_agrees_with (mo : obs) (c : ecase) : bool :=
  opt_str_eqb (ob_go_entry (ec_obs c)) (ob_go_entry mo).

Definition rego_agrees_with (mo : obs) (c : ecase) : bool :=
  let o := ec_obs c in
  Bool.eqb (ob_ignored o) (ob_ignored mo) && Bool.eqb (ob_fd o) (ob_fd mo) && Bool.eqb (ob_fe o) (ob_fe mo)
  && str_eqb (ob_level o) (ob_level mo) && Bool.eqb (ob_to_run o) (ob_to_run mo).

Definition main_agrees_with (mo : obs) (c : ecase) : bool :=
  let o := ec_obs c in
  negb (ec_triggered c) ||
  (opt_str_eqb (ob_reported o) (ob_reported mo)
   && Bool.eqb (ob_aggregated o) (ob_aggregated mo)
   && opt_str_eqb (ob_agg_reported o) (ob_agg_reported mo)
   && opt_str_eqb (ob_agg_reported_foreign o) (ob_agg_reported_foreign mo)).

Definition go_agrees (c : ecase) : bool := go_agrees_with (model_obs c) c.
Definition rego_agrees (c : ecase) : bool := rego_agrees_with (model_obs c) c.
Definition main_agrees (c : ecase) : bool := main_agrees_with (model_obs c) c.

Definition case_agrees (c : ecase) : bool :=
  let mo := model_obs c in go_agrees_with mo c && rego_agrees_with mo c && main_agrees_with mo c.

(* the README specification evaluated on what was observed (not on the model).  Domain: the rule
   is a bundled rule with a provided level, or a loaded custom rule without one *)
Definition spec_default (c : ecase) : option str :=
  if ec_is_custom c then
    match assoc (ec_title c) (provided_conf_levels (ec_provided c)) with
    | None => if pair_in (ec_cat c) (ec_title c) (ec_custom c) then Some s_error else None
    | Some _ => None
    end
  else rule_level_of (ec_provided c) (ec_cat c) (ec_title c).

Definition decision_of_obs (o : option str) : decision :=
  match o with Some l => On l | None => Off end.

Definition observed_decision (c : ecase) : decision := decision_of_obs (ob_reported (ec_obs c)).

Definition is_on (d : decision) : bool := match d with On _ => true | Off => false end.

(* every entry point the rule has must tell the story the README tells: `report`; `aggregate`
   (collects iff the rule is on); `aggregate_report` on the aggregates of the same run and on aggregates
   collected in another run in which the rule was on *)
Definition case_meets_spec (c : ecase) : bool :=
  negb (ec_triggered c) ||
  match spec_default c with
  | None => true
  | Some d =>
      let dec := spec_decision (ec_params c) (ec_cat c) (ec_title c)
                               (spec_user_level (ec_user c) (ec_cat c) (ec_title c) d) in
      let o := ec_obs c in
      (negb (ec_has_report c) || decision_eqb (decision_of_obs (ob_reported o)) dec)
      && (negb (ec_has_agg c)
          || (Bool.eqb (ob_aggregated o) (is_on dec)
              && decision_eqb (decision_of_obs (ob_agg_reported o)) dec
              && decision_eqb (decision_of_obs (ob_agg_reported_foreign o)) dec))
  end.

Definition case_in_spec_domain (c : ecase) : bool :=
  ec_triggered c && match spec_default c with Some _ => true | None => false end.

(* ---------------------------------------------------------------------------------------------- *)
(* names of the exhaustive function-level enumeration                                             *)
Definition B_CAT : str := [98;117;103;115].                                                   (* bugs *)
Definition B_TITLE : str := [99;111;110;115;116;97;110;116;45;99;111;110;100;105;116;105;111;110]. (* constant-condition *)
Definition C_CAT : str := [110;97;109;105;110;103].                                           (* naming *)
Definition C_TITLE : str := [109;121;45;114;117;108;101].                                     (* my-rule *)
Definition A_CAT : str := [105;109;112;111;114;116;115].                                      (* imports *)
Definition A_TITLE : str := [117;110;114;101;115;111;108;118;101;100;45;105;109;112;111;114;116]. (* unresolved-import *)
Definition DECOY_RULE : str := [116;111;100;111;45;99;111;109;109;101;110;116].               (* todo-comment *)
Definition DECOY_CAT : str := [116;101;115;116;105;110;103].                                  (* testing *)
Definition s_other : str := [63].                                                             (* any other string *)

(* 0 -> none; 1 -> ""; 2 ignore; 3 warning; 4 error; 5 other *)
Definition level_of_code (n : N) : option str :=
  match n with
  | 0 => None | 1 => Some [] | 2 => Some s_ignore | 3 => Some s_warning | 4 => Some s_error
  | _ => Some s_other
  end.

Definition opt_level (n : N) : str := match level_of_code n with Some l => l | None => [] end.

Definition bit (f : N) (i : N) : bool := N.testbit f i.

Definition params_of_flags (cat title : str) (f : N) (decoy : bool) : params :=
  let d := if decoy then [DECOY_RULE] else [] in
  let dc := if decoy then [DECOY_CAT] else [] in
  mkParams (bit f 4)
           (dc ++ if bit f 2 then [cat] else [])
           (d ++ if bit f 0 then [title] else [])
           (bit f 5)
           (dc ++ if bit f 3 then [cat] else [])
           (d ++ if bit f 1 then [title] else []).

(* the user document of the harness: rules: {default: G, CAT: {default: C, TITLE: U}} *)
Definition user_of_codes (cat title : str) (u c g : N) : config :=
  let rules := match u, c with
               | 0, 0 => []
               | 0, _ => [(cat, [])]
               | _, _ => [(cat, [(title, opt_level u)])]
               end in
  mkConfig rules
           (match c with 0 => [] | _ => [(cat, opt_level c)] end)
           (match g with 0 => [] | _ => opt_level (g + 1) end).

Definition provided_of_code (cat title : str) (p : N) : rules_map :=
  match p with
  | 0 => []
  | _ => [(cat, [(title, opt_level p)])]
  end.

Definition nz (n : N) : bool := negb (N.eqb n 0).

(* ---------------------------------------------------------------------------------------------- *)
(* full Lint / DetermineEnabledRules                                                              *)
Record lcase := mkLCase {
  lc_case : ecase;
  lc_full : bool;                        (* regal's real provided configuration (Gen.RulesTable)      *)
  lc_files : nat;                        (* files linted in this run (0: only supplied aggregates)    *)
  lc_foreign : nat;                      (* 0: one run.  n > 0: aggregates exported by an EARLIER run over n
                                            files, in which every rule was enabled, are supplied to this run
                                            (Linter.WithAggregates)                                      *)
  lc_validation_error : bool;            (* Lint refused the configuration (unknown rule / category)  *)
  lc_violations : list (str * bool);     (* violations of the rule under observation: (level, is aggregate) *)
  lc_enabled : list str;                 (* DetermineEnabledRules                                     *)
  lc_check_agg : bool;                   (* DetermineEnabledAggregateRules was called                 *)
  lc_enabled_agg : list str;             (* DetermineEnabledAggregateRules                            *)
  lc_noticed : list (str * str);         (* bundled rules with an input-independent notice (oracle)   *)
  lc_aggregate_rules : list (str * str); (* bundled rules defining `aggregate` (oracle)               *)
  lc_custom_aggregate : list (str * str);(* loaded custom rules defining `aggregate`                  *)
  lc_to_run : list (str * str);          (* main.rego's _rules_to_run for the linted file             *)
  lc_custom_reporting : list str }.      (* loaded custom rules that reported a violation in Lint     *)

Definition lcase_full_ok (l : lcase) : ecase :=
  let c := lc_case l in
  if lc_full l
  then mkCase provided_rules (ec_user c) (ec_custom c) (ec_params c) (ec_cat c) (ec_title c)
              (ec_is_custom c) (ec_triggered c) (ec_has_report c) (ec_has_agg c) (ec_obs c)
  else c.

Fixpoint count_viol (lvl : str) (agg : bool) (l : list (str * bool)) : nat :=
  match l with
  | [] => O
  | (l0, a) :: l' => (if str_eqb l0 lvl && Bool.eqb a agg then 1 else 0)%nat + count_viol lvl agg l'
  end.

(* How many violations of the rule under observation a run gives when the rule is on.  `report`: one
   per linted file.  The aggregate report runs when more than one file is linted or aggregates are
   supplied (which then REPLACE those of the run itself); the custom rule's aggregate_report gives one
   violation, the bundled one (imports/unresolved-import) one per file the aggregates stem from. *)
Definition expected_file_violations (l : lcase) : nat :=
  if ec_has_report (lc_case l) then lc_files l else 0%nat.

Definition expected_agg_violations (l : lcase) : nat :=
  let c := lc_case l in
  let phase_runs := Nat.ltb 0 (lc_foreign l) || Nat.ltb 1 (lc_files l) in
  if ec_has_agg c && phase_runs
  then (if ec_is_custom c then 1 else if Nat.ltb 0 (lc_foreign l) then lc_foreign l else lc_files l)%nat
  else 0%nat.

Definition no_violations (l : lcase) : bool := match lc_violations l with [] => true | _ => false end.

Definition lint_agrees (l : lcase) : bool :=
  let c := lcase_full_ok l in
  lc_validation_error l || negb (ec_triggered c) ||
  match model_level_if_on c with
  | None => no_violations l
  | Some lvl =>
      Nat.eqb (count_viol lvl false (lc_violations l)) (expected_file_violations l)
      && Nat.eqb (count_viol lvl true (lc_violations l)) (expected_agg_violations l)
      && Nat.eqb (length (lc_violations l)) (expected_file_violations l + expected_agg_violations l)
  end.

(* the README decision on what Lint returned: an Off rule contributes nothing, whatever aggregates were
   supplied; an On rule reports (when the run gives its bodies anything to report on), always at the
   decided level *)
Definition lint_meets_spec (l : lcase) : bool :=
  let c := lcase_full_ok l in
  lc_validation_error l || negb (ec_triggered c) ||
  match spec_default c with
  | None => true
  | Some d =>
      let dec := spec_decision (ec_params c) (ec_cat c) (ec_title c)
                               (spec_user_level (ec_user c) (ec_cat c) (ec_title c) d) in
      match dec with
      | Off => no_violations l
      | On lvl => Bool.eqb (no_violations l)
                           (Nat.eqb (expected_file_violations l + expected_agg_violations l) 0)
                  && forallb (fun va => str_eqb (fst va) lvl) (lc_violations l)
      end
  end.

Definition enabled_agrees (l : lcase) : bool :=
  let c := lcase_full_ok l in
  same_set (lc_enabled l)
           (determine_enabled_rules (ec_params c) (merged_of c) bundled_rules
                                    (fun cat t => pair_in cat t (lc_noticed l)) (ec_custom c)).

Definition enabled_agg_agrees (l : lcase) : bool :=
  let c := lcase_full_ok l in
  negb (lc_check_agg l) ||
  same_set (lc_enabled_agg l)
           (determine_enabled_aggregate_rules (ec_params c) (merged_of c) (lc_aggregate_rules l)
                                              (lc_custom_aggregate l)).

(* the property on the implementation's own outputs: the list computed up front is exactly the
   bundled rules main.rego would run (_rules_to_run also lists configured names that are not bundled
   rules; they run nothing) and that have no notice, plus the custom rules that report *)
Definition enabled_is_runnable (l : lcase) : bool :=
  negb (lc_full l) ||
  same_set (lc_enabled l)
           (map snd (filter (fun ct => pair_in (fst ct) (snd ct) bundled_rules
                                       && negb (pair_in (fst ct) (snd ct) (lc_noticed l))) (lc_to_run l))
            ++ lc_custom_reporting l).

(* the same for the aggregate rules: with aggregates of every rule supplied, the rule under observation
   is in DetermineEnabledAggregateRules exactly when its aggregate_report contributed a violation *)
Definition enabled_agg_is_reporting (l : lcase) : bool :=
  let c := lc_case l in
  negb (lc_check_agg l) || lc_validation_error l || negb (ec_triggered c) || negb (ec_has_agg c)
  || Nat.eqb (lc_foreign l) 0
  || Bool.eqb (str_in (ec_title c) (lc_enabled_agg l))
              (existsb (fun va => snd va) (lc_violations l)).

Definition lcase_agrees (l : lcase) : bool :=
  case_agrees (lcase_full_ok l) && lint_agrees l && enabled_agrees l && enabled_agg_agrees l.

(* indices into a table of names (keeps the generated case files small) *)
Definition names_at (tbl : list (str * str)) (ix : list nat) : list (str * str) :=
  flat_map (fun i => match nth_error tbl i with Some ct => [ct] | None => [] end) ix.

(* ---------------------------------------------------------------------------------------------- *)
(* the exhaustive function-level table, computed once at build time (Check/C04Table.v) instead of
   per run: for every input of the finite abstraction, the model's observable outputs and the
   README decision, 4 characters per case.  tools/props/c04.py builds the same characters from what
   /repo did and compares.  Enumeration order: k, p, then (u, c, g, f | no user config: f). *)
Definition code_of_level (o : option str) : N :=
  match o with
  | None => 0
  | Some l => if str_eqb l [] then 1 else if str_eqb l s_ignore then 2
              else if str_eqb l s_warning then 3 else if str_eqb l s_error then 4 else 5
  end.

Definition bN (x : bool) : N := if x then 1 else 0.

(* k: 0 the bundled rule bugs/constant-condition (`report` only), 1 the custom rule naming/my-rule
   (`report`, `aggregate`, `aggregate_report`), 2 the bundled aggregate rule imports/unresolved-import
   (`aggregate`, `aggregate_report`) *)
Definition fn_input_case (k p u c g nu f : N) : ecase :=
  let custom := N.eqb k 1 in
  let cat := match k with 0 => B_CAT | 1 => C_CAT | _ => A_CAT end in
  let title := match k with 0 => B_TITLE | 1 => C_TITLE | _ => A_TITLE end in
  let decoy := N.odd (p + u + c + g + f) in
  mkCase (if custom then provided_of_code B_CAT B_TITLE 4 else provided_of_code cat title p)
         (if nz nu then None else Some (user_of_codes cat title u c g))
         [(C_CAT, C_TITLE)]
         (params_of_flags cat title f decoy)
         cat title custom true (negb (N.eqb k 2)) (nz k)
         (mkObs None false false false [] false None false None None).

Definition spec_code (c : ecase) : N :=
  match spec_default c with
  | None => 0
  | Some d =>
      match spec_decision (ec_params c) (ec_cat c) (ec_title c)
                          (spec_user_level (ec_user c) (ec_cat c) (ec_title c) d) with
      | Off => 1
      | On l => 1 + code_of_level (Some l)
      end
  end.

(* five characters per case (codes below 48, from "0"): what the model says was observed (1, 2, 3, 5)
   and the README decision (4) *)
Definition chr (n : N) : ascii := ascii_of_N (48 + n).

Definition fn_entry (c : ecase) : string :=
  let o := model_obs c in
  String (chr (code_of_level (ob_go_entry o) + 6 * bN (ob_ignored o) + 12 * bN (ob_fd o) + 24 * bN (ob_fe o)))
  (String (chr (code_of_level (Some (ob_level o)) + 6 * bN (ob_to_run o) + 12 * bN (ob_aggregated o)))
  (String (chr (code_of_level (ob_reported o) + 6 * code_of_level (ob_agg_reported o)))
  (String (chr (spec_code c))
  (String (chr (code_of_level (ob_agg_reported_foreign o))) EmptyString)))).

Definition range (n : nat) : list N := map N.of_nat (seq 0 n).

(* one chunk per (k, p, u) and one per (k, p) without user configuration, so that no single string
   constant gets too deep for the checker's stack *)
Definition fn_inputs_chunk (k p u : N) : list ecase :=
  flat_map (fun c => flat_map (fun g => map (fun f => fn_input_case k p u c g 0 f) (range 64)) (range 4))
           (range 5).

Definition fn_inputs_nouser (k p : N) : list ecase := map (fun f => fn_input_case k p 0 0 0 1 f) (range 64).

Fixpoint concat_strings (l : list string) : string :=
  match l with [] => EmptyString | s :: l' => append s (concat_strings l') end.

Definition fn_table_chunk (k p u : N) : string := concat_strings (map fn_entry (fn_inputs_chunk k p u)).
Definition fn_table_nouser (k p : N) : string := concat_strings (map fn_entry (fn_inputs_nouser k p)).

(* The comparison of a chunk of that table with what /repo did happens here (printing the table for a
   comparison outside would cost Coq ~40 us per character).  [got] is built by tools/props/c04.py from the
   observations in the same format; its 4th character is python's own reading of the README.  Three
   verdicts per case:
     model  characters 1, 2, 3, 5 differ: model and implementation disagree
     spec   the README decision (4th character of the table: "0" outside the domain, "1" off, else 1 + level
            code) is not what the implementation's entry points did: `report` (has_report), `aggregate`,
            `aggregate_report` on the aggregates of the same run and on supplied ones (has_agg)
     glue   python and Coq read the README differently *)
Definition code_at (a : ascii) : N := N_of_ascii a - 48.

Definition entry_verdicts (has_report has_agg : bool) (w1 w2 w3 w4 w5 g1 g2 g3 g4 g5 : ascii)
  : bool * bool * bool :=
  let model_ok := Ascii.eqb w1 g1 && Ascii.eqb w2 g2 && Ascii.eqb w3 g3 && Ascii.eqb w5 g5 in
  let dec := code_at w4 - 1 in
  let spec_ok :=
      N.eqb (code_at w4) 0 ||
      ((negb has_report || N.eqb (code_at g3 mod 6) dec)
       && (negb has_agg
           || (N.eqb ((code_at g2 / 12) mod 2) (if N.eqb dec 0 then 0 else 1)
               && N.eqb (code_at g3 / 6) dec && N.eqb (code_at g5) dec))) in
  (model_ok, spec_ok, Ascii.eqb w4 g4).

(* indices (from [i]) of the cases failing each verdict; a [got] of the wrong length fails everywhere *)
Fixpoint chunk_failing (has_report has_agg : bool) (want got : string) (i : nat)
  : list nat * list nat * list nat :=
  match want, got with
  | String w1 (String w2 (String w3 (String w4 (String w5 want')))),
    String g1 (String g2 (String g3 (String g4 (String g5 got')))) =>
      let '(m, sp, gl) := entry_verdicts has_report has_agg w1 w2 w3 w4 w5 g1 g2 g3 g4 g5 in
      let '(ms, sps, gls) := chunk_failing has_report has_agg want' got' (S i) in
      ((if m then ms else i :: ms), (if sp then sps else i :: sps), (if gl then gls else i :: gls))
  | EmptyString, EmptyString => ([], [], [])
  | _, _ => ([i], [i], [i])
  end.

(* number of cases of the table that lie in the domain of the README decision *)
Fixpoint chunk_in_domain (want : string) (acc : N) : N :=
  match want with
  | String _ (String _ (String _ (String w4 (String _ want')))) =>
      chunk_in_domain want' (if N.eqb (code_at w4) 0 then acc else acc + 1)
  | _ => acc
  end.

Fixpoint chunks_failing (l : list (bool * bool * string * string)) (i : nat)
  : list nat * list nat * list nat :=
  match l with
  | [] => ([], [], [])
  | (hr, ha, want, got) :: l' =>
      let '(m, sp, gl) := chunk_failing hr ha want got i in
      let '(ms, sps, gls) := chunks_failing l' (i + Nat.div (String.length want) 5) in
      ((m ++ ms)%list, (sp ++ sps)%list, (gl ++ gls)%list)
  end.
