(* Executable comparison functions for the C18 correspondence: the harness writes what /repo did
   (config.FindConfig & co on real trees, the real `regal lint`, yaml decoding, the real
   mergo-based LoadConfigWithDefaultsFromBundle, yaml round trips) as data; these functions
   compare it with the models and evaluate the property on the observed outputs. No theorems. *)
From Regal Require Export Model.FindConfig Model.ConfigMerge.
Local Open Scope N_scope.

Fixpoint failing {A} (p : A -> bool) (i : nat) (l : list A) : list nat :=
  match l with
  | [] => []
  | x :: l' => if p x then failing p (S i) l' else i :: failing p (S i) l'
  end.

(* ---------------- trees ---------------- *)

Definition find_err_eqb (a b : find_err) : bool :=
  match a, b with
  | ENotFound, ENotFound | EConflict, EConflict | ENoConfigInDir, ENoConfigInDir
  | EOutOfFuel, EOutOfFuel => true
  | _, _ => false
  end.

Definition find_result_eqb (a b : find_result) : bool :=
  match a, b with
  | FFound p, FFound q => str_eqb p q
  | FErr e, FErr f => find_err_eqb e f
  | _, _ => false
  end.

Definition up_result_eqb (a b : up_result) : bool :=
  match a, b with
  | UFound p, UFound q => str_eqb p q
  | UNone, UNone | UFuel, UFuel => true
  | _, _ => false
  end.

Definition cli_choice_eqb (a b : cli_choice) : bool :=
  match a, b with
  | UseFile p, UseFile q => str_eqb p q
  | UseGlobal, UseGlobal | UseDefaults, UseDefaults | Fatal, Fatal => true
  | _, _ => false
  end.

Record tree_case := {
  tc_root : contents;                 (* contents of "/" (always empty on the test machine) *)
  tc_levels : levels;                 (* every directory from "/" down to the start directory *)
  tc_file : option str;               (* the search was started from this file of the start directory *)
  tc_cwd : str;                       (* working directory of the call *)
  tc_arg : str;                       (* the start path as it was spelled *)
  tc_found : find_result;             (* config.FindConfig *)
  tc_dir : up_result;                 (* config.FindRegalDirectory *)
  tc_yaml : up_result;                (* config.FindRegalConfigFile *)
  tc_cli : option (bool * bool * cli_choice) }.  (* ~/.config/regal exists, config.yaml in it, what lint used *)

Definition tc_fs (t : tree_case) : fsys := fs_of_chain (tc_root t) (tc_levels t) (tc_file t).
Definition tc_start (t : tree_case) : str := start_path (tc_levels t) (tc_file t).

Definition tree_model_ok (t : tree_case) : bool :=
  find_result_eqb (find_config (tc_fs t) (tc_cwd t) (tc_arg t)) (tc_found t) &&
  up_result_eqb (find_regal_directory (tc_fs t) (tc_cwd t) (tc_arg t)) (tc_dir t) &&
  up_result_eqb (find_regal_config_file (tc_fs t) (tc_cwd t) (tc_arg t)) (tc_yaml t).

Definition tree_cli_model_ok (t : tree_case) : bool :=
  match tc_cli t with
  | None => true
  | Some (gd, gc, choice) => cli_choice_eqb (cli_config None (tc_found t) gd gc) choice
  end.

(* the property on the observed result: the closest directory holding either kind decides *)
Definition spec_find (c0 : contents) (lv : levels) : find_result :=
  match nearest holds [] c0 lv with
  | Some (p, c) => outcome_at p c
  | None => FErr ENotFound
  end.

Definition tree_spec_ok (t : tree_case) : bool :=
  find_result_eqb (tc_found t) (spec_find (tc_root t) (tc_levels t)).

(* the strict reading of the property (and of the README): only configuration FILES count, a
   .regal/ directory without config.yaml is not a configuration *)
Definition outcome_file_at (here : list str) (c : contents) : find_result :=
  match c_regal c, holds_yaml c with
  | RDir true, true => FErr EConflict
  | _, true => FFound (path_of_names (here ++ [REGAL_YAML]))
  | RDir true, false => FFound (path_of_names (here ++ [REGAL; CONFIG_YAML]))
  | _, false => FErr ENotFound
  end.

Definition spec_find_file (c0 : contents) (lv : levels) : find_result :=
  match nearest holds_file [] c0 lv with
  | Some (p, c) => outcome_file_at p c
  | None => FErr ENotFound
  end.

Definition tree_file_spec_ok (t : tree_case) : bool :=
  find_result_eqb (tc_found t) (spec_find_file (tc_root t) (tc_levels t)).

(* "else the user-level file, else the defaults" and "both in one directory is an error" as the
   property states them for the command line *)
Definition spec_cli (found : find_result) (gd gc : bool) : cli_choice :=
  match found with
  | FFound p => UseFile p
  | FErr EConflict => Fatal
  | FErr _ => if gd && gc then UseGlobal else UseDefaults
  end.

Definition tree_cli_spec_ok (t : tree_case) : bool :=
  match tc_cli t with
  | None => true
  | Some (gd, gc, choice) =>
      cli_choice_eqb choice (spec_cli (spec_find (tc_root t) (tc_levels t)) gd gc)
  end.

(* chain names must be ordinary (the theorems' hypothesis), decidable version *)
Definition plain_nameb (n : str) : bool :=
  negb (str_eqb n []) && negb (existsb (N.eqb SLASH) n) && negb (str_eqb n [DOT]) &&
  negb (str_eqb n dotdot) && negb (str_eqb n REGAL) && negb (str_eqb n REGAL_YAML).

Definition tree_in_domain (t : tree_case) : bool :=
  forallb plain_nameb (names (tc_levels t)) &&
  match tc_file t with Some f => plain_nameb f | None => true end &&
  str_eqb (abs_path (tc_cwd t) (tc_arg t)) (tc_start t).

(* ---------------- configurations ---------------- *)

Fixpoint jval_eqb (a b : jval) {struct a} : bool :=
  match a, b with
  | JNull, JNull => true
  | JBool x, JBool y => Bool.eqb x y
  | JNum x, JNum y => Z.eqb x y
  | JStr x, JStr y => str_eqb x y
  | JArr l1, JArr l2 =>
      (fix go (l1 l2 : list jval) {struct l1} : bool :=
         match l1, l2 with
         | [], [] => true
         | x :: l1', y :: l2' => jval_eqb x y && go l1' l2'
         | _, _ => false
         end) l1 l2
  | JObj m1, JObj m2 =>
      Nat.eqb (length m1) (length m2) &&
      (fix go (m : list (str * jval)) {struct m} : bool :=
         match m with
         | [] => true
         | (k, v) :: m' =>
             match aget m2 k with Some v' => jval_eqb v v' | None => false end && go m'
         end) m1
  | _, _ => false
  end.

(* maps with distinct keys, compared regardless of order *)
(* ([if] rather than [&&]: vm_compute evaluates both arguments of [andb]) *)
Definition amap_eqb {A} (veq : A -> A -> bool) (m1 m2 : list (str * A)) : bool :=
  if Nat.eqb (length m1) (length m2)
  then forallb (fun kv => match aget m2 (fst kv) with Some v' => veq (snd kv) v' | None => false end) m1
  else false.

Fixpoint list_eqb {A} (eq : A -> A -> bool) (a b : list A) : bool :=
  match a, b with
  | [], [] => true
  | x :: a', y :: b' => if eq x y then list_eqb eq a' b' else false
  | _, _ => false
  end.

Definition option_eqb {A} (eq : A -> A -> bool) (a b : option A) : bool :=
  match a, b with
  | None, None => true
  | Some x, Some y => eq x y
  | _, _ => false
  end.

Definition rule_eqb (a b : rule) : bool :=
  str_eqb (r_level a) (r_level b) &&
  option_eqb (list_eqb str_eqb) (r_ignore a) (r_ignore b) &&
  amap_eqb jval_eqb (r_extra a) (r_extra b).

Definition rules_eqb (a b : list (str * category)) : bool := amap_eqb (amap_eqb rule_eqb) a b.

Definition root_eqb (a b : root) : bool :=
  str_eqb (rt_path a) (rt_path b) && option_eqb Z.eqb (rt_ver a) (rt_ver b).

Definition project_eqb (a b : project) : bool :=
  option_eqb (list_eqb root_eqb) (p_roots a) (p_roots b) && option_eqb Z.eqb (p_ver a) (p_ver b).

Definition defaults_eqb (a b : defaults) : bool :=
  str_eqb (d_global a) (d_global b) && amap_eqb str_eqb (d_cats a) (d_cats b).

(* same entries in the same order (the common case, linear), else as maps *)
Definition caps_eqb (a b : caps) : bool :=
  if list_eqb (fun x y => if str_eqb (fst x) (fst y) then str_eqb (snd x) (snd y) else false) a b
  then true else amap_eqb str_eqb a b.

(* everything but the capabilities *)
Definition config_eqb_nocaps (a b : config) : bool :=
  defaults_eqb (c_defaults a) (c_defaults b) &&
  rules_eqb (c_rules a) (c_rules b) &&
  option_eqb (option_eqb Bool.eqb) (c_features a) (c_features b) &&
  option_eqb project_eqb (c_project a) (c_project b) &&
  str_eqb (c_caps_url a) (c_caps_url b) &&
  list_eqb str_eqb (c_ignore a) (c_ignore b).

Definition config_eqb (a b : config) : bool :=
  if config_eqb_nocaps a b then option_eqb caps_eqb (c_caps a) (c_caps b) else false.

Definition uerr_eqb (a b : uerr) : bool :=
  match a, b with
  | EDecode, EDecode | ENotAMap, ENotAMap | EIgnoreShape, EIgnoreShape
  | ECapsExclusive, ECapsExclusive | ECapsVersion, ECapsVersion | ECapsLookup, ECapsLookup => true
  | _, _ => false
  end.

(* [full] = false: the (large) capability lists are not compared (cases whose document has no
   capabilities section; the harness compares those with the default table itself) *)
Definition result_eqb (full : bool) (a b : result config) : bool :=
  match a, b with
  | Ok x, Ok y => if full then config_eqb x y else config_eqb_nocaps x y
  | Err e, Err f => uerr_eqb e f
  | _, _ => false
  end.

(* --- yaml decoding --- *)

Record unmarshal_case := { uc_full : bool; uc_doc : jval; uc_got : result config }.

Definition lookup_of (tbl : list (str * caps)) (url : str) : option caps := aget tbl url.
Definition abs_id (p : str) : str := p.      (* the harness only uses absolute paths *)

Definition unmarshal_ok (tbl : list (str * caps)) (dash : bool) (c : unmarshal_case) : bool :=
  result_eqb (uc_full c) (unmarshal (lookup_of tbl) abs_id dash (uc_doc c)) (uc_got c).

(* --- merge --- *)

Record merge_case := {
  mc_full : bool; mc_provided : config; mc_user : config; mc_merged : config; mc_dcaps : caps }.

Definition cfg_eqb (full : bool) (a b : config) : bool :=
  if full then config_eqb a b else config_eqb_nocaps a b.

Definition merge_model_ok (c : merge_case) : bool :=
  cfg_eqb (mc_full c) (load (mc_provided c) (Some (mc_user c)) (mc_dcaps c)) (mc_merged c).

Definition pinned_merge_model_ok (c : merge_case) : bool :=
  cfg_eqb (mc_full c) (load_pinned (mc_provided c) (Some (mc_user c)) (mc_dcaps c)) (mc_merged c).

(* the property evaluated on the observed merge: whatever the user did not write keeps its
   provided value *)
Definition user_rule (u : config) (cat name : str) : option rule := get_rule u cat name.

Definition user_level_written (u : config) (cat name : str) : bool :=
  match user_rule u cat name with Some r => nonempty (r_level r) | None => false end
  || (match aget (d_cats (c_defaults u)) cat with Some l => nonempty l | None => false end)
  || nonempty (d_global (c_defaults u)).

Definition only_overrides_rule (p u m : config) (cat name : str) (pr : rule) : bool :=
  match get_rule m cat name with
  | None => false
  | Some mr =>
      forallb (fun kv =>
        match user_rule u cat name with
        | Some ur => match aget (r_extra ur) (fst kv) with Some _ => true | None =>
                       option_eqb jval_eqb (aget (r_extra mr) (fst kv)) (Some (snd kv)) end
        | None => option_eqb jval_eqb (aget (r_extra mr) (fst kv)) (Some (snd kv))
        end) (r_extra pr) &&
      (match user_rule u cat name with
       | Some {| r_ignore := Some _ |} => true
       | _ => option_eqb (list_eqb str_eqb) (r_ignore mr) (r_ignore pr)
       end) &&
      (user_level_written u cat name || str_eqb (r_level mr) (r_level pr))
  end.

Definition only_overrides_b (p u m : config) : bool :=
  forallb (fun cr => forallb (fun nr => only_overrides_rule p u m (fst cr) (fst nr) (snd nr)) (snd cr))
          (c_rules p) &&
  (nonempty_list (c_ignore u) || list_eqb str_eqb (c_ignore m) (c_ignore p)) &&
  (match c_project u with Some _ => true | None => option_eqb project_eqb (c_project m) (c_project p) end) &&
  (match c_features u with Some _ => true | None =>
     option_eqb (option_eqb Bool.eqb) (c_features m) (c_features p) end) &&
  (nonempty (c_caps_url u) || str_eqb (c_caps_url m) (c_caps_url p)).

Definition merge_spec_ok (c : merge_case) : bool :=
  only_overrides_b (mc_provided c) (mc_user c) (mc_merged c).

Definition merge_in_domain (c : merge_case) : bool :=
  provided_wf (mc_provided c) && config_wf (mc_user c).

(* --- yaml round trip --- *)

Record roundtrip_case := {
  rc_full : bool;
  rc_config : config;
  rc_doc : option jval;           (* what yaml.Marshal wrote, "capabilities" removed; None = error *)
  rc_reloaded : result config }.  (* what yaml.Unmarshal made of it *)

Definition strip_caps (j : jval) : jval :=
  match j with JObj m => JObj (adel m CAPABILITIES) | _ => j end.

Definition marshal_model_ok (c : roundtrip_case) : bool :=
  match marshal (rc_config c), rc_doc c with
  | Some j, Some d => jval_eqb (strip_caps j) d && jval_eqb d (strip_caps j)
  | None, None => true
  | _, _ => false
  end.

Definition reload_model_ok (tbl : list (str * caps)) (dash : bool) (c : roundtrip_case) : bool :=
  match marshal (rc_config c) with
  | Some j => result_eqb (rc_full c) (unmarshal (lookup_of tbl) abs_id dash j) (rc_reloaded c)
  | None => true
  end.

(* the property on the observed reload: the same configuration, up to an empty per-rule ignore
   list; the capabilities (and their URL) are compared separately *)
Definition same_config_nocaps (a b : config) : bool :=
  defaults_eqb (c_defaults a) (c_defaults b) &&
  rules_eqb (norm_rules (c_rules a)) (norm_rules (c_rules b)) &&
  option_eqb (option_eqb Bool.eqb) (c_features a) (c_features b) &&
  option_eqb project_eqb (c_project a) (c_project b) &&
  list_eqb str_eqb (c_ignore a) (c_ignore b).

Definition roundtrip_spec_ok (c : roundtrip_case) : bool :=
  match rc_reloaded c with
  | Ok r => same_config_nocaps (rc_config c) r
  | Err _ => false
  end.

Definition roundtrip_caps_ok (c : roundtrip_case) : bool :=
  match rc_reloaded c with
  | Ok r => if str_eqb (c_caps_url (rc_config c)) (c_caps_url r)
            then (if rc_full c then option_eqb caps_eqb (c_caps (rc_config c)) (c_caps r) else true)
            else false
  | Err _ => false
  end.

Definition roundtrip_in_domain (c : roundtrip_case) : bool := roundtrip_wf (rc_config c).
