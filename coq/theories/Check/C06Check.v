(* Executable comparison functions for the C06 correspondence.  The harness writes what /repo did
   (OPA on the embedded bundle for the helpers, linter.Lint for the end-to-end cases) as data; these
   functions compare it with Model/Directive.v.  No theorems here. *)
From Regal Require Export Model.Directive Model.AggPipeline Model.AggCache.

Fixpoint failing {A} (p : A -> bool) (i : nat) (l : list A) {struct l} : list nat :=
  match l with
  | [] => []
  | x :: l' => if p x then failing p (S i) l' else i :: failing p (S i) l'
  end.

Definition entry_eqb (a b : N * list str) : bool := (fst a =? fst b) && names_eqb (snd a) (snd b).

Definition sub_entries (a b : dirmap) : bool := forallb (fun x => existsb (entry_eqb x) b) a.
Definition dirmap_same (a b : dirmap) : bool := sub_entries a b && sub_entries b a.

(* ---- helper level: data.regal.ast.ignore_directives ---- *)
Inductive dir_obs := ObsMap (m : dirmap) | ObsConflict.
Record dir_case := { dc_comments : list comment; dc_obs : dir_obs }.

Definition dir_agrees (c : dir_case) : bool :=
  match ignore_directives (dc_comments c), dc_obs c with
  | DirOk m, ObsMap o => dirmap_same m o
  | DirConflict, ObsConflict => true
  | _, _ => false
  end.

(* ---- helper level: data.regal.main._ignored(v, ignore_directives) ---- *)
Record ign_case := { ic_comments : list comment; ic_v : violation; ic_obs : bool }.

Definition ign_agrees (c : ign_case) : bool :=
  match ignore_directives (ic_comments c) with
  | DirOk m => Bool.eqb (ignored (ic_v c) m) (ic_obs c)
  | DirConflict => true     (* evaluation error: covered by dir_agrees *)
  end.

(* the characterisation proved as [ignored_iff], evaluated on the same data (redundant with the proof;
   shows the statement and the code agree on real inputs) *)
Definition ign_spec (cs : list comment) (v : violation) : bool :=
  match v_row v with
  | None => false
  | Some r =>
    existsb (fun c => match directive_names (c_text c) with
                      | Some ns => str_in (v_title v) ns && ((c_row c =? r) || (c_row c + 1 =? r))
                      | None => false
                      end) cs
  end.

Definition ign_meets_spec (c : ign_case) : bool :=
  match ignore_directives (ic_comments c) with
  | DirOk _ => Bool.eqb (ign_spec (ic_comments c) (ic_v c)) (ic_obs c)
  | DirConflict => true
  end.

(* ---- helper level: util.keys_to_numbers, via _ignored on the string-keyed object ---- *)
Record key_case := { kc_obj : strmap; kc_v : violation; kc_obs : bool }.
Definition key_agrees (c : key_case) : bool :=
  Bool.eqb (ignored (kc_v c) (keys_to_numbers (kc_obj c))) (kc_obs c).

(* what Go hands to the aggregate run for one file: JSON keys of lint.ignore_directives *)
Record carry_case := { cc_comments : list comment; cc_keys : list str }.
Definition carry_agrees (c : carry_case) : bool :=
  match ignore_directives (cc_comments c) with
  | DirOk m =>
      let ks := map fst (stringify m) in
      forallb (fun k => str_in k (cc_keys c)) ks && forallb (fun k => str_in k ks) (cc_keys c)
  | DirConflict => true
  end.

(* ---- end to end ---- *)
Definition viol_eqb (a b : violation) : bool :=
  str_eqb (v_cat a) (v_cat b) && str_eqb (v_title a) (v_title b) && str_eqb (v_file a) (v_file b) &&
  (match v_row a, v_row b with
   | Some x, Some y => x =? y
   | None, None => true
   | _, _ => false
   end) && (v_col a =? v_col b).

Fixpoint remove_first (v : violation) (l : list violation) {struct l} : option (list violation) :=
  match l with
  | [] => None
  | x :: l' => if viol_eqb v x then Some l'
               else match remove_first v l' with Some r => Some (x :: r) | None => None end
  end.

(* equality as multisets *)
Fixpoint same_violations (a b : list violation) {struct a} : bool :=
  match a with
  | [] => match b with [] => true | _ => false end
  | x :: a' => match remove_first x b with Some b' => same_violations a' b' | None => false end
  end.

Inductive placement := PAbove | PSameLine | PTwoAbove | PBelow.

(* one metamorphic case of a per-file rule (built-in or custom):
   the comments of the module as the parser sees them, its raw violations (the report of the same
   module with every directive marker defused), the report before, the target row, the directive
   text, and the comments / report after the edit *)
Record e2e_case := {
  e_comments : list comment;
  e_raw : list violation;
  e_before : list violation;
  e_place : placement;
  e_row : N;                (* row of the targeted violation *)
  e_dir : str;              (* text of the inserted comment, without '#' *)
  e_comments_after : list comment;
  e_raw_after : list violation;   (* report of the edited module with every marker defused *)
  e_after : list violation }.

Definition model_report (cs : list comment) (raw : list violation) : option (list violation) :=
  match ignore_directives cs with
  | DirOk m => Some (report_filter raw m)
  | DirConflict => None
  end.

(* row at which the new comment line is inserted / appended *)
Definition edit_row (p : placement) (r : N) : N :=
  match p with
  | PAbove => r
  | PSameLine => r
  | PTwoAbove => r - 1
  | PBelow => r + 1
  end.

(* " #" ++ d appended to a line that already ends in a comment extends that comment *)
Definition extend_comment (r : N) (d : str) (cs : list comment) : list comment :=
  map (fun x => if c_row x =? r then {| c_row := r; c_text := c_text x ++ [32; 35] ++ d |} else x) cs.

Definition edited_comments (c : e2e_case) : list comment :=
  match e_place c with
  | PSameLine =>
      if existsb (fun x => c_row x =? e_row c) (e_comments c)
      then extend_comment (e_row c) (e_dir c) (e_comments c)
      else append_comment (e_row c) (e_dir c) (e_comments c)
  | p => insert_comment_line (edit_row p (e_row c)) (e_dir c) (e_comments c)
  end.

Definition edited_raw (c : e2e_case) : list violation :=
  match e_place c with
  | PSameLine => e_raw c
  | p => map (shift_violation (edit_row p (e_row c))) (e_raw c)
  end.

(* the parser's comments after the edit are the model's (as sets of (row, text)) *)
Definition comment_eqb (a b : comment) : bool := (c_row a =? c_row b) && str_eqb (c_text a) (c_text b).
Definition comments_agree (c : e2e_case) : bool :=
  forallb (fun x => existsb (comment_eqb x) (e_comments_after c)) (edited_comments c) &&
  forallb (fun x => existsb (comment_eqb x) (edited_comments c)) (e_comments_after c).

Definition before_agrees (c : e2e_case) : bool :=
  match model_report (e_comments c) (e_raw c) with
  | Some r => same_violations r (e_before c)
  | None => false
  end.

(* the hypothesis H_shift / H_append of [insert_directive_effect], as observed *)
Definition hshift_holds (c : e2e_case) : bool := same_violations (edited_raw c) (e_raw_after c).

Definition after_agrees (c : e2e_case) : bool :=
  match model_report (edited_comments c) (e_raw_after c) with
  | Some r => same_violations r (e_after c)
  | None => false
  end.

(* the statement of [insert_directive_effect], computed from the *before* report alone
   (valid when no directive sits on the row above an inserted line, checked by the caller) *)
Definition predicted_after (c : e2e_case) : option (list violation) :=
  match directive_names (e_dir c) with
  | None => None
  | Some ns =>
    let named v := str_in (v_title v) ns in
    match e_place c with
    | PSameLine =>
        Some (filter (fun v => negb (named v && (at_row v (e_row c) || at_row v (e_row c + 1)))) (e_before c))
    | p =>
        let q := edit_row p (e_row c) in
        Some (map (shift_violation q) (filter (fun v => negb (named v && at_row v q)) (e_before c)))
    end
  end.

Definition no_directive_above (c : e2e_case) : bool :=
  match e_place c with
  | PSameLine => negb (existsb (fun x => c_row x =? e_row c) (e_comments c))
  | p => let q := edit_row p (e_row c) in
         negb (existsb (fun x => (c_row x + 1 =? q) &&
                                 match directive_names (c_text x) with Some _ => true | None => false end)
                       (e_comments c))
  end.

Definition prediction_agrees (c : e2e_case) : bool :=
  negb (no_directive_above c) || negb (hshift_holds c) ||
  match predicted_after c with
  | Some r => same_violations r (e_after c)
  | None => false
  end.

(* ---- aggregate rules: the directives seen by the aggregate report ---- *)
Record agg_case := {
  a_own : list (str * list comment);     (* files linted in the run that reports: name, comments *)
  a_given : list (str * list comment);   (* files whose exported directives were handed in (WithIgnoreDirectives) *)
  a_raw : list violation;                (* aggregate violations with every marker defused *)
  a_obs : list violation }.

Definition files_results (fs : list (str * list comment)) : option (list (str * dirmap)) :=
  fold_right (fun f acc => match ignore_directives (snd f), acc with
                           | DirOk m, Some l => Some ((fst f, m) :: l)
                           | _, _ => None
                           end) (Some []) fs.

Definition agg_agrees (c : agg_case) : bool :=
  match files_results (a_own c), files_results (a_given c) with
  | Some own, Some given =>
      let g := dirs_update (carry given) (carry own) in   (* Lint: provided map, overwritten by the run's own files *)
      same_violations (agg_report_filter (a_raw c) g) (a_obs c)
  | _, _ => false
  end.

(* maps file -> (row key -> names) compared as maps: same files (an entry with no directives is an entry), and for
   every file the same row keys with the same names *)
Definition strmap_sub (a b : strmap) : bool :=
  forallb (fun kv => existsb (fun kv' => str_eqb (fst kv) (fst kv') && names_eqb (snd kv) (snd kv')) b) a.
Definition strmap_same (a b : strmap) : bool := strmap_sub a b && strmap_sub b a.
Definition gomap_sub (a b : gomap) : bool :=
  forallb (fun fo => match gm_get b (fst fo) with Some o => strmap_same (snd fo) o | None => false end) a.
Definition gomap_same (a b : gomap) : bool := gomap_sub a b && gomap_sub b a.

(* ---- histories through the public API: directives handed from run to run (Model/AggCache.v, the api functions) ----
   The client lints [h_init] in one run with export, then re-lints one file at a time ([h_edits], in order) and
   updates ONE directive map from every run's Report.IgnoreDirectives.  Observed after the last edit: either a
   report-only run handed that map, or ([h_mixed]) the last re-lint done by the reporting run itself, which is
   handed the map as it was before (stale for the re-linted file). *)
Record hist_case := {
  h_init : list (str * list comment);
  h_edits : list (str * list comment);
  h_mixed : bool;
  h_export : gomap;            (* Report.IgnoreDirectives of the last run that linted files, as observed *)
  h_raw : list violation;      (* aggregate violations of the final contents with every marker defused *)
  h_obs : list violation }.

Definition HFile : Type := (str * list comment)%type.

Fixpoint last_opt {A} (l : list A) {struct l} : option A :=
  match l with
  | [] => None
  | [x] => Some x
  | _ :: l' => last_opt l'
  end.

Definition no_conflicts (fs : list HFile) : bool :=
  forallb (fun f => negb (dir_conflict (directive_entries (snd f)))) fs.

Definition hist_dirs (c : hist_case) : gomap :=
  if h_mixed c then
    match last_opt (h_edits c) with
    | Some f => lint_dirs HFile fst snd (snd (api_history HFile fst snd (h_init c) (removelast (h_edits c)))) [f]
    | None => lint_dirs HFile fst snd [] (h_init c)
    end
  else lint_dirs HFile fst snd (snd (api_history HFile fst snd (h_init c) (h_edits c))) [].

Definition hist_agrees (c : hist_case) : bool :=
  no_conflicts (h_init c) && no_conflicts (h_edits c) &&
  same_violations (agg_report_filter (h_raw c) (hist_dirs c)) (h_obs c).

(* what the last run exported: an entry for every file it linted, the empty object for a file without directives *)
Definition hist_export_agrees (c : hist_case) : bool :=
  let linted := match last_opt (h_edits c) with Some f => [f] | None => h_init c end in
  gomap_same (exported_dirs HFile fst snd linted) (h_export c).

(* the statement of c06_incremental_directives_eq_fresh evaluated on the same data: the handed-on map decides like
   one run over the final contents *)
Definition hist_model_consistent (c : hist_case) : bool :=
  let final := files_after HFile fst (h_init c) (h_edits c) in
  same_violations (agg_report_filter (h_raw c) (hist_dirs c))
                  (agg_report_filter (h_raw c) (carry (file_results final))).

