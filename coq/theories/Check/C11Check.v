(* Executable comparison functions for the C11 correspondence: the harness writes what the fixes of
   /repo did on generated (content, locations) pairs and what the linter reported on generated
   modules; these functions compare that with Model/Fixes.v.  No theorems here. *)
From Regal Require Export Base.StrLit Base.Packed Model.Fixes.

Inductive fixk := KUao | KNwc | KNrr.

(* what the implementation did: nothing / new content / panicked / returned an error *)
Inductive ustatus := UNone | UChanged (out : str) | UPanic | UError.

Record unit_case := { u_fix : fixk; u_content : str; u_locs : list loc; u_obs : ustatus }.

Definition model_fix (k : fixk) : str -> list loc -> fix_out :=
  match k with KUao => uao_fix | KNwc => nwc_fix | KNrr => nrr_fix end.

Definition model_unit (c : unit_case) : ustatus :=
  match model_fix (u_fix c) (u_content c) (u_locs c) with
  | Unchanged => UNone
  | Changed x => UChanged x
  end.

Definition ustatus_eqb (a b : ustatus) : bool :=
  match a, b with
  | UNone, UNone | UPanic, UPanic | UError, UError => true
  | UChanged x, UChanged y => str_eqb x y
  | _, _ => false
  end.

Definition unit_agrees (c : unit_case) : bool := ustatus_eqb (model_unit c) (u_obs c).

Fixpoint failing {A} (p : A -> bool) (i : nat) (l : list A) : list nat :=
  match l with
  | [] => []
  | x :: l' => if p x then failing p (S i) l' else i :: failing p (S i) l'
  end.

(* ---- what the linter reported on a module ---- *)

Inductive vkind := VUao | VNwc | VNrr | VOther.
Record viol := { v_kind : vkind; v_row : Z; v_col : Z }.
Record head := { h_row : Z; h_col : Z; h_vrow : Z; h_vcol : Z; h_assign : bool }.

Record mod_case := {
  m_content : str;
  m_viol : list viol;
  m_heads : list head;          (* every rule head, else branches included *)
  m_comments : list (Z * Z);    (* (row, col) of every comment, from the parser *)
  m_strings : list (Z * Z * bool) (* (row, col, raw) of string terms on one row, from the parser *) }.

(* input.regal.file.lines: strings.Split(strings.ReplaceAll(content, "\r\n", "\n"), "\n") *)
Definition rule_lines (content : str) : list str :=
  lines_of (replace_all content [CR; NL] [NL]).

(* a use-assignment-operator violation is either the operator found before the value of some
   head by [operator_col], or the fallback: the location of a head *)
Definition uao_viol_explained (m : mod_case) (v : viol) : bool :=
  existsb (fun h =>
             ((h_vrow h =? v_row v)%Z &&
              match get_line (rule_lines (m_content m)) (h_vrow h) with
              | Some line => match operator_col line (h_vcol h) with
                             | Some c => (c =? v_col v)%Z
                             | None => false
                             end
              | None => false
              end)
             || ((h_row h =? v_row v)%Z && (h_col h =? v_col v)%Z
                 && match get_line (rule_lines (m_content m)) (h_vrow h) with
                    | Some line => match operator_col line (h_vcol h) with
                                   | Some _ => false | None => true end
                    | None => true
                    end))
          (m_heads m).

Definition is_fallback (m : mod_case) (v : viol) : bool :=
  existsb (fun h => (h_row h =? v_row v)%Z && (h_col h =? v_col v)%Z
                    && match get_line (rule_lines (m_content m)) (h_vrow h) with
                       | Some line => match operator_col line (h_vcol h) with
                                      | Some _ => false | None => true end
                       | None => true
                       end) (m_heads m).

(* absolute byte offset of (row, col) in the content, rows split on NL as the fixes do *)
Fixpoint offset_rows (ls : list str) (n : nat) : nat :=
  match n, ls with
  | O, _ => O
  | S k, l :: t => S (length l) + offset_rows t k
  | S _, [] => O
  end.

Definition offset_of (content : str) (row col : Z) : option nat :=
  let ls := lines_of content in
  match get_line ls row with
  | Some line => match byte_index_of_column line col with
                 | Some i => Some (offset_rows ls (Z.to_nat (row - 1)) + i)%nat
                 | None => None
                 end
  | None => None
  end.

(* the byte at (row, col) is [c] and is read in lexer state Code *)
Definition code_byte_at (content : str) (row col : Z) (c : N) : bool :=
  match offset_of content row col with
  | Some o => match nth_error content o with
              | Some b => (b =? c) && lex_eqb (lex_state (firstn o content)) LCode
              | None => false
              end
  | None => false
  end.

(* the property predicate on the linter's output, evaluated with the model's lexer:
   every location handed to a text fix is the byte the fix is documented to edit, in code *)
(* the hypothesis of the termination theorem about no-whitespace-comment (Proofs.Fixes.nwc_reported):
   the reported '#' is directly followed, on its line, by a character that is not a blank *)
Definition nwc_reported_b (content : str) (row col : Z) : bool :=
  match get_line (lines_of content) row with
  | Some line => match byte_index_of_column line col with
                 | Some idx => match nth_error line (S idx) with
                               | Some d => negb (is_blank d)
                               | None => false
                               end
                 | None => false
                 end
  | None => false
  end.

Definition viol_targets_code (m : mod_case) (v : viol) : bool :=
  match v_kind v with
  | VUao => is_fallback m v || code_byte_at (m_content m) (v_row v) (v_col v) EQ
  | VNwc => code_byte_at (m_content m) (v_row v) (v_col v) HASH
            && nwc_reported_b (m_content m) (v_row v) (v_col v)
  | VNrr => code_byte_at (m_content m) (v_row v) (v_col v) DQ
  | VOther => true
  end.

Definition viol_explained (m : mod_case) (v : viol) : bool :=
  match v_kind v with
  | VUao => uao_viol_explained m v
  | _ => true
  end.

(* the lexer used in the statements agrees with the parser on where comments and strings start *)
Definition lexer_agrees (m : mod_case) : bool :=
  forallb (fun rc => code_byte_at (m_content m) (fst rc) (snd rc) HASH) (m_comments m)
  && forallb (fun rcr : Z * Z * bool =>
                code_byte_at (m_content m) (fst (fst rcr)) (snd (fst rcr))
                             (if snd rcr then BT else DQ)) (m_strings m).

Definition mod_ok (m : mod_case) : bool :=
  forallb (viol_explained m) (m_viol m) && forallb (viol_targets_code m) (m_viol m) && lexer_agrees m.

(* detail for one module: (unexplained violations, violations not targeting code, lexer ok) *)
Definition mod_report (m : mod_case) : list nat * list nat * bool :=
  (failing (viol_explained m) 0 (m_viol m), failing (viol_targets_code m) 0 (m_viol m), lexer_agrees m).

(* ---- sequences of calls on ONE instance of the Fmt fix (opa-fmt / use-rego-v1) ----
   The harness takes the instance the fixer would use (fixes.NewDefaultFixes()) or one built with given
   options, calls Fix for a list of candidates in order and records after every call what was returned
   and the RegoVersion left in the options.  The oracles of the model are tabulated by the harness
   without the fix: its own parse of the candidate (the module's version) and OPA's formatter called
   directly for every target version. *)
Record fmt_obs := {
  fo_cand : fmt_cand;
  fo_parsed : option rver;
  fo_table : list (rver * option str);
  fo_out : fmt_out;
  fo_state : rver }.

Record fmt_seq := { fq_init : rver; fq_other : N; fq_steps : list fmt_obs }.

Definition cand_is (v : rver) (name contents : str) (o : fmt_obs) : bool :=
  rver_eqb (fc_version (fo_cand o)) v && str_eqb (fc_name (fo_cand o)) name
  && str_eqb (fc_contents (fo_cand o)) contents.

Definition tab_parse (all : list fmt_obs) (v : rver) (name contents : str) : option rver :=
  match find (cand_is v name contents) all with
  | Some o => fo_parsed o
  | None => None
  end.

(* the table holds the formatter's output with the other options at their zero value *)
Definition tab_format (all : list fmt_obs) (target : rver) (other : N) (v : rver) (name contents : str)
  : option str :=
  if negb (other =? 0) then None else
  match find (cand_is v name contents) all with
  | Some o => match find (fun p => rver_eqb (fst p) target) (fo_table o) with
              | Some p => snd p
              | None => None
              end
  | None => None
  end.

Definition fmt_out_eqb (a b : fmt_out) : bool :=
  match a, b with
  | FmtErr, FmtErr | FmtNone, FmtNone => true
  | FmtChanged x, FmtChanged y => str_eqb x y
  | _, _ => false
  end.

Fixpoint fmt_seq_go (all : list fmt_obs) (st : fmt_state) (steps : list fmt_obs) : bool :=
  match steps with
  | [] => true
  | o :: t =>
      let r := fmt_fix (tab_parse all) (tab_format all) st (fo_cand o) in
      fmt_out_eqb (snd r) (fo_out o) && rver_eqb (fs_version (fst r)) (fo_state o)
      && fmt_seq_go all (fst r) t
  end.

Definition fmt_seq_agrees (q : fmt_seq) : bool :=
  (fq_other q =? 0)
  && fmt_seq_go (fq_steps q) {| fs_version := fq_init q; fs_other := fq_other q |} (fq_steps q).
