(* Executable comparison functions for the C20 correspondence: the harness writes the
   observed behaviour of /repo as data, these functions compare it with the model and
   with the specification.  No theorems here. *)
From Regal Require Export Base.Perm Model.Version.

Inductive lookup_case := LookupCase (m : vmap) (file : str) (got : list version).

Definition model_results (m : vmap) (file : str) : list version :=
  map (fun p => version_from_map p file VUndef) (perms m).

Definition lookup_agrees (c : lookup_case) : bool :=
  let '(LookupCase m f got) := c in
  forallb (fun g => existsb (version_eqb g) (model_results m f)) got.

(* domain on which the specification speaks: clean distinct keys, "/"-rooted clean file *)
Definition wf_file (f : str) : bool :=
  is_rooted f && str_eqb (SLASH :: join [SLASH] (comps_of f)) f
  && forallb (fun c => negb (str_eqb c [DOT]) && negb (str_eqb c dotdot)) (comps_of f).

Definition lookup_in_domain (c : lookup_case) : bool :=
  let '(LookupCase m f _) := c in
  forallb (fun kv => clean_key (fst kv)) m && keys_distinct m && wf_file f.

Definition lookup_meets_spec (c : lookup_case) : bool :=
  let '(LookupCase m f got) := c in
  negb (lookup_in_domain c) ||
  forallb (fun g => version_eqb g (spec_version m f VUndef)) got.

Fixpoint failing {A} (p : A -> bool) (i : nat) (l : list A) : list nat :=
  match l with
  | [] => []
  | x :: l' => if p x then failing p (S i) l' else i :: failing p (S i) l'
  end.

(* ---- tree level ---- *)
Inductive kind := KBoth | KV0only | KV1only.
Inductive outcome := OV0 | OV1 | OErr.
Definition outcome_eqb a b :=
  match a, b with OV0, OV0 | OV1, OV1 | OErr, OErr => true | _, _ => false end.

(* OPA's parser on the three fixed contents of the harness (an oracle table) *)
Definition parse_outcome (v : version) (k : kind) : outcome :=
  match v, k with
  | V0, KV1only => OErr
  | V0, _ => OV0
  | V1, KV0only => OErr
  | V1, _ => OV1
  | VUndef, KV0only => OV0
  | VUndef, _ => OV1
  end.

Record tree_obs := { o_file : str; o_kind : kind; o_cwd : str; o_arg : str; o_got : outcome }.

Record tree_case := {
  t_manifests : list (str * option version);   (* directory (relative, "" = root) -> version, if any *)
  t_project : option version;
  t_roots : list (str * option version);
  t_vmap : vmap;            (* what AllRegoVersions returned *)
  t_obs : list tree_obs }.

Definition ROOT : str := [SLASH; 82].   (* "/R" stands for the temp workspace root *)

(* io.FindManifestLocations gives filepath.Dir(rel path of the .manifest file);
   AllRegoVersions keys the root (".") by "" *)
Definition manifest_key (d : str) : str :=
  let k := dir (if str_eqb d [] then [46;109] else d ++ [SLASH; 46; 109]) in
  if str_eqb k [DOT] then [] else k.

Definition model_vmap (t : tree_case) : vmap :=
  all_rego_versions_opt (map (fun kv => (manifest_key (fst kv), snd kv)) (t_manifests t))
                        (t_project t) (t_roots t).

Definition vmap_sub (a b : vmap) : bool :=
  forallb (fun kv => match assoc_get b (fst kv) with
                     | Some v => version_eqb v (snd kv) | None => false end) a.

Definition vmap_agrees (t : tree_case) : bool :=
  vmap_sub (t_vmap t) (model_vmap t) && vmap_sub (model_vmap t) (t_vmap t).

Definition model_outcome (t : tree_case) (o : tree_obs) : list outcome :=
  let name := input_from_paths_name (ROOT ++ (if str_eqb (o_cwd o) [] then [] else SLASH :: o_cwd o))
                                    ROOT (o_arg o) in
  map (fun p => parse_outcome (version_from_map p name VUndef) (o_kind o)) (perms (model_vmap t)).

Definition obs_agrees (t : tree_case) (o : tree_obs) : bool :=
  existsb (outcome_eqb (o_got o)) (model_outcome t o).

(* specification on trees: deepest source directory containing the file; at equal
   depth the config (root entry or project-wide setting) beats a manifest *)
Definition src_step (file : str) (is_cfg : bool) (acc : option (nat * bool * version))
           (kv : str * version) :=
  let '(k, v) := kv in
  if key_contains k file then
    let depth := length (comps_of (clean (SLASH :: k))) in
    match acc with
    | Some (d0, c0, _) =>
        if Nat.ltb d0 depth || (Nat.eqb d0 depth && is_cfg && negb c0)
        then Some (depth, is_cfg, v) else acc
    | None => Some (depth, is_cfg, v)
    end
  else acc.

Definition spec_tree_version (t : tree_case) (file : str) : version :=
  let a0 := fold_left (src_step file false) (present (t_manifests t)) None in
  let a1 := match t_project t with
            | Some v => src_step file true a0 ([], v) | None => a0 end in
  match fold_left (src_step file true) (present (t_roots t)) a1 with
  | Some (_, _, v) => v
  | None => VUndef
  end.

Definition obs_meets_spec (t : tree_case) (o : tree_obs) : bool :=
  outcome_eqb (o_got o) (parse_outcome (spec_tree_version t (o_file o)) (o_kind o)).

(* per tree: (vmap ok, indices of observations disagreeing with the model, with the spec) *)
Definition tree_report (t : tree_case) : bool * list nat * list nat :=
  (vmap_agrees t, failing (obs_agrees t) 0 (t_obs t), failing (obs_meets_spec t) 0 (t_obs t)).

Definition tree_bad (t : tree_case) : bool :=
  let '(a, b, c) := tree_report t in
  negb a || negb (match b with [] => true | _ => false end)
         || negb (match c with [] => true | _ => false end).

(* ---- InputFromMap: every file of one call gets its own lookup (and detection when nothing matches);
   the observed outcome on the both-versions content is the parse outcome of that version ---- *)
Inductive frommap_case := FromMapCase (m : vmap) (obs : list (str * list outcome)).

Definition frommap_file_ok (m : vmap) (o : str * list outcome) : bool :=
  let allowed := map (fun p => parse_outcome (version_from_map p (fst o) VUndef) KBoth) (perms m) in
  forallb (fun g => existsb (outcome_eqb g) allowed) (snd o).

Definition frommap_agrees (c : frommap_case) : bool :=
  let '(FromMapCase m obs) := c in forallb (frommap_file_ok m) obs.

(* specification: a single answer per file, that of the deepest containing key, v1 when none *)
Definition frommap_meets_spec (c : frommap_case) : bool :=
  let '(FromMapCase m obs) := c in
  negb (forallb (fun kv => clean_key (fst kv)) m && keys_distinct m) ||
  forallb (fun o => forallb (fun g => outcome_eqb g (parse_outcome (spec_version m (fst o) VUndef) KBoth)) (snd o)) obs.

(* ---- language server: the directory->version map after a history of config (re)loads is that of
   the last configuration alone ---- *)
Definition lsp_reload (old : vmap) (manifests : list (str * option version)) (project : option version)
           (roots : list (str * option version)) : vmap :=
  all_rego_versions_opt (map (fun kv => (manifest_key (fst kv), snd kv)) manifests) project roots.

Record reload_step := { r_project : option version; r_roots : list (str * option version);
                        r_obs : list (str * version) }.   (* file name (root-relative, rooted) -> observed version *)

Fixpoint reload_steps_bad (old : vmap) (i : nat) (steps : list reload_step) : list nat :=
  match steps with
  | [] => []
  | st :: rest =>
      let cur := lsp_reload old [] (r_project st) (r_roots st) in
      let ok := forallb (fun o => existsb (fun p => version_eqb (snd o) (version_from_map p (fst o) VUndef)) (perms cur))
                        (r_obs st) in
      (if ok then [] else [i]) ++ reload_steps_bad cur (S i) rest
  end.
