(* Executable comparison functions for the C10 correspondence: the harness writes the report it fed
   to the real reporters and the documents its independent parsers read back from their output;
   these functions compare them with the model documents and evaluate the "exactly once" predicate
   on the observed documents.  The real binary's exit status is compared with [exit_code].
   No theorems here. *)
From Regal Require Export Model.ReportData Model.Exit Model.Reporters Base.Packed.
From Coq Require Import String.
Local Open Scope N_scope.

Definition opt_eqb {A} (e : A -> A -> bool) (a b : option A) : bool :=
  match a, b with
  | None, None => true
  | Some x, Some y => e x y
  | _, _ => false
  end.

Fixpoint list_eqb {A} (e : A -> A -> bool) (a b : list A) : bool :=
  match a, b with
  | [], [] => true
  | x :: a', y :: b' => e x y && list_eqb e a' b'
  | _, _ => false
  end.

Definition pair_eqb {A B} (ea : A -> A -> bool) (eb : B -> B -> bool) (a b : A * B) : bool :=
  ea (fst a) (fst b) && eb (snd a) (snd b).

(* Long free-text fields of the OBSERVED documents are written by the case-file printer as their
   9-byte digest (Base/StrLit.v) to keep the case files small; the model side is always first. *)
Definition LONG : nat := 40.
Definition text_eqb (model observed : str) : bool :=
  if Nat.ltb LONG (List.length model) then str_eqb (digest_str model) observed else str_eqb model observed.

(* the table pads every cell with spaces: trailing spaces of a value cannot be observed
   (the printer strips them from the observed value before taking the digest) *)
Fixpoint drop_sp (s : str) : str :=
  match s with 32 :: s' => drop_sp s' | _ => s end.
Definition rtrim_sp (s : str) : str := rev (drop_sp (rev s)).
Definition cell_eqb (model observed : str) : bool := text_eqb (rtrim_sp model) observed.
(* fields the keys are read from (rule, level, location, file) are always written in full *)
Definition key_cell_eqb (model observed : str) : bool := str_eqb (rtrim_sp model) observed.
Definition either_eqb (model observed : str) : bool := str_eqb model observed || text_eqb model observed.

(* the compact table re-flows the description: runs of spaces cannot be observed *)
Fixpoint squeeze (prev_sp : bool) (s : str) : str :=
  match s with
  | [] => []
  | c :: s' => if c =? 32 then (if prev_sp then squeeze true s' else 32 :: squeeze true s')
               else c :: squeeze false s'
  end.
Definition norm_spaces (s : str) : str := rtrim_sp (squeeze true s).
(* a newline inside a cell starts a new paragraph: outside the modelled domain *)

Definition level_repr_eqb (a b : level_repr) : bool :=
  match a, b with
  | LevelRow x, LevelRow y => key_cell_eqb x y
  | DescColour x, DescColour y => Bool.eqb x y
  | _, _ => false
  end.

Definition pretty_entry_eqb (m o : pretty_entry) : bool :=
  key_cell_eqb (pe_rule m) (pe_rule o) && level_repr_eqb (pe_level m) (pe_level o) &&
  cell_eqb (pe_desc m) (pe_desc o) && cell_eqb (pe_cat m) (pe_cat o) && key_cell_eqb (pe_loc m) (pe_loc o) &&
  opt_eqb cell_eqb (pe_text m) (pe_text o) && cell_eqb (pe_docurl m) (pe_docurl o).

Definition pretty_doc_eqb (m o : pretty_doc) : bool :=
  list_eqb pretty_entry_eqb (pd_entries m) (pd_entries o) && text_eqb (pd_footer m) (pd_footer o).

Definition compact_doc_eqb (m o : compact_doc) : bool :=
  match m, o with
  | CompactEmpty, CompactEmpty => true
  | CompactTable rm sm, CompactTable ro so =>
    list_eqb (fun a b => key_cell_eqb (fst a) (fst b) && text_eqb (norm_spaces (snd a)) (snd b)) rm ro
    && text_eqb sm so
  | _, _ => false
  end.

Definition gh_annotation_eqb (m o : gh_annotation) : bool :=
  str_eqb (ga_level m) (ga_level o) && str_eqb (ga_file m) (ga_file o) &&
  (ga_row m =? ga_row o) && (ga_col m =? ga_col o) && text_eqb (ga_msg m) (ga_msg o).

Definition github_doc_eqb (m o : github_doc) : bool :=
  pretty_doc_eqb (gd_pretty m) (gd_pretty o) && list_eqb gh_annotation_eqb (gd_annotations m) (gd_annotations o) &&
  list_eqb text_eqb (gd_lines m) (gd_lines o).

Definition sarif_rule_eqb (m o : sarif_rule) : bool :=
  str_eqb (sru_id m) (sru_id o) && text_eqb (sru_desc m) (sru_desc o) &&
  opt_eqb text_eqb (sru_help m) (sru_help o) && text_eqb (sru_cat m) (sru_cat o).

Definition sarif_region_eqb (m o : sarif_region) : bool :=
  (sg_row m =? sg_row o) && (sg_col m =? sg_col o) && opt_eqb (pair_eqb N.eqb N.eqb) (sg_end m) (sg_end o).

Definition sarif_result_eqb (m o : sarif_result) : bool :=
  str_eqb (sr_rule m) (sr_rule o) && opt_eqb N.eqb (sr_index m) (sr_index o) &&
  opt_eqb str_eqb (sr_kind m) (sr_kind o) && str_eqb (sr_level m) (sr_level o) && text_eqb (sr_msg m) (sr_msg o) &&
  opt_eqb (pair_eqb str_eqb (opt_eqb sarif_region_eqb)) (sr_loc m) (sr_loc o).

Definition sarif_doc_eqb (m o : sarif_doc) : bool :=
  list_eqb sarif_rule_eqb (sd_rules m) (sd_rules o) && list_eqb str_eqb (sd_artifacts m) (sd_artifacts o) &&
  list_eqb sarif_result_eqb (sd_results m) (sd_results o).

Definition junit_case_eqb (m o : junit_case) : bool :=
  text_eqb (jc_name m) (jc_name o) && str_eqb (jc_class m) (jc_class o) && text_eqb (jc_msg m) (jc_msg o) &&
  str_eqb (jc_type m) (jc_type o) && text_eqb (jc_data m) (jc_data o) && str_eqb (jc_rule m) (jc_rule o).

Definition junit_suite_eqb (m o : junit_suite) : bool :=
  str_eqb (js_name m) (js_name o) && (js_tests m =? js_tests o) && (js_failures m =? js_failures o) &&
  list_eqb junit_case_eqb (js_cases m) (js_cases o).

Definition junit_doc_eqb (m o : junit_doc) : bool :=
  (jd_tests m =? jd_tests o) && (jd_failures m =? jd_failures o) && list_eqb junit_suite_eqb (jd_suites m) (jd_suites o).

Fixpoint jval_eqb (a b : jval) {struct a} : bool :=
  match a, b with
  | JNull, JNull => true
  | JBool x, JBool y => Bool.eqb x y
  | JNum x, JNum y => x =? y
  | JStr x, JStr y => text_eqb x y
  | JArr x, JArr y =>
    (fix go (x y : list jval) {struct x} : bool :=
       match x, y with
       | [], [] => true
       | u :: x', v :: y' => jval_eqb u v && go x' y'
       | _, _ => false
       end) x y
  | JObj x, JObj y =>
    (fix go (x y : list (str * jval)) {struct x} : bool :=
       match x, y with
       | [], [] => true
       | (k, u) :: x', (k', v) :: y' => str_eqb k k' && jval_eqb u v && go x' y'
       | _, _ => false
       end) x y
  | _, _ => false
  end.

(* canonical byte serialisation of a JSON value; the case-file printer applies the same function to the
   JSON document it read from the reporter's output and passes the digest only *)
Fixpoint jser (j : jval) {struct j} : str :=
  match j with
  | JNull => [122]
  | JBool b => if b then [116] else [102]
  | JNum n => 110 :: show_N n ++ [59]
  | JStr s => 115 :: show_N (N.of_nat (List.length s)) ++ 58 :: s
  | JArr l => 91 :: (fix go (l : list jval) : str := match l with [] => [93] | x :: l' => jser x ++ go l' end) l
  | JObj fs => 123 :: (fix go (fs : list (str * jval)) : str :=
                         match fs with
                         | [] => [125]
                         | (k, x) :: fs' => 115 :: show_N (N.of_nat (List.length k)) ++ 58 :: k ++ jser x ++ go fs'
                         end) fs
  end.
Definition json_doc_eqb (model : jval) (observed_digest : str) : bool := str_eqb (digest_str (jser model)) observed_digest.

(* ---- structural equality of reports (decode side of the JSON round trip); first argument = model ---- *)
Section ReportEq.
Variable se : str -> str -> bool.   (* equality on strings: exact, or digest-aware *)
Definition position_eqb (a b : position) := (p_row a =? p_row b) && (p_col a =? p_col b).
Definition location_eqb (a b : location) :=
  opt_eqb position_eqb (l_end a) (l_end b) && opt_eqb se (l_text a) (l_text b) &&
  se (l_file a) (l_file b) && (l_col a =? l_col b) && (l_row a =? l_row b) && (l_offset a =? l_offset b).
Definition related_eqb (a b : related) := se (rr_desc a) (rr_desc b) && se (rr_ref a) (rr_ref b).
Definition violation_eqb (a b : violation) :=
  se (v_title a) (v_title b) && se (v_desc a) (v_desc b) && se (v_cat a) (v_cat b) &&
  se (v_level a) (v_level b) && list_eqb related_eqb (v_related a) (v_related b) &&
  location_eqb (v_loc a) (v_loc b) && Bool.eqb (v_isagg a) (v_isagg b).
Definition notice_eqb (a b : notice) :=
  se (n_title a) (n_title b) && se (n_desc a) (n_desc b) && se (n_cat a) (n_cat b) &&
  se (n_level a) (n_level b) && se (n_sev a) (n_sev b).
Definition summary_eqb (a b : summary) :=
  (s_scanned a =? s_scanned b) && (s_failed a =? s_failed b) && (s_skipped a =? s_skipped b) &&
  (s_numviol a =? s_numviol b).
Definition report_eqb (a b : report) :=
  opt_eqb jval_eqb (r_aggregates a) (r_aggregates b) && opt_eqb jval_eqb (r_metrics a) (r_metrics b) &&
  opt_eqb jval_eqb (r_aggprofile a) (r_aggprofile b) && opt_eqb jval_eqb (r_ignore a) (r_ignore b) &&
  list_eqb violation_eqb (r_violations a) (r_violations b) && list_eqb notice_eqb (r_notices a) (r_notices b) &&
  opt_eqb jval_eqb (r_profile a) (r_profile b) && summary_eqb (r_summary a) (r_summary b).
End ReportEq.

(* ---- the predicate on observed documents: multiset of (file,row,col,rule,level) ---- *)
Definition vkey_eqb (a b : vkey) : bool :=
  let '(f, r, c, t, l) := a in let '(f', r', c', t', l') := b in
  either_eqb f f' && (r =? r') && (c =? c') && either_eqb t t' && either_eqb l l'.

Fixpoint remove_one (k : vkey) (l : list vkey) : option (list vkey) :=
  match l with
  | [] => None
  | x :: l' => if vkey_eqb k x then Some l'
               else match remove_one k l' with Some r => Some (x :: r) | None => None end
  end.

Fixpoint multiset_eqb (a b : list vkey) : bool :=
  match a with
  | [] => match b with [] => true | _ => false end
  | x :: a' => match remove_one x b with Some b' => multiset_eqb a' b' | None => false end
  end.

Definition xml_key (k : vkey) : vkey :=
  let '(f, r, c, t, l) := k in (xml_safe f, r, c, xml_safe t, xml_safe l).

(* ---- one case ---- *)
Record case := {
  c_nocolor : bool;
  c_report : report;
  c_pretty : option pretty_doc;
  c_festive : option pretty_doc;
  c_compact : option compact_doc;
  c_json : option str;          (* digest of the canonical serialisation of the JSON document *)
  c_github : option github_doc;
  c_sarif : option sarif_doc;
  c_junit : option junit_doc }.

Definition on {A} (o : option A) (f : A -> bool) : bool := match o with Some x => f x | None => false end.

(* codes: 0..6 model/output disagreement per format (pretty festive compact json github sarif junit),
   7 the model decoder does not invert the model encoder on this report,
   10..16 the observed document does not present every violation exactly once,
   17 the observed sarif document is internally inconsistent (ruleIndex / artifacts; theorem
      c10_sarif_refs_consistent on the model's document), 18 the observed junit counts disagree with
      the test cases listed *)
Definition flag (code : nat) (ok : bool) : list nat := if ok then [] else [code].

Definition model_mismatches (c : case) : list nat :=
  let r := c_report c in
  flag 0 (on (c_pretty c) (pretty_doc_eqb (pretty (c_nocolor c) r))) ++
  flag 1 (on (c_festive c) (pretty_doc_eqb (pretty (c_nocolor c) r))) ++
  flag 2 (on (c_compact c) (compact_doc_eqb (compact r))) ++
  flag 3 (on (c_json c) (json_doc_eqb (enc_report r))) ++
  flag 4 (on (c_github c) (github_doc_eqb (github (c_nocolor c) r))) ++
  flag 5 (on (c_sarif c) (sarif_doc_eqb (sarif r))) ++
  flag 6 (on (c_junit c) (junit_doc_eqb (junit r))) ++
  (* the model's own decoder on the model's encoding (the theorem json_roundtrip, recomputed) *)
  flag 7 (opt_eqb (report_eqb str_eqb) (Some (erase_report r)) (dec_report (enc_report r))).

Definition spec_failures (c : case) : list nat :=
  let ks := report_keys (c_report c) in
  flag 10 (on (c_pretty c) (fun d => multiset_eqb ks (pretty_keys d))) ++
  flag 11 (on (c_festive c) (fun d => multiset_eqb ks (pretty_keys d))) ++
  flag 12 (on (c_compact c) (fun d => multiset_eqb (map pos_only ks) (compact_keys d))) ++
  flag 14 (on (c_github c) (fun d => multiset_eqb ks (github_keys d) && multiset_eqb ks (pretty_keys (gd_pretty d)))) ++
  flag 15 (on (c_sarif c) (fun d => multiset_eqb ks (sarif_keys d))) ++
  flag 16 (on (c_junit c) (fun d => multiset_eqb (map xml_key ks) (junit_keys d))) ++
  flag 17 (match c_sarif c with Some d => sarif_refs_consistent d | None => true end) ++
  flag 18 (match c_junit c with Some d => junit_counts_consistent d | None => true end).

(* flat result list: case index * 32 + code *)
Fixpoint failing_codes (f : case -> list nat) (i : nat) (l : list case) : list nat :=
  match l with
  | [] => []
  | c :: l' => map (fun code => (i * 32 + code)%nat) (f c) ++ failing_codes f (S i) l'
  end.

(* ---- exit codes of the real binary ---- *)
Record exit_obs := {
  e_fail_level : str;
  e_result : lint_result;        (* what the run published, read back from --format json; LintFailed if it errored *)
  e_status : N }.

Definition exit_agrees (o : exit_obs) : bool := exit_code (e_fail_level o) (e_result o) =? e_status o.

(* the property's own wording, evaluated on the observation *)
Definition has_level_b (lvl : str) (r : report) : bool :=
  existsb (fun v => str_eqb (v_level v) lvl) (r_violations r).
Definition exit_meets_spec (o : exit_obs) : bool :=
  match e_result o with
  | LintFailed => e_status o =? 1
  | LintDone r =>
    if has_level_b L_ERROR r then e_status o =? 3
    else if str_eqb (e_fail_level o) L_WARNING && has_level_b L_WARNING r then e_status o =? 2
    else e_status o =? 0
  end.

(* ---- the output channel: what an --output-file holds after a run ----
   [f_prev]: content before the run (None: no file); [f_rendering]: the bytes the same command line
   writes to stdout; [f_observed]: the file afterwards *)
Record file_obs := {
  f_prev : option str;
  f_rendering : str;
  f_observed : str }.

Definition file_agrees (o : file_obs) : bool :=
  str_eqb (file_after (f_prev o) (f_rendering o)) (f_observed o).

Fixpoint failing {A} (p : A -> bool) (i : nat) (l : list A) : list nat :=
  match l with
  | [] => []
  | x :: l' => if p x then failing p (S i) l' else i :: failing p (S i) l'
  end.
