(* Executable comparison functions for the C07 correspondence: the harness writes what OPA (with regal's
   real bundle) and the Go code did as data; these functions compare it with Model/Location.v and, for
   in-domain inputs, with the statement of the property itself.  No theorems here. *)
From Regal Require Export Model.Location.
From Coq Require Import ZArith.
Local Open Scope Z_scope.

Inductive obs (A : Type) := OUndef | OVal (a : A) | OError.
Arguments OUndef {A}. Arguments OVal {A} a. Arguments OError {A}.

Definition opt_eqb {A} (eqb : A -> A -> bool) (a b : option A) : bool :=
  match a, b with
  | Some x, Some y => eqb x y
  | None, None => true
  | _, _ => false
  end.

Definition pair_eqb (a b : Z * Z) : bool := (fst a =? fst b) && (snd a =? snd b).

Definition locobj_eqb (a b : locobj) : bool :=
  opt_eqb Z.eqb (lo_row a) (lo_row b) && opt_eqb Z.eqb (lo_col a) (lo_col b) &&
  opt_eqb str_eqb (lo_text a) (lo_text b) && opt_eqb pair_eqb (lo_end a) (lo_end b) &&
  opt_eqb str_eqb (lo_file a) (lo_file b).

Definition agrees {A} (eqb : A -> A -> bool) (model : option A) (got : obs A) : bool :=
  match model, got with
  | Some x, OVal y => eqb x y
  | None, OUndef => true
  | _, _ => false
  end.

Fixpoint list_eqb {A} (eqb : A -> A -> bool) (a b : list A) : bool :=
  match a, b with
  | [], [] => true
  | x :: a', y :: b' => eqb x y && list_eqb eqb a' b'
  | _, _ => false
  end.

Definition nquad_eqb (a b : (N * N) * (N * N)) : bool :=
  N.eqb (fst (fst a)) (fst (fst b)) && N.eqb (snd (fst a)) (snd (fst b)) &&
  N.eqb (fst (snd a)) (fst (snd b)) && N.eqb (snd (snd a)) (snd (snd b)).

Inductive c07case :=
| CTLO (lines : list str) (l : locval) (got : obs locobj)
| CLoc (lines : list str) (fname : str) (x : arg) (got : obs locobj)
| CRLB (lines : list str) (fname : str) (x y : arg) (got : obs locobj)
| CRFR (lines : list str) (fname : str) (ref : list arg) (got : obs locobj)
| CInf (lines : list str) (fname : str) (expr : list locval) (got : obs locobj)
| CCut (i len : Z) (line : str) (col end_col : Z) (got : obs str)
| CL2T (lines : list str) (q : quad) (got : obs str)
| CSub (s : str) (off len : Z) (got : obs str)
| CLines (content : str) (got : list str)
| CLinesShift (content : str) (k : nat) (got : list str)
| CLsp (l : rloc) (got : (N * N) * (N * N)).

(* model vs implementation *)
Definition case_agrees (c : c07case) : bool :=
  match c with
  | CTLO lines l got => agrees locobj_eqb (to_location_object lines l) got
  | CLoc lines f x got => agrees locobj_eqb (location lines f x) got
  | CRLB lines f x y got => agrees locobj_eqb (ranged_location_between lines f x y) got
  | CRFR lines f ref got => agrees locobj_eqb (ranged_from_ref lines f ref) got
  | CInf lines f e got => agrees locobj_eqb (infix_expr_location lines f e) got
  | CCut i len line col ec got => agrees str_eqb (cut_col i len line col ec) got
  | CL2T lines q got => agrees str_eqb (location_to_text lines q) got
  | CSub s off len got => agrees str_eqb (substring s off len) got
  | CLines content got => list_eqb str_eqb (file_lines content) got
  | CLinesShift content k got => list_eqb str_eqb (blank k ++ file_lines content) got
  | CLsp l got => nquad_eqb (lsp_range l) got
  end.

(* the property's own predicate on the OBSERVED output, for in-domain inputs
   (independent of the model's helper functions except parse_loc / the argument shape) *)
Definition wf_quadb (lines : list str) (q : quad) : bool :=
  let '(r, c, er, ec) := q in
  (1 <=? r) && (r <=? Z.of_nat (length lines)) && (1 <=? c) && pos_leb (r, c) (er, ec).

Definition arg_locstr (x : arg) : option str :=
  match x with
  | AStr s => Some s
  | ANode (LStr s) => Some s
  | AArr (LStr s :: _) => Some s
  | _ => None
  end.

Definition arg_quad (x : arg) : option quad :=
  match arg_locstr x with Some s => parse_loc s | None => None end.

Definition in_file (lines : list str) (f : str) (start : Z * Z) (stop : Z * Z) (got : obs locobj) : bool :=
  match got with
  | OVal L =>
      opt_eqb str_eqb (lo_file L) (Some f) &&
      opt_eqb Z.eqb (lo_row L) (Some (fst start)) && opt_eqb Z.eqb (lo_col L) (Some (snd start)) &&
      opt_eqb str_eqb (lo_text L) (zget lines (fst start - 1)) &&
      match lo_text L with Some _ => true | None => false end &&
      opt_eqb pair_eqb (lo_end L) (Some stop) && pos_leb start stop
  | _ => false
  end.

Definition case_meets_spec (c : c07case) : bool :=
  match c with
  | CLoc lines f x got =>
      match arg_quad x with
      | Some (r, c', er, ec) =>
          negb (wf_quadb lines (r, c', er, ec)) || in_file lines f (r, c') (er, ec) got
      | None => true
      end
  | CRLB lines f x y got =>
      match arg_quad x, arg_quad y with
      | Some (r, c', er, ec), Some (r2, c2, er2, ec2) =>
          negb (wf_quadb lines (r, c', er, ec) && wf_quadb lines (r2, c2, er2, ec2) && pos_leb (r, c') (er2, ec2))
          || in_file lines f (r, c') (er2, ec2) got
      | _, _ => true
      end
  | CRFR lines f ref got =>
      match ref, last_opt ref with
      | x :: _, Some y =>
          match arg_quad x, arg_quad y with
          | Some (r, c', er, ec), Some (r2, c2, er2, ec2) =>
              negb (wf_quadb lines (r, c', er, ec) && wf_quadb lines (r2, c2, er2, ec2) && pos_leb (r, c') (er2, ec2))
              || in_file lines f (r, c') (er2, ec2) got
          | _, _ => true
          end
      | _, _ => true
      end
  | CInf lines f expr got =>
      match nth_error expr 1, last_opt expr with
      | Some (LStr s1), Some (LStr s2) =>
          match parse_loc s1, parse_loc s2 with
          | Some (r, c', _, _), Some (_, _, er2, ec2) =>
              negb ((1 <=? r) && (r <=? Z.of_nat (length lines)) && (1 <=? c') && pos_leb (r, c') (er2, ec2))
              || in_file lines f (r, c') (er2, ec2) got
          | _, _ => true
          end
      | _, _ => true
      end
  | CLsp l got =>
      negb (match r_end l with Some e => (1 <=? r_row l) && pos_leb (r_row l, r_col l) e | None => true end) ||
      let '((sl, sc), (el, ec)) := got in
      (N.ltb sl el || (N.eqb sl el && N.leb sc ec))
  | _ => true
  end.

Definition case_in_domain (c : c07case) : bool :=
  match c with
  | CLoc lines f x got => match arg_quad x with Some q => wf_quadb lines q | None => false end
  | CRLB lines f x y got =>
      match arg_quad x, arg_quad y with
      | Some (r, c', er, ec), Some (r2, c2, er2, ec2) =>
          wf_quadb lines (r, c', er, ec) && wf_quadb lines (r2, c2, er2, ec2) && pos_leb (r, c') (er2, ec2)
      | _, _ => false
      end
  | CLsp l got => match r_end l with Some e => (1 <=? r_row l) && pos_leb (r_row l, r_col l) e | None => true end
  | CRFR lines f ref got =>
      match ref, last_opt ref with
      | x :: _, Some y =>
          match arg_quad x, arg_quad y with
          | Some (r, c', er, ec), Some (r2, c2, er2, ec2) =>
              wf_quadb lines (r, c', er, ec) && wf_quadb lines (r2, c2, er2, ec2) && pos_leb (r, c') (er2, ec2)
          | _, _ => false
          end
      | _, _ => false
      end
  | CInf lines f expr got =>
      match nth_error expr 1, last_opt expr with
      | Some (LStr s1), Some (LStr s2) =>
          match parse_loc s1, parse_loc s2 with
          | Some (r, c', _, _), Some (_, _, er2, ec2) =>
              (1 <=? r) && (r <=? Z.of_nat (length lines)) && (1 <=? c') && pos_leb (r, c') (er2, ec2)
          | _, _ => false
          end
      | _, _ => false
      end
  | _ => false
  end.

Fixpoint failing {A} (p : A -> bool) (i : nat) (l : list A) : list nat :=
  match l with
  | [] => []
  | x :: l' => if p x then failing p (S i) l' else i :: failing p (S i) l'
  end.
