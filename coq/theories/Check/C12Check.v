(* Executable comparison functions for the C12 correspondence: the harness records the files seen by
   every iteration of the real Fixer.Fix loop and what the linter reports for them; the model of one
   iteration (Model/FixLoop.v [pass]) must lead to the files seen by the next iteration.
   The order in which the linter returns the violations of different files depends on the schedule of its
   workers: it is an explicit permutation here.  No theorems. *)
From Regal Require Export Base.StrLit Base.Packed Base.Perm Model.FixLoop.

Record oentry := { o_rule : rule; o_file : str; o_in : str; o_res : fix_result }.

(* the real opa-fmt / use-rego-v1 / directory-package-mismatch fixes, tabulated by the harness *)
Fixpoint table_fix (t : list oentry) (r : rule) (file content : str) : fix_result :=
  match t with
  | [] => FError
  | e :: t' => if rule_eqb (o_rule e) r && str_eqb (o_file e) file && str_eqb (o_in e) content
               then o_res e else table_fix t' r file content
  end.

(* name given to a file renamed after a conflict: not modelled here (renameCandidate belongs to C13) *)
Definition MARK : str := [0].
Definition has_mark (f : fs) : bool := existsb (fun pc => str_eqb (fst pc) MARK) f.

Record iter_case := {
  i_files : fs;                 (* files seen by this iteration *)
  i_viol : list violation;      (* what the linter reports for them, per file in the linter's order *)
  i_next : fs;                  (* files seen by the next iteration, or returned when there was none *)
  i_last : bool;                (* no further iteration followed *)
  i_table : list oentry;
  i_rename : bool }.            (* OnConflictRename *)

Fixpoint dedup (l : list str) : list str :=
  match l with
  | [] => []
  | x :: t => x :: filter (fun y => negb (str_eqb x y)) (dedup t)
  end.

Definition groups (vs : list violation) : list (list violation) :=
  map (fun f => filter (fun v => str_eqb (v_file v) f) vs) (dedup (map v_file vs)).

Definition fs_sub (a b : fs) : bool :=
  forallb (fun pc => match fs_get b (fst pc) with Some c => str_eqb c (snd pc) | None => false end) a.
Definition fs_equiv (a b : fs) : bool := fs_sub a b && fs_sub b a && Nat.eqb (length a) (length b).

Definition model_pass (c : iter_case) (vs : list violation) : pass_out :=
  pass (table_fix (i_table c)) (i_rename c) (fun _ _ => MARK) vs (i_files c) [] false false.

Definition outcome_ok (c : iter_case) (o : pass_out) : bool :=
  match o with
  | PErr => false
  | POk files' made _ =>
      has_mark files' || (Bool.eqb made (negb (i_last c)) && fs_equiv files' (i_next c))
  end.

Definition iter_agrees (c : iter_case) : bool :=
  existsb (fun p => outcome_ok c (model_pass c (concat p))) (perms (groups (i_viol c))).

Definition iter_unmodelled (c : iter_case) : bool :=
  existsb (fun p => match model_pass c (concat p) with POk f _ _ => has_mark f | PErr => false end)
          (perms (groups (i_viol c))).

Fixpoint failing {A} (p : A -> bool) (i : nat) (l : list A) : list nat :=
  match l with
  | [] => []
  | x :: l' => if p x then failing p (S i) l' else i :: failing p (S i) l'
  end.
