(* Executable comparison functions for the C12 correspondence: the harness records the files seen by
   every iteration of the real Fixer.Fix loop and what the linter reports for them; the model of one
   iteration (Model/FixLoop.v [pass]) must lead to the files seen by the next iteration.
   The order in which the linter returns the violations of different files depends on the schedule of its
   workers: it is an explicit permutation here.
   Rename mode: the candidate function is C13's model of renameCandidate (Model/Rename.v), so the model
   iteration produces the numbered name itself; in addition every Rename request the file provider saw is
   compared with the model's candidate loop (number of rounds, every name asked for).
   directory-package-mismatch: what the real rule body and the real fix say about a package path at a
   placement, against Model/DpmAgree.v.  No theorems. *)
From Regal Require Model.Rename.
From Regal Require Export Base.StrLit Base.Packed Base.Perm Model.FixLoop Model.DpmAgree.

Definition real_candidate : str -> str := Regal.Model.Rename.rename_candidate.
(* fuel of one candidate loop: more than any file set of the harness has files *)
Definition RFUEL : nat := 64.

Record oentry := { o_rule : rule; o_file : str; o_in : str; o_res : fix_result }.

(* the real opa-fmt / use-rego-v1 / directory-package-mismatch fixes, tabulated by the harness *)
Fixpoint table_fix (t : list oentry) (r : rule) (file content : str) : fix_result :=
  match t with
  | [] => FError
  | e :: t' => if rule_eqb (o_rule e) r && str_eqb (o_file e) file && str_eqb (o_in e) content
               then o_res e else table_fix t' r file content
  end.

Record iter_case := {
  i_files : fs;                 (* files seen by this iteration *)
  i_viol : list violation;      (* what the linter reports for them, per file in the linter's order *)
  i_next : fs;                  (* files seen by the next iteration, or returned when there was none *)
  i_last : bool;                (* no further iteration followed *)
  i_table : list oentry;
  i_rename : bool }.            (* OnConflictRename *)

Fixpoint dedup (l : list str) : list str :=
  match l with
  | [] => []
  | x :: t => x :: filter (fun y => negb (str_eqb x y)) (dedup t)
  end.

Definition groups (vs : list violation) : list (list violation) :=
  map (fun f => filter (fun v => str_eqb (v_file v) f) vs) (dedup (map v_file vs)).

Definition fs_sub (a b : fs) : bool :=
  forallb (fun pc => match fs_get b (fst pc) with Some c => str_eqb c (snd pc) | None => false end) a.
Definition fs_equiv (a b : fs) : bool := fs_sub a b && fs_sub b a && Nat.eqb (length a) (length b).

Definition model_pass (c : iter_case) (vs : list violation) : pass_out :=
  pass (table_fix (i_table c)) (i_rename c) real_candidate RFUEL vs (i_files c) [] false false.

Definition outcome_ok (c : iter_case) (o : pass_out) : bool :=
  match o with
  | PErr | PFuel => false
  | POk files' made _ => Bool.eqb made (negb (i_last c)) && fs_equiv files' (i_next c)
  end.

(* the order in which the violations are given is tried first (the driver sorts the per-file groups by what
   happened to the file: content changed, then moved away, then untouched); only when that fails, every
   permutation of the groups is *)
Definition iter_agrees (c : iter_case) : bool :=
  if outcome_ok c (model_pass c (i_viol c)) then true
  else existsb (fun p => outcome_ok c (model_pass c (concat p))) (perms (groups (i_viol c))).

(* an iteration whose model ran out of candidate fuel (none expected: RFUEL exceeds every file set) *)
Definition iter_unmodelled (c : iter_case) : bool :=
  match model_pass c (i_viol c) with PFuel => true | _ => false end.

(* ---- one handleRename as the file provider saw it: the files held when it started, the target of the
        first Rename request, every name asked for in order, and whether the last request succeeded ---- *)
Record rename_case := {
  r_files : fs;
  r_rename : bool;              (* OnConflictRename *)
  r_asked : list str;           (* the [to] of every fp.Rename(from, to) of this handleRename *)
  r_settled : bool }.           (* the last request was granted *)

Fixpoint strs_eq (a b : list str) : bool :=
  match a, b with
  | [], [] => true
  | x :: a', y :: b' => str_eqb x y && strs_eq a' b'
  | _, _ => false
  end.

Definition rename_agrees (c : rename_case) : bool :=
  match r_asked c with
  | [] => false
  | to :: _ =>
      if r_rename c then
        match rename_loop real_candidate RFUEL (r_files c) to with
        | Some (k, name) =>
            r_settled c
            && strs_eq (r_asked c) (map (fun i => cand_iter real_candidate i to) (seq 0 (S k)))
            && str_eqb (last (r_asked c) []) name
        | None => false
        end
      else
        (* OnConflictError: one request; granted iff the target is free *)
        strs_eq (r_asked c) [to]
        && Bool.eqb (r_settled c) (match fs_get (r_files c) to with None => true | Some _ => false end)
  end.

(* ---- directory-package-mismatch, function level ---- *)
Inductive fix_obs := ObsNone | ObsMove (to : str) | ObsErr.

Record dpm_place := { dp_file : str; dp_rule : nat; dp_fix : fix_obs }.
Record dpm_case := { d_pkg : list str; d_exclude : bool; d_root : str; d_places : list dpm_place }.

Definition fix_obs_agrees (c : dpm_case) (p : dpm_place) : bool :=
  let root := split_on SLASH (d_root c) in
  let dirs := file_dirs (dp_file p) in
  let base := last (split_on SLASH (dp_file p)) [] in
  match fix_answer_of (d_exclude c) (d_pkg c) root dirs, dp_fix p with
  | FixRefuses, ObsErr => true
  | FixInPlace, ObsNone => true
  | FixMoveTo dirs', ObsMove to => str_eqb to (join [SLASH] (dirs' ++ [base]))
  | _, _ => false
  end.

Definition dpm_place_agrees (c : dpm_case) (p : dpm_place) : bool :=
  Nat.eqb (dp_rule p) (if rule_reports (d_exclude c) (d_pkg c) (file_dirs (dp_file p)) then 1 else 0)
  && fix_obs_agrees c p.

Definition dpm_agrees (c : dpm_case) : bool := forallb (dpm_place_agrees c) (d_places c).

Fixpoint failing {A} (p : A -> bool) (i : nat) (l : list A) : list nat :=
  match l with
  | [] => []
  | x :: l' => if p x then failing p (S i) l' else i :: failing p (S i) l'
  end.
