(* Executable comparison functions for the C01 correspondence.  The harness writes, per generated
   workspace, the per-file results of the lint query (the rule oracle, evaluated one file at a
   time without the Go aggregation layer), the value of the aggregate phase on the merged
   aggregates, and every distinct canonical report that the real Linter.Lint returned over all
   argument permutations / GOMAXPROCS / repetitions.  The model recomputes the report from the
   tables.  No theorems here. *)
From Regal Require Export Base.PathModel Model.Sched Model.BaseCache.

Fixpoint remove_first {X} (eqb : X -> X -> bool) (x : X) (l : list X) : option (list X) :=
  match l with
  | [] => None
  | y :: l' => if eqb x y then Some l'
               else match remove_first eqb x l' with Some r => Some (y :: r) | None => None end
  end.

Fixpoint multiset_eqb {X} (eqb : X -> X -> bool) (l1 l2 : list X) : bool :=
  match l1 with
  | [] => is_nil l2
  | x :: l1' => match remove_first eqb x l2 with
                | Some r => multiset_eqb eqb l1' r
                | None => false
                end
  end.

Definition amap_sub (a b : amap) : bool :=
  forallb (fun kl => match mget b (fst kl) with
                     | Some l2 => match mget a (fst kl) with
                                  | Some l1 => multiset_eqb str_eqb l1 l2
                                  | None => false
                                  end
                     | None => false
                     end) a.
(* same keys, same entries per key as multisets (first binding of a key counts, as mget does) *)
Definition amap_equivb (a b : amap) : bool := amap_sub a b && amap_sub b a.

Definition dmap_sub (a b : dmap) : bool :=
  forallb (fun kv => match mget b (fst kv), mget a (fst kv) with
                     | Some v2, Some v1 => str_eqb v1 v2
                     | _, _ => false
                     end) a.
Definition dmap_equivb (a b : dmap) : bool := dmap_sub a b && dmap_sub b a.

Record obs := {
  o_viol : list viol; o_aggviol : list viol; o_notices : list notice;
  o_scanned : nat; o_failed : nat; o_skipped : nat; o_num : nat;
  o_aggs : amap; o_dirs : dmap }.

Record c01_case := {
  c_files : list result;        (* rule oracle per file, FileNames order *)
  c_merged : amap;              (* the aggregates the aggregate phase was evaluated on *)
  c_dirs : dmap;                (* the directives it was evaluated with *)
  c_aggviol : list viol;        (* its value *)
  c_observed : list obs }.      (* distinct reports of the real linter *)

Definition SENTINEL : viol := {| v_file := [33%N]; v_key := [33%N] |}.

(* the aggregate-phase oracle as a one-entry table: defined on everything equivalent to the
   tabulated argument (H_aggperm), a sentinel violation elsewhere *)
Definition table_aggreport (c : c01_case) (a : amap) (d : dmap) : list viol :=
  if amap_equivb a (c_merged c) && dmap_equivb d (c_dirs c) then c_aggviol c else [SENTINEL].

Definition model_final (c : c01_case) (order : list result) : final :=
  lint_seq (table_aggreport c) None [] order.

Definition obs_agrees (f : final) (o : obs) : bool :=
  multiset_eqb viol_eqb (o_viol o) (f_viol f) &&
  multiset_eqb viol_eqb (o_aggviol o) (f_aggviol f) &&
  multiset_eqb notice_eqb (o_notices o) (f_notices f) &&
  Nat.eqb (o_scanned o) (f_scanned f) && Nat.eqb (o_failed o) (f_failed f) &&
  Nat.eqb (o_skipped o) (f_skipped f) && Nat.eqb (o_num o) (f_num f) &&
  amap_equivb (o_aggs o) (f_aggs f) && dmap_equivb (o_dirs o) (f_dirs f).

(* rotate: a third merge order besides the given one and its reverse *)
Definition rotate {X} (l : list X) : list X := match l with [] => [] | x :: l' => l' ++ [x] end.

Definition case_agrees (c : c01_case) : bool :=
  let f1 := model_final c (c_files c) in
  let f2 := model_final c (rev (c_files c)) in
  let f3 := model_final c (rotate (c_files c)) in
  forallb (fun o => obs_agrees f1 o && obs_agrees f2 o && obs_agrees f3 o) (c_observed c).

Fixpoint failing1 {X} (p : X -> bool) (i : nat) (l : list X) : list nat :=
  match l with
  | [] => []
  | x :: l' => if p x then failing1 p (S i) l' else i :: failing1 p (S i) l'
  end.

(* ---- InputFromPaths ---------------------------------------------------------------------- *)
Record inp_case := {
  ip_paths : list (str * bool);        (* spelled path, does it parse *)
  ip_got : option (list str) }.        (* FileNames, or an error *)

Definition parse_of (c : inp_case) (p : str) : parsed :=
  match mget (ip_paths c) p with
  | Some true => POk (clean p) []      (* regoWithOpts names the module filepath.Clean(path) *)
  | _ => PErr
  end.

Fixpoint strs_eqb (a b : list str) : bool :=
  match a, b with
  | [], [] => true
  | x :: a', y :: b' => str_eqb x y && strs_eqb a' b'
  | _, _ => false
  end.

Definition inp_agrees (c : inp_case) : bool :=
  match input_from_paths (parse_of c) (map fst (ip_paths c)), ip_got c with
  | Some a, Some b => strs_eqb a b
  | None, None => true
  | _, _ => false
  end.

(* ---- base cache (internal/cache) ------------------------------------------------------------ *)
Fixpoint val_eqb (a b : val) {struct a} : bool :=
  match a, b with
  | VLeaf x, VLeaf y => N.eqb x y
  | VObj fa, VObj fb =>
      (fix go (fa fb : list (key * val)) {struct fa} : bool :=
         match fa, fb with
         | [], [] => true
         | (k, v) :: fa', (k', v') :: fb' => N.eqb k k' && val_eqb v v' && go fa' fb'
         | _, _ => false
         end) fa fb
  | _, _ => false
  end.

Definition oval_eqb (a b : option val) : bool :=
  match a, b with
  | Some x, Some y => val_eqb x y
  | None, None => true
  | _, _ => false
  end.

Record cache_case := {
  cc_doc : val;
  cc_ops : list op;
  cc_got : list (option val) }.        (* what the real Get answered, one entry per OGet *)

Fixpoint ovals_eqb (a b : list (option val)) : bool :=
  match a, b with
  | [], [] => true
  | x :: a', y :: b' => oval_eqb x y && ovals_eqb a' b'
  | _, _ => false
  end.

Definition cache_agrees (c : cache_case) : bool :=
  ovals_eqb (replay (cc_doc c) empty_trie (cc_ops c)) (cc_got c).
