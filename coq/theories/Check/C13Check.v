(* Executable comparison functions for the C13 correspondence.  The harness writes what /repo
   did as data; these functions run the model on the same inputs and compare.  No theorems. *)
From Regal Require Export Base.Perm Model.Commit.

Fixpoint failing {A} (p : A -> bool) (i : nat) (l : list A) : list nat :=
  match l with
  | [] => []
  | x :: l' => if p x then failing p (S i) l' else i :: failing p (S i) l'
  end.

Definition set_sub (a b : list str) : bool := forallb (fun x => str_in x b) a.
Definition set_eqb (a b : list str) : bool := set_sub a b && set_sub b a.

Definition map_sub (a b : amap str) : bool :=
  forallb (fun kv => match aget b (fst kv) with Some v => str_eqb v (snd kv) | None => false end) a.
Definition map_eqb (a b : amap str) : bool :=
  map_sub a b && map_sub b a && Nat.eqb (length a) (length b).

(* ---------------------------------------------------------------- renameCandidate *)
Definition cand_case := (str * str)%type.
Definition cand_agrees (c : cand_case) : bool := str_eqb (rename_candidate (fst c)) (snd c).

(* ---------------------------------------------------------------- FindClosestMatchingRoot *)
Record fcmr_case := { fc_path : str; fc_roots : list str; fc_got : str }.
Definition fcmr_agrees (c : fcmr_case) : bool :=
  str_eqb (find_closest_matching_root (fc_path c) (fc_roots c)) (fc_got c).
Definition fcmr_agrees_pinned (c : fcmr_case) : bool :=
  str_eqb (find_closest_matching_root_pinned (fc_path c) (fc_roots c)) (fc_got c).

(* specification, independent of the loop: the answer is a root (or ""), it is the path itself or
   a component-wise ancestor of it, and no root that is one is deeper *)
Definition contains_path (root path : str) : bool :=
  str_eqb root path
  || (comps_prefix (comps_of root) (comps_of path)
      && Nat.ltb (length (comps_of root)) (length (comps_of path))).
(* the specification speaks about clean spellings (what filepath.Abs/Join produce) *)
Definition fcmr_in_domain (c : fcmr_case) : bool :=
  str_eqb (clean (fc_path c)) (fc_path c)
  && forallb (fun r => str_eqb r [] || str_eqb (clean r) r) (fc_roots c).

Definition fcmr_meets_spec (c : fcmr_case) : bool :=
  let got := fc_got c in
  negb (fcmr_in_domain c) ||
  (str_in got (fc_roots c) || str_eqb got [])
  && (str_eqb got [] || contains_path got (fc_path c))
  && forallb (fun r => negb (contains_path r (fc_path c)) || str_eqb r []
                       || (negb (str_eqb got []) && Nat.leb (length (comps_of r)) (length (comps_of got)))
                       || (str_eqb got [] && Nat.eqb (length (comps_of r)) 0)) (fc_roots c).

(* ---------------------------------------------------------------- provider / handleRename *)
Inductive op :=
| OpPut (f c : str)
| OpDelete (f : str)
| OpRename (a b : str) (res : nat)     (* observed: 0 ok, 1 conflict, 2 not found *)
| OpMove (root a b : str).

Record seq_case := {
  sc_policy : policy;
  sc_init : amap str;
  sc_starting : list str;
  sc_disk : list str;
  sc_ops : list op;
  sc_ok : bool;                          (* false: the LAST op made handleRename return an error *)
  sc_files : amap str;
  sc_modified : list str;
  sc_deleted : list str;
  sc_conflicts : list (conflict_kind * str * str * str) }.

Definition FUEL : nat := 64.

(* (provider, report, every raw Rename result as observed, failed) *)
Definition seq_state := (provider str * report * bool * bool)%type.

Definition seq_step (pol : policy) (starting : list str) (st : seq_state) (o : op) : seq_state :=
  let '(p, r, okres, failed) := st in
  if failed then st else
  match o with
  | OpPut f c => (pv_put p f c, r, okres, false)
  | OpDelete f => (pv_delete p f, r, okres, false)
  | OpRename a b res =>
      match pv_rename p a b with
      | RenOk p' => (p', r, okres && Nat.eqb res 0, false)
      | RenConflict => (p, r, okres && Nat.eqb res 1, false)
      | RenNotFound => (p, r, okres && Nat.eqb res 2, false)
      end
  | OpMove root a b =>
      match handle_rename pv_rename FUEL pol starting p r root a b with
      | SOk p' r' => (p', r', okres, false)
      | SErr => (p, r, okres, true)
      | SOutOfFuel => (p, r, false, true)
      end
  end.

Definition ck_eqb (a b : conflict_kind) : bool :=
  match a, b with CManyToOne, CManyToOne | CSourceFile, CSourceFile => true | _, _ => false end.
Definition conf_eqb (a b : conflict_kind * str * str * str) : bool :=
  let '(k1, r1, t1, f1) := a in let '(k2, r2, t2, f2) := b in
  ck_eqb k1 k2 && str_eqb r1 r2 && str_eqb t1 t2 && str_eqb f1 f2.
Definition conf_sub a b := forallb (fun x => existsb (conf_eqb x) b) a.

Definition seq_agrees (c : seq_case) : bool :=
  let st0 := (new_provider (sc_init c) (sc_disk c), new_report, true, false) in
  let '(p, r, okres, failed) := fold_left (seq_step (sc_policy c) (sc_starting c)) (sc_ops c) st0 in
  okres
  && Bool.eqb (negb failed) (sc_ok c)
  && map_eqb (pv_files p) (sc_files c)
  && set_eqb (pv_modified p) (sc_modified c)
  && set_eqb (pv_deleted p) (sc_deleted c)
  && conf_sub (rp_conflicts r) (sc_conflicts c) && conf_sub (sc_conflicts c) (rp_conflicts r)
  && Nat.eqb (length (rp_conflicts r)) (length (sc_conflicts c)).

(* ---------------------------------------------------------------- DirCleanUpPaths *)
(* The case carries the FULL listing of the tree as it was when the function was called: every entry
   with its kind as os.Lstat / os.ReadDir report it.  The function asks one thing about an entry,
   DirEntry.IsDir(): regular files (hidden or not), symbolic links (to files or to directories) are
   all "not a directory"; none of them is ever skipped. *)
Inductive ekind := EFile | EDir | ESymlink.
Definition ekind_is_dir (k : ekind) : bool := match k with EDir => true | _ => false end.

Record cleanup_case := {
  cc_entries : list (str * ekind); cc_roots : list str; cc_target : str;
  cc_got : list str; cc_err : bool }.

Definition unit_fs (files dirs : list str) : fsys unit :=
  {| fs_files := map (fun f => (f, tt)) files; fs_dirs := dirs |}.

Definition entries_fs (es : list (str * ekind)) : fsys unit :=
  unit_fs (map fst (filter (fun e => negb (ekind_is_dir (snd e))) es))
          (map fst (filter (fun e => ekind_is_dir (snd e)) es)).

Definition cleanup_agrees (c : cleanup_case) : bool :=
  match dir_cleanup_paths (entries_fs (cc_entries c)) (cc_target c) (cc_roots c) with
  | CwOk ds => negb (cc_err c) && list_str_eqb ds (cc_got c)
  | CwErr => cc_err c
  | CwOutOfFuel => false
  end.

(* ---------------------------------------------------------------- whole command on a workspace *)
Definition outcome_eqb (a b : outcome) : bool :=
  match a, b with
  | OutFixerError, OutFixerError | OutConflicts, OutConflicts | OutGitRefused, OutGitRefused
  | OutDryRun, OutDryRun | OutDone, OutDone | OutCommitFailed, OutCommitFailed
  | OutOutOfFuel, OutOutOfFuel => true
  | _, _ => false
  end.

Record ws_case := {
  w_policy : policy;
  w_dry : bool;
  w_files : amap str;                 (* before: path -> content id *)
  w_dirs : list str;
  w_sel : list str;                   (* the .rego files the command loads *)
  w_roots : list str;                 (* config.GetPotentialRoots, as observed *)
  w_lint : list (str * (list str * option str));   (* content id -> package path, id after non-moving fixes *)
  w_out : outcome;
  w_after_files : amap str;
  w_after_dirs : list str }.

Fixpoint tget {V} (t : list (str * V)) (k : str) : option V :=
  match t with [] => None | (k', v) :: t' => if str_eqb k' k then Some v else tget t' k end.

Definition lint_pkg_of (t : list (str * (list str * option str))) (c : str) : list str :=
  match tget t c with Some (p, _) => p | None => [] end.
Definition lint_fix_of (t : list (str * (list str * option str))) (c : str) : option str :=
  match tget t c with Some (_, f) => f | None => None end.

(* every order in which the moving violations can be picked: all results of [fix_loop] *)
Fixpoint explore (rounds : nat) (pol : policy) (starting roots : list str)
         (t : list (str * (list str * option str))) (p : provider str) (r : report)
  : list (loop_result str) :=
  match rounds with
  | O => [LOutOfFuel]
  | S n =>
    match run_fixes pv_rename FUEL pol starting p r (pending_content (lint_fix_of t) p) with
    | SOk p1 r1 =>
      match pending_moves (lint_pkg_of t) roots find_closest_matching_root p1 with
      | [] => [LDone p1 r1]
      | moves =>
        flat_map (fun m => match apply_fix pv_rename FUEL pol starting p1 r1 m with
                           | SOk p2 r2 => explore n pol starting roots t p2 r2
                           | SErr => [LErr]
                           | SOutOfFuel => [LOutOfFuel]
                           end) moves
      end
    | SErr => [LErr]
    | SOutOfFuel => [LOutOfFuel]
    end
  end.

Definition no_git : git_view := {| gv_repo := RepoNone; gv_status := [] |}.

Definition finish_own (fl : flags) (gv : git_view) (cwd : str) (roots : list str) (fs : fsys str)
           (lr : loop_result str) : outcome * fsys str :=
  match lr with
  | LDone p _ => finish_command fl cwd gv roots fs lr (pv_deleted p) (pv_modified p)
  | _ => finish_command fl cwd gv roots fs lr [] []
  end.

Definition ws_results_gen (fl : flags) (gv : git_view) (cwd : str) (c : ws_case)
  : list (outcome * fsys str) :=
  let fs := {| fs_files := w_files c; fs_dirs := w_dirs c |} in
  match load_provider fs (w_sel c) with
  | None => [(OutFixerError, fs)]
  | Some p0 =>
    map (finish_own fl gv cwd (w_roots c) fs)
        (explore 12 (w_policy c) (akeys (pv_files p0)) (w_roots c) (w_lint c) p0 new_report)
  end.

Definition ws_results (c : ws_case) : list (outcome * fsys str) :=
  ws_results_gen {| fl_force := true; fl_dry_run := w_dry c |} no_git [] c.

(* when the commit stops half way the directories left behind depend on the order in which the Go
   sets are walked: only the files are compared then *)
Definition fs_matches (c : ws_case) (of : outcome * fsys str) : bool :=
  outcome_eqb (fst of) (w_out c)
  && map_eqb (fs_files (snd of)) (w_after_files c)
  && (match fst of with OutCommitFailed => true | _ => set_eqb (fs_dirs (snd of)) (w_after_dirs c) end).

Definition ws_agrees (c : ws_case) : bool := existsb (fs_matches c) (ws_results c).
Definition ws_leaves (c : ws_case) : nat := length (ws_results c).

(* ---------------------------------------------------------------- root discovery (round 3) *)
(* One materialised tree: the harness lists it (every entry with its kind; for a config file the
   project.roots it declares), names the arguments by their components below the tree root, and
   reports what config.FindBundleRootDirectories answered for every argument and what
   config.GetPotentialRoots answered for all of them, spelled from the tree root /R. *)
From Regal Require Export Model.RootDiscovery.

Record disc_case := {
  dc_tree : rnode;
  dc_args : list (list str);
  dc_fbrd : list (list str);          (* per argument *)
  dc_gpr : list str }.

Definition R_PATH : str := [47;82]%N.    (* "/R" *)
Definition R_NAME : str := [82]%N.

Definition opt_set_eqb (o : option (list str)) (got : list str) : bool :=
  match o with Some l => set_eqb l got | None => false end.

Fixpoint all2 {A B} (p : A -> B -> bool) (a : list A) (b : list B) : bool :=
  match a, b with
  | [], [] => true
  | x :: a', y :: b' => p x y && all2 p a' b'
  | _, _ => false
  end.

Definition disc_agrees (c : disc_case) : bool :=
  all2 opt_set_eqb (map (find_bundle_roots R_PATH R_NAME (dc_tree c)) (dc_args c)) (dc_fbrd c)
  && opt_set_eqb (get_potential_roots R_PATH R_NAME (dc_tree c) (dc_args c)) (dc_gpr c).

(* how many directories of the tree hold a marker / how deep the deepest of them lies (evidence) *)
Fixpoint marker_dirs (n : rnode) : nat :=
  match n with
  | RFile _ => 0
  | RDir cs => (if marker cs then 1 else 0) + list_sum (map (fun '(_, c) => marker_dirs c) cs)
  end.
