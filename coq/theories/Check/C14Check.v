(* Executable comparison functions for the C14 correspondence: the git gate of `regal fix`
   run without --force.  The harness provides, per workspace, the tree (with its .git entries),
   the working directory and the arguments as spelled, and go-git's status keys per work tree
   (obtained through regal's own GetChangedFiles).  No theorems. *)
From Regal Require Export Check.C13Check.

Definition repo_eqb (a b : repo_result) : bool :=
  match a, b with
  | RepoErr, RepoErr | RepoNone, RepoNone => true
  | RepoAt x, RepoAt y => str_eqb x y
  | _, _ => false
  end.

Record git_case := {
  gc_ws : ws_case;
  gc_force : bool;
  gc_cwd : str;                               (* absolute, normalised *)
  gc_args : list str;                         (* as spelled on the command line *)
  gc_status : list (str * list str);          (* absolute work tree root -> status keys *)
  gc_repo_obs : repo_result }.                (* what FindGitRepo answered *)

Definition gc_fs (c : git_case) : fsys str :=
  {| fs_files := w_files (gc_ws c); fs_dirs := w_dirs (gc_ws c) |}.

Definition model_repo (c : git_case) : repo_result :=
  find_git_repo (gc_cwd c) 64 (fs_stat (gc_fs c)) (gc_args c).

Definition repo_agrees (c : git_case) : bool := repo_eqb (model_repo c) (gc_repo_obs c).

Definition model_git_view (c : git_case) : git_view :=
  let rr := model_repo c in
  {| gv_repo := rr;
     gv_status := match rr with
                  | RepoAt r => match tget (gc_status c) (fp_abs (gc_cwd c) r) with
                                | Some ks => ks | None => [] end
                  | _ => []
                  end |}.

Definition git_results (c : git_case) : list (outcome * fsys str) :=
  ws_results_gen {| fl_force := gc_force c; fl_dry_run := w_dry (gc_ws c) |}
                 (model_git_view c) (gc_cwd c) (gc_ws c).

Definition git_agrees (c : git_case) : bool := existsb (fs_matches (gc_ws c)) (git_results c).

(* which verdicts the model allows (for the report of a mismatch) *)
Definition outcome_code (o : outcome) : nat :=
  match o with
  | OutFixerError => 1 | OutConflicts => 2 | OutGitRefused => 3 | OutDryRun => 4
  | OutDone => 5 | OutCommitFailed => 6 | OutOutOfFuel => 7
  end.
Definition git_model_outcomes (c : git_case) : list nat :=
  map (fun of => outcome_code (fst of)) (git_results c).
